package main

// History family: more than one message in flight. The main family logs one message and forwards it at once;
// a proxy has many exchanges in flight, and between the moment a logger saw a message and the moment the
// message is written out other messages are logged - the next request of another connection, or the response
// of the same exchange while the upload is still being sent (the origin answers early). Whatever a logger
// keeps between two messages (scratch buffers, pools, a reused view, per-logger lists) must not leak into a
// message that has not been forwarded yet. Every ordered pair (A, B) over a pool of messages (both kinds,
// bodies of 0 bytes to 64 KiB, every framing, identity and gzip, a bodiless answer to HEAD) x logger set-up
// (one logger object used for both messages, or two loggers of different families) x write order {A then B,
// B then A} x two serialisation modes is run as: log A, log B, forward, forward. When A is a request and B a
// response, B is the response of A's own exchange (same context, Response.Request is A). Thorough adds every
// triple (log A, log B, log C, forward A, B, C). Reference model: identity - each forwarded message equals
// its unlogged twin and no logger returns an error. For the set-up that reuses one MessageView the second
// snapshot must in addition re-parse to a message equal to B (a view is a view of the message it was loaded
// with last).

import (
	"fmt"
	"io"
	"net/http"
	"reflect"
	"strings"
	"sync/atomic"

	"github.com/google/martian/v3"
	"github.com/google/martian/v3/har"
	"github.com/google/martian/v3/martianlog"
	"github.com/google/martian/v3/messageview"

	"verif/checks/msggen"
	"verif/lib"
)

func histPool() []msggen.Spec {
	req := func(size int, framing, chunking string, trailers int, enc, ct string) msggen.Spec {
		return msggen.Spec{Space: "history", Kind: "request", Method: "POST", Version: "1.1", Size: size, Framing: framing, Chunking: chunking, Trailers: trailers, Enc: enc, CT: ct, Query: 1}
	}
	res := func(size int, framing, chunking string, trailers int, enc, ct string) msggen.Spec {
		return msggen.Spec{Space: "history", Kind: "response", Status: 200, Version: "1.1", Size: size, Framing: framing, Chunking: chunking, Trailers: trailers, Enc: enc, CT: ct}
	}
	head := res(300, "cl", "", 0, "none", "text")
	head.ForMethod = "HEAD"
	return []msggen.Spec{
		req(513, "cl", "", 0, "none", "text"),
		req(4096, "chunked", "first1", 0, "gzip", "binary"),
		req(65537, "cl", "", 0, "none", "text"),
		req(1, "chunked", "whole", 1, "none", "json"),
		req(0, "cl", "", 0, "none", "text"),
		res(512, "cl", "", 0, "none", "text"),
		res(4096, "chunked", "fixed1000", 0, "gzip", "json"),
		res(4097, "close", "", 0, "none", "binary"),
		res(65537, "cl", "", 0, "none", "binary"),
		res(1, "chunked", "whole", 2, "none", "text"),
		head,
	}
}

// histSetup creates the logger(s) of one case; log is called once per message, in order.
type histSetup struct {
	Name string
	make func(w *worker) func(step int, isReq bool, req *http.Request, res *http.Response, ctx *martian.Context) error
	// reusesView: the set-up is one MessageView loaded with every message in turn
	reusesView bool
}

var histSetups = []histSetup{
	{Name: "har(all) x1", make: func(w *worker) func(int, bool, *http.Request, *http.Response, *martian.Context) error {
		l := har.NewLogger()
		return func(step int, isReq bool, req *http.Request, res *http.Response, ctx *martian.Context) error {
			if isReq {
				return l.ModifyRequest(req)
			}
			return l.ModifyResponse(res) // (captures the body whether or not the request of the exchange was logged)
		}
	}},
	{Name: "martianlog(body,decode) x1", make: func(w *worker) func(int, bool, *http.Request, *http.Response, *martian.Context) error {
		l := martianlog.NewLogger()
		l.SetDecode(true)
		l.SetLogFunc(func(string) {})
		return func(step int, isReq bool, req *http.Request, res *http.Response, ctx *martian.Context) error {
			if isReq {
				return l.ModifyRequest(req)
			}
			return l.ModifyResponse(res)
		}
	}},
	{Name: "marbl(stream) x1", make: func(w *worker) func(int, bool, *http.Request, *http.Response, *martian.Context) error {
		return func(step int, isReq bool, req *http.Request, res *http.Response, ctx *martian.Context) error {
			if isReq {
				return w.stream.LogRequest(ctx.ID(), req)
			}
			return w.stream.LogResponse(ctx.ID(), res)
		}
	}},
	{Name: "messageview(body) fresh", make: func(w *worker) func(int, bool, *http.Request, *http.Response, *martian.Context) error {
		return func(step int, isReq bool, req *http.Request, res *http.Response, ctx *martian.Context) error {
			mv := messageview.New()
			if isReq {
				return mv.SnapshotRequest(req)
			}
			return mv.SnapshotResponse(res)
		}
	}},
	{Name: "messageview(body) reused", reusesView: true},
	{Name: "har(all),martianlog(body),messageview", make: func(w *worker) func(int, bool, *http.Request, *http.Response, *martian.Context) error {
		hl := har.NewLogger()
		ml := martianlog.NewLogger()
		ml.SetLogFunc(func(string) {})
		return func(step int, isReq bool, req *http.Request, res *http.Response, ctx *martian.Context) error {
			switch step % 3 {
			case 0:
				if isReq {
					return hl.ModifyRequest(req)
				}
				return hl.ModifyResponse(res)
			case 1:
				if isReq {
					return ml.ModifyRequest(req)
				}
				return ml.ModifyResponse(res)
			}
			mv := messageview.New()
			if isReq {
				return mv.SnapshotRequest(req)
			}
			return mv.SnapshotResponse(res)
		}
	}},
	{Name: "martianlog(body),marbl(modifier),har(all)", make: func(w *worker) func(int, bool, *http.Request, *http.Response, *martian.Context) error {
		hl := har.NewLogger()
		ml := martianlog.NewLogger()
		ml.SetLogFunc(func(string) {})
		return func(step int, isReq bool, req *http.Request, res *http.Response, ctx *martian.Context) error {
			switch step % 3 {
			case 0:
				if isReq {
					return ml.ModifyRequest(req)
				}
				return ml.ModifyResponse(res)
			case 1:
				if isReq {
					return w.modifier.ModifyRequest(req)
				}
				return w.modifier.ModifyResponse(res)
			}
			if isReq {
				return hl.ModifyRequest(req)
			}
			return hl.ModifyResponse(res)
		}
	}},
}

type histCase struct {
	Msgs  []int  `json:"msgs"`  // indices into histPool, in logging order
	Setup string `json:"setup"` // histSetup name
	Order string `json:"order"` // "fifo" (forward in logging order) | "lifo" (reverse)
	Mode  string `json:"mode"`
}

func runHistoryFamily(rep *lib.Report, tier string, workerCh chan *worker, only *replayCase) map[string]int64 {
	pool := histPool()
	msgs := make([]*msggen.Msg, len(pool))
	for i, s := range pool {
		msgs[i] = msggen.Build(s)
	}
	modes := []readMode{readModes[0], readModes[5]}
	var cases []histCase
	if only != nil {
		cases = []histCase{*only.Hist}
	} else {
		lengths := []int{2}
		if tier == "thorough" {
			lengths = []int{2, 3}
		}
		for _, l := range lengths {
			dims := make([]int, l)
			for i := range dims {
				dims[i] = len(pool)
			}
			lib.Product(dims, func(idx []int) {
				for _, su := range histSetups {
					for _, order := range []string{"fifo", "lifo"} {
						for _, mode := range modes {
							cases = append(cases, histCase{append([]int{}, idx...), su.Name, order, mode.Name})
						}
					}
				}
			})
		}
	}

	// twins: one per (message, mode)
	twin := map[string]output{}
	for i, m := range msgs {
		for _, mode := range modes {
			req, res := parseFor(m, nil)
			twin[fmt.Sprint(i, mode.Name)] = serialise(sized(mode, m), firstReq(res == nil, req), res)
		}
	}

	var ran, transitions, sameExchange, forwarded int64
	type pv struct {
		sig, desc string
		rc        replayCase
	}
	pending := make([][]pv, len(cases))
	lib.Parallel(len(cases), func(ci int) {
		c := cases[ci]
		rc := replayCase{Part: "history", Hist: &c}
		violate := func(sig, desc string) {
			pending[ci] = append(pending[ci], pv{sig, fmt.Sprintf("history %v, set-up %q, forwarding order %s, via %s: %s", c.Msgs, c.Setup, c.Order, c.Mode, desc), rc})
		}
		var su histSetup
		for _, x := range histSetups {
			if x.Name == c.Setup {
				su = x
			}
		}
		var mode readMode
		for _, x := range modes {
			if x.Name == c.Mode {
				mode = x
			}
		}
		var w *worker
		select {
		case w = <-workerCh:
		default:
			w = newWorker()
		}
		defer func() { workerCh <- w }()
		atomic.AddInt64(&ran, 1)

		type live struct {
			m   *msggen.Msg
			req *http.Request
			res *http.Response
			ctx *martian.Context
		}
		lives := make([]*live, len(c.Msgs))
		var removes []func()
		defer func() {
			for _, r := range removes {
				r()
			}
		}()
		var logf func(int, bool, *http.Request, *http.Response, *martian.Context) error
		var view *messageview.MessageView
		if su.reusesView {
			view = messageview.New()
			logf = func(step int, isReq bool, req *http.Request, res *http.Response, ctx *martian.Context) error {
				if isReq {
					return view.SnapshotRequest(req)
				}
				return view.SnapshotResponse(res)
			}
		} else {
			logf = su.make(w)
		}
		famOf := strings.SplitN(c.Setup, "(", 2)[0]
		failed := false
		for step, mi := range c.Msgs {
			m := msgs[mi]
			lv := &live{m: m}
			lives[step] = lv
			isReq := m.Spec.Kind == "request"
			// the response of the request logged just before it belongs to that request's exchange
			var own *http.Request
			if !isReq && step > 0 && lives[step-1].res == nil && m.ForMethod != "HEAD" {
				own = lives[step-1].req
				atomic.AddInt64(&sameExchange, 1)
			}
			lv.req, lv.res = parseFor(m, own)
			if own != nil {
				lv.ctx = lives[step-1].ctx
			} else {
				ctx, remove, err := martian.TestContext(lv.req, nil, nil)
				if err != nil {
					panic(err)
				}
				removes = append(removes, remove)
				lv.ctx = ctx
			}
			var err error
			func() {
				defer func() {
					if r := recover(); r != nil {
						err = fmt.Errorf("panic: %v", r)
					}
				}()
				err = logf(step, isReq, lv.req, lv.res, lv.ctx)
			}()
			atomic.AddInt64(&transitions, 1)
			if err != nil {
				violate(fmt.Sprintf("history:%s:%s:logger_error", famOf, m.Spec.Kind), fmt.Sprintf("logging message %d (%s) failed: %v", step, m.Spec, err))
				failed = true
			}
		}
		if failed {
			return
		}
		if view != nil {
			last := lives[len(lives)-1]
			snapOK(last.m, view, func(sym, detail string) {
				violate(fmt.Sprintf("history:messageview(reused):%s:%s", last.m.Spec.Kind, sym), fmt.Sprintf("snapshot of message %d (%s) taken with a view that had been used before: %s", len(lives)-1, last.m.Spec, detail))
			})
		}
		order := make([]int, len(lives))
		for i := range order {
			order[i] = i
			if c.Order == "lifo" {
				order[i] = len(lives) - 1 - i
			}
		}
		for _, i := range order {
			lv := lives[i]
			got := serialise(sized(mode, lv.m), firstReq(lv.res == nil, lv.req), lv.res)
			atomic.AddInt64(&transitions, 1)
			atomic.AddInt64(&forwarded, 1)
			if sym, detail := diff(got, twin[fmt.Sprint(c.Msgs[i], mode.Name)]); sym != "" {
				violate(fmt.Sprintf("history:%s:%s:%s:%s", famOf, lv.m.Spec.Kind, framingTag(lv.m), sym),
					fmt.Sprintf("message %d (%s), forwarded after %d more message(s) had been logged: %s", i, lv.m.Spec, len(lives)-1-i, detail))
			}
		}
		w.sync()
		for _, lv := range lives {
			w.sink.take(lv.ctx.ID())
		}
	})
	for _, p := range pending {
		for _, v := range p {
			rep.Violate(v.sig, v.desc, v.rc)
		}
	}
	return map[string]int64{
		"history_cases":                   ran,
		"history_pool":                    int64(len(pool)),
		"history_setups":                  int64(len(histSetups)),
		"history_transitions":             transitions,
		"history_messages_forwarded":      forwarded,
		"history_same_exchange_responses": sameExchange,
	}
}

// parseFor parses message m; a response is parsed as the answer to own (nil: a fresh request of the right method).
func parseFor(m *msggen.Msg, own *http.Request) (*http.Request, *http.Response) {
	if m.Spec.Kind == "request" {
		req, err := m.ParseRequest()
		if err != nil {
			panic(fmt.Sprintf("generator produced an unparseable message %s: %v", m.Spec, err))
		}
		return req, nil
	}
	req := own
	if req == nil {
		req = m.Request()
	}
	res, err := m.ParseResponse(req)
	if err != nil {
		panic(fmt.Sprintf("generator produced an unparseable message %s: %v", m.Spec, err))
	}
	res.Request = req
	return req, res
}

// snapOK re-parses what view holds and compares it with m (the message it was loaded with last).
func snapOK(m *msggen.Msg, view *messageview.MessageView, violate func(sym, detail string)) {
	isReq := m.Spec.Kind == "request"
	r, err := view.Reader()
	if err != nil {
		violate("snapshot_error", err.Error())
		return
	}
	snap, _ := io.ReadAll(r)
	want := readParsed(m.Wire, isReq, false, m.ForMethod)
	got := readParsed(snap, isReq, false, m.ForMethod)
	switch {
	case got.Err != "" && m.Spec.Trailers > 0:
		// the known defect of the main family (trailer section without the final blank line), not a reuse problem
	case got.Err != "":
		violate("snapshot_unparseable", fmt.Sprintf("%s; snapshot tail %q", got.Err, tail(snap)))
	case !reflect.DeepEqual(want, got):
		want.Body, got.Body = nil, nil
		violate("snapshot_differs", fmt.Sprintf("re-parsed snapshot %+v, the message is %+v", got, want))
	}
}
