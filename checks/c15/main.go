// C15 — logging and snapshotting never change the message that is forwarded.
//
// Bounded-exhaustive differential check. Every message of msggen.BodySpace ∪ msggen.HeaderSpace is parsed
// from its wire bytes (so the body is net/http's streaming reader), handed to one logger variant
// (har.Logger x 4 capture options, marbl Stream and Modifier, martianlog.Logger x headersOnly x decode, bare
// messageview snapshots x 3 skip options) under a martian.TestContext, and then serialised the way the proxy
// forwards it (Request.Write / Response.Write into writers that exercise different copy paths and read-buffer
// sizes, plus direct Body.Read loops with fixed buffer sizes). An unlogged twin parsed from the same bytes
// is serialised the same way; the reference model is "identity": both serialisations must agree in head
// bytes, framing, de-chunked body bytes and trailer bytes, and the logger must not return an error (the proxy
// turns a modifier error into a Warning header on the forwarded message). Chunk boundaries are not compared:
// they are not part of the message (net/http re-chunks the twin as well) — exact byte identity is counted.
// The messageview snapshot is re-parsed with http.ReadRequest/ReadResponse and compared with the original.
// With skip-logging set on the context, HAR, the text logger and the marbl modifier must record nothing.
package main

import (
	"bufio"
	"bytes"
	"encoding/json"
	"fmt"
	"io"
	"net/http"
	"os"
	"reflect"
	"runtime/debug"
	"sort"
	"strings"
	"sync"
	"sync/atomic"

	"github.com/google/martian/v3"
	"github.com/google/martian/v3/har"
	mlog "github.com/google/martian/v3/log"
	"github.com/google/martian/v3/marbl"
	"github.com/google/martian/v3/martianlog"
	"github.com/google/martian/v3/messageview"

	"verif/checks/msggen"
	"verif/lib"
)

// ---- logger variants -------------------------------------------------------------------------------------

type variant struct {
	Family string // har | marbl | martianlog | messageview
	Name   string
	Skips  bool // honours (must honour) the skip-logging flag
	// captures reports whether this variant is configured to read the body of m.
	captures func(m *msggen.Msg) bool
}

func ctHasPrefix(m *msggen.Msg, prefixes ...string) bool {
	ct := strings.ToLower(m.ContentType)
	for _, p := range prefixes {
		if strings.HasPrefix(ct, strings.ToLower(p)) {
			return true
		}
	}
	return false
}

var (
	optIn  = []string{"text/", "application/json", "form-data"}   // "form-data" is a substring, not a prefix, of multipart/form-data
	optOut = []string{"application/octet", "multipart/", "plain"} // "plain" is a substring, not a prefix, of text/plain
	mvCTs  = []string{"application/json", "multipart/"}
)

var variants = []variant{
	{"har", "har(all)", true, func(m *msggen.Msg) bool { return true }},
	{"har", "har(none)", true, func(m *msggen.Msg) bool { return false }},
	{"har", "har(optin)", true, func(m *msggen.Msg) bool { return ctHasPrefix(m, optIn...) }},
	{"har", "har(optout)", true, func(m *msggen.Msg) bool { return !ctHasPrefix(m, optOut...) }},
	{"marbl", "marbl(stream)", false, func(m *msggen.Msg) bool { return true }},
	{"marbl", "marbl(modifier)", true, func(m *msggen.Msg) bool { return true }},
	{"martianlog", "martianlog(body)", true, func(m *msggen.Msg) bool { return true }},
	{"martianlog", "martianlog(body,decode)", true, func(m *msggen.Msg) bool { return true }},
	{"martianlog", "martianlog(headersOnly)", true, func(m *msggen.Msg) bool { return false }},
	{"martianlog", "martianlog(headersOnly,decode)", true, func(m *msggen.Msg) bool { return false }},
	{"messageview", "messageview(body)", false, func(m *msggen.Msg) bool { return true }},
	{"messageview", "messageview(skipBody)", false, func(m *msggen.Msg) bool { return false }},
	{"messageview", "messageview(unlessCT)", false, func(m *msggen.Msg) bool { return ctHasPrefix(m, mvCTs...) }},
}

// frameSink collects marbl frames.
type frameSink struct {
	mu     sync.Mutex
	frames map[string]int // by 8-byte id
	bytes  map[string]int // data payload bytes by id
}

func (s *frameSink) Write(p []byte) (int, error) {
	s.mu.Lock()
	defer s.mu.Unlock()
	if len(p) >= 10 {
		id := string(p[2:10])
		s.frames[id]++
		if p[0] == byte(marbl.DataFrame) && len(p) >= 19 {
			s.bytes[id] += len(p) - 19
		}
	}
	return len(p), nil
}

func (s *frameSink) take(id string) (frames, data int) {
	s.mu.Lock()
	defer s.mu.Unlock()
	if len(id) > 8 {
		id = id[:8]
	}
	frames, data = s.frames[id], s.bytes[id]
	delete(s.frames, id)
	delete(s.bytes, id)
	return
}

// worker holds the per-goroutine marbl objects (a marbl.Modifier cannot be closed, so one per worker is
// reused) and the sentinel request used to wait until the stream goroutine has written all earlier frames.
type worker struct {
	sink     *frameSink
	stream   *marbl.Stream
	modifier *marbl.Modifier
	sentinel *http.Request
}

func newWorker() *worker {
	w := &worker{sink: &frameSink{frames: map[string]int{}, bytes: map[string]int{}}}
	w.stream = marbl.NewStream(w.sink)
	w.modifier = marbl.NewModifier(w.sink)
	w.sentinel = msggen.StdRequest()
	martian.TestContext(w.sentinel, nil, nil)
	return w
}

// sync returns once every frame sent before the call has reached the sink.
func (w *worker) sync() {
	w.sentinel.Body = http.NoBody
	w.stream.LogRequest("sentinel", w.sentinel)
	w.sentinel.Body = http.NoBody
	w.modifier.ModifyRequest(w.sentinel)
	w.sentinel.Body = http.NoBody
}

// applied is what a logger run left behind.
type applied struct {
	err      error
	panicked string
	recorded func() int // number of records (entries, lines, frames) produced for this exchange
	calls    int
}

// apply runs variant v on the parsed message (exactly one of req/res is the message under test).
func (w *worker) apply(v variant, m *msggen.Msg, req *http.Request, res *http.Response, ctx *martian.Context) (a applied) {
	defer func() {
		if r := recover(); r != nil {
			a.panicked = fmt.Sprint(r)
		}
	}()
	isReq := res == nil
	switch v.Family {
	case "har":
		l := har.NewLogger()
		switch v.Name {
		case "har(none)":
			l.SetOption(har.PostDataLogging(false), har.BodyLogging(false))
		case "har(optin)":
			l.SetOption(har.PostDataLoggingForContentTypes(optIn...), har.BodyLoggingForContentTypes(optIn...))
		case "har(optout)":
			l.SetOption(har.SkipPostDataLoggingForContentTypes(optOut...), har.SkipBodyLoggingForContentTypes(optOut...))
		}
		if isReq {
			a.err = l.ModifyRequest(req)
			a.calls = 1
		} else {
			l.ModifyRequest(req) // the plain GET the response belongs to
			a.err = l.ModifyResponse(res)
			a.calls = 2
		}
		a.recorded = func() int {
			n := 0
			for _, e := range l.Export().Log.Entries {
				n++
				if e.Response != nil {
					n++
				}
			}
			return n
		}
	case "martianlog":
		l := martianlog.NewLogger()
		l.SetHeadersOnly(strings.Contains(v.Name, "headersOnly"))
		l.SetDecode(strings.Contains(v.Name, "decode"))
		lines := 0
		l.SetLogFunc(func(string) { lines++ })
		if isReq {
			a.err = l.ModifyRequest(req)
		} else {
			a.err = l.ModifyResponse(res)
		}
		a.calls = 1
		a.recorded = func() int { return lines }
	case "marbl":
		id := ctx.ID()
		if v.Name == "marbl(stream)" {
			if isReq {
				a.err = w.stream.LogRequest(id, req)
			} else {
				a.err = w.stream.LogResponse(id, res)
			}
		} else {
			if isReq {
				a.err = w.modifier.ModifyRequest(req)
			} else {
				a.err = w.modifier.ModifyResponse(res)
			}
		}
		a.calls = 1
		a.recorded = func() int {
			w.sync()
			f, _ := w.sink.take(id)
			return f
		}
	case "messageview":
		mv := messageview.New()
		switch v.Name {
		case "messageview(skipBody)":
			mv.SkipBody(true)
		case "messageview(unlessCT)":
			mv.SkipBodyUnlessContentType(mvCTs...)
		}
		if isReq {
			a.err = mv.SnapshotRequest(req)
		} else {
			a.err = mv.SnapshotResponse(res)
		}
		a.calls = 1
		a.recorded = func() int { return 1 }
	}
	return a
}

// ---- serialisation modes ---------------------------------------------------------------------------------

type readMode struct {
	Name string
	Kind string // "write" | "direct"
	N    int
}

var readModes = []readMode{
	{"Write(bytes.Buffer)", "write", 0},
	{"Write(plain io.Writer)", "write", -1},
	{"Write(ReaderFrom buf=small)", "write", 1},
	{"Write(ReaderFrom buf=4097)", "write", 4097},
	{"Body.Read(buf=small)", "direct", 1},
	{"Body.Read(buf=511)", "direct", 511},
	{"Body.Read(buf=65536)", "direct", 65536},
}

type plainWriter struct{ b []byte }

func (p *plainWriter) Write(x []byte) (int, error) { p.b = append(p.b, x...); return len(x), nil }

// rfWriter is an io.ByteWriter (so Request.Write does not wrap it) whose ReadFrom pulls the body through a
// buffer of n bytes.
type rfWriter struct {
	b []byte
	n int
}

func (p *rfWriter) Write(x []byte) (int, error) { p.b = append(p.b, x...); return len(x), nil }
func (p *rfWriter) WriteByte(c byte) error      { p.b = append(p.b, c); return nil }
func (p *rfWriter) ReadFrom(r io.Reader) (int64, error) {
	buf := getBuf(p.n)
	defer putBuf(buf)
	var total int64
	for {
		k, err := r.Read(buf)
		p.b = append(p.b, buf[:k]...)
		total += int64(k)
		if err == io.EOF {
			return total, nil
		}
		if err != nil {
			return total, err
		}
	}
}

// output is the canonical result of serialising a message.
type output struct {
	Head    string
	Framing string
	Body    []byte
	Trailer string
	Err     string
	Raw     []byte // write modes only
}

func headerLines(h http.Header) []string {
	var out []string
	for k, vs := range h {
		for _, v := range vs {
			out = append(out, k+": "+v)
		}
	}
	sort.Strings(out)
	return out
}

func serialise(mode readMode, req *http.Request, res *http.Response) (o output) {
	defer func() {
		if r := recover(); r != nil {
			o.Err = "panic: " + fmt.Sprint(r)
		}
	}()
	if mode.Kind == "write" {
		var w io.Writer
		var get func() []byte
		switch {
		case mode.N == 0:
			b := &bytes.Buffer{}
			w, get = b, b.Bytes
		case mode.N < 0:
			p := &plainWriter{}
			w, get = p, func() []byte { return p.b }
		default:
			p := &rfWriter{n: mode.N}
			w, get = p, func() []byte { return p.b }
		}
		var err error
		if res == nil {
			err = req.Write(w)
		} else {
			err = res.Write(w)
		}
		if err != nil {
			o.Err = err.Error()
		}
		o.Raw = get()
		d := msggen.Decompose(o.Raw)
		if res != nil && (res.Request != nil && res.Request.Method == "HEAD" || res.StatusCode == 304 || res.StatusCode == 204 || res.StatusCode/100 == 1) {
			d = msggen.DecomposeBodiless(o.Raw) // no body follows the head whatever the framing headers say
		}
		o.Head, o.Framing, o.Body, o.Trailer = d.Head, d.Framing, d.Payload, d.Trailer
		if d.ParseErr != "" && o.Err == "" {
			o.Err = "unparseable output: " + d.ParseErr
		}
		return o
	}
	var body io.ReadCloser
	var trailer *http.Header
	var sb strings.Builder
	if res == nil {
		fmt.Fprintf(&sb, "%s %s %s host=%s cl=%d te=%v close=%v\n", req.Method, req.URL, req.Proto, req.Host, req.ContentLength, req.TransferEncoding, req.Close)
		sb.WriteString(strings.Join(headerLines(req.Header), "\n"))
		body, trailer = req.Body, &req.Trailer
		o.Framing = fmt.Sprintf("cl=%d te=%v", req.ContentLength, req.TransferEncoding)
	} else {
		fmt.Fprintf(&sb, "%s %s cl=%d te=%v close=%v uncompressed=%v\n", res.Proto, res.Status, res.ContentLength, res.TransferEncoding, res.Close, res.Uncompressed)
		sb.WriteString(strings.Join(headerLines(res.Header), "\n"))
		body, trailer = res.Body, &res.Trailer
		o.Framing = fmt.Sprintf("cl=%d te=%v", res.ContentLength, res.TransferEncoding)
	}
	o.Head = sb.String()
	if body != nil {
		buf := getBuf(mode.N)
		defer putBuf(buf)
		for {
			k, err := body.Read(buf)
			o.Body = append(o.Body, buf[:k]...)
			if err == io.EOF {
				break
			}
			if err != nil {
				o.Err = err.Error()
				break
			}
		}
		body.Close()
	}
	o.Trailer = strings.Join(headerLines(*trailer), "\n")
	return o
}

// diff classifies the difference between the logged message's output and the twin's ("" = identical).
func diff(got, want output) (symptom, detail string) {
	if got.Err != want.Err {
		if strings.HasPrefix(got.Err, "panic") {
			return "panic", got.Err
		}
		return "write_error", fmt.Sprintf("error %q, twin %q", got.Err, want.Err)
	}
	if got.Head != want.Head {
		if got.Framing != want.Framing {
			return "framing_changed", fmt.Sprintf("head %q, twin %q", clip(got.Head), clip(want.Head))
		}
		return "headers_changed", fmt.Sprintf("head %q, twin %q", clip(got.Head), clip(want.Head))
	}
	if len(got.Body) != len(want.Body) {
		return "body_length_changed", fmt.Sprintf("body length %d, twin %d", len(got.Body), len(want.Body))
	}
	if !bytes.Equal(got.Body, want.Body) {
		return "body_bytes_changed", "same length, different bytes"
	}
	if got.Trailer != want.Trailer {
		return "trailers_changed", fmt.Sprintf("trailer section %q, twin %q", got.Trailer, want.Trailer)
	}
	return "", ""
}

func clip(s string) string {
	if len(s) > 400 {
		return s[:400] + "..."
	}
	return s
}

// ---- scenario classes for signatures --------------------------------------------------------------------

func framingTag(m *msggen.Msg) string {
	t := m.Spec.Framing
	if m.BodyOmitted {
		// framing headers without a body (304, answer to HEAD)
		return "bodiless(" + t + ")"
	}
	switch m.Spec.Adjust {
	case "te+cl":
		t = "chunked+content-length"
	case "unknown-length":
		t = "unknown-length"
	}
	if len(m.Encoded) == 0 {
		// Content-Length: 0 and "no framing header at all" are one class: both parse to http.NoBody. (When that
		// marker is lost, net/http probes the body of GET-like requests with a 200 ms timer, so on a loaded
		// machine they are re-framed as well; POST/PUT always are.)
		if t == "none" || t == "cl" {
			t = "unchunked"
		}
		t = "empty_body(" + t + ")"
	}
	if m.Spec.Trailers > 0 {
		t += "+trailers"
	}
	return t
}

func errorTag(v variant, m *msggen.Msg) string {
	captures := v.captures(m)
	if v.Family == "har" && m.Spec.Kind == "request" && captures && (m.Form != nil || m.Parts != nil) {
		class := strings.SplitN(m.Spec.CT, ":", 2)[0]
		switch {
		case m.Spec.Enc != "none":
			// HAR never undoes a request's content coding, so which coding it is does not matter
			return "content-coded,ct=" + class
		case len(m.Encoded) == 0:
			return "empty_body(" + m.Spec.Framing + "),ct=" + class
		}
		return "ct=" + class
	}
	t := "ce=" + m.DeclaredCE
	if m.DeclaredCE == "" {
		t = "ce=none"
	}
	if captures {
		if strings.HasPrefix(m.Spec.Enc, "deflate-zlib") {
			t += "(zlib-wrapped)"
		}
		if m.Corrupt {
			t += "(corrupt)"
		}
		if len(m.Encoded) == 0 {
			t += ",empty_body"
		}
	}
	if v.Family == "martianlog" {
		t = strings.TrimSuffix(strings.TrimPrefix(v.Name, "martianlog("), ")") + "," + t
	}
	return t
}

func snapshotTag(m *msggen.Msg) string {
	t := m.Spec.Framing
	if m.BodyOmitted {
		t = "bodiless(" + t + ")"
	}
	switch m.Spec.Adjust {
	case "te+cl":
		t = "chunked+content-length"
	case "unknown-length":
		t = "unknown-length"
	}
	if m.Spec.Trailers > 0 {
		t += "+trailers"
	}
	return t
}

// ---- snapshot re-parse ------------------------------------------------------------------------------------

type parsedMsg struct {
	Start   string
	Header  []string
	CL      int64
	TE      []string
	Body    []byte
	Trailer []string
	Rest    int
	Err     string
}

func readParsed(b []byte, isReq bool, headOnly bool, forMethod string) (p parsedMsg) {
	defer func() {
		if r := recover(); r != nil {
			p.Err = "panic: " + fmt.Sprint(r)
		}
	}()
	br := bufio.NewReader(bytes.NewReader(b))
	var body io.ReadCloser
	var hdr http.Header
	var tr *http.Header
	if isReq {
		req, err := http.ReadRequest(br)
		if err != nil {
			p.Err = "ReadRequest: " + err.Error()
			return
		}
		p.Start = fmt.Sprintf("%s %s %s host=%s", req.Method, req.URL, req.Proto, req.Host)
		p.CL, p.TE, hdr, body, tr = req.ContentLength, req.TransferEncoding, req.Header, req.Body, &req.Trailer
	} else {
		res, err := http.ReadResponse(br, msggen.StdRequestFor(forMethod))
		if err != nil {
			p.Err = "ReadResponse: " + err.Error()
			return
		}
		p.Start = fmt.Sprintf("%s %s", res.Proto, res.Status)
		p.CL, p.TE, hdr, body, tr = res.ContentLength, res.TransferEncoding, res.Header, res.Body, &res.Trailer
	}
	h := hdr.Clone()
	h.Del("Content-Length") // framing is compared through ContentLength / TransferEncoding
	p.Header = headerLines(h)
	if headOnly {
		return
	}
	data, err := io.ReadAll(body)
	p.Body = data
	if err != nil {
		p.Err = "reading body: " + err.Error()
		return
	}
	p.Trailer = headerLines(*tr)
	rest, _ := io.ReadAll(br)
	p.Rest = len(rest)
	return
}

// ---- main -----------------------------------------------------------------------------------------------

type replayCase struct {
	Spec    msggen.Spec `json:"spec"`
	Variant string      `json:"variant"`
	Mode    string      `json:"mode"`
	Skip    bool        `json:"skip"`
	Part    string      `json:"part"`
	Fault   string      `json:"fault,omitempty"`
	Cut     int         `json:"cut,omitempty"`
	Hist    *histCase   `json:"hist,omitempty"`  // history family
	Stack   *stackCase  `json:"stack,omitempty"` // stack family
	// Constructed: constructed family
	Constructed *constructedCase `json:"constructed,omitempty"`
	// Trailer: unchunked-trailers family
	Trailer *trailerCase `json:"trailer,omitempty"`
}

func martianTestContext(req *http.Request) (*martian.Context, func(), error) {
	return martian.TestContext(req, nil, nil)
}

// readBufs recycles the harness's own read buffers (a fresh 64 KiB buffer per case was a tenth of the run time).
var readBufs sync.Pool

func getBuf(n int) []byte {
	if b, ok := readBufs.Get().(*[]byte); ok && cap(*b) >= n {
		return (*b)[:n]
	}
	return make([]byte, n, max(n, 65536))
}

func putBuf(b []byte) { b = b[:cap(b)]; readBufs.Put(&b) }

func main() {
	mlog.SetLevel(mlog.Silent)
	if os.Getenv("VERIF_C15_CHILD") == "constructed" {
		runConstructedChild() // worker subprocess of the constructed family
		return
	}
	// the live heap is a few messages per worker; collecting less often costs little memory and saves ~10% time
	debug.SetGCPercent(400)
	debug.SetMemoryLimit(8 << 30) // (collect harder instead of growing beyond 8 GiB: the 1 MiB class of thorough reached 12 GiB)
	rep := lib.NewReport("C15", "model_checking")
	tier := lib.Tier()

	specs := append(msggen.BodySpace(tier), msggen.HeaderSpace(tier)...)
	nBody := len(msggen.BodySpace(tier))
	nHeader := len(specs) - nBody
	specs = append(specs, msggen.EdgeSpace(tier)...)
	nEdge := len(specs) - nBody - nHeader

	parts := map[string]bool{"main": true, "fault": true, "history": true, "stack": true, "constructed": true, "lifecycle": true, "trailers": true}
	if p := os.Getenv("VERIF_C15_PARTS"); p != "" { // development aid: run only some families
		parts = map[string]bool{}
		for _, x := range strings.Split(p, ",") {
			parts[x] = true
		}
	}
	var only *replayCase
	if f := os.Getenv("VERIF_REPLAY"); f != "" {
		b, err := os.ReadFile(f)
		if err != nil {
			fmt.Fprintln(os.Stderr, "cannot read replay:", err)
			os.Exit(2)
		}
		var doc struct {
			First struct {
				Replay replayCase `json:"replay"`
			} `json:"first"`
		}
		if err := json.Unmarshal(b, &doc); err != nil {
			fmt.Fprintln(os.Stderr, "bad replay file:", err)
			os.Exit(2)
		}
		only = &doc.First.Replay
		if only.Part == "lifecycle" {
			replayLifecycle(tier) // a recorded schedule of the second binary (checks/c15sched); does not return
		}
		specs = []msggen.Spec{only.Spec}
		fmt.Printf("replaying %+v\n", *only)
	}

	// the lifecycle family is a second binary (controlled scheduler): it is built and runs beside the other families
	var lifecycle *lifecycleRun
	if parts["lifecycle"] && only == nil {
		lifecycle = startLifecycleFamily(tier)
	}

	var (
		runs, transitions, exact, moduloChunks, nontrivial, snapshots, skipRuns, recordedRuns, skipSeq int64
		wireBytes                                                                                      int64
		statesMu                                                                                       sync.Mutex
		perFamily                                                                                      = map[string]int64{}
		violCount                                                                                      int64
	)
	workerCh := make(chan *worker, 256)
	getWorker := func() *worker {
		select {
		case w := <-workerCh:
			return w
		default:
			return newWorker()
		}
	}

	// violations are collected per message and reported in enumeration order (simplest message first)
	type pendingViolation struct {
		sig, desc string
		rc        replayCase
	}
	pending := make([][]pendingViolation, len(specs))

	if only != nil && (only.Part == "fault" || only.Part == "history" || only.Part == "stack" || only.Part == "constructed" || only.Part == "trailers") || !parts["main"] {
		specs = nil
	}
	lib.Parallel(len(specs), func(i int) {
		spec := specs[i]
		violate := func(sig, desc string, rc replayCase) {
			atomic.AddInt64(&violCount, 1)
			pending[i] = append(pending[i], pendingViolation{sig, desc, rc})
		}
		m := msggen.Build(spec)
		isReq := spec.Kind == "request"
		w := getWorker()
		defer func() { workerCh <- w }()
		atomic.AddInt64(&wireBytes, int64(len(m.Wire)))
		if m.NonTrivial {
			atomic.AddInt64(&nontrivial, 1)
		}
		if i%997 == 0 {
			rep.Sample(8, map[string]interface{}{"spec": spec.String(), "wire_bytes": len(m.Wire), "chunks": len(m.Chunks), "encoded_body": len(m.Encoded)})
		}

		parse := func() (*http.Request, *http.Response, *martian.Context, func()) {
			var req *http.Request
			var res *http.Response
			var err error
			if isReq {
				req, err = m.ParseRequest()
			} else {
				req = m.Request()
				res, err = m.ParseResponse(req)
				if res != nil {
					res.Request = req
				}
			}
			if err != nil {
				panic(fmt.Sprintf("generator produced an unparseable message %s: %v", spec, err))
			}
			ctx, remove, err := martian.TestContext(req, nil, nil)
			if err != nil {
				panic(err)
			}
			return req, res, ctx, remove
		}

		// twins
		twins := make([]output, len(readModes))
		for mi, mode := range readModes {
			if only != nil && only.Mode != "" && only.Mode != mode.Name {
				continue
			}
			if skipMode(mode, m, nil) {
				continue
			}
			mode = sized(mode, m)
			req, res, _, remove := parse()
			twins[mi] = serialise(mode, firstReq(isReq, req), secondRes(isReq, res))
			remove()
			if twins[mi].Err != "" {
				violate("harness:twin_serialisation_error", fmt.Sprintf("%s via %s: unlogged twin failed: %s", spec, mode.Name, twins[mi].Err), replayCase{Spec: spec, Mode: mode.Name})
			}
			// (bodiless messages: net/http itself writes the last-chunk line after a 304 with chunked framing)
			if !bytes.Equal(twins[mi].Body, m.Encoded) && !m.BodyOmitted {
				violate("harness:twin_body_differs_from_ground_truth", fmt.Sprintf("%s via %s: twin body %d bytes, generator says %d", spec, mode.Name, len(twins[mi].Body), len(m.Encoded)), replayCase{Spec: spec, Mode: mode.Name})
			}
		}

		for _, v := range variants {
			if only != nil && only.Variant != "" && only.Variant != v.Name {
				continue
			}
			statesMu.Lock()
			perFamily[v.Family]++
			statesMu.Unlock()
			for mi, mode := range readModes {
				if only != nil && (only.Part != "" && only.Part != "forward" || only.Skip || only.Mode != "" && only.Mode != mode.Name) {
					continue
				}
				if only == nil && tier != "thorough" && spec.Space == "header" && mi%2 == 1 {
					continue // quick: the header-shape messages (bodies of 0 or 5 bytes) run 4 of the 7 serialisations
				}
				if skipMode(mode, m, &v) {
					continue
				}
				mode = sized(mode, m)
				rc := replayCase{Spec: spec, Variant: v.Name, Mode: mode.Name, Part: "forward"}
				req, res, ctx, remove := parse()
				a := w.apply(v, m, req, res, ctx)
				atomic.AddInt64(&transitions, int64(a.calls)+1)
				atomic.AddInt64(&runs, 1)
				if a.panicked != "" {
					violate(fmt.Sprintf("%s:%s:%s:panic", v.Family, spec.Kind, framingTag(m)), fmt.Sprintf("%s with %s: logger panicked: %s", spec, v.Name, a.panicked), rc)
					remove()
					continue
				}
				if a.err != nil {
					violate(fmt.Sprintf("%s:%s:%s:logger_error", v.Family, spec.Kind, errorTag(v, m)),
						fmt.Sprintf("%s with %s: logger returned error %q (the proxy adds it as a Warning header to the forwarded message)", spec, v.Name, a.err), rc)
				}
				got := serialise(mode, firstReq(isReq, req), secondRes(isReq, res))
				if a.recorded() > 0 {
					atomic.AddInt64(&recordedRuns, 1)
				} else if a.err == nil {
					violate(fmt.Sprintf("harness:%s:nothing_recorded_without_skip", v.Family), fmt.Sprintf("%s with %s recorded nothing although logging was not skipped (vacuous run)", spec, v.Name), rc)
				}
				remove()
				if sym, detail := diff(got, twins[mi]); sym != "" {
					violate(fmt.Sprintf("%s:%s:%s:%s", v.Family, spec.Kind, framingTag(m), sym),
						fmt.Sprintf("%s after %s, serialised via %s: %s", spec, v.Name, mode.Name, detail), rc)
				} else if mode.Kind == "write" {
					if bytes.Equal(got.Raw, twins[mi].Raw) {
						atomic.AddInt64(&exact, 1)
					} else {
						atomic.AddInt64(&moduloChunks, 1)
					}
				}
			}

			// skip-logging: nothing recorded, message untouched. The mark must survive every other context
			// operation in either order (histories over {SkipLogging, SkipRoundTrip, APIRequest, Set}); the full set of
			// histories is run for every 16th message (the flags do not depend on the message), "skip" alone for all.
			if v.Skips && (only == nil || only.Skip) {
				histories := [][]string{{"skip"}}
				if atomic.AddInt64(&skipSeq, 1)%16 == 1 {
					histories = [][]string{{"skip"}, {"skip", "roundtrip"}, {"roundtrip", "skip"}, {"skip", "api"}, {"api", "skip"}, {"skip", "set"}, {"skip", "roundtrip", "api"}, {"api", "roundtrip", "skip"}, {"skip", "skip"}}
				}
				for _, hist := range histories {
					rc := replayCase{Spec: spec, Variant: v.Name, Mode: readModes[0].Name, Skip: true, Part: "skip"}
					req, res, ctx, remove := parse()
					for _, h := range hist {
						switch h {
						case "skip":
							ctx.SkipLogging()
						case "roundtrip":
							ctx.SkipRoundTrip()
						case "api":
							ctx.APIRequest()
						case "set":
							ctx.Set("k", "v")
						}
					}
					htag := ""
					if len(hist) > 1 {
						htag = "(" + strings.Join(hist, ",") + ")"
					}
					a := w.apply(v, m, req, res, ctx)
					atomic.AddInt64(&transitions, int64(a.calls)+1)
					atomic.AddInt64(&skipRuns, 1)
					got := serialise(readModes[0], firstReq(isReq, req), secondRes(isReq, res))
					switch {
					case a.panicked != "":
						violate(fmt.Sprintf("%s:%s:skip_logging:panic", v.Family, spec.Kind), fmt.Sprintf("%s with %s (skip-logging set): panic %s", spec, v.Name, a.panicked), rc)
					case a.err != nil:
						violate(fmt.Sprintf("%s:%s:skip_logging:logger_error", v.Family, spec.Kind), fmt.Sprintf("%s with %s (skip-logging set): error %v", spec, v.Name, a.err), rc)
					default:
						if n := a.recorded(); n > 0 {
							violate(fmt.Sprintf("%s:%s:skip_logging%s:recorded", skipName(v), spec.Kind, htag),
								fmt.Sprintf("%s with %s: the context is marked skip-logging (context history %v), yet %d record(s) were produced", spec, v.Name, hist, n), rc)
						}
						if sym, detail := diff(got, twins[0]); sym != "" {
							violate(fmt.Sprintf("%s:%s:%s:%s", v.Family, spec.Kind, framingTag(m), sym), fmt.Sprintf("%s with %s (skip-logging set): %s", spec, v.Name, detail), rc)
						}
					}
					remove()
				}
			}

			// the snapshot is a parseable message equal to the original
			if v.Family == "messageview" && (only == nil || only.Part == "snapshot") {
				rc := replayCase{Spec: spec, Variant: v.Name, Part: "snapshot"}
				req, res, _, remove := parse()
				mv := messageview.New()
				switch v.Name {
				case "messageview(skipBody)":
					mv.SkipBody(true)
				case "messageview(unlessCT)":
					mv.SkipBodyUnlessContentType(mvCTs...)
				}
				var err error
				var snap []byte
				func() {
					defer func() {
						if r := recover(); r != nil {
							err = fmt.Errorf("panic: %v", r)
						}
					}()
					if isReq {
						err = mv.SnapshotRequest(req)
					} else {
						err = mv.SnapshotResponse(res)
					}
					if err != nil {
						return
					}
					var r io.ReadCloser
					r, err = mv.Reader()
					if err != nil {
						return
					}
					snap, err = io.ReadAll(r)
				}()
				remove()
				atomic.AddInt64(&transitions, 2)
				atomic.AddInt64(&snapshots, 1)
				// (a request body of unknown length has no serialisation of its own - the sender picks one, net/http
				// picks chunked - so only the head of its snapshot is compared; the wire bytes it is compared with
				// were framed with Content-Length)
				headOnly := !v.captures(m) || m.Spec.Adjust == "unknown-length"
				if err != nil {
					violate(fmt.Sprintf("messageview:%s:%s:snapshot_error", spec.Kind, snapshotTag(m)), fmt.Sprintf("%s with %s: snapshot/Reader failed: %v", spec, v.Name, err), rc)
					continue
				}
				want := readParsed(m.Wire, isReq, headOnly, m.ForMethod)
				gotp := readParsed(snap, isReq, headOnly, m.ForMethod)
				if m.Spec.Adjust == "unknown-length" {
					want.CL, gotp.CL = 0, 0
				}
				if want.Err != "" {
					violate("harness:original_unparseable", fmt.Sprintf("%s: %s", spec, want.Err), rc)
					continue
				}
				if gotp.Err != "" {
					violate(fmt.Sprintf("messageview:%s:%s:snapshot_unparseable", spec.Kind, snapshotTag(m)),
						fmt.Sprintf("%s with %s: the snapshot does not re-parse: %s; snapshot tail %q", spec, v.Name, gotp.Err, tail(snap)), rc)
					continue
				}
				if !reflect.DeepEqual(want, gotp) {
					field := "start_line"
					switch {
					case want.Start != gotp.Start:
					case !reflect.DeepEqual(want.Header, gotp.Header):
						field = "headers"
					case want.CL != gotp.CL || !reflect.DeepEqual(want.TE, gotp.TE):
						field = "framing"
					case !bytes.Equal(want.Body, gotp.Body):
						field = "body"
					case !reflect.DeepEqual(want.Trailer, gotp.Trailer):
						field = "trailers"
					default:
						field = "trailing_bytes"
					}
					want.Body, gotp.Body = nil, nil
					violate(fmt.Sprintf("messageview:%s:%s:snapshot_differs(%s)", spec.Kind, snapshotTag(m), field),
						fmt.Sprintf("%s with %s: re-parsed snapshot %+v, original %+v", spec, v.Name, gotp, want), rc)
				}
			}
		}
	})

	for _, pv := range pending {
		for _, v := range pv {
			rep.Violate(v.sig, v.desc, v.rc)
		}
	}

	var faultCov map[string]int64
	if parts["fault"] && (only == nil || only.Part == "fault") {
		faultCov = runFaultFamily(rep, tier, workerCh, only)
		for k, v := range faultCov {
			rep.Coverage[k] = v
		}
		runs += faultCov["fault_cases"]
		transitions += faultCov["fault_transitions"]
	}

	if parts["history"] && (only == nil || only.Part == "history") {
		for k, v := range runHistoryFamily(rep, tier, workerCh, only) {
			rep.Coverage[k] = v
			switch k {
			case "history_cases":
				runs += v
			case "history_transitions":
				transitions += v
			}
		}
	}
	if parts["stack"] && (only == nil || only.Part == "stack") {
		for k, v := range runStackFamily(rep, tier, workerCh, only) {
			rep.Coverage[k] = v
			switch k {
			case "stack_cases":
				runs += v
			case "stack_transitions":
				transitions += v
			}
		}
	}

	if parts["constructed"] && (only == nil || only.Part == "constructed") {
		for k, v := range runConstructedFamily(rep, only) {
			rep.Coverage[k] = v
			switch k {
			case "constructed_cases":
				runs += v
			case "constructed_transitions":
				transitions += v
			}
		}
	}

	var trailerStates int64
	if parts["trailers"] && (only == nil || only.Part == "trailers") {
		for k, v := range runTrailerFamily(rep, tier, workerCh, only) {
			rep.Coverage[k] = v
			switch k {
			case "unchunked_trailers_cases", "unchunked_trailers_snapshots":
				runs += v
			case "unchunked_trailers_transitions":
				transitions += v
			case "unchunked_trailers_messages_with_trailers":
				nontrivial += v
			case "unchunked_trailers_states":
				trailerStates = v
			}
		}
	}

	var lifecycleStates int64
	if lifecycle != nil {
		for k, v := range lifecycle.collect(rep) {
			rep.Coverage[k] = v
			switch k {
			case "lifecycle_executions":
				runs += v
			case "lifecycle_points":
				transitions += v
			case "lifecycle_histories":
				lifecycleStates = v
			case "lifecycle_nontrivial_histories":
				nontrivial += v
			}
		}
	}

	var states int64
	for _, n := range perFamily {
		states += n
	}
	states += lifecycleStates + trailerStates
	rep.Coverage["states"] = states
	rep.Coverage["transitions"] = transitions
	rep.Coverage["traces_validated_against_impl"] = runs + skipRuns + snapshots
	rep.Coverage["evaluations"] = runs + skipRuns + snapshots
	rep.Coverage["distinct_nontrivial"] = nontrivial
	rep.Coverage["messages"] = len(specs)
	rep.Coverage["messages_body_space"] = nBody
	rep.Coverage["messages_header_space"] = nHeader
	rep.Coverage["messages_edge_space"] = nEdge
	rep.Coverage["logger_variants"] = len(variants)
	rep.Coverage["read_modes"] = len(readModes)
	rep.Coverage["forward_runs"] = runs
	rep.Coverage["skip_logging_runs"] = skipRuns
	rep.Coverage["snapshot_reparses"] = snapshots
	rep.Coverage["runs_that_recorded_something"] = recordedRuns
	rep.Coverage["write_outputs_byte_identical"] = exact
	rep.Coverage["write_outputs_identical_modulo_chunk_boundaries"] = moduloChunks
	rep.Coverage["wire_bytes_generated"] = wireBytes
	rep.Coverage["violating_cases"] = violCount
	rep.Coverage["states_per_family"] = perFamily
	rep.Coverage["exhaustive"] = only == nil
	rep.Coverage["rule"] = "cases = every message of msggen.BodySpace ∪ HeaderSpace ∪ EdgeSpace x every logger variant x every read mode (+ one skip-logging run per skipping variant, + one snapshot re-parse per messageview variant); states = distinct (message, logger variant) pairs; a message is non-trivial when its body is non-empty and it is chunked, close-delimited or content-coded (the paths where a logger can re-frame or mis-decode); failing-body family: every message of a sub-space (non-empty bodies x framings x {identity, gzip} x 3 content types) x fault kind {sender closes, connection error} x cut offsets (every offset of a body region of at most 96 bytes, else ±1 around each structural boundary) x 3 read modes x every logger variant; oracle: pass-through variants identical to the unlogged twin, buffering variants still fail and write only a prefix of the body; history family: every ordered pair (thorough: and triple) of messages over a pool of 11 x 7 logger set-ups (one logger object for all messages, one reused MessageView, mixed families) x forwarding order {fifo, lifo} x 2 read modes, all messages logged before the first is forwarded, a response that follows a request belongs to that request's exchange; oracle identity with the unlogged twins, and the reused view's last snapshot re-parses to the message it was loaded with last; stack family: every ordered pair of the 13 logger variants (thorough: and every triple over 6 representatives) attached to the same message of a sub-space x 2 read modes; oracle identity with the unlogged twin, no logger error, every logger recorded the exchange; constructed family: 10 requests {GET,HEAD,DELETE,POST,PUT} and 10 responses {200 CL 0, 200 CL -1, 204, 304, 404} that were never on a wire, Body nil or http.NoBody, x every logger variant x {Write, http.Transport round trip against an in-memory origin (requests)} in a worker subprocess; oracle: Body after the logger == Body before, no logger error, forwarded bytes / origin's view / answer equal the unlogged twin's, a crash or hang of the worker is attributed to the running case; sub-space big: bodies of 65537 / 131072 / 1 MiB bytes in one piece x 28 stacks {marbl alone, in-memory body -> marbl, snapshotting logger -> marbl [-> snapshotting logger]} x {Write, direct reads with 65537-byte and 1 MiB buffers}; lifecycle family (second binary checks/c15sched under the controlled scheduler): the real marbl.Stream with a sink writer {fast, held at every Write until the driver lets it go} x {accepts, fails every Write, fails from the 2nd (thorough)}, one forwarder thread (request or response; two on one stream for an exchange) whose program is log call, one Body.Read per scripted read, Body.Close, and a closer thread calling Stream.Close; at every quiescent state the driver fires one enabled action of {next forwarder step, let the held Write go, Close} (or any subset at once), every such history is enumerated to the end and under each every schedule with at most 1 (thorough 2) deviations; oracle: the forwarder finishes, the log call returns nil, every Read returns exactly what the body's script returns without a logger; a history is non-trivial when a closer takes part and the writer is held or failing or the body has data; unchunked-trailers family: every message with a Trailer map under a framing other than chunked - requests {unknown length, Content-Length} and responses {unknown length, Content-Length, close-delimited HTTP/1.1 and 1.0 parsed from the wire, HTTP/2-shaped (emulated, and fetched from a real HTTP/2 origin over loopback TLS) without and with a declared length} x trailers {0 (control), 1, 2} x {names known when the message is logged, unannounced} x {values present when logged, filled in when the body reports EOF} x body sizes x codings x content types x every logger variant x {Write, Write after a downstream re-framing to chunked, 3 direct read loops followed by a look at Trailer}; oracle identity with the unlogged twin (whose body and trailers are checked against the generator), no logger error, and the messageview snapshot compared section by section (head fields, body section = body bytes, trailer section = the trailers, Reader() = the three in order); such a message is non-trivial when it has trailers"
	rep.Coverage["bounds"] = fmt.Sprintf("tier %s: body space = {request POST, response 200} x sizes %v x {Content-Length, close (responses), chunked x chunk lists %v x trailers 0..2 (coinciding chunk lists emitted once)} x content codings %v x content types requests %v / responses %v; header space = requests {GET,POST,PUT} x HTTP/1.1,1.0 x query pool x cookie pool x repeated/empty header pool x {CL 0, CL 5, chunked 0, chunked 5}, responses {200,201,301,302,404,204,304} x versions x Set-Cookie pool x header pool x Location pool x {CL, chunked, close} x sizes {0,5}, 204/304 with and without Content-Encoding: gzip; edge space = request methods {GET,DELETE,PATCH,OPTIONS,PUT} with a body, content types {absent, unparseable, form with parameters / upper case / non-UTF-8 parameter name / unparseable, multipart with quoted / without boundary / empty and typed parts} x framings x {identity, gzip, zlib deflate, unknown coding}, non-UTF-8 bytes in a query value and a header value, 206 x codings x framings, 304 and answers to HEAD {200,404,301} with Content-Length / chunked framing headers and no body, Location on {200,201,404}, query strings with '=' inside values and names / empty names / flags, requests whose parsed form has Transfer-Encoding chunked AND a content length, or a body of unknown length (neither); read-buffer sizes {1 (61 for bodies > 4200 bytes, 1021 for bodies > 70000 bytes), 511, 4097, 65536, bytes.Buffer growth, bufio 4096}; lifecycle family = {request, response, exchange (both on one stream)} x scripted bodies {no data, [3], [3]+EOF with the data, [3 2]} (thorough + [3 2]+EOF with data, [1 2 3], [3] and [3 2] ending in a connection error) x sink {fast, held} x {accepting, failing} (thorough + failing from the 2nd Write) x {closer, none} x driver {one action, any subset of the enabled actions} per quiescent state, deviation bound 1 (thorough 2; 1 for subsets with bodies of 2+ reads and for exchanges, whose Writes are held from the return of both log calls on); unchunked-trailers family = 8 shapes + 2 real-HTTP/2 shapes x sizes %v x codings %v x content types %v (real HTTP/2: sizes %v x {identity, gzip} x text)",
		tier, sizesFor(tier), chunkingsFor(tier), msggen.Encodings, msggen.RequestCTs, msggen.ResponseCTs, trailerSizes(tier), trailerEncs(tier), trailerCTs(tier), trailerRealSizes(tier))
	rep.Assumptions = []string{
		"lifecycle family: scheduling points are martian's channel, select, atomic and lock operations; bodies are scripted readers of 0-3 reads (the unlogged twin of a scripted body is its script); a stream is closed at most once (a second Close panics by construction of the API); 'nothing can happen any more' is the scheduler's quiescence (every thread parked, no Write held), not a timeout",
		"Request.Write / Response.Write of the parsed message stand for what the proxy forwards (the proxy calls Response.Write itself and hands requests to http.Transport, which serialises them with the same transfer writer)",
		"chunk boundaries are not part of the message: outputs are compared after removing chunk framing with the check's own parser (head bytes, framing kind, body bytes and trailer bytes are compared exactly); byte-identical outputs are counted separately",
		"a logger error counts as a change of the forwarded message because proxy.go turns every modifier error into a Warning header",
		"snapshot equality is judged on the net/http parse (start line, Host, headers, ContentLength/TransferEncoding, body, trailers, no trailing bytes); a redundant Content-Length header line is not a difference",
		"for snapshot variants configured to skip the body only the head of the snapshot is required to parse and match",
		"trailers are always announced by a Trailer header (net/http drops unannounced trailers of an unlogged message)",
		"a message that has no body because of its status (304) or because it answers a HEAD request is compared on everything net/http writes after the head (nothing, or for a chunked 304 the last-chunk line net/http itself emits)",
		"unchunked-trailers family: a message of unknown length with trailers has no self-delimiting HTTP/1 serialisation other than chunked, so its snapshot is judged section by section (HeaderReader, BodyReader, TrailerReader) and not through http.ReadResponse; when the names of the trailers turn up only at the end of the body (unannounced HTTP/2 trailers) the unlogged twin's chunked serialisation loses them (net/http fixes the trailer names when it writes the head) and is not used as a reference - the direct reads and the unchunked serialisations are; the emulated HTTP/2 shape follows what the real transport was observed to hand out (Proto HTTP/2.0, ContentLength -1 or declared, no Trailer header field, announced names as keys with nil values, values and unannounced names at EOF)",
		"history family: 'in flight at once' is modelled as logging every message of the history before forwarding the first; the loggers run on one goroutine (what survives between two calls is the subject, not data races)",
	}
	rep.Finish()
}

// sized resolves the "small" buffer: one byte for bodies of at most 4200 bytes, 61 bytes up to 70000 bytes
// and 1021 bytes above (a byte-at-a-time pass over a large body costs tens of milliseconds per case through
// marbl's frame channel, a 61-byte pass over 1 MiB just as much).
func sized(mode readMode, m *msggen.Msg) readMode {
	if mode.N == 1 && len(m.Encoded) > 4200 {
		mode.N = 61
		if len(m.Encoded) > 70000 {
			mode.N = 1021
		}
	}
	return mode
}

// skipMode trims the serialisation modes of large bodies (a case copies the body several times). Bodies of
// the 1 MiB class are serialised in four of the seven modes: the three left out differ from the others in the
// read-buffer size only and are run on every class up to 64 KiB. Bodies above 60 000 bytes are serialised in
// all (remaining) modes after one variant per logger family and in three modes (one per copy path) after the
// other variants, which differ from their family's representative in the capture decision only.
func skipMode(mode readMode, m *msggen.Msg, v *variant) bool {
	if len(m.Encoded) > 600000 {
		switch mode.Name {
		case "Write(ReaderFrom buf=4097)", "Body.Read(buf=small)", "Body.Read(buf=511)":
			return true
		}
	}
	if v == nil || len(m.Encoded) <= 60000 {
		return false
	}
	switch v.Name {
	case "har(all)", "marbl(stream)", "martianlog(body,decode)", "messageview(body)":
		return false
	}
	switch mode.Name {
	case "Write(bytes.Buffer)", "Write(ReaderFrom buf=small)", "Body.Read(buf=65536)":
		return false
	}
	return true
}

// skipName is the component named in skip-logging signatures (the marbl Stream API has no context, so only
// its Modifier can honour the flag).
func skipName(v variant) string {
	if v.Name == "marbl(modifier)" {
		return "marbl_modifier"
	}
	return v.Family
}

func tail(b []byte) string {
	if len(b) > 60 {
		b = b[len(b)-60:]
	}
	return string(b)
}

func firstReq(isReq bool, req *http.Request) *http.Request {
	if isReq {
		return req
	}
	return nil
}

func secondRes(isReq bool, res *http.Response) *http.Response {
	if isReq {
		return nil
	}
	return res
}

func sizesFor(tier string) []int {
	if tier == "thorough" {
		return msggen.SizesThorough
	}
	return msggen.SizesQuick
}

func chunkingsFor(tier string) []string {
	if tier == "thorough" {
		return msggen.ChunkingsThorough
	}
	return msggen.ChunkingsQuick
}
