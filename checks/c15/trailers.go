package main

// Unchunked-trailers family (round 7). Every other family gets its trailers from the wire, and on an HTTP/1
// wire only a chunked message has any: "trailers present" was enumerated under one framing. A logger also sees
// messages whose Trailer map is non-empty although the message is not chunked:
//
//   - every HTTP/2 origin response with trailers: Proto HTTP/2.0, ContentLength -1 (or the declared length),
//     no transfer coding, Trailer keys declared up front and the values filled in when the body reports EOF;
//   - a streamed upload built by a client or a modifier: ContentLength -1, no transfer coding, req.Trailer set
//     (net/http sends it chunked, with the trailers);
//   - a close-delimited HTTP/1 response (Connection: close, HTTP/1.0) or a Content-Length message to which a
//     modifier upstream of the logger attached a Trailer.
//
// Space: kind {request, response} x shape (requests {unknown-length, content-length}; responses {unknown-length,
// content-length, close-delimited 1.1 / 1.0 parsed from the wire, h2, h2+content-length}) x trailers {0 (control),
// 1, 2} x Trailer header {announced, not} x trailer timing {values present when logged, values filled in by the
// body at EOF} x body size x content coding x content type x 13 logger variants (body capture on and off) x
// forwarding mode {Write, Write after a downstream hop re-framed the message chunked (the only HTTP/1 framing
// that carries the trailers), direct Body.Read loops with 3 buffer sizes followed by a look at Trailer}.
//
// Reference model: identity. The forwarded message equals the unlogged twin built by the same constructor (head,
// framing, body bytes, trailer section / Trailer map, error), the twin's body equals the generator's bytes and
// its trailers the generator's set (guards the harness), the logger returns no error and records the exchange.
// For the messageview variants the snapshot is compared section by section with the original: the head parses to
// the original start line and header fields, the body section holds exactly the body bytes (nothing when the
// body is skipped), the trailer section lists exactly the trailers, Reader() is the three sections in order.
// (A message of unknown length has no self-delimiting HTTP/1 serialisation without chunk framing, so the
// snapshot is not run through http.ReadResponse here - as for the unknown-length requests of the edge space;
// the two known findings about the blank line after chunked trailers are a different scenario class and keep
// their signatures.)

import (
	"bufio"
	"bytes"
	"fmt"
	"io"
	"log"
	"net/http"
	"net/http/httptest"
	"net/textproto"
	"net/url"
	"reflect"
	"sort"
	"strconv"
	"strings"
	"sync"
	"sync/atomic"

	"github.com/google/martian/v3"
	"github.com/google/martian/v3/messageview"

	"verif/checks/msggen"
	"verif/lib"
)

type trailerCase struct {
	Spec     msggen.Spec `json:"spec"`  // the message the body, content type and coding are taken from
	Shape    string      `json:"shape"` // unknown-length | content-length | close-delimited | close-delimited(1.0) | h2 | h2+content-length
	Trailers int         `json:"trailers"`
	Announce bool        `json:"announce"` // a Trailer header field names the trailers
	Timing   string      `json:"timing"`   // preset | at-eof
	Variant  string      `json:"variant,omitempty"`
	Mode     string      `json:"mode,omitempty"`
}

func (c trailerCase) String() string {
	return fmt.Sprintf("%s %s trailers=%d announce=%v timing=%s [%s]", c.Spec.Kind, c.Shape, c.Trailers, c.Announce, c.Timing, c.Spec)
}

func (c trailerCase) tag() string {
	// the HTTP version of a close-delimited response and whether an HTTP/2 response is emulated or came from a
	// real HTTP/2 origin are in the description, not in the class
	t := strings.Replace(strings.TrimSuffix(c.Shape, "(1.0)"), "(real)", "", 1)
	if c.Trailers > 0 {
		t += "+trailers"
	}
	return t
}

// streamBody is a body of unknown length: a plain reader (no Len, no WriterTo) that reports EOF on a read of
// its own and then fills in the late trailers, the way the HTTP/2 transport does.
type streamBody struct {
	data   []byte
	off    int
	atEOF  func()
	closed int
}

func (b *streamBody) Read(p []byte) (int, error) {
	if b.off >= len(b.data) {
		if b.atEOF != nil {
			b.atEOF()
			b.atEOF = nil
		}
		return 0, io.EOF
	}
	n := copy(p, b.data[b.off:])
	b.off += n
	return n, nil
}

func (b *streamBody) Close() error { b.closed++; return nil }

func trailerSizes(tier string) []int {
	if tier == "thorough" {
		return []int{0, 1, 2, 511, 512, 513, 4096, 32769, 65537, 1 << 20}
	}
	return []int{0, 1, 513, 4096}
}

func trailerEncs(tier string) []string {
	if tier == "thorough" {
		return []string{"none", "gzip", "deflate-zlib", "br"}
	}
	return []string{"none", "gzip"}
}

func trailerCTs(tier string) []string {
	if tier == "thorough" {
		return []string{"text", "json", "binary", "form:P2", "multipart:M2"}
	}
	return []string{"text", "binary", "multipart:M2"}
}

func trailerRealSizes(tier string) []int {
	if tier == "thorough" {
		return []int{0, 1, 513, 4096, 65537}
	}
	return []int{0, 1, 4096}
}

func trailerCases(tier string) []trailerCase {
	sizes, encs, cts := trailerSizes(tier), trailerEncs(tier), trailerCTs(tier)
	type shape struct {
		kind, name, framing, version string
	}
	shapes := []shape{
		{"request", "unknown-length", "cl", "1.1"},
		{"request", "content-length", "cl", "1.1"},
		{"response", "unknown-length", "cl", "1.1"},
		{"response", "content-length", "cl", "1.1"},
		{"response", "close-delimited", "close", "1.1"},
		{"response", "close-delimited(1.0)", "close", "1.0"},
		{"response", "h2", "cl", "1.1"},
		{"response", "h2+content-length", "cl", "1.1"},
	}
	var out []trailerCase
	for _, size := range sizes {
		for _, sh := range shapes {
			for _, enc := range encs {
				for _, ct := range cts {
					if sh.kind == "response" && strings.HasPrefix(ct, "form") {
						continue
					}
					if size > 100000 && (ct != "binary" || enc != "none") {
						continue
					}
					spec := msggen.Spec{Space: "trailers", Kind: sh.kind, Version: sh.version, Size: size, Framing: sh.framing, Enc: enc, CT: ct}
					if sh.kind == "request" {
						spec.Method, spec.Query = "POST", 1
					} else {
						spec.Status = 200
					}
					for tr := 0; tr <= 2; tr++ {
						if tr == 0 {
							// control: the same shape without trailers (one timing, no announcement)
							out = append(out, trailerCase{Spec: spec, Shape: sh.name, Trailers: 0, Timing: "preset"})
							continue
						}
						for _, ann := range []bool{true, false} {
							for _, timing := range []string{"preset", "at-eof"} {
								out = append(out, trailerCase{Spec: spec, Shape: sh.name, Trailers: tr, Announce: ann, Timing: timing})
							}
						}
					}
				}
			}
		}
	}
	// responses fetched from a real HTTP/2 origin (net/http's bundled HTTP/2 server and transport over loopback TLS)
	for _, size := range trailerRealSizes(tier) {
		for _, shape := range []string{"h2(real)", "h2(real)+content-length"} {
			for _, enc := range []string{"none", "gzip"} {
				spec := msggen.Spec{Space: "trailers", Kind: "response", Status: 200, Version: "1.1", Size: size, Framing: "cl", Enc: enc, CT: "text"}
				out = append(out, trailerCase{Spec: spec, Shape: shape, Trailers: 0, Timing: "at-eof"})
				for tr := 1; tr <= 2; tr++ {
					for _, ann := range []bool{true, false} {
						out = append(out, trailerCase{Spec: spec, Shape: shape, Trailers: tr, Announce: ann, Timing: "at-eof"})
					}
				}
			}
		}
	}
	return out
}

// h2Origin is a real HTTP/2 origin: the handler answers with the message a case describes (body, content type and
// coding of the case's spec; trailers announced by a Trailer header or sent unannounced; with or without a
// declared Content-Length). No Date header: the twin and the logged message come from two round trips.
type h2Origin struct {
	srv   *httptest.Server
	tr    *http.Transport
	built sync.Map // spec string -> *msggen.Msg
	cases sync.Map // key -> trailerCase
}

var theH2Origin *h2Origin

func startH2Origin() (o *h2Origin, err error) {
	defer func() {
		if r := recover(); r != nil {
			o, err = nil, fmt.Errorf("%v", r)
		}
	}()
	o = &h2Origin{}
	o.srv = httptest.NewUnstartedServer(http.HandlerFunc(o.serve))
	o.srv.EnableHTTP2 = true
	o.srv.Config.ErrorLog = log.New(io.Discard, "", 0)
	o.srv.StartTLS()
	tr, ok := o.srv.Client().Transport.(*http.Transport)
	if !ok {
		o.srv.Close()
		return nil, fmt.Errorf("unexpected client transport %T", o.srv.Client().Transport)
	}
	tr.DisableCompression = true
	o.tr = tr
	return o, nil
}

func (o *h2Origin) serve(w http.ResponseWriter, r *http.Request) {
	v, ok := o.cases.Load(r.URL.Query().Get("case"))
	if !ok {
		http.Error(w, "unknown case", 500)
		return
	}
	c := v.(trailerCase)
	mv, _ := o.built.Load(c.Spec.String())
	m := mv.(*msggen.Msg)
	h := w.Header()
	h["Date"] = nil
	h.Set("Content-Type", m.ContentType)
	if m.DeclaredCE != "" {
		h.Set("Content-Encoding", m.DeclaredCE)
	}
	if strings.HasSuffix(c.Shape, "content-length") {
		h.Set("Content-Length", strconv.Itoa(len(m.Encoded)))
	}
	kvs := msggen.TrailerPool[:c.Trailers]
	if c.Announce {
		for _, kv := range kvs {
			h.Add("Trailer", kv.Name)
		}
	}
	w.WriteHeader(200)
	w.Write(m.Encoded)
	if !strings.HasSuffix(c.Shape, "content-length") {
		// (a handler that returns without flushing gets a Content-Length computed by the server)
		w.(http.Flusher).Flush()
	}
	for _, kv := range kvs {
		if c.Announce {
			h.Set(kv.Name, kv.Value)
		} else {
			h.Set(http.TrailerPrefix+kv.Name, kv.Value)
		}
	}
}

func (o *h2Origin) fetch(c trailerCase, m *msggen.Msg) (*http.Request, *http.Response, error) {
	key := c.String()
	o.built.LoadOrStore(c.Spec.String(), m)
	o.cases.LoadOrStore(key, c)
	req, err := http.NewRequest("GET", o.srv.URL+"/p?case="+url.QueryEscape(key), nil)
	if err != nil {
		return nil, nil, err
	}
	res, err := o.tr.RoundTrip(req)
	if err != nil {
		return nil, nil, err
	}
	if res.ProtoMajor != 2 {
		res.Body.Close()
		return nil, nil, fmt.Errorf("the origin answered with %s", res.Proto)
	}
	wantCL := int64(-1)
	if strings.HasSuffix(c.Shape, "content-length") {
		wantCL = int64(len(m.Encoded))
	}
	if res.ContentLength != wantCL || len(res.TransferEncoding) != 0 {
		res.Body.Close()
		return nil, nil, fmt.Errorf("the origin's answer has ContentLength %d, TransferEncoding %v; the case wants %d and none", res.ContentLength, res.TransferEncoding, wantCL)
	}
	res.Request = req
	return req, res, nil
}

// build constructs the message of the case (a fresh one per call: bodies are single-use).
func (c trailerCase) build(m *msggen.Msg) (*http.Request, *http.Response) {
	isReq := c.Spec.Kind == "request"
	if strings.HasPrefix(c.Shape, "h2(real)") {
		req, res, err := theH2Origin.fetch(c, m)
		if err != nil {
			panic(h2Failure{err})
		}
		return req, res
	}
	var req *http.Request
	var res *http.Response
	var err error
	if isReq {
		req, err = m.ParseRequest()
	} else {
		req = m.Request()
		res, err = m.ParseResponse(req)
		if res != nil {
			res.Request = req
		}
	}
	if err != nil {
		panic(fmt.Sprintf("generator produced an unparseable message %s: %v", c.Spec, err))
	}
	var hdr http.Header
	var trp *http.Header
	if isReq {
		hdr, trp = req.Header, &req.Trailer
	} else {
		hdr, trp = res.Header, &res.Trailer
	}
	sb := &streamBody{data: m.Encoded}
	switch c.Shape {
	case "unknown-length", "h2":
		hdr.Del("Content-Length")
		if isReq {
			req.ContentLength, req.TransferEncoding, req.Body = -1, nil, sb
		} else {
			res.ContentLength, res.TransferEncoding, res.Body = -1, nil, sb
		}
	case "content-length", "h2+content-length":
		// the declared length stays; the body is a stream all the same
		switch {
		case len(m.Encoded) == 0:
			sb = nil // Content-Length: 0 parses to http.NoBody: there is no stream
		case isReq:
			req.Body = sb
		default:
			res.Body = sb
		}
	default:
		// close-delimited: the body stays net/http's reader on the wire bytes
		sb = nil
	}
	if strings.HasPrefix(c.Shape, "h2") {
		res.Proto, res.ProtoMajor, res.ProtoMinor = "HTTP/2.0", 2, 0
	}
	if c.Trailers > 0 {
		// announced: the names are keys of Trailer when the message is logged (HTTP/1 shapes also carry the Trailer
		// header field; net/http's HTTP/2 transport moves it out of the header map). Values: there from the start
		// (preset) or filled in when the body reports EOF; unannounced late trailers arrive in a Trailer map that
		// did not exist before - what the HTTP/2 transport does with trailers the origin did not announce.
		kvs := msggen.TrailerPool[:c.Trailers]
		late := c.Timing == "at-eof" && sb != nil
		var tr http.Header
		var names []string
		for _, kv := range kvs {
			names = append(names, kv.Name)
			switch {
			case !late:
				if tr == nil {
					tr = http.Header{}
				}
				tr[kv.Name] = []string{kv.Value}
			case c.Announce:
				if tr == nil {
					tr = http.Header{}
				}
				tr[kv.Name] = nil // announced, value not there yet
			}
		}
		*trp = tr
		if c.Announce && !strings.HasPrefix(c.Shape, "h2") {
			hdr.Set("Trailer", strings.Join(names, ", "))
		}
		if late {
			sb.atEOF = func() {
				if *trp == nil {
					*trp = http.Header{}
				}
				for _, kv := range kvs {
					(*trp)[kv.Name] = []string{kv.Value}
				}
			}
		}
	}
	return req, res
}

type h2Failure struct{ err error }

// effectiveTiming: a close-delimited body is net/http's own reader and a Content-Length: 0 message has
// http.NoBody - the harness cannot hook their EOF, the trailers are there from the start
func (c trailerCase) effectiveTiming(m *msggen.Msg) string {
	if strings.HasPrefix(c.Shape, "close-delimited") || strings.HasSuffix(c.Shape, "content-length") && len(m.Encoded) == 0 && !strings.Contains(c.Shape, "(real)") {
		return "preset"
	}
	return c.Timing
}

var trailerModes = []readMode{
	{"Write(bytes.Buffer)", "write", 0},
	{"Write(re-framed chunked)", "write", 0},
	{"Body.Read(buf=small)", "direct", 1},
	{"Body.Read(buf=511)", "direct", 511},
	{"Body.Read(buf=65536)", "direct", 65536},
}

func trailerSerialise(mode readMode, m *msggen.Msg, req *http.Request, res *http.Response) output {
	if mode.Name == "Write(re-framed chunked)" {
		// a downstream hop that speaks HTTP/1.1 and wants to pass the trailers on has one framing for that
		if res == nil {
			req.TransferEncoding = []string{"chunked"}
		} else {
			res.TransferEncoding = []string{"chunked"}
			if res.ProtoMajor != 1 || res.ProtoMinor != 1 {
				res.Proto, res.ProtoMajor, res.ProtoMinor = "HTTP/1.1", 1, 1
			}
		}
	}
	return serialise(sized(mode, m), req, res)
}

func wantTrailerLines(c trailerCase) []string {
	var out []string
	for _, kv := range msggen.TrailerPool[:c.Trailers] {
		out = append(out, kv.Name+": "+kv.Value)
	}
	sort.Strings(out)
	return out
}

func runTrailerFamily(rep *lib.Report, tier string, workerCh chan *worker, only *replayCase) map[string]int64 {
	cases := trailerCases(tier)
	if only != nil {
		c := *only.Trailer
		c.Variant, c.Mode = "", ""
		cases = []trailerCase{c}
	}
	type pv struct {
		sig, desc string
		rc        replayCase
	}
	var realH2 int64
	if o, err := startH2Origin(); err != nil {
		// no loopback TLS listener in this environment: the emulated h2 shapes remain
		var kept []trailerCase
		for _, c := range cases {
			if !strings.Contains(c.Shape, "(real)") {
				kept = append(kept, c)
			}
		}
		cases = kept
		rep.Incomplete = "unchunked-trailers family: the real HTTP/2 origin could not be started (" + err.Error() + "); only the emulated HTTP/2 shapes ran"
	} else {
		theH2Origin = o
		defer func() { o.tr.CloseIdleConnections(); o.srv.Close() }()
		for _, c := range cases {
			if strings.Contains(c.Shape, "(real)") {
				realH2++
			}
		}
	}
	pending := make([][]pv, len(cases))
	var runs, transitions, snaps, withTrailers, lateTrailers, trailersOnWire, skippedNoReference int64
	shapesSeen := map[string]bool{}
	for _, c := range cases {
		shapesSeen[c.Spec.Kind+" "+c.tag()] = true
	}
	lib.Parallel(len(cases), func(i int) {
		c := cases[i]
		m := msggen.Build(c.Spec)
		isReq := c.Spec.Kind == "request"
		var w *worker
		select {
		case w = <-workerCh:
		default:
			w = newWorker()
		}
		defer func() { workerCh <- w }()
		violate := func(sig, desc string, rc trailerCase) {
			pending[i] = append(pending[i], pv{sig, desc, replayCase{Part: "trailers", Trailer: &rc}})
		}
		defer func() {
			if r := recover(); r != nil {
				f, ok := r.(h2Failure)
				if !ok {
					panic(r)
				}
				violate("harness:unchunked_trailers:h2_origin_failed", fmt.Sprintf("%s: fetching the message from the HTTP/2 origin failed: %v", c, f.err), c)
			}
		}()
		if c.Trailers > 0 {
			atomic.AddInt64(&withTrailers, 1)
			if c.effectiveTiming(m) == "at-eof" {
				atomic.AddInt64(&lateTrailers, 1)
			}
		}
		if i%211 == 0 {
			rep.Sample(8, map[string]interface{}{"family": "unchunked_trailers", "case": c.String(), "body_bytes": len(m.Encoded)})
		}
		wantTr := wantTrailerLines(c)
		unannouncedLate := c.Trailers > 0 && !c.Announce && c.effectiveTiming(m) == "at-eof"

		// twins, guarded by the generator's ground truth
		twins := make([]output, len(trailerModes))
		for mi, mode := range trailerModes {
			req, res := c.build(m)
			_, remove, err := martian.TestContext(req, nil, nil)
			if err != nil {
				panic(err)
			}
			twins[mi] = trailerSerialise(mode, m, firstReq(isReq, req), res)
			remove()
			rc := c
			rc.Mode = mode.Name
			t := twins[mi]
			if t.Err != "" {
				violate("harness:unchunked_trailers:twin_serialisation_error", fmt.Sprintf("%s via %s: unlogged twin failed: %s", c, mode.Name, t.Err), rc)
				continue
			}
			if !bytes.Equal(t.Body, m.Encoded) {
				violate("harness:unchunked_trailers:twin_body_differs_from_ground_truth", fmt.Sprintf("%s via %s: twin body %d bytes, generator says %d", c, mode.Name, len(t.Body), len(m.Encoded)), rc)
			}
			switch {
			case mode.Kind == "direct":
				if got := strings.Join(wantTr, "\n"); t.Trailer != got {
					violate("harness:unchunked_trailers:twin_trailers_differ_from_ground_truth", fmt.Sprintf("%s via %s: twin Trailer %q, generator says %q", c, mode.Name, t.Trailer, got), rc)
				}
			case t.Framing == "chunked":
				var lines []string
				for _, l := range strings.Split(t.Trailer, "\r\n") {
					if l != "" {
						lines = append(lines, l)
					}
				}
				sort.Strings(lines)
				if !reflect.DeepEqual(lines, wantTr) && !(len(lines) == 0 && (len(wantTr) == 0 || unannouncedLate)) {
					violate("harness:unchunked_trailers:twin_trailers_differ_from_ground_truth", fmt.Sprintf("%s via %s: twin wrote trailer section %q, generator says %q", c, mode.Name, t.Trailer, wantTr), rc)
				}
				if c.Trailers > 0 {
					atomic.AddInt64(&trailersOnWire, 1)
				}
			}
		}

		for _, v := range variants {
			if only != nil && only.Trailer.Variant != "" && only.Trailer.Variant != v.Name {
				continue
			}
			cls := fmt.Sprintf("unchunked_trailers:%s:%s:%s", v.Family, c.Spec.Kind, c.tag())
			for mi, mode := range trailerModes {
				if only != nil && only.Trailer.Mode != "" && only.Trailer.Mode != mode.Name {
					continue
				}
				if len(m.Encoded) > 100000 && (mode.Name == "Body.Read(buf=small)" || mode.Name == "Body.Read(buf=511)") {
					continue
				}
				if mode.Kind == "write" && twins[mi].Framing == "chunked" && unannouncedLate {
					// net/http writes the trailers whose names are in Trailer when it writes the head. Names that
					// turn up only at the end of the body are lost by the unlogged twin and known to a message whose
					// body a logger has buffered: the twin's chunked serialisation is no reference for such a
					// message (the direct reads and the serialisations without chunk framing are).
					atomic.AddInt64(&skippedNoReference, 1)
					continue
				}
				rc := c
				rc.Variant, rc.Mode = v.Name, mode.Name
				req, res := c.build(m)
				ctx, remove, err := martian.TestContext(req, nil, nil)
				if err != nil {
					panic(err)
				}
				a := w.apply(v, m, req, res, ctx)
				atomic.AddInt64(&runs, 1)
				atomic.AddInt64(&transitions, int64(a.calls)+1)
				if a.panicked != "" {
					violate(cls+":panic", fmt.Sprintf("%s with %s: logger panicked: %s", c, v.Name, a.panicked), rc)
					remove()
					continue
				}
				if a.err != nil {
					violate(cls+":logger_error", fmt.Sprintf("%s with %s: logger returned error %q (the proxy adds it as a Warning header to the forwarded message)", c, v.Name, a.err), rc)
				}
				got := trailerSerialise(mode, m, firstReq(isReq, req), res)
				if a.err == nil && a.recorded() == 0 {
					violate("harness:unchunked_trailers:nothing_recorded", fmt.Sprintf("%s with %s recorded nothing (vacuous run)", c, v.Name), rc)
				}
				remove()
				if sym, detail := diff(got, twins[mi]); sym != "" {
					if sym == "body_length_changed" && bytes.HasPrefix(got.Body, twins[mi].Body) {
						extra := got.Body[len(twins[mi].Body):]
						if len(extra) > 80 {
							extra = extra[:80]
						}
						detail += fmt.Sprintf("; the forwarded body is the original followed by %q", extra)
					}
					violate(cls+":"+sym, fmt.Sprintf("%s after %s, forwarded via %s: %s", c, v.Name, mode.Name, detail), rc)
				}
			}

			// the snapshot, section by section
			if v.Family != "messageview" || only != nil && only.Trailer.Mode != "" && only.Trailer.Mode != "snapshot" {
				continue
			}
			rc := c
			rc.Variant, rc.Mode = v.Name, "snapshot"
			req, res := c.build(m)
			_, remove, err := martian.TestContext(req, nil, nil)
			if err != nil {
				panic(err)
			}
			wantStart, wantHdr, wantCL := expectedHead(req, res, isReq)
			mv := messageview.New()
			switch v.Name {
			case "messageview(skipBody)":
				mv.SkipBody(true)
			case "messageview(unlessCT)":
				mv.SkipBodyUnlessContentType(mvCTs...)
			}
			var head, body, trailer, whole []byte
			func() {
				defer func() {
					if r := recover(); r != nil {
						err = fmt.Errorf("panic: %v", r)
					}
				}()
				if isReq {
					err = mv.SnapshotRequest(req)
				} else {
					err = mv.SnapshotResponse(res)
				}
				if err != nil {
					return
				}
				head, _ = io.ReadAll(mv.HeaderReader())
				var br, wr io.ReadCloser
				if br, err = mv.BodyReader(); err != nil {
					return
				}
				body, _ = io.ReadAll(br)
				trailer, _ = io.ReadAll(mv.TrailerReader())
				if wr, err = mv.Reader(); err != nil {
					return
				}
				whole, err = io.ReadAll(wr)
			}()
			remove()
			atomic.AddInt64(&snaps, 1)
			atomic.AddInt64(&transitions, 5)
			scls := fmt.Sprintf("unchunked_trailers:messageview:%s:%s", c.Spec.Kind, c.tag())
			if err != nil {
				violate(scls+":snapshot_error", fmt.Sprintf("%s with %s: snapshot failed: %v", c, v.Name, err), rc)
				continue
			}
			captured := v.captures(m)
			gotStart, gotHdr, gotCL, perr := parseHead(head)
			switch {
			case perr != "":
				violate(scls+":snapshot_head_unparseable", fmt.Sprintf("%s with %s: head of the snapshot does not parse: %s; head %q", c, v.Name, perr, clip(string(head))), rc)
			case gotStart != wantStart:
				violate(scls+":snapshot_differs(start_line)", fmt.Sprintf("%s with %s: start line %q, original %q", c, v.Name, gotStart, wantStart), rc)
			case !reflect.DeepEqual(gotHdr, wantHdr):
				violate(scls+":snapshot_differs(headers)", fmt.Sprintf("%s with %s: header fields %q, original %q", c, v.Name, gotHdr, wantHdr), rc)
			case gotCL != wantCL:
				violate(scls+":snapshot_differs(framing)", fmt.Sprintf("%s with %s: framing lines %q, original %q", c, v.Name, gotCL, wantCL), rc)
			}
			wantBody := m.Encoded
			if !captured {
				wantBody = nil
			}
			if !bytes.Equal(body, wantBody) {
				violate(scls+":snapshot_differs(body)", fmt.Sprintf("%s with %s: body section of the snapshot has %d bytes (tail %q), the body %d", c, v.Name, len(body), tail(body), len(wantBody)), rc)
			}
			if captured && len(m.Encoded) > 0 || captured && c.Shape != "content-length" && c.Shape != "h2+content-length" {
				// (a skipped body is not read, so late trailers never arrive and the section stays empty; a
				// Content-Length: 0 message parses to http.NoBody, which has no stream to report them)
				var lines []string
				for _, l := range strings.Split(string(trailer), "\r\n") {
					if l != "" {
						lines = append(lines, l)
					}
				}
				sort.Strings(lines)
				if !reflect.DeepEqual(lines, wantTr) && !(len(lines) == 0 && len(wantTr) == 0) {
					violate(scls+":snapshot_differs(trailers)", fmt.Sprintf("%s with %s: trailer section of the snapshot %q, the trailers %q", c, v.Name, trailer, wantTr), rc)
				}
			}
			if cat := append(append(append([]byte{}, head...), body...), trailer...); !bytes.Equal(whole, cat) {
				violate(scls+":snapshot_differs(sections)", fmt.Sprintf("%s with %s: Reader() yields %d bytes, head+body+trailer sections %d", c, v.Name, len(whole), len(cat)), rc)
			}
		}
	})
	for _, p := range pending {
		for _, v := range p {
			rep.Violate(v.sig, v.desc, v.rc)
		}
	}
	return map[string]int64{
		"unchunked_trailers_messages":                                         int64(len(cases)),
		"unchunked_trailers_messages_from_real_h2_origin":                     realH2,
		"unchunked_trailers_messages_with_trailers":                           withTrailers,
		"unchunked_trailers_messages_late_trailers":                           lateTrailers,
		"unchunked_trailers_shapes":                                           int64(len(shapesSeen)),
		"unchunked_trailers_cases":                                            runs,
		"unchunked_trailers_transitions":                                      transitions,
		"unchunked_trailers_chunked_writes_skipped_unannounced_late_trailers": skippedNoReference,
		"unchunked_trailers_snapshots":                                        snaps,
		"unchunked_trailers_twins_with_trailers_on_the_wire":                  trailersOnWire,
	}
}

// expectedHead is the reference for the head of a snapshot, taken from the message itself before it is logged.
func expectedHead(req *http.Request, res *http.Response, isReq bool) (start string, fields []string, framing string) {
	var h http.Header
	var cl int64
	var te []string
	if isReq {
		start = fmt.Sprintf("%s %s HTTP/%d.%d", req.Method, req.URL, req.ProtoMajor, req.ProtoMinor)
		h, cl, te = req.Header.Clone(), req.ContentLength, req.TransferEncoding
		if req.Host != "" {
			h.Set("Host", req.Host)
		}
	} else {
		start = fmt.Sprintf("HTTP/%d.%d %s", res.ProtoMajor, res.ProtoMinor, res.Status)
		h, cl, te = res.Header.Clone(), res.ContentLength, res.TransferEncoding
	}
	h.Del("Content-Length")
	h.Del("Transfer-Encoding")
	fields = headerLines(h)
	if len(te) > 0 {
		framing = "te=" + strings.Join(te, ",")
	} else if cl >= 0 {
		framing = fmt.Sprintf("cl=%d", cl)
	}
	return
}

func parseHead(b []byte) (start string, fields []string, framing string, perr string) {
	tp := textproto.NewReader(bufio.NewReader(bytes.NewReader(b)))
	start, err := tp.ReadLine()
	if err != nil {
		return "", nil, "", "start line: " + err.Error()
	}
	mh, err := tp.ReadMIMEHeader()
	if err != nil {
		return start, nil, "", "header fields: " + err.Error()
	}
	if rest, _ := io.ReadAll(tp.R); len(rest) > 0 {
		return start, nil, "", fmt.Sprintf("%d bytes after the blank line", len(rest))
	}
	h := http.Header(mh)
	if te := h.Values("Transfer-Encoding"); len(te) > 0 {
		framing = "te=" + strings.Join(te, ",")
	} else if cl := h.Values("Content-Length"); len(cl) > 0 {
		framing = "cl=" + strings.Join(cl, ",")
	}
	h.Del("Content-Length")
	h.Del("Transfer-Encoding")
	return start, headerLines(h), framing, ""
}
