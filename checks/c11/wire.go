// The "wire" family: the cases of C11 pushed through the REAL relay. h2.Config.Proxy runs between a raw
// frame-level client (net.Pipe) and a raw frame-level TLS "h2" server on the loopback interface, with the gRPC
// adapter installed through StreamProcessorFactories exactly as a user of martian would. The destination's view is
// taken from the HTTP/2 frames it really receives, so relay.data (re-splitting of every emitted message into DATA
// frames of at most the receiver's maximum frame size, END_STREAM on the last one, queueing behind the
// receiver's flow-control window), the relay's header path and h2.go's processor chaining (nil processors
// bypassed, several factories chained) are part of the run. The oracles are the single-stream oracles of main.go,
// applied per stream to the received frames.
//
// Determinism: per stream the judged observation (header lists, DATA bytes and frame boundaries, END_STREAM
// position, processor calls) does not depend on scheduling. Completion is detected by observation (the
// destination saw END_STREAM), then a sentinel stream sent behind the traffic proves that nothing else was
// in flight. A generous deadline only bounds the wait when the implementation never delivers (which the
// statement forbids).
package main

import (
	"bytes"
	"crypto/ecdsa"
	"crypto/elliptic"
	"crypto/rand"
	"crypto/tls"
	"crypto/x509"
	"crypto/x509/pkix"
	"encoding/json"
	"fmt"
	"io"
	"math/big"
	"net"
	"net/url"
	"os"
	"os/exec"
	"path/filepath"
	"sort"
	"strconv"
	"strings"
	"sync"
	"time"

	"github.com/google/martian/v3/h2"
	mgrpc "github.com/google/martian/v3/h2/grpc"
	mlog "github.com/google/martian/v3/log"
	"golang.org/x/net/http2"
	"golang.org/x/net/http2/hpack"

	"verif/lib"
)

type wireParams struct {
	MaxFrame  uint32 `json:"destination_max_frame_size,omitempty"` // 0: the default, 16384
	Lazy      bool   `json:"destination_grants_window_late,omitempty"`
	Factories string `json:"factories,omitempty"` // "" both directions processed; c2s_only; s2c_only; none; chain2
	// early response: History = [client half, server half] of ONE stream; the server sends its whole half (ending
	// the stream on its side) after the client's first After DATA frames, then the client goes on and half-closes
	EarlyResponse bool `json:"server_ends_stream_first,omitempty"`
	After         int  `json:"after_client_data_frames,omitempty"`
}

const (
	defaultMaxFrame = 16384
	defaultWindow   = 65535
	wireHang        = 20 * time.Second
)

var wirePrio = http2.PriorityParam{StreamDep: 0, Weight: 7}

// ---- TLS material and listener ----

type wireWorld struct {
	pool   *x509.CertPool
	ln     net.Listener
	host   string
	accept chan net.Conn
}

var (
	wireCertOnce sync.Once
	wireCert     tls.Certificate
	wirePool     *x509.CertPool
	wireCertErr  error
)

func wireTLS() error {
	wireCertOnce.Do(func() {
		key, err := ecdsa.GenerateKey(elliptic.P256(), rand.Reader)
		if err != nil {
			wireCertErr = err
			return
		}
		tmpl := &x509.Certificate{SerialNumber: big.NewInt(11), Subject: pkix.Name{CommonName: "c11 wire"}, NotBefore: time.Now().Add(-time.Hour), NotAfter: time.Now().Add(24 * time.Hour),
			KeyUsage: x509.KeyUsageDigitalSignature | x509.KeyUsageCertSign, ExtKeyUsage: []x509.ExtKeyUsage{x509.ExtKeyUsageServerAuth}, IsCA: true, BasicConstraintsValid: true,
			IPAddresses: []net.IP{net.ParseIP("127.0.0.1")}, DNSNames: []string{"localhost"}}
		der, err := x509.CreateCertificate(rand.Reader, tmpl, tmpl, &key.PublicKey, key)
		if err != nil {
			wireCertErr = err
			return
		}
		c, _ := x509.ParseCertificate(der)
		wirePool = x509.NewCertPool()
		wirePool.AddCert(c)
		wireCert = tls.Certificate{Certificate: [][]byte{der}, PrivateKey: key}
	})
	return wireCertErr
}

func newWireWorld() (*wireWorld, error) {
	if err := wireTLS(); err != nil {
		return nil, err
	}
	tcp, err := net.Listen("tcp", "127.0.0.1:0")
	if err != nil {
		return nil, err
	}
	w := &wireWorld{pool: wirePool, host: tcp.Addr().String(), accept: make(chan net.Conn, 4)}
	w.ln = tls.NewListener(tcp, &tls.Config{Certificates: []tls.Certificate{wireCert}, NextProtos: []string{"h2"}})
	go func() {
		for {
			c, err := w.ln.Accept()
			if err != nil {
				close(w.accept)
				return
			}
			w.accept <- c
		}
	}()
	return w, nil
}

// ---- a frame-level endpoint ----

type endpoint struct {
	conn io.ReadWriteCloser
	fr   *http2.Framer
	wmu  sync.Mutex
	ctrl chan func() error // acknowledgements and window credit, written by a goroutine of their own
	done chan struct{}
	hbuf bytes.Buffer
	henc *hpack.Encoder

	mu       sync.Mutex
	cond     *sync.Cond
	expired  bool
	waitGen  int
	events   map[uint32][]sinkEvent
	frames   int
	oversize string
	settings int
	pings    map[[8]byte]bool
	readErr  error

	maxFrame   uint32 // what this endpoint advertised
	lazy       bool
	sendConn   int
	sendStream map[uint32]int
	sendInit   int
	recvConn   int
	recvStream map[uint32]int
	usedConn   int
	usedStream map[uint32]int
}

func newEndpoint(conn io.ReadWriteCloser, maxFrame uint32, lazy bool) *endpoint {
	e := &endpoint{conn: conn, fr: http2.NewFramer(conn, conn), events: map[uint32][]sinkEvent{}, maxFrame: maxFrame, lazy: lazy,
		sendConn: defaultWindow, sendInit: defaultWindow, sendStream: map[uint32]int{}, recvConn: defaultWindow, recvStream: map[uint32]int{}, usedStream: map[uint32]int{}}
	if e.maxFrame == 0 {
		e.maxFrame = defaultMaxFrame
	}
	e.cond = sync.NewCond(&e.mu)
	e.henc = hpack.NewEncoder(&e.hbuf)
	// The reader never writes itself: net.Pipe is synchronous, so a reader waiting for the write lock while the
	// sender is blocked in a write that the proxy cannot take (because it is itself writing to this endpoint)
	// would be a deadlock of the harness.
	e.ctrl, e.done = make(chan func() error, 4096), make(chan struct{})
	go func() {
		for {
			select {
			case f := <-e.ctrl:
				e.write(f)
			case <-e.done:
				return
			}
		}
	}()
	e.fr.SetMaxReadFrameSize(1<<24 - 1)
	e.fr.ReadMetaHeaders = hpack.NewDecoder(4096, nil)
	return e
}

func (e *endpoint) later(f func() error) {
	select {
	case e.ctrl <- f:
	case <-e.done:
	}
}

func (e *endpoint) write(f func() error) error {
	e.wmu.Lock()
	defer e.wmu.Unlock()
	return f()
}

func (e *endpoint) readLoop() {
	for {
		f, err := e.fr.ReadFrame()
		e.mu.Lock()
		if err != nil {
			e.readErr = err
			e.cond.Broadcast()
			e.mu.Unlock()
			return
		}
		e.frames++
		var grantConn, grantStream uint32
		var grantID uint32
		ack := false
		switch f := f.(type) {
		case *http2.SettingsFrame:
			if !f.IsAck() {
				e.settings++
				if v, ok := f.Value(http2.SettingInitialWindowSize); ok {
					d := int(v) - e.sendInit
					e.sendInit = int(v)
					for id := range e.sendStream {
						e.sendStream[id] += d
					}
				}
				ack = true
			}
		case *http2.MetaHeadersFrame:
			ev := sinkEvent{kind: 'H', hdr: append([]hpack.HeaderField{}, f.Fields...), end: f.StreamEnded()}
			if f.HasPriority() {
				ev.prio = f.Priority
				if f.Priority == wirePrio {
					ev.prio = prio
				}
			}
			e.events[f.StreamID] = append(e.events[f.StreamID], ev)
		case *http2.DataFrame:
			n := int(f.Header().Length)
			if uint32(len(f.Data())) > e.maxFrame && e.oversize == "" {
				e.oversize = fmt.Sprintf("a DATA frame of %d bytes on stream %d exceeds the advertised maximum frame size %d", len(f.Data()), f.StreamID, e.maxFrame)
			}
			e.events[f.StreamID] = append(e.events[f.StreamID], sinkEvent{kind: 'D', data: append([]byte{}, f.Data()...), end: f.StreamEnded()})
			if _, ok := e.recvStream[f.StreamID]; !ok {
				e.recvStream[f.StreamID] = defaultWindow
			}
			e.recvConn -= n
			e.recvStream[f.StreamID] -= n
			e.usedConn += n
			e.usedStream[f.StreamID] += n
			// window policy: eager returns the credit of every frame at once; lazy lets the window run down until
			// it no longer holds a full frame and only then returns what was consumed
			if !e.lazy || e.recvConn < int(e.maxFrame) {
				grantConn = uint32(e.usedConn)
				e.recvConn += e.usedConn
				e.usedConn = 0
			}
			if !f.StreamEnded() && (!e.lazy || e.recvStream[f.StreamID] < int(e.maxFrame)) {
				grantID, grantStream = f.StreamID, uint32(e.usedStream[f.StreamID])
				e.recvStream[f.StreamID] += e.usedStream[f.StreamID]
				e.usedStream[f.StreamID] = 0
			}
		case *http2.WindowUpdateFrame:
			if f.StreamID == 0 {
				e.sendConn += int(f.Increment)
			} else {
				if _, ok := e.sendStream[f.StreamID]; !ok {
					e.sendStream[f.StreamID] = e.sendInit
				}
				e.sendStream[f.StreamID] += int(f.Increment)
			}
		case *http2.PingFrame:
			if !f.IsAck() {
				if e.pings == nil {
					e.pings = map[[8]byte]bool{}
				}
				e.pings[f.Data] = true
			}
		case *http2.RSTStreamFrame:
			e.events[f.StreamID] = append(e.events[f.StreamID], sinkEvent{kind: 'R'})
		case *http2.PriorityFrame:
			e.events[f.StreamID] = append(e.events[f.StreamID], sinkEvent{kind: 'P'})
		case *http2.PushPromiseFrame:
			e.events[f.StreamID] = append(e.events[f.StreamID], sinkEvent{kind: 'U'})
		}
		e.cond.Broadcast()
		e.mu.Unlock()
		if ack {
			e.later(func() error { return e.fr.WriteSettingsAck() })
		}
		if grantConn > 0 {
			e.later(func() error { return e.fr.WriteWindowUpdate(0, grantConn) })
		}
		if grantStream > 0 {
			e.later(func() error { return e.fr.WriteWindowUpdate(grantID, grantStream) })
		}
	}
}

// waitUntil blocks until pred holds (called with e.mu held), the connection failed, or the deadline passed.
func (e *endpoint) waitUntil(d time.Duration, pred func() bool) bool {
	e.mu.Lock()
	defer e.mu.Unlock()
	e.expired = false
	e.waitGen++
	gen := e.waitGen
	t := time.AfterFunc(d, func() {
		e.mu.Lock()
		if e.waitGen == gen {
			e.expired = true
			e.cond.Broadcast()
		}
		e.mu.Unlock()
	})
	defer t.Stop()
	for !pred() {
		if e.expired || e.readErr != nil {
			return pred()
		}
		e.cond.Wait()
	}
	return true
}

func (e *endpoint) sendHeaders(id uint32, fields []hpack.HeaderField, end bool) error {
	return e.write(func() error {
		e.hbuf.Reset()
		for _, f := range fields {
			e.henc.WriteField(f)
		}
		return e.fr.WriteHeaders(http2.HeadersFrameParam{StreamID: id, BlockFragment: e.hbuf.Bytes(), EndStream: end, EndHeaders: true, Priority: wirePrio})
	})
}

// sendData honours the windows the proxy granted to this endpoint.
func (e *endpoint) sendData(id uint32, data []byte, end bool) error {
	n := len(data)
	ok := e.waitUntil(wireHang, func() bool {
		if _, ok := e.sendStream[id]; !ok {
			e.sendStream[id] = e.sendInit
		}
		return e.sendConn >= n && e.sendStream[id] >= n
	})
	if !ok {
		return fmt.Errorf("no window to send %d bytes on stream %d", n, id)
	}
	e.mu.Lock()
	e.sendConn -= n
	e.sendStream[id] -= n
	e.mu.Unlock()
	return e.write(func() error { return e.fr.WriteData(id, end, data) })
}

// pingBarrier sends a PING and waits until the peer endpoint has received it. The relay forwards a PING when its
// reader reaches it, i.e. after it has completely processed every frame this endpoint sent before.
func (e *endpoint) pingBarrier(peer *endpoint, tag byte) bool {
	data := [8]byte{'c', '1', '1', tag}
	if err := e.write(func() error { return e.fr.WritePing(false, data) }); err != nil {
		return false
	}
	return peer.waitUntil(wireHang, func() bool { return peer.pings[data] })
}

func (e *endpoint) sawEnd(id uint32) bool {
	for _, ev := range e.events[id] {
		if ev.end || ev.kind == 'R' {
			return true
		}
	}
	return false
}

func (e *endpoint) snapshot(id uint32) *sinkRec {
	e.mu.Lock()
	defer e.mu.Unlock()
	return &sinkRec{ev: append([]sinkEvent{}, e.events[id]...)}
}

// ---- the recording processor factory of a wire case ----

type wireFactory struct {
	mu             sync.Mutex
	expC, expS     [][][]byte // expected plain messages per stream, in creation order
	pairs          [][2]*procRec
	withC2S, withS bool
}

func (f *wireFactory) make(_ *url.URL, server, client mgrpc.Processor) (mgrpc.Processor, mgrpc.Processor) {
	f.mu.Lock()
	defer f.mu.Unlock()
	k := len(f.pairs)
	pc, ps := &procRec{dest: server}, &procRec{dest: client}
	if k < len(f.expC) {
		pc.expect, ps.expect = f.expC[k], f.expS[k]
	}
	f.pairs = append(f.pairs, [2]*procRec{pc, ps})
	var rc, rs mgrpc.Processor
	if f.withC2S {
		rc = pc
	}
	if f.withS {
		rs = ps
	}
	return rc, rs
}

func (f *wireFactory) pair(k int) (c, s *procRec) {
	f.mu.Lock()
	defer f.mu.Unlock()
	if k < len(f.pairs) {
		return f.pairs[k][0], f.pairs[k][1]
	}
	return &procRec{}, &procRec{}
}

// ---- cases ----

type wireStream struct {
	cfg   config
	extra []int // cuts in addition to the multiples of 16384 every sender has to make
}

type wireCase struct {
	streams []wireStream
	order   []int // which stream sends its next frame; nil = one stream after the other
	p       wireParams
	resp    *wireStream // p.EarlyResponse: the server's half of streams[0]
}

func wireCuts(b *built, extra []int) []int {
	set := map[int]bool{}
	L := len(b.stream)
	for p := defaultMaxFrame; p < L; p += defaultMaxFrame {
		set[p] = true
	}
	for _, c := range extra {
		if c >= 1 && c <= L-1 {
			set[c] = true
		}
	}
	var out []int
	for c := range set {
		out = append(out, c)
	}
	sort.Ints(out)
	return out
}

func (c *wireCase) toCase(items []*item, cuts [][]int) Case {
	p := c.p
	if c.resp != nil {
		ri := newItem(c.resp.cfg)
		return Case{Wire: &p, Duplex: true, History: []Case{items[0].caseOf(cuts[0]), ri.caseOf(wireCuts(ri.b, c.resp.extra))}}
	}
	if len(items) == 1 {
		cs := items[0].caseOf(cuts[0])
		cs.Wire = &p
		return cs
	}
	cs := Case{Wire: &p, Order: append([]int{}, c.order...)}
	for k, it := range items {
		cs.History = append(cs.History, it.caseOf(cuts[k]))
	}
	return cs
}

type wireOutcome struct {
	extraItems []*item // halves judged in addition to the case's streams (early response: the server's half)
	extraCuts  [][]int
	perStream  [][]symptom
	frames     int
	hung       bool
	setupErr   string
}

// runWire executes one case through a fresh h2.Config.Proxy session.
func (w *wireWorld) runWire(c *wireCase, items []*item, cuts [][]int) *wireOutcome {
	out := &wireOutcome{}
	K := len(items)
	dir := items[0].cfg.dir

	var respItem *item
	var respCuts []int
	if c.resp != nil {
		respItem = newItem(c.resp.cfg)
		respCuts = wireCuts(respItem.b, c.resp.extra)
	}
	// processor factories
	mk := func(withC, withS bool) *wireFactory {
		f := &wireFactory{withC2S: withC, withS: withS}
		for _, it := range items {
			var ec, es [][]byte
			if it.cfg.dir == dirC2S {
				ec = it.b.plain
			} else {
				es = it.b.plain
			}
			f.expC, f.expS = append(f.expC, ec), append(f.expS, es)
		}
		if respItem != nil {
			f.expS[0] = respItem.b.plain
		}
		return f
	}
	var facs []*wireFactory
	switch c.p.Factories {
	case "":
		facs = []*wireFactory{mk(true, true)}
	case "c2s_only":
		facs = []*wireFactory{mk(true, false)}
	case "s2c_only":
		facs = []*wireFactory{mk(false, true)}
	case "none":
		facs = []*wireFactory{mk(false, false)}
	case "chain2":
		facs = []*wireFactory{mk(true, true), mk(true, true)}
	}
	cfg := &h2.Config{AllowedHostsFilter: func(string) bool { return true }, RootCAs: w.pool}
	for _, f := range facs {
		cfg.StreamProcessorFactories = append(cfg.StreamProcessorFactories, mgrpc.AsStreamProcessorFactory(f.make))
	}

	cc, pc := net.Pipe()
	closing := make(chan bool)
	proxyDone := make(chan struct{})
	go func() {
		defer close(proxyDone)
		cfg.Proxy(closing, pc, &url.URL{Scheme: "https", Host: w.host})
	}()
	client := newEndpoint(cc, 0, c.p.Lazy)
	clientUp := make(chan error, 1)
	go func() {
		if _, err := cc.Write([]byte(http2.ClientPreface)); err != nil {
			clientUp <- err
			return
		}
		clientUp <- client.write(func() error { return client.fr.WriteSettings() })
	}()
	var sconn net.Conn
	select {
	case sconn = <-w.accept:
	case <-time.After(wireHang):
	}
	var server *endpoint
	teardown := func() {
		close(closing)
		close(client.done)
		if server != nil {
			close(server.done)
		}
		cc.Close()
		if sconn != nil {
			sconn.Close()
		}
		select {
		case <-proxyDone:
		case <-time.After(wireHang):
		}
	}
	if sconn == nil {
		out.setupErr = "the proxy did not connect to the server"
		teardown()
		return out
	}
	preface := make([]byte, len(http2.ClientPreface))
	sconn.SetReadDeadline(time.Now().Add(wireHang))
	if _, err := io.ReadFull(sconn, preface); err != nil || string(preface) != http2.ClientPreface {
		out.setupErr = fmt.Sprintf("the server did not receive the client preface: %v", err)
		teardown()
		return out
	}
	sconn.SetReadDeadline(time.Time{})
	server = newEndpoint(sconn, c.p.MaxFrame, c.p.Lazy)
	if err := <-clientUp; err != nil {
		out.setupErr = "client preface: " + err.Error()
		teardown()
		return out
	}
	go client.readLoop()
	go server.readLoop()
	server.write(func() error {
		if c.p.MaxFrame != 0 {
			return server.fr.WriteSettings(http2.Setting{ID: http2.SettingMaxFrameSize, Val: c.p.MaxFrame})
		}
		return server.fr.WriteSettings()
	})
	// the relay applies the server's SETTINGS before it forwards them: once the client has them, the relay's
	// view of the destination's maximum frame size is the advertised one
	if !client.waitUntil(wireHang, func() bool { return client.settings >= 1 }) || !server.waitUntil(wireHang, func() bool { return server.settings >= 1 }) {
		out.setupErr = "SETTINGS were not relayed"
		teardown()
		return out
	}

	src, dst := client, server
	if dir == dirS2C {
		src, dst = server, client
	}
	id := func(k int) uint32 { return uint32(2*k + 1) }
	sentinel := id(K)
	sentinelReq := []hpack.HeaderField{{Name: ":method", Value: "GET"}, {Name: ":scheme", Value: "https"}, {Name: ":path", Value: "/sentinel"}, {Name: ":authority", Value: "example.com"}}
	var sendErr error
	if dir == dirS2C {
		// requests first, in stream order; the responses start when the server has seen all of them
		for k, it := range items {
			if sendErr == nil {
				sendErr = client.sendHeaders(id(k), it.pre, false)
			}
		}
		if sendErr == nil {
			sendErr = client.sendHeaders(sentinel, sentinelReq, false)
		}
		server.waitUntil(wireHang, func() bool { return len(server.events[sentinel]) > 0 })
	}
	srcs := make([][]srcEvent, K)
	next := make([]int, K)
	order := c.order
	for k, it := range items {
		srcs[k] = it.source(cuts[k])
		if c.order == nil {
			for range srcs[k] {
				order = append(order, k)
			}
		}
	}
	var respSrc []srcEvent
	if respItem != nil {
		// the server answers, and ends the stream on its side, while the client is still sending
		order = nil
		respSrc = respItem.source(respCuts)
		sent, answered := 0, false
		answer := func() {
			answered = true
			if !client.pingBarrier(server, 1) { // the relay has processed everything the client sent so far
				sendErr = fmt.Errorf("PING from the client did not reach the server")
				return
			}
			for _, e := range respSrc {
				if sendErr != nil {
					return
				}
				if e.isHdr {
					sendErr = server.sendHeaders(id(0), e.hdr, e.end)
				} else {
					sendErr = server.sendData(id(0), e.data, e.end)
				}
			}
			if sendErr == nil && !server.pingBarrier(client, 2) { // ... and the server's END_STREAM
				sendErr = fmt.Errorf("PING from the server did not reach the client")
			}
		}
		for i, e := range srcs[0] {
			if sendErr != nil {
				break
			}
			if i > 0 && !answered && (sent == c.p.After || e.end || e.isHdr) {
				answer()
				if sendErr != nil {
					break
				}
			}
			if e.isHdr {
				sendErr = client.sendHeaders(id(0), e.hdr, e.end)
			} else {
				sendErr = client.sendData(id(0), e.data, e.end)
				sent++
			}
		}
		if !client.waitUntil(wireHang, func() bool { return client.sawEnd(id(0)) }) {
			out.hung = true
		}
	}
	for _, k := range order {
		if sendErr != nil {
			break
		}
		e := srcs[k][next[k]]
		next[k]++
		if e.isHdr {
			sendErr = src.sendHeaders(id(k), e.hdr, e.end)
		} else {
			sendErr = src.sendData(id(k), e.data, e.end)
		}
	}
	// completion by observation, then the sentinel behind the traffic
	done := dst.waitUntil(wireHang, func() bool {
		for k := range items {
			if !dst.sawEnd(id(k)) {
				return false
			}
		}
		return true
	})
	if !done {
		out.hung = true
	}
	if dir == dirC2S {
		src.sendHeaders(sentinel, sentinelReq, true)
	} else {
		src.sendHeaders(sentinel, []hpack.HeaderField{{Name: ":status", Value: "204"}}, true)
	}
	wait := wireHang
	if out.hung {
		wait = 2 * time.Second
	}
	dst.waitUntil(wait, func() bool {
		for _, ev := range dst.events[sentinel] {
			if ev.end {
				return true
			}
		}
		return false
	})
	client.mu.Lock()
	out.frames = client.frames
	client.mu.Unlock()
	server.mu.Lock()
	out.frames += server.frames
	oversize := server.oversize
	if dir == dirS2C {
		oversize = client.oversize
	}
	server.mu.Unlock()
	teardown()

	// judge every stream with the single-stream oracles
	for k, it := range items {
		var syms []symptom
		seen := map[string]bool{}
		add := func(ss []symptom) {
			for _, s := range ss {
				if !seen[s.sig] {
					seen[s.sig] = true
					syms = append(syms, s)
				}
			}
		}
		if sendErr != nil {
			add([]symptom{{"sender_blocked", fmt.Sprintf("the sending endpoint could not send its frames: %v", sendErr)}})
		}
		if oversize != "" && k == 0 {
			add([]symptom{{"data_frame_exceeds_max_frame_size", oversize}})
		}
		procDir := facs[0].withC2S
		otherDir := facs[0].withS
		if it.cfg.dir == dirS2C {
			procDir, otherDir = otherDir, procDir
		}
		it.bypass = !procDir
		for _, f := range facs {
			pcr, psr := f.pair(k)
			r := &streamRun{it: it, sinkC: server.snapshot(id(k)), sinkS: client.snapshot(id(k)), procC: pcr, procS: psr, src: srcs[k], duplex: respItem != nil}
			for _, s := range r.finish() {
				if s.sig == "cross_direction:processor_calls" && !otherDir {
					continue // the opposite direction has no processor in this case
				}
				add([]symptom{s})
			}
		}
		it.bypass = false
		out.perStream = append(out.perStream, syms)
	}
	if respItem != nil {
		var syms []symptom
		seen := map[string]bool{}
		for _, f := range facs {
			pcr, psr := f.pair(0)
			r := &streamRun{it: respItem, sinkC: server.snapshot(id(0)), sinkS: client.snapshot(id(0)), procC: pcr, procS: psr, src: respSrc, duplex: true}
			for _, s := range r.finish() {
				if !seen[s.sig] {
					seen[s.sig] = true
					syms = append(syms, s)
				}
			}
		}
		out.perStream = append(out.perStream, syms)
		out.extraItems, out.extraCuts = []*item{respItem}, [][]int{respCuts}
	}
	return out
}

// ---- enumeration ----

func wireCases(thorough bool) []wireCase {
	var out []wireCase
	type body struct {
		enc  int
		msgs []msgSpec
	}
	one := func(sz int, enc int, c bool) body { return body{enc, []msgSpec{{sz, c}}} }
	// payload sizes around the relay's constants: 16384 (frame) - 5, twice that, 65535 (window) - 5, more than a
	// window, and 16 full frames (one more than the relay's output channel holds)
	sizesW := []int{0, 5, 16378, 16379, 16380, 32763, 65530, 65531, 70000, 262139}
	encflags := []struct {
		enc int
		c   bool
	}{{encIdentity, false}, {encGzip, true}, {encSnappy, true}}
	if thorough {
		encflags = append(encflags, struct {
			enc int
			c   bool
		}{encIdentity, true}, struct {
			enc int
			c   bool
		}{encDeflate, true}, struct {
			enc int
			c   bool
		}{encGzip, false})
	}
	maxFrames := []uint32{0}
	if thorough {
		maxFrames = append(maxFrames, 20000)
	}
	for _, mf := range maxFrames {
		szs := sizesW
		if mf != 0 {
			szs = []int{5, int(mf) - 6, int(mf) - 5, int(mf) - 4, 2*int(mf) - 5, 16379, 70000}
		}
		var bodies []body
		bodies = append(bodies, body{encIdentity, nil})
		for _, sz := range szs {
			for _, ef := range encflags {
				bodies = append(bodies, one(sz, ef.enc, ef.c))
			}
		}
		fill := int(mf) - 5
		if mf == 0 {
			fill = defaultMaxFrame - 5
		}
		bodies = append(bodies,
			body{encIdentity, []msgSpec{{fill, false}, {fill, false}}},
			body{encGzip, []msgSpec{{5, true}, {fill, false}}},
			body{encIdentity, []msgSpec{{fill, false}, {0, false}}},
			body{encGzip, []msgSpec{{70000, true}, {fill, false}}})
		for bi, bd := range bodies {
			pls := []int{plLast, plSeparate, plTrailers}
			if len(bd.msgs) == 0 {
				pls = []int{plSeparate, plHeadersOnly, plTrailers}
			}
			extras := [][]int{nil, {2}}
			if thorough {
				extras = append(extras, []int{-1}, []int{2, -1}) // -1: one byte before the end of the stream
			}
			for _, pl := range pls {
				for dir := range dirNames {
					for _, ex := range extras {
						for _, lazy := range []bool{false, true} {
							cts := []string{"application/grpc"}
							// the same bytes as a non-gRPC body, once per distinct byte stream
							if bi == 0 || (len(bd.msgs) >= 1 && bd.enc == encIdentity && !bd.msgs[0].Compressed) {
								cts = append(cts, "application/json")
							}
							for _, ct := range cts {
								if ct == "application/json" && len(ex) > 0 && !thorough {
									continue
								}
								out = append(out, wireCase{streams: []wireStream{{config{msgs: bd.msgs, enc: bd.enc, pl: pl, dir: dir, ct: ct}, ex}}, p: wireParams{MaxFrame: mf, Lazy: lazy}})
							}
						}
					}
				}
			}
		}
	}
	// processor chaining of h2.go: one-sided factories, no processor at all, two chained adapters
	for _, mode := range []string{"c2s_only", "s2c_only", "none", "chain2"} {
		for _, bd := range []body{{encGzip, []msgSpec{{5, true}}}, {encIdentity, []msgSpec{{defaultMaxFrame - 5, false}}}, {encSnappy, []msgSpec{{300, true}, {0, false}}}} {
			for _, pl := range []int{plLast, plSeparate, plTrailers} {
				for dir := range dirNames {
					out = append(out, wireCase{streams: []wireStream{{config{msgs: bd.msgs, enc: bd.enc, pl: pl, dir: dir, ct: "application/grpc"}, []int{2}}}, p: wireParams{Factories: mode}})
				}
			}
		}
	}
	// header order x factory shape: the block that makes the stream gRPC carries grpc-encoding before content-type
	for _, order := range []int{1, 2} {
		for _, enc := range []int{encGzip, encSnappy} {
			for dir := range dirNames {
				modes := []string{"", "c2s_only"}
				if dir == dirS2C {
					modes = []string{"", "s2c_only"}
				}
				for _, mode := range modes {
					out = append(out, wireCase{streams: []wireStream{{config{msgs: []msgSpec{{300, true}, {1, false}}, enc: enc, pl: plLast, dir: dir, ct: "application/grpc", hdrOrder: order}, []int{2}}}, p: wireParams{Factories: mode}})
				}
			}
		}
	}
	// the server ends the stream first (a client-streaming or bidi call answered early): HTTP/2 half-close
	out = append(out, earlyResponseCases(thorough)...)
	// several streams of one direction sharing the connection
	types := []config{}
	for _, ct := range []string{"application/grpc", "application/json"} {
		types = append(types, config{msgs: []msgSpec{{1, false}}, enc: encIdentity, pl: plLast, ct: ct}, config{msgs: []msgSpec{{5, true}}, enc: encGzip, pl: plSeparate, ct: ct})
	}
	for _, a := range types {
		for _, b := range types {
			for dir := range dirNames {
				a.dir, b.dir = dir, dir
				sa, sb := wireStream{a, []int{2}}, wireStream{b, []int{2}}
				la, lb := newItem(a).nsteps(wireCuts(build(a.msgs, a.enc), sa.extra)), newItem(b).nsteps(wireCuts(build(b.msgs, b.enc), sb.extra))
				if dir == dirS2C {
					la, lb = la-1, lb-1
				}
				if thorough {
					merges([]int{la, lb}, func(order []int) {
						out = append(out, wireCase{streams: []wireStream{sa, sb}, order: append([]int{}, order...)})
					})
				} else {
					var rr []int
					for i := 0; i < la || i < lb; i++ {
						if i < la {
							rr = append(rr, 0)
						}
						if i < lb {
							rr = append(rr, 1)
						}
					}
					out = append(out, wireCase{streams: []wireStream{sa, sb}}, wireCase{streams: []wireStream{sa, sb}, order: rr})
				}
			}
		}
	}
	// two streams that together exceed the connection window, frames alternating
	for dir := range dirNames {
		for _, lazy := range []bool{false, true} {
			for _, second := range []config{{msgs: []msgSpec{{70000, false}}, enc: encIdentity, pl: plLast, ct: "application/grpc"}, {msgs: []msgSpec{{70000, false}}, enc: encIdentity, pl: plLast, ct: "application/json"}} {
				a := config{msgs: []msgSpec{{70000, false}}, enc: encIdentity, pl: plTrailers, dir: dir, ct: "application/grpc"}
				b := second
				b.dir = dir
				la, lb := newItem(a).nsteps(wireCuts(build(a.msgs, a.enc), nil)), newItem(b).nsteps(wireCuts(build(b.msgs, b.enc), nil))
				if dir == dirS2C {
					la, lb = la-1, lb-1
				}
				var rr []int
				for i := 0; i < la || i < lb; i++ {
					if i < la {
						rr = append(rr, 0)
					}
					if i < lb {
						rr = append(rr, 1)
					}
				}
				out = append(out, wireCase{streams: []wireStream{{a, nil}, {b, nil}}, order: rr, p: wireParams{Lazy: lazy}})
			}
		}
	}
	return out
}

// straddleCuts cuts inside every prefix and inside every payload, never at a message boundary: whatever
// number of DATA frames has been sent, a message is in flight.
func straddleCuts(b *built) []int {
	var cuts []int
	for i := range b.starts {
		cuts = append(cuts, b.starts[i]+2)
		if n := b.ends[i] - b.starts[i] - 5; n >= 2 {
			cuts = append(cuts, b.starts[i]+5+n/2)
		}
	}
	return cuts
}

func earlyResponseCases(thorough bool) []wireCase {
	var out []wireCase
	type body struct {
		enc  int
		msgs []msgSpec
	}
	reqs := []body{{encIdentity, []msgSpec{{300, false}, {5, false}}}, {encGzip, []msgSpec{{300, true}, {1, false}}}}
	resps := []struct {
		b  body
		pl int
	}{{body{encIdentity, nil}, plHeadersOnly}, {body{encIdentity, nil}, plTrailers}, {body{encGzip, []msgSpec{{5, true}}}, plTrailers}, {body{encIdentity, []msgSpec{{5, false}}}, plLast}}
	if thorough {
		reqs = append(reqs, body{encSnappy, []msgSpec{{5, true}, {300, true}, {0, false}}}, body{encDeflate, []msgSpec{{1, false}, {300, true}}})
	}
	for _, rq := range reqs {
		for _, pl := range []int{plLast, plSeparate} {
			a := config{msgs: rq.msgs, enc: rq.enc, pl: pl, dir: dirC2S, ct: "application/grpc"}
			ex := straddleCuts(build(a.msgs, a.enc))
			frames := len(ex) + 1
			if pl == plLast {
				frames-- // the last chunk carries END_STREAM: the answer comes before it at the latest
			}
			for _, rs := range resps {
				b := config{msgs: rs.b.msgs, enc: rs.b.enc, pl: rs.pl, dir: dirS2C, ct: "application/grpc"}
				for after := 0; after <= frames; after++ {
					out = append(out, wireCase{streams: []wireStream{{a, ex}}, resp: &wireStream{b, []int{2}}, p: wireParams{EarlyResponse: true, After: after}})
				}
			}
		}
	}
	return out
}

func (c *wireCase) prepare() ([]*item, [][]int) {
	var items []*item
	var cuts [][]int
	for _, s := range c.streams {
		it := newItem(s.cfg)
		ex := append([]int{}, s.extra...)
		for i, e := range ex {
			if e < 0 {
				ex[i] = len(it.b.stream) + e
			}
		}
		items = append(items, it)
		cuts = append(cuts, wireCuts(it.b, ex))
	}
	return items, cuts
}

// judgeWire runs a case and files, per stream, the symptoms that the same stream does not show at the
// processor level on a fresh factory (those keep their own signature there).
func (w *wireWorld) judgeWire(c *wireCase) (out *wireOutcome, found []symptom, cs Case) {
	items, cuts := c.prepare()
	out = w.runWire(c, items, cuts)
	cs = c.toCase(items, cuts)
	if out.setupErr != "" {
		return out, []symptom{{"wire:setup_failed", out.setupErr}}, cs
	}
	items, cuts = append(items, out.extraItems...), append(cuts, out.extraCuts...)
	for k, syms := range out.perStream {
		solo := map[string]bool{}
		if c.p.Factories == "" || c.p.Factories == "chain2" {
			for _, sy := range newItem(items[k].cfg).eval(cuts[k]) {
				solo[sy.sig] = true
			}
		}
		for _, sy := range syms {
			if solo[sy.sig] {
				continue
			}
			desc := sy.desc
			if c.resp != nil {
				desc = fmt.Sprintf("%s half of a stream that the server ends after the client's DATA frame #%d while the client goes on sending: %s", dirNames[k], c.p.After, desc)
			} else if len(items) > 1 {
				desc = fmt.Sprintf("stream %d of %d sharing one connection: %s", 2*k+1, len(items), desc)
			}
			found = append(found, symptom{"wire:" + sy.sig, "through the real h2.Config.Proxy relay: " + desc})
		}
	}
	return out, found, cs
}

// ---- execution in worker subprocesses ----
//
// A panic in one of the relay's goroutines cannot be recovered here and would take the whole check down, so
// the wire cases run in shard subprocesses, one case at a time each; a shard that dies is attributed to the
// case it was running (recorded before the case starts) and restarted behind it.

type wireLine struct {
	K       int
	Frames  int
	Hung    bool
	Streams int
	Lazy    bool
	Found   []wireSym
	Case    Case
	Skipped int
}

type wireSym struct{ Sig, Desc string }

const wireShards = 16

// wireShardMain is the body of a shard subprocess (C11_WIRE_SHARD=i/n).
func wireShardMain(spec string, thorough bool) {
	var i, n, from int
	fmt.Sscanf(spec, "%d/%d/%d", &i, &n, &from)
	mlog.SetLevel(mlog.Silent)
	cases := wireCases(thorough)
	outPath := os.Getenv("C11_WIRE_OUT")
	out, err := os.OpenFile(outPath, os.O_APPEND|os.O_CREATE|os.O_WRONLY, 0o644)
	if err != nil {
		fmt.Fprintln(os.Stderr, err)
		os.Exit(3)
	}
	var deadline time.Time
	if v, _ := strconv.ParseInt(os.Getenv("C11_WIRE_DEADLINE"), 10, 64); v > 0 {
		deadline = time.Unix(v, 0)
	}
	enc := json.NewEncoder(out)
	hung, skipped := 0, 0
	for k := range cases {
		if k%n != i || k < from {
			continue
		}
		if hung >= 2 || (!deadline.IsZero() && time.Now().After(deadline)) {
			skipped++
			continue
		}
		os.WriteFile(outPath+".prog", []byte(strconv.Itoa(k)), 0o644)
		w, err := newWireWorld()
		if err != nil {
			enc.Encode(wireLine{K: k, Found: []wireSym{{"wire:setup_failed", "loopback listener: " + err.Error()}}})
			continue
		}
		c := &cases[k]
		res, found, cs := w.judgeWire(c)
		w.ln.Close()
		if res.hung {
			hung++
		}
		line := wireLine{K: k, Frames: res.frames, Hung: res.hung, Streams: len(c.streams), Lazy: c.p.Lazy, Case: cs}
		for _, sy := range found {
			line.Found = append(line.Found, wireSym{sy.sig, sy.desc})
		}
		enc.Encode(line)
	}
	if skipped > 0 {
		enc.Encode(wireLine{K: -1, Skipped: skipped})
	}
	os.Remove(outPath + ".prog")
	out.Close()
}

func runWireFamily(rep *lib.Report, thorough bool, expired func() bool, deadline time.Time, mu *sync.Mutex, viol map[string]*vbest) string {
	cases := wireCases(thorough)
	note := fmt.Sprintf("wire (through the real h2.Config.Proxy, raw frame-level client and TLS server, in worker subprocesses): %d cases = single streams over payload sizes around 16384-5, 2x16384-5, 65535-5, 70000 and 262139 x encodings/flags x END_STREAM placements x both directions x extra source cuts x destination window policy {credit at once, credit only when less than a frame fits}%s; "+
		"one-sided/absent/chained processor factories; pairs of concurrent streams of one direction (%s), two 70000-byte streams alternating under one connection window",
		len(cases), map[bool]string{false: "", true: " x destination MAX_FRAME_SIZE {16384, 20000}"}[thorough], map[bool]string{false: "sequential and round-robin", true: "every interleaving"}[thorough])
	if countOnly {
		rep.Count("evaluations", int64(len(cases)))
		rep.Count("wire_cases", int64(len(cases)))
		return note
	}
	if expired() {
		return note
	}
	dir := filepath.Join(lib.Root, ".build", "c11", "wire")
	if os.Getenv("VERIF_ALT_REPO") != "" {
		dir = filepath.Join(lib.Root, ".build", "alt-out", "c11-wire")
	}
	os.MkdirAll(dir, 0o755)
	record := func(sig, desc string, cs Case, key []int) {
		v := viol[sig]
		if v == nil {
			v = &vbest{}
			viol[sig] = v
		}
		v.count++
		if v.key == nil || less(key, v.key) {
			v.key, v.desc, v.cs = key, desc, cs
		}
	}
	var wg sync.WaitGroup
	for i := 0; i < wireShards; i++ {
		wg.Add(1)
		go func(i int) {
			defer wg.Done()
			outPath := filepath.Join(dir, fmt.Sprintf("shard-%d.jsonl", i))
			os.Remove(outPath)
			os.Remove(outPath + ".prog")
			from := 0
			for restarts := 0; ; restarts++ {
				cmd := exec.Command(os.Args[0], os.Args[1:]...)
				cmd.Env = append(os.Environ(), fmt.Sprintf("C11_WIRE_SHARD=%d/%d/%d", i, wireShards, from), "C11_WIRE_OUT="+outPath,
					"C11_WIRE_DEADLINE="+strconv.FormatInt(deadline.Unix(), 10), "GOMAXPROCS=2")
				b, err := cmd.CombinedOutput()
				if err == nil {
					break
				}
				// the shard died: attribute it to the case it was running
				prog, perr := os.ReadFile(outPath + ".prog")
				k, _ := strconv.Atoi(strings.TrimSpace(string(prog)))
				msg := string(b)
				if p := strings.Index(msg, "panic:"); p >= 0 {
					msg = msg[p:]
				}
				if len(msg) > 600 {
					msg = msg[:600]
				}
				mu.Lock()
				if perr != nil || k < 0 || k >= len(cases) {
					rep.Incomplete = fmt.Sprintf("wire shard %d failed outside a case: %v %s", i, err, msg)
					mu.Unlock()
					break
				}
				c := &cases[k]
				items, cuts := c.prepare()
				rep.Count("cases_violating", 1)
				record("wire:process_crashed", "the process running the real relay died during this case (a panic in a goroutine of the relay or the adapter cannot be recovered): "+msg, c.toCase(items, cuts), []int{len(c.streams), 0, 0, k})
				if restarts >= 3 {
					rep.Incomplete = fmt.Sprintf("wire shard %d abandoned after %d crashes", i, restarts+1)
					mu.Unlock()
					break
				}
				mu.Unlock()
				from = k + 1
			}
			f, err := os.Open(outPath)
			if err != nil {
				return
			}
			defer f.Close()
			dec := json.NewDecoder(f)
			for {
				var l wireLine
				if err := dec.Decode(&l); err != nil {
					break
				}
				mu.Lock()
				if l.K < 0 {
					rep.Incomplete = fmt.Sprintf("wire shard %d skipped %d cases (two cases in which the destination never saw END_STREAM each waited for the hang deadline, or the run's deadline passed)", i, l.Skipped)
					mu.Unlock()
					continue
				}
				rep.Count("evaluations", 1)
				rep.Count("wire_cases", 1)
				rep.Count("wire_streams_judged", int64(l.Streams))
				rep.Count("wire_frames_received_by_endpoints", int64(l.Frames))
				rep.Count("transitions", int64(l.Frames))
				if l.Streams > 1 {
					rep.Count("wire_cases_with_concurrent_streams", 1)
				}
				if l.Lazy {
					rep.Count("wire_cases_window_limited_destination", 1)
				}
				if l.K%211 == 0 {
					rep.Sample(16, map[string]interface{}{"wire_case": l.Case, "frames": l.Frames})
				}
				if len(l.Found) > 0 {
					rep.Count("cases_violating", 1)
				}
				seen := map[string]bool{}
				for _, sy := range l.Found {
					if seen[sy.Sig] {
						continue
					}
					seen[sy.Sig] = true
					L := l.Case.StreamLen
					for _, s := range l.Case.History {
						L += s.StreamLen
					}
					record(sy.Sig, sy.Desc, l.Case, []int{l.Streams, L, len(l.Case.Cuts), l.K})
				}
				mu.Unlock()
			}
		}(i)
	}
	wg.Wait()
	return note
}

func evalWireCase(cs Case) ([]symptom, error) {
	if err := wireTLS(); err != nil {
		return nil, err
	}
	mlog.SetLevel(mlog.Silent)
	c := &wireCase{p: *cs.Wire, order: cs.Order}
	list := cs.History
	if cs.Wire.EarlyResponse && len(list) == 2 {
		rc, err := caseToConfig(list[1])
		if err != nil {
			return nil, err
		}
		c.resp = &wireStream{cfg: rc, extra: list[1].Cuts}
		list = list[:1]
	}
	if len(list) == 0 {
		list = []Case{cs}
	}
	var items []*item
	var cuts [][]int
	for _, s := range list {
		cfg, err := caseToConfig(s)
		if err != nil {
			return nil, err
		}
		c.streams = append(c.streams, wireStream{cfg: cfg})
		it := newItem(cfg)
		it.empties = s.EmptyBefore
		items = append(items, it)
		cuts = append(cuts, s.Cuts)
	}
	w, err := newWireWorld()
	if err != nil {
		return nil, err
	}
	defer w.ln.Close()
	out := w.runWire(c, items, cuts)
	if out.setupErr != "" {
		return []symptom{{"wire:setup_failed", out.setupErr}}, nil
	}
	var found []symptom
	items, cuts = append(items, out.extraItems...), append(cuts, out.extraCuts...)
	for k, syms := range out.perStream {
		solo := map[string]bool{}
		if c.p.Factories == "" || c.p.Factories == "chain2" {
			for _, sy := range newItem(items[k].cfg).eval(cuts[k]) {
				solo[sy.sig] = true
			}
		}
		for _, sy := range syms {
			if !solo[sy.sig] {
				found = append(found, symptom{"wire:" + sy.sig, fmt.Sprintf("stream %d: %s", 2*k+1, sy.desc)})
			}
		}
	}
	return found, nil
}

var _ = strings.HasPrefix
