// C11 — gRPC reframing is invariant to DATA fragmentation and compression.
//
// Every stream of the bounded space (message sequence x per-message compressed flag x grpc-encoding x
// END_STREAM placement x direction x content-type x cut-point set of the length-prefixed byte stream) is
// pushed, frame by frame, through the real adapter/emitter pair built by grpc.AsStreamProcessorFactory around
// a recording pass-through grpc.Processor and two recording h2 sinks (constructed with the verif hook
// h2.NewProcessorsForVerif). Three oracles written from the property statement are evaluated on every case:
//
//	(a) the processor is shown exactly the decompressed source messages, in order; Message(nil,true) after
//	    the last message is accepted as the API's marker for a bare end-of-stream, not as a message;
//	(b) the DATA payloads reaching the sink, concatenated and re-parsed by this file's own length-prefix
//	    parser and decoders for the container the *source* used, give the same messages with the same
//	    compressed flags; END_STREAM reaches the sink exactly once, on the last event; a bare end-of-stream
//	    adds no message;
//	(c) a stream whose content-type is not gRPC reaches the sink byte-identical with identical frame
//	    boundaries and END_STREAM flags.
//
// Nothing is sampled: short streams get all 2^(L-1) cut sets, longer ones all cut sets with <=3 cuts over
// a boundary-focused position set (see positions()).
package main

import (
	"bytes"
	"compress/flate"
	"compress/gzip"
	"compress/zlib"
	"encoding/binary"
	"encoding/json"
	"fmt"
	"io"
	"net/url"
	"os"
	"runtime/debug"
	"sort"
	"strings"
	"sync"
	"sync/atomic"
	"syscall"
	"time"

	"github.com/golang/snappy"
	"github.com/google/martian/v3/h2"
	mgrpc "github.com/google/martian/v3/h2/grpc"
	"golang.org/x/net/http2"
	"golang.org/x/net/http2/hpack"

	"verif/lib"
)

// ---- the enumerated space ----

const (
	encIdentity = iota
	encGzip
	encDeflate
	encSnappy
)

var encNames = []string{"identity", "gzip", "deflate", "snappy"}

const (
	plLast        = iota // END_STREAM on the DATA frame that carries the tail of the last message
	plSeparate           // END_STREAM on a separate empty DATA frame (for zero messages: the only DATA frame)
	plTrailers           // END_STREAM on a trailing HEADERS frame (how gRPC servers end a response)
	plHeadersOnly        // zero messages only: END_STREAM on the initial HEADERS frame, no DATA at all
)

var plNames = []string{"last_data_frame", "separate_empty_data_frame", "trailing_headers", "initial_headers_no_data"}

const (
	dirC2S = iota
	dirS2C
)

var dirNames = []string{"client_to_server", "server_to_client"}

// 16379 = 16384 - 5: prefix plus payload fill a DATA frame of the default maximum size exactly
var sizes = []int{0, 1, 5, 300, 16379, 70000}

type msgSpec struct {
	Size       int
	Compressed bool
}

// Case is one fully determined scenario (also the replay format).
type Case struct {
	Sizes       []int  `json:"sizes,omitempty"`
	Compressed  []bool `json:"compressed_flags,omitempty"`
	Encoding    string `json:"grpc_encoding,omitempty"`
	EndStream   string `json:"end_stream_on,omitempty"`
	Direction   string `json:"direction,omitempty"`
	ContentType string `json:"content_type,omitempty"`
	Cuts        []int  `json:"cuts,omitempty"`
	StreamLen   int    `json:"stream_len,omitempty"`
	// value of the grpc-encoding header when it is not the encoding's own name: "-" = header absent
	EncodingHeader        string `json:"grpc_encoding_header,omitempty"`
	HeaderOrder           int    `json:"header_order,omitempty"` // see config.hdrOrder
	ResponseOnlyProcessor bool   `json:"response_only_processor,omitempty"`
	// chunk indexes (0..number of chunks) before which an empty DATA frame without END_STREAM is inserted
	EmptyBefore []int `json:"empty_data_frame_before_chunk,omitempty"`
	// duplex: History holds the client->server and the server->client half of ONE stream
	Duplex bool `json:"duplex,omitempty"`
	// wire family: the case runs through the real h2.Config.Proxy (see wire.go)
	Wire *wireParams `json:"wire,omitempty"`
	// multi-stream histories: the streams created, in order, on ONE factory and the order of their calls
	History []Case `json:"history,omitempty"`
	Order   []int  `json:"call_order,omitempty"`
	// afterabort family (round7.go): History[0] ends abnormally as described here, then History[1] runs
	Abort *abortParams `json:"abort,omitempty"`
	// largemsg family (round7.go): a symptom counts only if the same stream with a 300-byte message does not show it
	LargeMsg bool `json:"large_message_family,omitempty"`
}

type config struct {
	msgs []msgSpec
	enc  int
	pl   int
	dir  int
	ct   string
	// hdrOrder: position of grpc-encoding relative to content-type in the header block that carries both:
	// 0 content-type, grpc-encoding (adjacent); 1 grpc-encoding, content-type (adjacent); 2 grpc-encoding, other
	// fields, content-type; 3 content-type, other fields, grpc-encoding
	hdrOrder int
	// respOnly: the factory returns a processor for the server->client direction only (the request is not seen
	// by any adapter, so the response headers alone decide whether the stream is gRPC)
	respOnly bool
	encHdr   string // "" = the encoding's own name; "-" = no grpc-encoding header; "<empty>" = empty value; else the literal value
}

func (c config) encHeader() (string, bool) {
	switch c.encHdr {
	case "":
		return encNames[c.enc], true
	case "-":
		return "", false
	case "<empty>":
		return "", true
	}
	return c.encHdr, true
}

// isGRPC follows the content-type grammar of the gRPC-over-HTTP/2 specification the package cites:
// "application/grpc" [("+proto" / "+json" / {custom})]. "application/grpc-web..." is a different protocol.
func (it *item) caseOf(cuts []int) Case {
	cs := it.cfg.toCase(cuts, len(it.b.stream))
	cs.EmptyBefore = append([]int{}, it.empties...)
	return cs
}

func (c config) isGRPC() bool {
	return c.ct == "application/grpc" || strings.HasPrefix(c.ct, "application/grpc+") || strings.HasPrefix(c.ct, "application/grpc;")
}

func (c config) toCase(cuts []int, L int) Case {
	cs := Case{Encoding: encNames[c.enc], EncodingHeader: c.encHdr, HeaderOrder: c.hdrOrder, ResponseOnlyProcessor: c.respOnly, EndStream: plNames[c.pl], Direction: dirNames[c.dir], ContentType: c.ct, Cuts: append([]int{}, cuts...), StreamLen: L, Sizes: []int{}, Compressed: []bool{}}
	for _, m := range c.msgs {
		cs.Sizes = append(cs.Sizes, m.Size)
		cs.Compressed = append(cs.Compressed, m.Compressed)
	}
	return cs
}

func caseToConfig(cs Case) (config, error) {
	var c config
	if len(cs.Sizes) != len(cs.Compressed) {
		return c, fmt.Errorf("sizes/compressed_flags length mismatch")
	}
	for i := range cs.Sizes {
		c.msgs = append(c.msgs, msgSpec{cs.Sizes[i], cs.Compressed[i]})
	}
	find := func(names []string, s string) int {
		for i, n := range names {
			if n == s {
				return i
			}
		}
		return -1
	}
	c.enc, c.pl, c.dir, c.ct, c.encHdr = find(encNames, cs.Encoding), find(plNames, cs.EndStream), find(dirNames, cs.Direction), cs.ContentType, cs.EncodingHeader
	c.hdrOrder, c.respOnly = cs.HeaderOrder, cs.ResponseOnlyProcessor
	if c.enc < 0 || c.pl < 0 || c.dir < 0 {
		return c, fmt.Errorf("bad encoding/end_stream_on/direction in replay")
	}
	return c, nil
}

// plainMsg is the i-th application message of the given size: deterministic, different for every index so
// that reordering or duplication is visible, compressible so that the 70 000-byte messages stay cheap.
func plainMsg(i, size int) []byte {
	b := make([]byte, size)
	for j := range b {
		b[j] = byte(0x41 + i*29 + (j%251)*7 + (j>>12)*13)
	}
	return b
}

// ---- independent codecs (source side and sink side); never martian's ----

func encodeSrc(enc int, plain []byte) []byte {
	var buf bytes.Buffer
	switch enc {
	case encIdentity:
		return plain
	case encGzip:
		w, _ := gzip.NewWriterLevel(&buf, gzip.BestSpeed) // a level martian does not use: wire bytes differ from its re-encoding
		w.Write(plain)
		w.Close()
	case encDeflate: // the repository's convention: raw DEFLATE (compress/flate), no zlib wrapper
		w, _ := flate.NewWriter(&buf, flate.BestSpeed)
		w.Write(plain)
		w.Close()
	case encSnappy: // framing ("stream") format, the only snappy container the adapter can decode
		w := snappy.NewBufferedWriter(&buf)
		w.Write(plain)
		w.Close()
	}
	return buf.Bytes()
}

func decodeAs(enc int, payload []byte) ([]byte, error) {
	switch enc {
	case encIdentity:
		return payload, nil
	case encGzip:
		r, err := gzip.NewReader(bytes.NewReader(payload))
		if err != nil {
			return nil, err
		}
		return io.ReadAll(r)
	case encDeflate:
		return io.ReadAll(flate.NewReader(bytes.NewReader(payload)))
	case encSnappy:
		return io.ReadAll(snappy.NewReader(bytes.NewReader(payload)))
	}
	return nil, fmt.Errorf("unknown encoding")
}

// otherContainer names a container, different from the source's, in which payload decodes to want.
func otherContainer(payload, want []byte) string {
	if bytes.Equal(payload, want) {
		return "uncompressed"
	}
	if d, err := snappy.Decode(nil, payload); err == nil && bytes.Equal(d, want) {
		return "snappy_block_format"
	}
	if d, err := decodeAs(encSnappy, payload); err == nil && bytes.Equal(d, want) {
		return "snappy_stream_format"
	}
	if d, err := decodeAs(encGzip, payload); err == nil && bytes.Equal(d, want) {
		return "gzip"
	}
	if r, err := zlib.NewReader(bytes.NewReader(payload)); err == nil {
		if d, err := io.ReadAll(r); err == nil && bytes.Equal(d, want) {
			return "zlib"
		}
	}
	if d, err := decodeAs(encDeflate, payload); err == nil && bytes.Equal(d, want) {
		return "raw_deflate"
	}
	return "unknown"
}

// built is the source byte stream of a (sequence, encoding).
type built struct {
	plain  [][]byte
	wire   [][]byte // payload as on the source wire
	flags  []bool
	starts []int // offset of each 5-byte prefix
	ends   []int // offset one past each message
	stream []byte
}

func build(msgs []msgSpec, enc int) *built {
	b := &built{}
	for i, m := range msgs {
		p := plainMsg(i, m.Size)
		w := p
		if m.Compressed {
			w = encodeSrc(enc, p)
		}
		b.plain = append(b.plain, p)
		b.wire = append(b.wire, w)
		b.flags = append(b.flags, m.Compressed)
		b.starts = append(b.starts, len(b.stream))
		var pre [5]byte
		if m.Compressed {
			pre[0] = 1
		}
		binary.BigEndian.PutUint32(pre[1:], uint32(len(w)))
		b.stream = append(b.stream, pre[:]...)
		b.stream = append(b.stream, w...)
		b.ends = append(b.ends, len(b.stream))
	}
	return b
}

// positions is the boundary-focused cut position set of a long stream: every offset within radius of the start of
// a length prefix, of the end of a length prefix and of the end of a message, plus every multiple of the
// default HTTP/2 max frame size.
func (b *built) positions(radius int) []int {
	L := len(b.stream)
	set := map[int]bool{}
	add := func(p int) {
		if p >= 1 && p <= L-1 {
			set[p] = true
		}
	}
	for i := range b.starts {
		for d := -radius; d <= radius; d++ {
			add(b.starts[i] + d)
			add(b.starts[i] + 5 + d)
			add(b.ends[i] + d)
		}
	}
	for p := 16384; p < L; p += 16384 {
		add(p)
	}
	var out []int
	for p := range set {
		out = append(out, p)
	}
	sort.Ints(out)
	return out
}

// ---- recorders ----

type sinkEvent struct {
	kind byte // 'H' header, 'D' data, 'P' priority, 'R' rst, 'U' push promise
	data []byte
	end  bool
	hdr  []hpack.HeaderField
	prio http2.PriorityParam
}

type sinkRec struct{ ev []sinkEvent }

func (s *sinkRec) Data(data []byte, end bool) error {
	s.ev = append(s.ev, sinkEvent{kind: 'D', data: append([]byte{}, data...), end: end})
	return nil
}
func (s *sinkRec) Header(h []hpack.HeaderField, end bool, p http2.PriorityParam) error {
	s.ev = append(s.ev, sinkEvent{kind: 'H', hdr: append([]hpack.HeaderField{}, h...), end: end, prio: p})
	return nil
}
func (s *sinkRec) Priority(http2.PriorityParam) error {
	s.ev = append(s.ev, sinkEvent{kind: 'P'})
	return nil
}
func (s *sinkRec) RSTStream(http2.ErrCode) error {
	s.ev = append(s.ev, sinkEvent{kind: 'R'})
	return nil
}
func (s *sinkRec) PushPromise(uint32, []hpack.HeaderField) error {
	s.ev = append(s.ev, sinkEvent{kind: 'U'})
	return nil
}

type procCall struct {
	kind  byte // 'H' or 'M'
	end   bool
	isNil bool
	n     int
	eq    bool // 'M': data equals the expected message with the same ordinal
	hdr   []hpack.HeaderField
}

// procRec is the recording pass-through grpc.Processor.
type procRec struct {
	mu     sync.Mutex // the wire family calls from the relay's goroutines
	dest   mgrpc.Processor
	expect [][]byte
	nmsg   int
	calls  []procCall
}

func (p *procRec) Header(h []hpack.HeaderField, end bool, prio http2.PriorityParam) error {
	p.mu.Lock()
	p.calls = append(p.calls, procCall{kind: 'H', end: end, hdr: append([]hpack.HeaderField{}, h...)})
	p.mu.Unlock()
	return p.dest.Header(h, end, prio)
}

func (p *procRec) Message(data []byte, end bool) error {
	p.mu.Lock()
	c := procCall{kind: 'M', end: end, isNil: data == nil, n: len(data)}
	marker := data == nil && end && p.nmsg >= len(p.expect)
	if !marker {
		if p.nmsg < len(p.expect) {
			c.eq = bytes.Equal(data, p.expect[p.nmsg])
		}
		p.nmsg++
	}
	p.calls = append(p.calls, c)
	p.mu.Unlock()
	return p.dest.Message(data, end)
}

// ---- one item = one configuration, all its cut sets ----

type symptom struct{ sig, desc string }

type sinkVerdict struct {
	concat []byte
	syms   []symptom
}

type vbest struct {
	count int64
	key   []int
	desc  string
	cs    Case
}

type item struct {
	cfg      config
	b        *built
	hdr0     []hpack.HeaderField
	pre      []hpack.HeaderField // request headers sent first when the direction under test is server->client
	trailers []hpack.HeaderField
	verdicts []*sinkVerdict
	empties  []int // chunk indexes before which an empty, non-final DATA frame is inserted (see source)
	bypass   bool  // wire family: the direction under test has no gRPC processor, the stream must pass untouched

	evals, calls, nontrivial, prefixSplit, payloadSplit, multiMsgFrame, violating int64
	viol                                                                          map[string]*vbest
}

var prio = http2.PriorityParam{StreamDep: 3, Weight: 7}
var theURL, _ = url.Parse("https://example.com/svc.Test/Method")

func newItem(cfg config) *item {
	it := &item{cfg: cfg, b: build(cfg.msgs, cfg.enc), viol: map[string]*vbest{}}
	// middle lays out content-type, grpc-encoding and the other regular fields in the configured order
	middle := func(order int, ct, enc string, withEnc bool, others []hpack.HeaderField) []hpack.HeaderField {
		ctf := hpack.HeaderField{Name: "content-type", Value: ct}
		var encf []hpack.HeaderField
		if withEnc {
			encf = []hpack.HeaderField{{Name: "grpc-encoding", Value: enc}}
		}
		var h []hpack.HeaderField
		switch order {
		case 1:
			h = append(append(append(h, encf...), ctf), others...)
		case 2:
			h = append(append(append(h, encf...), others...), ctf)
		case 3:
			h = append(append(append(h, ctf), others...), encf...)
		default:
			h = append(append(append(h, ctf), encf...), others...)
		}
		return h
	}
	req := func(order int, ct, enc string, withEnc bool) []hpack.HeaderField {
		h := []hpack.HeaderField{{Name: ":method", Value: "POST"}, {Name: ":scheme", Value: "https"}, {Name: ":path", Value: "/svc.Test/Method"}, {Name: ":authority", Value: "example.com"}}
		others := []hpack.HeaderField{{Name: "te", Value: "trailers"}}
		if order != 0 {
			others = append(others, hpack.HeaderField{Name: "user-agent", Value: "c11/1.0"}, hpack.HeaderField{Name: "x-trace", Value: "abc"})
		}
		return append(h, middle(order, ct, enc, withEnc, others)...)
	}
	encVal, withEnc := cfg.encHeader()
	if cfg.dir == dirC2S {
		it.hdr0 = req(cfg.hdrOrder, cfg.ct, encVal, withEnc)
	} else {
		// the request direction announces a *different* encoding: the two directions keep separate state
		other := "gzip"
		if cfg.enc == encGzip {
			other = "deflate"
		}
		it.pre = req(0, cfg.ct, other, true)
		var others []hpack.HeaderField
		if cfg.hdrOrder != 0 {
			others = []hpack.HeaderField{{Name: "server", Value: "c11"}, {Name: "x-trace", Value: "abc"}}
		}
		it.hdr0 = append([]hpack.HeaderField{{Name: ":status", Value: "200"}}, middle(cfg.hdrOrder, cfg.ct, encVal, withEnc, others)...)
		if cfg.pl == plHeadersOnly {
			// a Trailers-Only response: the status travels in the only HEADERS frame, which ends the stream
			it.hdr0 = append(it.hdr0, hpack.HeaderField{Name: "grpc-status", Value: "12"}, hpack.HeaderField{Name: "grpc-message", Value: "unimplemented"})
		}
	}
	it.trailers = []hpack.HeaderField{{Name: "grpc-status", Value: "0"}, {Name: "grpc-message", Value: ""}}
	return it
}

type srcEvent struct {
	isHdr bool
	hdr   []hpack.HeaderField
	data  []byte
	end   bool
}

func (it *item) source(cuts []int) []srcEvent {
	cfg, b := it.cfg, it.b
	ev := []srcEvent{{isHdr: true, hdr: it.hdr0, end: cfg.pl == plHeadersOnly}}
	var chunks [][]byte
	if len(b.stream) > 0 {
		chunks = lib.Split(b.stream, cuts)
	}
	for i := 0; i <= len(chunks); i++ {
		for _, e := range it.empties {
			if e == i && cfg.pl != plHeadersOnly && !(cfg.pl == plLast && i == len(chunks)) {
				ev = append(ev, srcEvent{data: []byte{}}) // an empty DATA frame that does not end the stream
			}
		}
		if i < len(chunks) {
			ev = append(ev, srcEvent{data: chunks[i], end: cfg.pl == plLast && i == len(chunks)-1})
		}
	}
	switch cfg.pl {
	case plSeparate:
		ev = append(ev, srcEvent{data: []byte{}, end: true})
	case plTrailers:
		ev = append(ev, srcEvent{isHdr: true, hdr: it.trailers, end: true})
	}
	return ev
}

func hdrEq(a, b []hpack.HeaderField) bool {
	if len(a) != len(b) {
		return false
	}
	for i := range a {
		if a[i].Name != b[i].Name || a[i].Value != b[i].Value {
			return false
		}
	}
	return true
}

func errClass(err error) string {
	s := err.Error()
	if strings.HasPrefix(s, "unrecognized grpc-encoding") {
		return "unrecognized_grpc_encoding"
	}
	if i := strings.Index(s, ":"); i > 0 {
		s = s[:i]
	}
	s = strings.Map(func(r rune) rune {
		if r == ' ' {
			return '_'
		}
		if (r >= 'a' && r <= 'z') || (r >= 'A' && r <= 'Z') || (r >= '0' && r <= '9') || r == '_' {
			return r
		}
		return -1
	}, s)
	if len(s) > 40 {
		s = s[:40]
	}
	return s
}

// recFactory is the grpc.ProcessorFactory under which every stream gets a fresh recording pass-through
// processor pair; the harness picks the pair up right after the stream's processors have been created.
type recFactory struct {
	lastC, lastS *procRec
	onlyS        bool // hand out a processor for the server->client direction only
}

func (f *recFactory) make(_ *url.URL, server, client mgrpc.Processor) (mgrpc.Processor, mgrpc.Processor) {
	f.lastC, f.lastS = &procRec{dest: server}, &procRec{dest: client}
	if f.onlyS {
		return nil, f.lastS
	}
	return f.lastC, f.lastS
}

func newFactory() (*recFactory, h2.StreamProcessorFactory) {
	rf := &recFactory{}
	return rf, mgrpc.AsStreamProcessorFactory(rf.make)
}

// streamRun is one stream being pushed, call by call, through the processors a factory built for it.
type streamRun struct {
	it           *item
	sinkC, sinkS *sinkRec
	procC, procS *procRec
	c2s, s2c     h2.Processor
	src          []srcEvent
	steps        []func() error
	kinds        []string
	next         int
	dead         bool // setup failed, or a call failed: the relay would have torn the connection down
	duplex       bool // the opposite direction of the same stream carries its own gRPC traffic (judged by its own run)
	syms         []symptom
}

// startDuplex plans the server->client half of a stream whose client->server half is req: same processors,
// same sinks; the request headers are req's first call, so no separate request is made.
func (it *item) startDuplex(req *streamRun, cuts []int) *streamRun {
	r := &streamRun{it: it, sinkC: req.sinkC, sinkS: req.sinkS, procC: req.procC, procS: req.procS, c2s: req.c2s, s2c: req.s2c, duplex: true, dead: req.dead}
	req.duplex = true
	if r.dead {
		return r
	}
	r.procS.expect = it.b.plain
	r.src = it.source(cuts)
	for _, e := range r.src {
		e := e
		if e.isHdr {
			r.steps = append(r.steps, func() error { return r.s2c.Header(e.hdr, e.end, prio) })
			r.kinds = append(r.kinds, "header")
		} else {
			r.steps = append(r.steps, func() error { return r.s2c.Data(e.data, e.end) })
			r.kinds = append(r.kinds, "data")
		}
	}
	return r
}

// start creates the stream's processors (what the relay does on the stream's first frame) and plans its calls.
func (it *item) start(rf *recFactory, factory h2.StreamProcessorFactory, cuts []int) *streamRun {
	r := &streamRun{it: it, sinkC: &sinkRec{}, sinkS: &sinkRec{}}
	rf.lastC, rf.lastS = nil, nil
	rf.onlyS = it.cfg.respOnly
	func() {
		defer func() {
			if p := recover(); p != nil {
				r.syms = append(r.syms, symptom{"setup:panic", fmt.Sprintf("the stream processor factory panicked: %v", p)})
			}
		}()
		r.c2s, r.s2c = factory(theURL, h2.NewProcessorsForVerif(r.sinkC, r.sinkS))
	}()
	r.procC, r.procS = rf.lastC, rf.lastS
	if r.c2s == nil && it.cfg.respOnly && r.s2c != nil {
		r.c2s = r.sinkC // what h2.go does with a nil processor: the direction goes straight to the relay
	}
	if len(r.syms) > 0 || r.c2s == nil || r.s2c == nil || r.procC == nil || r.procS == nil {
		if len(r.syms) == 0 {
			r.syms = append(r.syms, symptom{"setup:nil_processor", "factory returned a nil h2.Processor for a non-nil grpc.Processor"})
		}
		r.dead = true
		return r
	}
	put, proc := r.c2s, r.procC
	if it.cfg.dir == dirS2C {
		put, proc = r.s2c, r.procS
	}
	proc.expect = it.b.plain
	r.src = it.source(cuts)
	if it.cfg.dir == dirS2C {
		r.steps = append(r.steps, func() error { return r.c2s.Header(it.pre, false, prio) })
		r.kinds = append(r.kinds, "header")
	}
	for _, e := range r.src {
		e := e
		if e.isHdr {
			r.steps = append(r.steps, func() error { return put.Header(e.hdr, e.end, prio) })
			r.kinds = append(r.kinds, "header")
		} else {
			r.steps = append(r.steps, func() error { return put.Data(e.data, e.end) })
			r.kinds = append(r.kinds, "data")
		}
	}
	return r
}

// nsteps is the number of processor calls the stream consists of (known without running it).
func (it *item) nsteps(cuts []int) int {
	n := len(it.source(cuts))
	if it.cfg.dir == dirS2C {
		n++
	}
	return n
}

// step makes the stream's next processor call on the implementation (one call per source frame).
func (r *streamRun) step() {
	if r.dead || r.next >= len(r.steps) {
		return
	}
	what, f := r.kinds[r.next], r.steps[r.next]
	r.next++
	var err error
	var pan interface{}
	func() {
		defer func() {
			if p := recover(); p != nil {
				pan = p
			}
		}()
		err = f()
	}()
	r.it.calls++
	if pan != nil {
		r.syms = append(r.syms, symptom{"impl:" + what + ":panic", fmt.Sprintf("%s call panicked: %v", what, pan)})
		r.dead = true
	} else if err != nil {
		r.syms = append(r.syms, symptom{"impl:" + what + ":error:" + errClass(err), fmt.Sprintf("%s call on a well-formed stream returned error %q (the relay would tear the connection down)", what, err)})
		r.dead = true
	}
}

// finish applies the oracles to what the recorders saw.
func (r *streamRun) finish() []symptom {
	it := r.it
	cfg, b, syms, src := it.cfg, it.b, r.syms, r.src
	if r.dead {
		return syms
	}
	sink, proc, otherSink, otherProc := r.sinkC, r.procC, r.sinkS, r.procS
	if cfg.dir == dirS2C {
		sink, proc, otherSink, otherProc = r.sinkS, r.procS, r.sinkC, r.procC
	}

	// the other direction must only have seen the request headers (server->client cases) or nothing
	wantOther := 0
	if cfg.dir == dirS2C {
		wantOther = 1
	}
	if r.duplex {
		wantOther = -1 // judged by the other half's own run
	} else if len(otherSink.ev) != wantOther || (wantOther == 1 && !(otherSink.ev[0].kind == 'H' && hdrEq(otherSink.ev[0].hdr, it.pre) && !otherSink.ev[0].end)) {
		syms = append(syms, symptom{"cross_direction:sink_events", fmt.Sprintf("the opposite direction's sink saw %d events, want %d", len(otherSink.ev), wantOther)})
	}

	if !cfg.isGRPC() || it.bypass {
		// oracle (c)
		if d := diffPassThrough(src, sink.ev); d != "" {
			syms = append(syms, symptom{"nongrpc:sink_differs_from_source", d})
		}
		return syms
	}
	if cfg.ct != "application/grpc" && len(proc.calls) == 0 && diffPassThrough(src, sink.ev) == "" {
		return append(syms, symptom{"detect:content_type_with_subtype:stream_not_processed",
			fmt.Sprintf("content-type %q is a gRPC content-type (application/grpc[+subtype]) but the stream was relayed as non-gRPC: the processor saw no header and none of the %d messages", cfg.ct, len(b.plain))})
	}
	if cfg.respOnly && cfg.dir == dirS2C && wantOther == 1 {
		wantOther = 0 // no processor sits in the request direction
	}
	if wantOther >= 0 && len(otherProc.calls) != wantOther {
		syms = append(syms, symptom{"cross_direction:processor_calls", fmt.Sprintf("the opposite direction's processor saw %d calls, want %d", len(otherProc.calls), wantOther)})
	}
	syms = append(syms, it.checkProcessor(proc)...)
	procMissing := false
	for _, s := range syms {
		if strings.HasPrefix(s.sig, "proc:missing_message") {
			procMissing = true
		}
	}
	for _, s := range it.checkSink(sink) {
		// consequences of a loss already reported at the processor are the same defect: not reported twice
		if procMissing && (strings.HasPrefix(s.sig, "sink:missing_message") || s.sig == "sink:end_stream_missing") {
			continue
		}
		syms = append(syms, s)
	}
	return syms
}

// eval runs one single-stream case on the real code (fresh factory) and returns the symptoms found.
func (it *item) eval(cuts []int) []symptom {
	rf, factory := newFactory()
	r := it.start(rf, factory, cuts)
	for !r.dead && r.next < len(r.steps) {
		r.step()
	}
	return r.finish()
}

func diffPassThrough(src []srcEvent, got []sinkEvent) string {
	if len(src) != len(got) {
		return fmt.Sprintf("source sent %d frames, sink received %d", len(src), len(got))
	}
	for i, e := range src {
		g := got[i]
		if e.isHdr {
			if g.kind != 'H' || !hdrEq(g.hdr, e.hdr) || g.end != e.end || g.prio != prio {
				return fmt.Sprintf("frame %d: HEADERS differ (kind %c end=%v)", i, g.kind, g.end)
			}
		} else if g.kind != 'D' || !bytes.Equal(g.data, e.data) || g.end != e.end {
			return fmt.Sprintf("frame %d: DATA differs (kind %c, %d bytes end=%v; source %d bytes end=%v)", i, g.kind, len(g.data), g.end, len(e.data), e.end)
		}
	}
	return ""
}

// lastWireEmpty: the last source message has a zero-length wire payload (its frame is the bare 5-byte prefix).
func (it *item) lastWireEmpty() bool {
	n := len(it.b.wire)
	return n > 0 && len(it.b.wire[n-1]) == 0
}

// checkProcessor is oracle (a).
func (it *item) checkProcessor(p *procRec) []symptom {
	var syms []symptom
	cfg, b := it.cfg, it.b
	n := len(b.plain)
	calls := p.calls
	// headers
	wantHdr := 1
	if cfg.pl == plTrailers {
		wantHdr = 2
	}
	nh := 0
	for _, c := range calls {
		if c.kind == 'H' {
			nh++
		}
	}
	if nh != wantHdr || len(calls) == 0 || calls[0].kind != 'H' || !hdrEq(calls[0].hdr, it.hdr0) || calls[0].end != (cfg.pl == plHeadersOnly) {
		syms = append(syms, symptom{"proc:header_calls", fmt.Sprintf("processor saw %d Header calls (want %d, initial headers first and unchanged)", nh, wantHdr)})
	} else if wantHdr == 2 {
		l := calls[len(calls)-1]
		if l.kind != 'H' || !hdrEq(l.hdr, it.trailers) || !l.end {
			syms = append(syms, symptom{"proc:trailers_not_last", "processor did not see the trailing HEADERS (END_STREAM) as its last call"})
		}
	}
	// messages
	ord, markers := 0, 0
	for i, c := range calls {
		if c.kind != 'M' {
			continue
		}
		if c.isNil && c.end && ord >= n {
			markers++
			bare := cfg.pl == plSeparate
			if !bare || i != len(calls)-1 || markers > 1 {
				syms = append(syms, symptom{"proc:spurious_end_marker", fmt.Sprintf("Message(nil,true) call #%d although the source sent no bare END_STREAM DATA frame there", i)})
			}
			continue
		}
		if ord < n && !c.eq {
			syms = append(syms, symptom{"proc:message_content:" + it.encClass(ord), fmt.Sprintf("message #%d shown to the processor has %d bytes and differs from the source message (%d bytes)", ord, c.n, len(b.plain[ord]))})
		}
		ord++
	}
	if ord > n {
		syms = append(syms, symptom{"proc:extra_message", fmt.Sprintf("processor was shown %d messages, the source sent %d", ord, n)})
	}
	if ord < n {
		sig := "proc:missing_message"
		if ord == n-1 && it.lastWireEmpty() {
			sig += ":last_message_with_empty_wire_payload"
		}
		syms = append(syms, symptom{sig, fmt.Sprintf("processor was shown %d of the %d source messages (message #%d, wire payload %d bytes, never delivered)", ord, n, ord, len(b.wire[ord]))})
	}
	// end of stream
	ends, lastEnd := 0, -1
	for i, c := range calls {
		if c.end {
			ends++
			lastEnd = i
		}
	}
	switch {
	case ends == 0 && ord < n: // part of the loss above
	case ends == 0:
		syms = append(syms, symptom{"proc:end_stream_missing", "no processor call carried streamEnded=true"})
	case ends > 1:
		syms = append(syms, symptom{"proc:end_stream_twice", fmt.Sprintf("%d processor calls carried streamEnded=true", ends)})
	case lastEnd != len(calls)-1:
		syms = append(syms, symptom{"proc:end_stream_before_last_call", fmt.Sprintf("streamEnded=true on call %d of %d", lastEnd+1, len(calls))})
	}
	return syms
}

// encClass names what matters for a content symptom of message i: its encoding if it was compressed.
func (it *item) encClass(i int) string {
	if i < len(it.b.flags) && it.b.flags[i] {
		return encNames[it.cfg.enc] + "_compressed"
	}
	return "uncompressed"
}

// checkSink is oracle (b).
func (it *item) checkSink(s *sinkRec) []symptom {
	var syms []symptom
	cfg := it.cfg
	ev := s.ev
	// event structure
	wantHdr := 1
	if cfg.pl == plTrailers {
		wantHdr = 2
	}
	nh, other := 0, 0
	var concat []byte
	for _, e := range ev {
		switch e.kind {
		case 'H':
			nh++
		case 'D':
			concat = append(concat, e.data...)
		default:
			other++
		}
	}
	if other > 0 {
		syms = append(syms, symptom{"sink:unexpected_frame_kind", fmt.Sprintf("%d PRIORITY/RST_STREAM/PUSH_PROMISE events reached the sink", other)})
	}
	if nh != wantHdr || len(ev) == 0 || ev[0].kind != 'H' || !hdrEq(ev[0].hdr, it.hdr0) || ev[0].end != (cfg.pl == plHeadersOnly) || ev[0].prio != prio {
		syms = append(syms, symptom{"sink:header_frames", fmt.Sprintf("sink saw %d HEADERS (want %d, initial headers first and unchanged)", nh, wantHdr)})
	} else if wantHdr == 2 {
		l := ev[len(ev)-1]
		if l.kind != 'H' || !hdrEq(l.hdr, it.trailers) || !l.end {
			syms = append(syms, symptom{"sink:trailers_not_last", "the trailing HEADERS (END_STREAM) is not the last frame at the sink"})
		}
	}
	// END_STREAM exactly once and last
	ends, lastEnd := 0, -1
	for i, e := range ev {
		if e.end {
			ends++
			lastEnd = i
		}
	}
	switch {
	case ends == 0:
		syms = append(syms, symptom{"sink:end_stream_missing", "END_STREAM never reached the sink"})
	case ends > 1:
		syms = append(syms, symptom{"sink:end_stream_twice", fmt.Sprintf("END_STREAM reached the sink %d times", ends)})
	case lastEnd != len(ev)-1:
		syms = append(syms, symptom{"sink:end_stream_before_last_frame", fmt.Sprintf("END_STREAM on sink frame %d of %d (frames follow it)", lastEnd+1, len(ev))})
	}
	// messages: verdicts are cached by the exact sink byte stream
	for _, v := range it.verdicts {
		if bytes.Equal(v.concat, concat) {
			return append(syms, v.syms...)
		}
	}
	v := &sinkVerdict{concat: concat, syms: it.parseSink(concat)}
	if len(it.verdicts) < 8 {
		it.verdicts = append(it.verdicts, v)
	}
	return append(syms, v.syms...)
}

type wireMsg struct {
	flag    byte
	payload []byte
}

// parseLP is the independent length-prefix parser.
func parseLP(stream []byte) (msgs []wireMsg, problem string) {
	pos := 0
	for pos < len(stream) {
		if len(stream)-pos < 5 {
			return msgs, fmt.Sprintf("%d stray bytes after message #%d (shorter than a length prefix)", len(stream)-pos, len(msgs))
		}
		flag := stream[pos]
		n := int(binary.BigEndian.Uint32(stream[pos+1 : pos+5]))
		if flag > 1 {
			return msgs, fmt.Sprintf("message #%d has compressed-flag byte 0x%02x", len(msgs), flag)
		}
		if len(stream)-pos-5 < n {
			return msgs, fmt.Sprintf("message #%d announces %d bytes, only %d follow", len(msgs), n, len(stream)-pos-5)
		}
		msgs = append(msgs, wireMsg{flag, stream[pos+5 : pos+5+n]})
		pos += 5 + n
	}
	return msgs, ""
}

func (it *item) parseSink(concat []byte) []symptom {
	var syms []symptom
	cfg, b := it.cfg, it.b
	n := len(b.plain)
	got, problem := parseLP(concat)
	if problem != "" {
		return []symptom{{"sink:stream_not_length_prefixed", "the sink's DATA bytes do not parse as length-prefixed messages: " + problem}}
	}
	for i := 0; i < len(got) && i < n; i++ {
		g := got[i]
		if (g.flag == 1) != b.flags[i] {
			syms = append(syms, symptom{"sink:compressed_flag_changed", fmt.Sprintf("message #%d: source compressed-flag %v, sink flag byte %d", i, b.flags[i], g.flag)})
			continue
		}
		if g.flag == 0 || cfg.enc == encIdentity {
			if !bytes.Equal(g.payload, b.plain[i]) {
				syms = append(syms, symptom{"sink:message_content:" + it.encClass(i), fmt.Sprintf("message #%d (not compressed): sink payload of %d bytes differs from the source message of %d bytes", i, len(g.payload), len(b.plain[i]))})
			}
			continue
		}
		d, err := decodeAs(cfg.enc, g.payload)
		if err == nil && bytes.Equal(d, b.plain[i]) {
			continue
		}
		if alt := otherContainer(g.payload, b.plain[i]); alt != "unknown" {
			syms = append(syms, symptom{"sink:" + encNames[cfg.enc] + ":container_changed_to_" + alt,
				fmt.Sprintf("message #%d: the source sent grpc-encoding %s; the sink payload (%d bytes) no longer decodes in that container (%v) but does as %s", i, encNames[cfg.enc], len(g.payload), err, alt)})
		} else if err != nil {
			syms = append(syms, symptom{"sink:" + encNames[cfg.enc] + ":payload_undecodable", fmt.Sprintf("message #%d: sink payload of %d bytes does not decode as %s: %v", i, len(g.payload), encNames[cfg.enc], err)})
		} else {
			syms = append(syms, symptom{"sink:message_content:" + it.encClass(i), fmt.Sprintf("message #%d: sink payload decodes to %d bytes that differ from the source message (%d bytes)", i, len(d), len(b.plain[i]))})
		}
	}
	if len(got) > n {
		extra := got[n:]
		emptyAll := true
		for _, g := range extra {
			if len(g.payload) != 0 {
				d, err := decodeAs(cfg.enc, g.payload)
				if alt := otherContainer(g.payload, nil); !(err == nil && len(d) == 0) && alt == "unknown" {
					emptyAll = false
				}
			}
		}
		if cfg.pl == plSeparate && len(extra) == 1 && emptyAll {
			syms = append(syms, symptom{"bare_end_stream:sink_extra_empty_message",
				fmt.Sprintf("the source sent %d message(s) and then an empty DATA frame with END_STREAM; the sink received %d messages: an additional empty message (flag %d, %d payload bytes) that nobody sent", n, len(got), extra[0].flag, len(extra[0].payload))})
		} else {
			syms = append(syms, symptom{"sink:extra_message", fmt.Sprintf("the source sent %d messages, the sink received %d", n, len(got))})
		}
	}
	if len(got) < n {
		sig := "sink:missing_message"
		if len(got) == n-1 && it.lastWireEmpty() {
			sig += ":last_message_with_empty_wire_payload"
		}
		syms = append(syms, symptom{sig, fmt.Sprintf("the source sent %d messages, the sink received %d", n, len(got))})
	}
	return syms
}

// classify updates the coverage counters of a case.
func (it *item) classify(cuts []int) {
	b := it.b
	if !it.cfg.isGRPC() || len(b.plain) == 0 {
		return
	}
	inPrefix, inPayload := false, false
	for _, c := range cuts {
		for i := range b.starts {
			if c > b.starts[i] && c < b.starts[i]+5 {
				inPrefix = true
			} else if c > b.starts[i]+5 && c < b.ends[i] {
				inPayload = true
			}
		}
	}
	if inPrefix {
		it.prefixSplit++
	}
	if inPayload {
		it.payloadSplit++
	}
	if inPrefix || inPayload {
		it.nontrivial++
	}
	// a DATA frame holding (parts of) more than one message
	prev := 0
	bounds := append(append([]int{}, cuts...), len(b.stream))
	for _, c := range bounds {
		k := 0
		for i := range b.starts {
			if b.starts[i] < c && b.ends[i] > prev {
				k++
			}
		}
		if k > 1 {
			it.multiMsgFrame++
			break
		}
		prev = c
	}
}

// baseOnly (C11_ONLY_BASE=1, development aid) runs the check as it was before the audit's families were added:
// used to show that a mutant is caught only because of a new family.
var baseOnly = os.Getenv("C11_ONLY_BASE") != ""

var countOnly = os.Getenv("C11_COUNT") != "" // development aid: enumerate the space without executing it

func (it *item) one(cuts []int) {
	if countOnly {
		it.evals++
		return
	}
	syms := it.eval(cuts)
	it.evals++
	it.classify(cuts)
	it.record(cuts, syms)
}

// record files the symptoms of one case under their signatures, keeping the simplest case of each.
func (it *item) record(cuts []int, syms []symptom) {
	if len(syms) == 0 {
		return
	}
	it.violating++
	L := len(it.b.stream)
	sum := 0
	for _, c := range cuts {
		sum += c
	}
	key := []int{len(it.cfg.msgs), L, len(cuts) + len(it.empties), sum, it.cfg.enc, it.cfg.pl, it.cfg.dir}
	seen := map[string]bool{}
	for _, s := range syms {
		if seen[s.sig] {
			continue
		}
		seen[s.sig] = true
		v := it.viol[s.sig]
		if v == nil {
			v = &vbest{}
			it.viol[s.sig] = v
		}
		v.count++
		k := key
		if strings.HasPrefix(s.sig, "detect:") && len(it.cfg.msgs) == 0 {
			k = append([]int{99}, key[1:]...) // a case with a message illustrates a detection failure better
		}
		if v.key == nil || less(k, v.key) {
			v.key, v.desc, v.cs = k, s.desc, it.caseOf(cuts)
		}
	}
}

func less(a, b []int) bool {
	for i := range a {
		if a[i] != b[i] {
			return a[i] < b[i]
		}
	}
	return false
}

// run enumerates the item's cut sets.
func (it *item) run(maxExhaustive, maxMsgs int, deadline time.Time, timedOut *int32) {
	L := len(it.b.stream)
	switch {
	case L <= 1:
		it.one(nil)
	case L <= maxExhaustive:
		lib.Cuts(L, -1, func(c []int) { it.one(c) })
	default:
		// cut plans (position neighbourhood, cut budget); later plans skip what an earlier one already ran
		type plan struct{ radius, maxCuts int }
		plans := []plan{{2, 3}}
		switch {
		case len(it.cfg.msgs) >= maxMsgs:
			plans = []plan{{1, 2}} // the longest sequences of the tier
		case len(it.cfg.msgs) == 2:
			plans = []plan{{1, 3}, {2, 2}} // two messages (thorough): 3 cuts next to the boundaries, 2 cuts in the wider neighbourhood
		}
		var first map[int]bool
		n := 0
		for pi, pl := range plans {
			pos := it.b.positions(pl.radius)
			buf := make([]int, 0, 3)
			lib.Cuts(len(pos)+1, pl.maxCuts, func(idx []int) {
				n++
				if n&255 == 0 && (atomic.LoadInt32(timedOut) != 0 || time.Now().After(deadline)) {
					atomic.StoreInt32(timedOut, 1)
					return
				}
				buf = buf[:0]
				dup := pi > 0 && len(idx) <= plans[0].maxCuts
				for _, i := range idx {
					buf = append(buf, pos[i-1])
					if dup && !first[pos[i-1]] {
						dup = false
					}
				}
				if !dup {
					it.one(buf)
				}
			})
			if pi == 0 {
				first = map[int]bool{}
				for _, p := range pos {
					first[p] = true
				}
			}
		}
		// the framing an HTTP/2 peer with the default max frame size would produce
		if L > 4*16384 {
			var all []int
			for p := 16384; p < L; p += 16384 {
				all = append(all, p)
			}
			it.one(all)
		}
	}
}

// maxCutsLong is the cut budget of a stream too long for all 2^(L-1) cut sets: 3 cuts, but 2 (over a narrower
// position set, see run) for the longest sequences of the tier: their position sets are the largest and
// every compressed message costs the adapter a fresh ~1 MB compressor. What quick leaves out (2-message
// sequences with 3 cuts and the wider neighbourhood, large messages in longer sequences) thorough covers.
func maxCutsLong(nmsgs, maxMsgs int) int {
	if nmsgs >= maxMsgs {
		return 2
	}
	return 3
}

func configs(maxMsgs int, bigOnlyAlone bool) []config {
	var out []config
	k := len(sizes) * 2
	lib.Sequences(k, maxMsgs, func(seq []int) {
		var msgs []msgSpec
		for _, s := range seq {
			msgs = append(msgs, msgSpec{sizes[s/2], s%2 == 1})
		}
		if bigOnlyAlone && len(msgs) > 1 {
			// quick tier: the 70 000-byte message appears in single-message sequences only
			for _, m := range msgs {
				if m.Size == 70000 || m.Size == 16379 {
					return
				}
			}
		}
		if len(msgs) > 2 {
			for _, m := range msgs {
				if m.Size == 16379 || m.Size == 70000 {
					return // thorough: sequences of three messages draw from {0, 1, 5, 300} (time budget)
				}
			}
		}
		pls := []int{plLast, plSeparate, plTrailers}
		if len(msgs) == 0 {
			pls = []int{plSeparate, plHeadersOnly, plTrailers}
		}
		for enc := range encNames {
			for _, pl := range pls {
				for dir := range dirNames {
					cts := []string{"application/grpc", "application/json"}
					if len(msgs) <= 1 { // content-type detection variants, on the short sequences only
						cts = append(cts, "application/grpc+proto", "application/grpc-web")
					}
					for _, ct := range cts {
						out = append(out, config{msgs: msgs, enc: enc, pl: pl, dir: dir, ct: ct})
					}
					if enc == encIdentity && len(msgs) <= 1 && !baseOnly {
						// identity announced by the absence of a grpc-encoding header
						out = append(out, config{msgs: msgs, enc: enc, pl: pl, dir: dir, ct: "application/grpc", encHdr: "-"})
					}
				}
			}
		}
	})
	return out
}

// ---- multi-stream histories: several streams on ONE factory, their calls interleaved ----
//
// AsStreamProcessorFactory returns one factory per proxy configuration; the relay calls it once per stream.
// Every stream must obey the single-stream oracles whatever other streams the same factory has served or is
// serving. A history is a list of streams (created in order, each on its first call) plus an interleaving of
// their processor calls. A symptom is attributed to the history only if the same stream alone on a fresh
// factory does not show it (so that single-stream defects keep their own single signature).

type streamType struct {
	cfg  config
	cuts []int
}

func historyAlphabet(thorough bool) []streamType {
	type body struct {
		enc  int
		msgs []msgSpec
	}
	bodies := []body{{encIdentity, []msgSpec{{1, false}}}, {encGzip, []msgSpec{{5, true}}}}
	pls := []int{plLast}
	if thorough {
		bodies = append(bodies, body{encSnappy, []msgSpec{{5, true}, {0, false}}}, body{encDeflate, []msgSpec{{300, true}}})
		pls = append(pls, plSeparate)
	}
	var out []streamType
	for _, ct := range []string{"application/grpc", "application/json"} {
		for _, bd := range bodies {
			for _, pl := range pls {
				for dir := range dirNames {
					c := config{msgs: bd.msgs, enc: bd.enc, pl: pl, dir: dir, ct: ct}
					L := len(build(c.msgs, c.enc).stream)
					// fixed fragmentation: one boundary inside the first length prefix, one before the last byte
					out = append(out, streamType{c, []int{2, L - 1}})
				}
			}
		}
	}
	return out
}

// merges calls f with every interleaving (as a list of stream indexes) of sequences of the given lengths in
// which stream 0 makes the first call and stream i+1 does not start before stream i has started.
func merges(lens []int, f func(order []int)) {
	left := append([]int{}, lens...)
	total := 0
	for _, l := range lens {
		total += l
	}
	order := make([]int, 0, total)
	var rec func()
	rec = func() {
		if len(order) == total {
			f(order)
			return
		}
		for i := range left {
			if left[i] == 0 {
				continue
			}
			if i > 0 && left[i] == lens[i] && left[i-1] == lens[i-1] {
				continue // stream i may not start before stream i-1
			}
			left[i]--
			order = append(order, i)
			rec()
			order = order[:len(order)-1]
			left[i]++
		}
	}
	rec()
}

type histTask struct {
	types       []int // indexes into the alphabet
	interleaved bool  // all interleavings, or only "one stream after the other"
}

type histResult struct {
	histories, streams, calls, interleavedHist, mixedKinds, violating int64
	viol                                                              map[string]*vbest
}

func runHistTask(alpha []streamType, t histTask) *histResult {
	res := &histResult{viol: map[string]*vbest{}}
	items := make([]*item, len(t.types))
	solo := make([]map[string]bool, len(t.types))
	lens := make([]int, len(t.types))
	mixed := false
	for k, ti := range t.types {
		items[k] = newItem(alpha[ti].cfg)
		lens[k] = items[k].nsteps(alpha[ti].cuts)
		solo[k] = map[string]bool{}
		if !countOnly {
			for _, sy := range items[k].eval(alpha[ti].cuts) {
				solo[k][sy.sig] = true
			}
		}
		if items[k].cfg.isGRPC() != items[0].cfg.isGRPC() {
			mixed = true
		}
	}
	one := func(order []int) {
		res.histories++
		if mixed {
			res.mixedKinds++
		}
		for i := 1; i < len(order); i++ {
			if order[i] < order[i-1] {
				res.interleavedHist++
				break
			}
		}
		if countOnly {
			return
		}
		rf, factory := newFactory()
		runs := make([]*streamRun, len(items))
		for _, k := range order {
			if runs[k] == nil {
				runs[k] = items[k].start(rf, factory, alpha[t.types[k]].cuts)
			}
			runs[k].step()
		}
		bad := false
		for k, r := range runs {
			res.streams++
			for _, sy := range r.finish() {
				if solo[k][sy.sig] {
					continue
				}
				bad = true
				sig := "multistream:" + sy.sig
				v := res.viol[sig]
				if v == nil {
					v = &vbest{}
					res.viol[sig] = v
				}
				v.count++
				inter := 0
				for i := 1; i < len(order); i++ {
					if order[i] < order[i-1] {
						inter++
					}
				}
				key := []int{len(items), inter, len(order), k}
				for _, ti := range t.types {
					key = append(key, ti)
				}
				if v.key == nil || less(key, v.key) {
					cs := Case{Order: append([]int{}, order...)}
					for j, ti := range t.types {
						cs.History = append(cs.History, alpha[ti].cfg.toCase(alpha[ti].cuts, len(items[j].b.stream)))
					}
					v.key, v.cs = key, cs
					v.desc = fmt.Sprintf("stream #%d (%s, %s) of a history of %d streams served by one factory violates its single-stream oracle although the same stream alone on a fresh factory does not: %s",
						k, items[k].cfg.ct, dirNames[items[k].cfg.dir], len(items), sy.desc)
				}
			}
		}
		if bad {
			res.violating++
		}
	}
	if t.interleaved {
		merges(lens, one)
	} else {
		var order []int
		for k, l := range lens {
			for i := 0; i < l; i++ {
				order = append(order, k)
			}
		}
		one(order)
	}
	for _, it := range items {
		res.calls += it.calls
	}
	return res
}

func histPls(tier string) []int {
	if tier == "thorough" {
		return []int{plLast, plSeparate}
	}
	return []int{plLast}
}

func histTasks(n int) []histTask {
	var out []histTask
	for a := 0; a < n; a++ {
		for b := 0; b < n; b++ {
			out = append(out, histTask{types: []int{a, b}, interleaved: true})
		}
	}
	for a := 0; a < n; a++ {
		for b := 0; b < n; b++ {
			for c := 0; c < n; c++ {
				out = append(out, histTask{types: []int{a, b, c}})
			}
		}
	}
	return out
}

func evalHistoryCase(cs Case) ([]symptom, error) {
	var items []*item
	var cuts [][]int
	for _, c := range cs.History {
		cfg, err := caseToConfig(c)
		if err != nil {
			return nil, err
		}
		items = append(items, newItem(cfg))
		cuts = append(cuts, c.Cuts)
	}
	rf, factory := newFactory()
	runs := make([]*streamRun, len(items))
	for _, k := range cs.Order {
		if k < 0 || k >= len(items) {
			return nil, fmt.Errorf("bad call_order")
		}
		if runs[k] == nil {
			runs[k] = items[k].start(rf, factory, cuts[k])
		}
		runs[k].step()
	}
	var out []symptom
	for k, r := range runs {
		if r == nil {
			continue
		}
		solo := map[string]bool{}
		for _, sy := range newItem(items[k].cfg).eval(cuts[k]) {
			solo[sy.sig] = true
		}
		for _, sy := range r.finish() {
			if !solo[sy.sig] {
				out = append(out, symptom{"multistream:" + sy.sig, fmt.Sprintf("stream #%d: %s", k, sy.desc)})
			}
		}
	}
	return out, nil
}

func mergeViol(into, from map[string]*vbest) {
	for sig, v := range from {
		g := into[sig]
		if g == nil {
			g = &vbest{}
			into[sig] = g
		}
		g.count += v.count
		if g.key == nil || less(v.key, g.key) {
			g.key, g.desc, g.cs = v.key, v.desc, v.cs
		}
	}
}

func main() {
	tier := lib.Tier()
	maxMsgs, maxEx := 2, 12
	deadline := time.Now().Add(4 * time.Minute)
	if tier == "thorough" {
		maxMsgs, maxEx = 3, 14
		deadline = time.Now().Add(40 * time.Minute)
	}
	// the adapter allocates a fresh ~1 MB compressor per compressed message while the live heap is tiny: with the
	// default GOGC the collector would run every few cases; the limit bounds the heap when a collection is slow
	if os.Getenv("GOGC") == "" {
		debug.SetGCPercent(200)
	}
	debug.SetMemoryLimit(4 << 30)
	if spec := os.Getenv("C11_WIRE_SHARD"); spec != "" {
		wireShardMain(spec, tier == "thorough")
		return
	}
	if spec := os.Getenv("C11_R7_SHARD"); spec != "" {
		abortShardMain(spec, tier == "thorough")
		return
	}
	if os.Getenv("C11_BENCH") != "" {
		bench(maxEx)
		return
	}
	if p := os.Getenv("VERIF_REPLAY"); p != "" {
		replay(p, maxEx)
		return
	}
	rep := lib.NewReport("C11", "model_checking")
	cfgs := configs(maxMsgs, tier != "thorough")
	if onlyRound7 {
		cfgs = nil
	}
	// dispatch the most expensive configurations first (load balance); results are order independent
	order := make([]int, len(cfgs))
	costs := make([]int64, len(cfgs))
	for i, c := range cfgs {
		order[i] = i
		var w int64 = 1
		for _, m := range c.msgs {
			x := int64(m.Size) + 50
			if m.Compressed && c.enc != encIdentity && c.isGRPC() {
				x = int64(m.Size)*6 + 150000
			}
			w += x
		}
		np := int64(len(c.msgs)*11 + 4)
		costs[i] = w * np * np * np
	}
	sort.SliceStable(order, func(a, b int) bool { return costs[order[a]] > costs[order[b]] })

	var timedOut int32
	var mu sync.Mutex
	viol := map[string]*vbest{}
	var exhaustiveStreams, boundedStreams int64
	lib.Parallel(len(order), func(k int) {
		if atomic.LoadInt32(&timedOut) != 0 {
			return
		}
		it := newItem(cfgs[order[k]])
		it.run(maxEx, maxMsgs, deadline, &timedOut)
		mu.Lock()
		defer mu.Unlock()
		rep.Count("evaluations", it.evals)
		rep.Count("transitions", it.calls)
		rep.Count("states", 1)
		rep.Count("distinct_nontrivial", it.nontrivial)
		rep.Count("cases_cut_inside_length_prefix", it.prefixSplit)
		rep.Count("cases_cut_inside_payload", it.payloadSplit)
		rep.Count("cases_frame_spanning_messages", it.multiMsgFrame)
		rep.Count("cases_violating", it.violating)
		if it.cfg.isGRPC() {
			rep.Count("evaluations_grpc", it.evals)
		} else {
			rep.Count("evaluations_non_grpc", it.evals)
		}
		if L := len(it.b.stream); L <= maxEx {
			exhaustiveStreams++
		} else {
			boundedStreams++
		}
		if order[k]%997 == 0 {
			rep.Sample(8, map[string]interface{}{"config": it.cfg.toCase(nil, len(it.b.stream)), "cut_sets_evaluated": it.evals})
		}
		mergeViol(viol, it.viol)
	})
	// multi-stream histories on one factory
	alpha := historyAlphabet(tier == "thorough")
	tasks := histTasks(len(alpha))
	if onlyRound7 {
		tasks = nil
	}
	lib.Parallel(len(tasks), func(k int) {
		if atomic.LoadInt32(&timedOut) != 0 || time.Now().After(deadline) {
			atomic.StoreInt32(&timedOut, 1)
			return
		}
		res := runHistTask(alpha, tasks[k])
		mu.Lock()
		defer mu.Unlock()
		rep.Count("evaluations", res.histories)
		rep.Count("transitions", res.calls)
		rep.Count("multi_stream_histories", res.histories)
		rep.Count("multi_stream_streams_checked", res.streams)
		rep.Count("multi_stream_histories_interleaved", res.interleavedHist)
		rep.Count("multi_stream_histories_mixing_grpc_and_non_grpc", res.mixedKinds)
		rep.Count("cases_violating", res.violating)
		if k%97 == 0 && len(tasks[k].types) == 2 {
			rep.Sample(12, map[string]interface{}{"multi_stream_history": []Case{alpha[tasks[k].types[0]].cfg.toCase(alpha[tasks[k].types[0]].cuts, 0), alpha[tasks[k].types[1]].cfg.toCase(alpha[tasks[k].types[1]].cuts, 0)}, "interleavings_evaluated": res.histories})
		}
		mergeViol(viol, res.viol)
	})
	// families added by the audit (families.go, wire.go)
	famNotes := ""
	if !baseOnly {
		famNotes = runAuditFamilies(rep, tier == "thorough", deadline, &timedOut, &mu, viol)
	}
	if timedOut != 0 {
		rep.Incomplete = "internal deadline reached before all cut sets were evaluated"
	}
	var sigs []string
	for s := range viol {
		sigs = append(sigs, s)
	}
	sort.Strings(sigs)
	counts := map[string]int64{}
	for _, s := range sigs {
		v := viol[s]
		counts[s] = v.count
		b, _ := json.Marshal(v.cs)
		rep.Violate(s, fmt.Sprintf("%s [%d failing cases; simplest: %s]", v.desc, v.count, b), v.cs)
	}
	bigNote := " (thorough: sequences of three messages draw their sizes from {0, 1, 5, 300})"
	if tier != "thorough" {
		bigNote = " (quick: the 16379- and 70000-byte messages only in single-message sequences)"
	}
	rep.Coverage["violating_cases_per_signature"] = counts
	rep.Coverage["traces_validated_against_impl"] = rep.Counter("evaluations")
	rep.Coverage["streams_with_all_cut_sets"] = exhaustiveStreams
	rep.Coverage["streams_with_le3_cuts_over_boundary_positions"] = boundedStreams
	rep.Coverage["exhaustive"] = rep.Incomplete == ""
	rep.Coverage["rule"] = "cases = every (message sequence, per-message compressed flag, grpc-encoding, END_STREAM placement, direction, content-type, cut set) " +
		"plus every multi-stream history (ordered pair of stream types on one factory x every interleaving of their calls; ordered triples one after the other), every duplex pair x interleaving, every emptyframes/enchdr case, every wire case (a real proxy session), every afterabort history (a gRPC stream ended abnormally after p bytes, then a well-formed stream) and every largemsg case; " +
		"states = distinct stream configurations executed, transitions = Header/Data calls made on the real adapter; a case is non-trivial when the stream is gRPC, " +
		"has at least one message and at least one DATA frame boundary falls strictly inside a message frame (inside its 5-byte prefix or inside its payload), i.e. reassembly across frames is required"
	rep.Coverage["bounds"] = fmt.Sprintf("message sequences of length 0..%d over sizes %v x compressed flag per message; encodings %v; END_STREAM on %v (zero-message streams: %v); both directions; content-type application/grpc and application/json (sequences of <=1 message also application/grpc+proto, a gRPC content-type, and application/grpc-web, not one); "+
		"all 2^(L-1) cut sets for streams of L<=%d bytes, for longer streams all cut sets with <=3 cuts over the position set {prefix start, prefix end, message end}+-2 and all multiples of 16384 (thorough, sequences of 2 messages: <=3 cuts over +-1 and <=2 cuts over +-2; sequences of %d messages: <=2 cuts and +-1), plus the cut set of all multiples of 16384%s; "+
		"multi-stream histories on one factory: %d stream types (content-type grpc/json x %d bodies x %d END_STREAM placements x 2 directions, fixed fragmentation {2, L-1}): all %d ordered pairs x all interleavings of their calls, all %d ordered triples run one after the other",
		maxMsgs, sizes, encNames, plNames[:3], []string{plNames[plSeparate], plNames[plHeadersOnly], plNames[plTrailers]}, maxEx, maxMsgs, bigNote, len(alpha), len(alpha)/(4*len(histPls(tier))), len(histPls(tier)), len(alpha)*len(alpha), len(alpha)*len(alpha)*len(alpha)) + famNotes
	rep.Assumptions = []string{
		"the adapter is driven directly through the h2.Processor interface exactly as relay.processFrame does (one Header/Data call per frame, one goroutine per direction); HTTP/2 framing, flow control and hpack are out of scope (other properties)",
		"deflate means raw DEFLATE (compress/flate), the repository's own convention; snappy sources use the framing (stream) format, the only one the adapter can decode",
		"Message(nil,true) after the last message is accepted at the processor as the API's marker of a bare end-of-stream (DESIGN.md interpretation); it must not create a message at the destination",
		"source payloads are produced with compression level BestSpeed so that the destination's bytes legitimately differ from the source's; equality is judged on decoded messages, flags and container",
		"the 70 000-byte messages are compressible (about 1.6 KB on the wire when compressed): a stream is long on the wire only through its uncompressed messages, long after decompression through its compressed ones",
		"multi-stream histories are executed by one goroutine (calls of different streams interleaved, never concurrent); data races between streams are not in scope here",
		"wire family: real h2.Config.Proxy sessions over net.Pipe (client side) and TLS on 127.0.0.1 (server side) with raw x/net framers as endpoints; senders keep every DATA frame <= 16384 bytes and honour the windows the proxy grants; completion is detected by observing END_STREAM at the destination and a sentinel stream sent behind the traffic, a 20 s deadline only bounds the wait for a delivery that never happens; receiver windows smaller than a frame and receiver-side SETTINGS changes mid-stream belong to C09 and are not enumerated",
		"a gRPC stream announcing a grpc-encoding outside the statement's four is judged for panics only (the adapter rejects the header block, which ends the connection); recorded in coverage as enchdr_*",
		"afterabort histories run one after the other on one goroutine of a worker process with GOMAXPROCS=1 and the automatic collector off, two explicit collections before each history (this empties every sync.Pool): state the code keeps between streams is handed on deterministically within a history and never between histories; concurrent streams sharing such state are not enumerated; the interrupted stream itself is judged only for panics, RSTStream errors and for showing the processor a prefix of the source messages",
		"largemsg: message bodies are compressible (a 16 MiB message is a few hundred KB on the wire when compressed); sizes are decompressed sizes; a symptom is attributed to the family only if the same configuration with a 300-byte message does not show it",
		"DATA frames larger than the default max frame size are fed to the processor when a cut set leaves them whole (the Processor API does not bound them)",
	}
	rep.Finish()
}

func replay(path string, maxEx int) {
	raw, err := os.ReadFile(path)
	if err != nil {
		fmt.Println(err)
		os.Exit(2)
	}
	var rp struct {
		Sig   string
		First struct {
			Desc   string
			Replay Case
		}
	}
	if err := json.Unmarshal(raw, &rp); err != nil {
		fmt.Println("bad replay file:", err)
		os.Exit(2)
	}
	var syms []symptom
	if rp.First.Replay.Wire != nil {
		syms, err = evalWireCase(rp.First.Replay)
		if err != nil {
			fmt.Println(err)
			os.Exit(2)
		}
	} else if rp.First.Replay.Abort != nil {
		syms, err = evalAbortCase(rp.First.Replay)
		if err != nil {
			fmt.Println(err)
			os.Exit(2)
		}
	} else if rp.First.Replay.LargeMsg {
		syms, err = evalLargeCase(rp.First.Replay)
		if err != nil {
			fmt.Println(err)
			os.Exit(2)
		}
	} else if rp.First.Replay.Duplex {
		syms, err = evalDuplexCase(rp.First.Replay)
		if err != nil {
			fmt.Println(err)
			os.Exit(2)
		}
	} else if len(rp.First.Replay.History) > 0 {
		syms, err = evalHistoryCase(rp.First.Replay)
		if err != nil {
			fmt.Println(err)
			os.Exit(2)
		}
	} else {
		cfg, err := caseToConfig(rp.First.Replay)
		if err != nil {
			fmt.Println(err)
			os.Exit(2)
		}
		it := newItem(cfg)
		it.empties = rp.First.Replay.EmptyBefore
		syms = it.eval(rp.First.Replay.Cuts)
	}
	fmt.Printf("replay of %s: case %+v\n", rp.Sig, rp.First.Replay)
	hit := false
	for _, s := range syms {
		fmt.Printf("  symptom sig=%s: %s\n", s.sig, s.desc)
		if s.sig == rp.Sig {
			hit = true
		}
	}
	if hit {
		fmt.Println("VIOLATION reproduced")
		os.Exit(1)
	}
	fmt.Println("recorded violation not reproduced")
	os.Exit(0)
}

// bench (C11_BENCH=1) prints the CPU cost per case of a few representative configurations (development aid).
func bench(maxEx int) {
	cpu := func() time.Duration {
		var ru syscall.Rusage
		syscall.Getrusage(syscall.RUSAGE_SELF, &ru)
		return time.Duration(ru.Utime.Nano() + ru.Stime.Nano())
	}
	for _, c := range []config{
		{msgs: []msgSpec{{1, false}, {5, false}}, enc: encGzip, pl: plLast, ct: "application/grpc"},
		{msgs: []msgSpec{{1, true}, {5, false}}, enc: encIdentity, pl: plLast, ct: "application/grpc"},
		{msgs: []msgSpec{{1, true}, {5, false}}, enc: encGzip, pl: plLast, ct: "application/grpc"},
		{msgs: []msgSpec{{1, true}, {5, true}}, enc: encDeflate, pl: plLast, ct: "application/grpc"},
		{msgs: []msgSpec{{1, true}, {5, true}}, enc: encSnappy, pl: plLast, ct: "application/grpc"},
		{msgs: []msgSpec{{300, true}, {300, true}}, enc: encGzip, pl: plLast, ct: "application/grpc"},
		{msgs: []msgSpec{{70000, false}, {70000, false}}, enc: encGzip, pl: plLast, ct: "application/grpc"},
		{msgs: []msgSpec{{70000, true}, {70000, true}}, enc: encGzip, pl: plLast, ct: "application/grpc"},
		{msgs: []msgSpec{{70000, true}, {70000, true}}, enc: encSnappy, pl: plLast, ct: "application/grpc"},
		{msgs: []msgSpec{{70000, true}, {70000, true}}, enc: encGzip, pl: plLast, ct: "application/json"},
	} {
		it := newItem(c)
		var to int32
		t0, c0 := time.Now(), cpu()
		it.run(maxEx, 3, time.Now().Add(time.Hour), &to)
		fmt.Printf("%v enc=%s ct=%s: %d cases, %.1f us wall, %.1f us cpu per case\n", c.msgs, encNames[c.enc], c.ct, it.evals,
			float64(time.Since(t0).Microseconds())/float64(it.evals), float64((cpu()-c0).Microseconds())/float64(it.evals))
	}
}
