// Families added in round 7 (see AUDIT.md "Round 7").
//
//	afterabort  histories of streams through ONE process in which an earlier gRPC stream ends abnormally
//	            (RST_STREAM from either peer, the connection going away, END_STREAM inside a message) after
//	            exactly p bytes of its length-prefixed stream, for every p, and a later well-formed stream -
//	            on the same factory or on another one - must still obey its single-stream oracles
//	largemsg    message sizes one below, at and one above every power of two from 64 KiB up to 16 MiB (and
//	            5 MiB + 123) under each encoding, with and without the compressed flag
//
// afterabort runs in worker subprocesses restricted to one scheduler thread (GOMAXPROCS=1) with the automatic
// garbage collector switched off and two explicit collections before every history: whatever process-wide
// state the code under test keeps between streams (a package-level free list, a sync.Pool, a cache) is then
// in the same, empty, condition at the start of every history and is handed on deterministically inside the
// history (a sync.Pool serves Put/Get of one P from that P's private slot and is emptied only by two
// collections), so a verdict depends on the history alone and a replay in a fresh process reproduces it.
package main

import (
	"encoding/json"
	"fmt"
	"os"
	"os/exec"
	"path/filepath"
	"runtime"
	"runtime/debug"
	"sort"
	"strconv"
	"strings"
	"sync"

	"github.com/google/martian/v3/h2"
	"golang.org/x/net/http2"

	"verif/lib"
)

var onlyRound7 = os.Getenv("C11_ONLY_R7") != "" // development aid: run the round-7 families only

var noRound7 = os.Getenv("C11_NO_R7") != "" // development aid: the check as it was before round 7

// ---- afterabort ----

const (
	abRSTSender   = iota // the peer that was sending the messages resets the stream (its direction's processor sees RST_STREAM)
	abRSTReceiver        // the peer that was receiving them resets the stream (the opposite direction's processor sees RST_STREAM)
	abConnEnd            // the connection goes away: no further call is made for the stream
	abEndInside          // END_STREAM (empty DATA frame) although a message is only partly sent: a truncated stream
)

var abortNames = []string{"rst_stream_from_sender", "rst_stream_from_receiver", "connection_end", "end_stream_inside_message"}

type abortParams struct {
	Offset       int    `json:"victim_bytes_delivered"` // bytes of the victim's length-prefixed stream delivered (one DATA frame) before it ends
	Kind         string `json:"victim_ends_with"`
	FreshFactory bool   `json:"later_stream_on_fresh_factory,omitempty"`
}

// abortVictims: the streams that end abnormally. END_STREAM placement is irrelevant (never reached).
func abortVictims(thorough bool) []config {
	type body struct {
		enc  int
		msgs []msgSpec
	}
	bodies := []body{{encIdentity, []msgSpec{{40, false}}}, {encGzip, []msgSpec{{5, true}, {1, false}}}}
	if thorough {
		bodies = append(bodies, body{encSnappy, []msgSpec{{5, false}, {300, true}}}, body{encDeflate, []msgSpec{{300, true}}}, body{encIdentity, []msgSpec{{70000, false}}})
	}
	var out []config
	for _, bd := range bodies {
		for dir := range dirNames {
			out = append(out, config{msgs: bd.msgs, enc: bd.enc, pl: plSeparate, dir: dir, ct: "application/grpc"})
		}
	}
	return out
}

// abortOffsets: every offset 0..L of a stream of at most 64 bytes; for longer ones 0, L, every offset within 2
// of a prefix start, a prefix end and a message end, and every multiple of 16384.
func abortOffsets(b *built) []int {
	L := len(b.stream)
	var out []int
	if L <= 64 {
		for p := 0; p <= L; p++ {
			out = append(out, p)
		}
		return out
	}
	out = append(out, 0)
	out = append(out, b.positions(2)...)
	return append(out, L)
}

func (b *built) partialAt(p int) int {
	if p == 0 {
		return 0
	}
	prev := 0
	for _, e := range b.ends {
		if p == e {
			return 0
		}
		if p < e {
			return p - prev
		}
		prev = e
	}
	return 0
}

type abortViol struct {
	Count int64
	Key   []int
	Desc  string
	Case  Case
}

type abortShardResult struct {
	Pairs, Calls, PartialPairs, Violating, VictimPoints int64
	ByKind                                              map[string]int64
	Viol                                                map[string]*abortViol
}

type abortRunner struct {
	victims   []config
	followers []streamType
	solo      []map[string]bool
	res       *abortShardResult
}

func newAbortRunner(thorough bool) *abortRunner {
	a := &abortRunner{victims: abortVictims(thorough), followers: historyAlphabet(thorough),
		res: &abortShardResult{ByKind: map[string]int64{}, Viol: map[string]*abortViol{}}}
	return a
}

// settle empties every sync.Pool of the process (a pool survives one collection in its victim cache).
func settle() {
	runtime.GC()
	runtime.GC()
}

// runVictim delivers the first p bytes of the victim and ends it in the given way. It returns the symptoms of
// the victim itself and the factory it ran on.
func runVictim(it *item, p, kind int) (syms []symptom, rf *recFactory, factory h2.StreamProcessorFactory) {
	rf, factory = newFactory()
	L := len(it.b.stream)
	var cuts []int
	if p > 0 && p < L {
		cuts = []int{p}
	}
	r := it.start(rf, factory, cuts)
	n := 1 // the HEADERS
	if it.cfg.dir == dirS2C {
		n++
	}
	if p > 0 {
		n++
	}
	for i := 0; i < n && !r.dead; i++ {
		r.step()
	}
	syms = append(syms, r.syms...)
	if r.dead {
		return
	}
	put, other, proc := r.c2s, r.s2c, r.procC
	if it.cfg.dir == dirS2C {
		put, other, proc = r.s2c, r.c2s, r.procS
	}
	var err error
	var pan interface{}
	func() {
		defer func() {
			if x := recover(); x != nil {
				pan = x
			}
		}()
		switch kind {
		case abRSTSender:
			err = put.RSTStream(http2.ErrCodeCancel)
		case abRSTReceiver:
			err = other.RSTStream(http2.ErrCodeCancel)
		case abEndInside:
			err = put.Data([]byte{}, true)
		}
	}()
	it.calls++
	if pan != nil {
		syms = append(syms, symptom{"abort:" + abortNames[kind] + ":panic", fmt.Sprintf("ending the stream panicked: %v", pan)})
	} else if err != nil && kind != abEndInside {
		syms = append(syms, symptom{"abort:" + abortNames[kind] + ":error", fmt.Sprintf("RSTStream returned error %q", err)})
	}
	// what the processor was shown before the end must be a prefix of the source sequence
	ord := 0
	for _, c := range proc.calls {
		if c.kind != 'M' {
			continue
		}
		if ord >= len(it.b.plain) || !c.eq || (c.end && kind != abEndInside) {
			syms = append(syms, symptom{"abort:proc:wrong_message_before_the_end", fmt.Sprintf("Message call #%d of the interrupted stream (%d bytes, streamEnded=%v) is not message #%d of the source", ord, c.n, c.end, ord)})
			break
		}
		ord++
	}
	return
}

// pair runs one history: victim (ended after p bytes in the given way), then follower fi.
func (a *abortRunner) pair(vi, p, kind, fi int, fresh bool) {
	settle()
	res := a.res
	vit := newItem(a.victims[vi])
	vsyms, rf, factory := runVictim(vit, p, kind)
	if fresh {
		rf, factory = newFactory()
	}
	ft := a.followers[fi]
	fit := newItem(ft.cfg)
	r := fit.start(rf, factory, ft.cuts)
	for !r.dead && r.next < len(r.steps) {
		r.step()
	}
	fsyms := r.finish()
	res.Pairs++
	res.Calls += vit.calls + fit.calls
	res.ByKind[abortNames[kind]]++
	partial := vit.b.partialAt(p)
	if partial > 0 {
		res.PartialPairs++
	}
	mk := func() Case {
		vc := vit.cfg.toCase(nil, len(vit.b.stream))
		return Case{Abort: &abortParams{Offset: p, Kind: abortNames[kind], FreshFactory: fresh},
			History: []Case{vc, ft.cfg.toCase(ft.cuts, len(fit.b.stream))}}
	}
	fr := 0
	if fresh {
		fr = 1
	}
	key := []int{len(vit.b.stream), p, kind, fr, fi, vi}
	bad := false
	rec := func(sig, desc string) {
		bad = true
		v := res.Viol[sig]
		if v == nil {
			v = &abortViol{}
			res.Viol[sig] = v
		}
		v.Count++
		if v.Key == nil || less(key, v.Key) {
			v.Key, v.Desc, v.Case = key, desc, mk()
		}
	}
	seen := map[string]bool{}
	if fi == 0 && !fresh { // the victim's own symptoms do not depend on the follower: count them once
		for _, sy := range vsyms {
			if !seen[sy.sig] {
				seen[sy.sig] = true
				rec(sy.sig, fmt.Sprintf("gRPC stream (%s, %s, %d-byte length-prefixed stream) ended by %s after %d bytes: %s", encNames[vit.cfg.enc], dirNames[vit.cfg.dir], len(vit.b.stream), abortNames[kind], p, sy.desc))
			}
		}
	}
	// everything the later stream shows beyond what it shows alone is one finding: which oracle breaks depends on
	// the bytes the earlier stream left behind, not on the defect
	var extra []string
	for _, sy := range fsyms {
		if a.solo[fi][sy.sig] || seen["f:"+sy.sig] {
			continue
		}
		seen["f:"+sy.sig] = true
		extra = append(extra, sy.sig+" ("+sy.desc+")")
	}
	if len(extra) > 0 {
		where, what := "on the same factory", "grpc"
		if fresh {
			where = "on another factory of the same process"
		}
		if !ft.cfg.isGRPC() {
			what = "non_grpc"
		}
		rec("afterabort:"+abortNames[kind]+":later_"+what+"_stream_violates_its_oracle", fmt.Sprintf("a well-formed stream (%s, %s, %s) served %s after a gRPC stream (%s, %s) that ended by %s with %d of the %d bytes of its length-prefixed stream delivered (%d bytes of an incomplete message received) violates its single-stream oracles although the same stream alone does not: %s",
			ft.cfg.ct, encNames[ft.cfg.enc], dirNames[ft.cfg.dir], where, encNames[vit.cfg.enc], dirNames[vit.cfg.dir], abortNames[kind], p, len(vit.b.stream), partial, strings.Join(extra, "; ")))
	}
	if bad {
		res.Violating++
	}
}

func (a *abortRunner) computeSolo() {
	a.solo = make([]map[string]bool, len(a.followers))
	for k, ft := range a.followers {
		settle()
		a.solo[k] = map[string]bool{}
		for _, sy := range newItem(ft.cfg).eval(ft.cuts) {
			a.solo[k][sy.sig] = true
		}
	}
}

// points enumerates (victim, offset) in a fixed order.
func (a *abortRunner) points() [][2]int {
	var out [][2]int
	for vi, v := range a.victims {
		for _, p := range abortOffsets(build(v.msgs, v.enc)) {
			out = append(out, [2]int{vi, p})
		}
	}
	return out
}

func (a *abortRunner) runPoint(vi, p int) {
	b := build(a.victims[vi].msgs, a.victims[vi].enc)
	a.res.VictimPoints++
	for kind := range abortNames {
		if kind == abEndInside && b.partialAt(p) == 0 {
			continue // END_STREAM on a message boundary is a regular end
		}
		for fi := range a.followers {
			for _, fresh := range []bool{false, true} {
				a.pair(vi, p, kind, fi, fresh)
			}
		}
	}
}

func pinProcess() {
	runtime.GOMAXPROCS(1)
	debug.SetGCPercent(-1)
}

// abortShardMain is the body of a worker subprocess (C11_R7_SHARD=i/n).
func abortShardMain(spec string, thorough bool) {
	var i, n int
	fmt.Sscanf(spec, "%d/%d", &i, &n)
	pinProcess()
	a := newAbortRunner(thorough)
	a.computeSolo()
	for k, pt := range a.points() {
		if k%n == i {
			a.runPoint(pt[0], pt[1])
		}
	}
	b, _ := json.Marshal(a.res)
	if err := os.WriteFile(os.Getenv("C11_R7_OUT"), b, 0o644); err != nil {
		fmt.Fprintln(os.Stderr, err)
		os.Exit(3)
	}
}

func runAfterAbort(rep *lib.Report, thorough bool, mu *sync.Mutex, viol map[string]*vbest) string {
	a := newAbortRunner(thorough)
	pts := a.points()
	shards := 4
	if thorough {
		shards = 12
	}
	note := fmt.Sprintf("afterabort (worker subprocesses with GOMAXPROCS=1, automatic GC off, two collections before every history): %d victim gRPC streams (bodies x 2 directions) x every offset of their length-prefixed stream (all 0..L for L<=64, else boundary offsets +-2, multiples of 16384, 0 and L: %d (victim, offset) points) x end by %v (the last only inside a message) x %d later streams (the multi-stream alphabet) x {same factory, fresh factory}",
		len(a.victims), len(pts), abortNames, len(a.followers))
	if countOnly {
		return note
	}
	dir := filepath.Join(lib.Root, ".build", "c11", "abort-"+strconv.Itoa(os.Getpid()))
	if os.Getenv("VERIF_ALT_REPO") != "" {
		dir = filepath.Join(lib.Root, ".build", "alt-out", "c11-abort-"+strconv.Itoa(os.Getpid()))
	}
	os.MkdirAll(dir, 0o755)
	defer os.RemoveAll(dir)
	var wg sync.WaitGroup
	for i := 0; i < shards; i++ {
		wg.Add(1)
		go func(i int) {
			defer wg.Done()
			out := filepath.Join(dir, fmt.Sprintf("shard-%d.json", i))
			cmd := exec.Command(os.Args[0], os.Args[1:]...)
			cmd.Env = append(os.Environ(), fmt.Sprintf("C11_R7_SHARD=%d/%d", i, shards), "C11_R7_OUT="+out, "GOMAXPROCS=1")
			b, err := cmd.CombinedOutput()
			var res abortShardResult
			if err == nil {
				var raw []byte
				if raw, err = os.ReadFile(out); err == nil {
					err = json.Unmarshal(raw, &res)
				}
			}
			mu.Lock()
			defer mu.Unlock()
			if err != nil {
				msg := string(b)
				if len(msg) > 400 {
					msg = msg[:400]
				}
				rep.Incomplete = fmt.Sprintf("afterabort shard %d failed: %v %s", i, err, msg)
				return
			}
			rep.Count("evaluations", res.Pairs)
			rep.Count("transitions", res.Calls)
			rep.Count("afterabort_histories", res.Pairs)
			rep.Count("afterabort_victim_points", res.VictimPoints)
			rep.Count("afterabort_histories_victim_ended_inside_a_message", res.PartialPairs)
			rep.Count("distinct_nontrivial", res.PartialPairs)
			rep.Count("cases_violating", res.Violating)
			for k, n := range res.ByKind {
				rep.Count("afterabort_histories_"+k, n)
			}
			for sig, v := range res.Viol {
				g := viol[sig]
				if g == nil {
					g = &vbest{}
					viol[sig] = g
				}
				g.count += v.Count
				if g.key == nil || less(v.Key, g.key) {
					g.key, g.desc, g.cs = v.Key, v.Desc, v.Case
				}
			}
		}(i)
	}
	wg.Wait()
	return note
}

func evalAbortCase(cs Case) ([]symptom, error) {
	if cs.Abort == nil || len(cs.History) != 2 {
		return nil, fmt.Errorf("afterabort replay needs the victim and the later stream")
	}
	vc, err := caseToConfig(cs.History[0])
	if err != nil {
		return nil, err
	}
	fc, err := caseToConfig(cs.History[1])
	if err != nil {
		return nil, err
	}
	kind := -1
	for k, n := range abortNames {
		if n == cs.Abort.Kind {
			kind = k
		}
	}
	if kind < 0 {
		return nil, fmt.Errorf("bad victim_ends_with")
	}
	pinProcess()
	a := &abortRunner{victims: []config{vc}, followers: []streamType{{fc, cs.History[1].Cuts}}, res: &abortShardResult{ByKind: map[string]int64{}, Viol: map[string]*abortViol{}}}
	a.computeSolo()
	a.pair(0, cs.Abort.Offset, kind, 0, cs.Abort.FreshFactory)
	var out []symptom
	var sigs []string
	for s := range a.res.Viol {
		sigs = append(sigs, s)
	}
	sort.Strings(sigs)
	for _, s := range sigs {
		out = append(out, symptom{s, a.res.Viol[s].Desc})
	}
	return out, nil
}

// ---- largemsg ----

type largeTask struct {
	cfg   config
	whole bool // the stream arrives in ONE DATA frame; otherwise cut at every multiple of 16384
}

func largeSizes(thorough bool) []int {
	if !thorough {
		return []int{1<<16 + 1, 1<<20 + 1, 1<<22 - 1, 1 << 22, 1<<22 + 1}
	}
	var out []int
	for k := 16; k <= 24; k++ {
		out = append(out, 1<<k-1, 1<<k, 1<<k+1)
	}
	out = append(out, 5<<20+123)
	sort.Ints(out)
	return out
}

func largeTasks(thorough bool) []largeTask {
	var out []largeTask
	small := msgSpec{5, false}
	for _, S := range largeSizes(thorough) {
		if !thorough {
			for dir := range dirNames {
				for _, enc := range []int{encGzip, encDeflate, encSnappy, encIdentity} {
					out = append(out, largeTask{cfg: config{msgs: []msgSpec{{S, true}, small}, enc: enc, pl: plLast, dir: dir, ct: "application/grpc"}})
				}
				out = append(out, largeTask{cfg: config{msgs: []msgSpec{{S, false}, small}, enc: encGzip, pl: plLast, dir: dir, ct: "application/grpc"}})
			}
			continue
		}
		for enc := range encNames {
			for _, flag := range []bool{true, false} {
				for dir := range dirNames {
					B := msgSpec{S, flag}
					for _, pl := range []int{plLast, plSeparate} {
						for _, whole := range []bool{false, true} {
							out = append(out, largeTask{cfg: config{msgs: []msgSpec{B, small}, enc: enc, pl: pl, dir: dir, ct: "application/grpc"}, whole: whole})
						}
					}
					out = append(out, largeTask{cfg: config{msgs: []msgSpec{B}, enc: enc, pl: plLast, dir: dir, ct: "application/grpc"}})
				}
			}
		}
	}
	return out
}

func (t largeTask) cuts(b *built) []int {
	if t.whole {
		return nil
	}
	var c []int
	for p := defaultMaxFrame; p < len(b.stream); p += defaultMaxFrame {
		c = append(c, p)
	}
	return c
}

// largeSolo: the symptoms of the same configuration with a 300-byte message in place of the large one. A
// symptom that shows there too is not a matter of size: the single family reports it under its own signature.
func largeSolo(t largeTask) map[string]bool {
	c := t.cfg
	c.msgs = append([]msgSpec{}, c.msgs...)
	c.msgs[0].Size = 300
	it := newItem(c)
	solo := map[string]bool{}
	L := len(it.b.stream)
	for _, cuts := range [][]int{nil, {2, L - 1}} {
		for _, sy := range it.eval(cuts) {
			solo[sy.sig] = true
		}
	}
	return solo
}

func evalLarge(t largeTask) (it *item, cuts []int, out []symptom) {
	it = newItem(t.cfg)
	cuts = t.cuts(it.b)
	syms := it.eval(cuts)
	if len(syms) == 0 {
		return
	}
	solo := largeSolo(t)
	seen := map[string]bool{}
	shown := map[string]bool{}
	for _, sy := range syms {
		shown[sy.sig] = true
	}
	for _, sy := range syms {
		if solo[sy.sig] || seen[sy.sig] {
			continue
		}
		seen[sy.sig] = true
		// a pass-through processor forwards what it was shown: wrong content at the sink is the consequence of
		// wrong content at the processor, not a second finding
		if strings.HasPrefix(sy.sig, "sink:message_content:") && shown["proc:"+strings.TrimPrefix(sy.sig, "sink:")] {
			continue
		}
		out = append(out, symptom{"largemsg:" + sy.sig, fmt.Sprintf("a %d-byte message (compressed flag %v, grpc-encoding %s, %s, %d DATA frames) violates an oracle that the same stream with a 300-byte message satisfies: %s",
			t.cfg.msgs[0].Size, t.cfg.msgs[0].Compressed, encNames[t.cfg.enc], dirNames[t.cfg.dir], len(cuts)+1, sy.desc)})
	}
	return
}

func runLargeMsg(rep *lib.Report, thorough bool, expired func() bool, mu *sync.Mutex, viol map[string]*vbest) string {
	tasks := largeTasks(thorough)
	// the largest first (load balance)
	order := make([]int, len(tasks))
	for i := range order {
		order[i] = i
	}
	sort.SliceStable(order, func(a, b int) bool { return tasks[order[a]].cfg.msgs[0].Size > tasks[order[b]].cfg.msgs[0].Size })
	note := fmt.Sprintf("largemsg: %d cases = first message of %v bytes x %s, followed by a 5-byte message (thorough: also alone), DATA frames of 16384 bytes (thorough: also the whole stream in one frame; END_STREAM on the last frame or a separate one), both directions",
		len(tasks), largeSizes(thorough), map[bool]string{false: "{compressed under gzip, deflate, snappy, identity; uncompressed under gzip}", true: "4 encodings x compressed flag"}[thorough])
	if countOnly {
		rep.Count("evaluations", int64(len(tasks)))
		return note
	}
	lib.Parallel(len(tasks), func(k int) {
		if expired() {
			return
		}
		t := tasks[order[k]]
		it, cuts, syms := evalLarge(t)
		mu.Lock()
		defer mu.Unlock()
		rep.Count("evaluations", 1)
		rep.Count("largemsg_cases", 1)
		rep.Count("transitions", it.calls)
		if len(cuts) > 0 {
			rep.Count("distinct_nontrivial", 1)
		}
		if t.cfg.msgs[0].Compressed && t.cfg.enc != encIdentity {
			rep.Count("largemsg_cases_decompressed_by_the_adapter", 1)
			if t.cfg.msgs[0].Size > 4<<20 {
				rep.Count("largemsg_cases_decompressed_size_above_4MiB", 1)
			}
		}
		if len(syms) > 0 {
			rep.Count("cases_violating", 1)
		}
		for _, sy := range syms {
			v := viol[sy.sig]
			if v == nil {
				v = &vbest{}
				viol[sy.sig] = v
			}
			v.count++
			wh := 0
			if t.whole {
				wh = 1
			}
			key := []int{t.cfg.msgs[0].Size, len(t.cfg.msgs), wh, t.cfg.enc, t.cfg.pl, t.cfg.dir}
			if v.key == nil || less(key, v.key) {
				cs := it.caseOf(cuts)
				cs.LargeMsg = true
				v.key, v.desc, v.cs = key, sy.desc, cs
			}
		}
	})
	return note
}

func evalLargeCase(cs Case) ([]symptom, error) {
	cfg, err := caseToConfig(cs)
	if err != nil {
		return nil, err
	}
	_, _, syms := evalLarge(largeTask{cfg: cfg, whole: len(cs.Cuts) == 0})
	return syms, nil
}
