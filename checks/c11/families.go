// Families added by the audit (see AUDIT.md). All of them reuse the single-stream oracles of main.go.
//
//	emptyframes  empty DATA frames without END_STREAM before, inside and after the messages
//	enchdr       grpc-encoding header values the adapter does not know (and, in main.go's product, no header)
//	duplex       both directions of ONE stream carry gRPC traffic, their calls interleaved
//	wire         the same cases through the real h2.Config.Proxy and real HTTP/2 frames (wire.go)
package main

import (
	"fmt"
	"os"
	"sort"
	"strings"
	"sync"
	"sync/atomic"
	"time"

	"verif/lib"
)

// ---- emptyframes ----

func emptyFrameConfigs(thorough bool) []config {
	var out []config
	small := []int{0, 1, 4, 5, 6} // 4, 5, 6: payloads one below, at and one above the length of a prefix
	var seqs [][]msgSpec
	seqs = append(seqs, nil)
	for _, sz := range small {
		for _, c := range []bool{false, true} {
			seqs = append(seqs, []msgSpec{{sz, c}})
		}
	}
	if thorough {
		for _, a := range []int{0, 1, 5} {
			for _, ca := range []bool{false, true} {
				for _, b := range []int{0, 1, 5} {
					for _, cb := range []bool{false, true} {
						seqs = append(seqs, []msgSpec{{a, ca}, {b, cb}})
					}
				}
			}
		}
	}
	for _, msgs := range seqs {
		pls := []int{plLast, plSeparate, plTrailers}
		if len(msgs) == 0 {
			pls = []int{plSeparate, plTrailers}
		}
		for _, enc := range []int{encIdentity, encGzip} {
			for _, pl := range pls {
				for dir := range dirNames {
					for _, ct := range []string{"application/grpc", "application/json"} {
						out = append(out, config{msgs: msgs, enc: enc, pl: pl, dir: dir, ct: ct})
					}
				}
			}
		}
	}
	return out
}

// runEmptyFrames: every cut set with at most one cut x every non-empty set of insertion points of an empty,
// non-final DATA frame (before each chunk and after the last one).
func runEmptyFrames(cfg config) *item {
	it := newItem(cfg)
	L := len(it.b.stream)
	do := func(cuts []int) {
		nchunks := 0
		if L > 0 {
			nchunks = len(cuts) + 1
		}
		points := nchunks + 1
		if cfg.pl == plLast {
			points = nchunks // nothing may follow the frame that carries END_STREAM
		}
		for mask := 1; mask < 1<<points; mask++ {
			it.empties = it.empties[:0]
			for p := 0; p < points; p++ {
				if mask&(1<<p) != 0 {
					it.empties = append(it.empties, p)
				}
			}
			it.one(cuts)
		}
	}
	if L <= 1 {
		do(nil)
	} else {
		lib.Cuts(L, 1, func(c []int) { do(c) })
	}
	it.empties = nil
	return it
}

// ---- enchdr: unknown grpc-encoding values ----

var unknownEncodings = []string{"zstd", "br", "GZIP", " gzip", "<empty>"}

type encHdrResult struct {
	it                        *item
	grpcRejected, grpcRelayed int64
}

// runUnknownEncoding: the statement quantifies over four encodings only, so a gRPC stream announcing another one
// is judged for panics only (what the adapter does is recorded); a NON-gRPC stream carrying such a header is
// fully judged: it must pass untouched.
func runUnknownEncoding(cfg config) *encHdrResult {
	res := &encHdrResult{it: newItem(cfg)}
	it := res.it
	L := len(it.b.stream)
	for _, cuts := range [][]int{nil, {2}, {L - 1}} {
		syms := it.eval(cuts)
		it.evals++
		var keep []symptom
		for _, sy := range syms {
			if !cfg.isGRPC() || strings.HasSuffix(sy.sig, ":panic") {
				keep = append(keep, sy)
			}
		}
		if cfg.isGRPC() {
			rejected := false
			for _, sy := range syms {
				if strings.HasPrefix(sy.sig, "impl:header:error") {
					rejected = true
				}
			}
			if rejected {
				res.grpcRejected++
			} else {
				res.grpcRelayed++
			}
		}
		it.record(cuts, keep)
	}
	return res
}

// ---- duplex ----

type duplexTask struct{ a, b config }

func duplexTasks(thorough bool) []duplexTask {
	type body struct {
		enc  int
		msgs []msgSpec
	}
	bodies := []body{{encIdentity, []msgSpec{{1, false}}}, {encGzip, []msgSpec{{5, true}}}}
	plA, plB := []int{plLast}, []int{plTrailers}
	if thorough {
		bodies = append(bodies, body{encSnappy, []msgSpec{{5, true}, {0, false}}}, body{encDeflate, []msgSpec{{300, true}, {1, false}}})
		plA, plB = []int{plLast, plSeparate}, []int{plLast, plSeparate, plTrailers}
	}
	var out []duplexTask
	for _, ba := range bodies {
		for _, bb := range bodies {
			for _, pa := range plA {
				for _, pb := range plB {
					out = append(out, duplexTask{
						a: config{msgs: ba.msgs, enc: ba.enc, pl: pa, dir: dirC2S, ct: "application/grpc"},
						b: config{msgs: bb.msgs, enc: bb.enc, pl: pb, dir: dirS2C, ct: "application/grpc"}})
				}
			}
		}
	}
	// a Trailers-Only response while the request is still being sent
	for _, ba := range bodies {
		out = append(out, duplexTask{
			a: config{msgs: ba.msgs, enc: ba.enc, pl: plLast, dir: dirC2S, ct: "application/grpc"},
			b: config{enc: encIdentity, pl: plHeadersOnly, dir: dirS2C, ct: "application/grpc"}})
	}
	return out
}

type duplexResult struct {
	evals, calls, violating int64
	viol                    map[string]*vbest
}

func duplexCuts(it *item) []int {
	L := len(it.b.stream)
	if L < 3 {
		return nil
	}
	return []int{2, L - 1}
}

// evalDuplex runs both halves of one stream in the given call order (0 = request half, 1 = response half).
func evalDuplex(a, b *item, order []int) (symsA, symsB []symptom) {
	rf, factory := newFactory()
	ra := a.start(rf, factory, duplexCuts(a))
	rb := b.startDuplex(ra, duplexCuts(b))
	for _, k := range order {
		if ra.dead || rb.dead {
			ra.dead, rb.dead = true, true
			break
		}
		if k == 0 {
			ra.step()
		} else {
			rb.step()
		}
	}
	return ra.finish(), rb.finish()
}

func runDuplex(t duplexTask) *duplexResult {
	res := &duplexResult{viol: map[string]*vbest{}}
	a, b := newItem(t.a), newItem(t.b)
	solo := []map[string]bool{{}, {}}
	for _, sy := range a.eval(duplexCuts(a)) {
		solo[0][sy.sig] = true
	}
	for _, sy := range b.eval(duplexCuts(b)) {
		solo[1][sy.sig] = true
	}
	lens := []int{a.nsteps(duplexCuts(a)), b.nsteps(duplexCuts(b)) - 1} // the response half makes no request of its own
	merges(lens, func(order []int) {
		res.evals++
		sa, sb := evalDuplex(a, b, order)
		bad := false
		for k, syms := range [][]symptom{sa, sb} {
			for _, sy := range syms {
				if solo[k][sy.sig] {
					continue
				}
				bad = true
				sig := "duplex:" + sy.sig
				v := res.viol[sig]
				if v == nil {
					v = &vbest{}
					res.viol[sig] = v
				}
				v.count++
				inter := 0
				for i := 1; i < len(order); i++ {
					if order[i] < order[i-1] {
						inter++
					}
				}
				key := []int{len(t.a.msgs) + len(t.b.msgs), inter, len(order), k, t.a.enc, t.b.enc, t.a.pl, t.b.pl}
				if v.key == nil || less(key, v.key) {
					v.key = key
					v.cs = Case{Duplex: true, Order: append([]int{}, order...), History: []Case{a.caseOf(duplexCuts(a)), b.caseOf(duplexCuts(b))}}
					v.desc = fmt.Sprintf("%s half of a stream whose two directions both carry gRPC messages violates its oracle although the same half alone does not: %s",
						dirNames[k], sy.desc)
				}
			}
		}
		if bad {
			res.violating++
		}
	})
	res.calls = a.calls + b.calls
	return res
}

func evalDuplexCase(cs Case) ([]symptom, error) {
	if len(cs.History) != 2 {
		return nil, fmt.Errorf("duplex replay needs two halves")
	}
	ca, err := caseToConfig(cs.History[0])
	if err != nil {
		return nil, err
	}
	cb, err := caseToConfig(cs.History[1])
	if err != nil {
		return nil, err
	}
	a, b := newItem(ca), newItem(cb)
	sa, sb := evalDuplex(a, b, cs.Order)
	var out []symptom
	for k, syms := range [][]symptom{sa, sb} {
		solo := map[string]bool{}
		it := []*item{newItem(ca), newItem(cb)}[k]
		for _, sy := range it.eval(duplexCuts(it)) {
			solo[sy.sig] = true
		}
		for _, sy := range syms {
			if !solo[sy.sig] {
				out = append(out, symptom{"duplex:" + sy.sig, dirNames[k] + " half: " + sy.desc})
			}
		}
	}
	return out, nil
}

// ---- hdrorder: where grpc-encoding stands in the header block that makes the stream gRPC ----

func hdrOrderConfigs() []config {
	var out []config
	for _, msgs := range [][]msgSpec{{{5, true}}, {{300, true}, {1, false}}} {
		for _, enc := range []int{encGzip, encDeflate, encSnappy, encIdentity} {
			for _, order := range []int{1, 2, 3} {
				for _, pl := range []int{plLast, plTrailers} {
					out = append(out, config{msgs: msgs, enc: enc, pl: pl, dir: dirC2S, ct: "application/grpc", hdrOrder: order})
					// the response block decides alone only when no adapter saw the request
					out = append(out, config{msgs: msgs, enc: enc, pl: pl, dir: dirS2C, ct: "application/grpc", hdrOrder: order, respOnly: true})
					out = append(out, config{msgs: msgs, enc: enc, pl: pl, dir: dirS2C, ct: "application/grpc", hdrOrder: order})
				}
			}
		}
	}
	// the plain order with a response-only processor, and a non-gRPC stream in every order
	for _, order := range []int{0, 1, 2, 3} {
		out = append(out, config{msgs: []msgSpec{{5, true}}, enc: encGzip, pl: plLast, dir: dirS2C, ct: "application/grpc", hdrOrder: order, respOnly: order == 0})
		for dir := range dirNames {
			out = append(out, config{msgs: []msgSpec{{5, true}}, enc: encGzip, pl: plLast, dir: dir, ct: "application/json", hdrOrder: order})
		}
	}
	return out
}

func runHdrOrder(cfg config) *item {
	it := newItem(cfg)
	L := len(it.b.stream)
	for _, cuts := range [][]int{nil, {2}, {L - 1}} {
		it.one(cuts)
	}
	return it
}

// ---- bigthensmall: a message that grows the reassembly buffer, followed by more messages in the same frames ----

func bigThenSmallConfigs() []config {
	var out []config
	for _, big := range []int{40000, 70000, 140000} {
		B := msgSpec{big, false}
		for _, v := range []struct {
			enc   int
			small msgSpec
		}{{encIdentity, msgSpec{5, false}}, {encGzip, msgSpec{5, true}}, {encIdentity, msgSpec{0, false}}} {
			for _, msgs := range [][]msgSpec{{B, v.small}, {B, v.small, v.small}, {v.small, B, v.small}} {
				for _, pl := range []int{plLast, plSeparate} {
					for dir := range dirNames {
						out = append(out, config{msgs: msgs, enc: v.enc, pl: pl, dir: dir, ct: "application/grpc"})
					}
				}
			}
		}
	}
	return out
}

// runBigThenSmall: DATA frames as a real sender makes them (a cut at every multiple of 16384) and the same
// with one more cut at each offset -2..+7 around every message boundary.
func runBigThenSmall(cfg config) *item {
	it := newItem(cfg)
	L := len(it.b.stream)
	var base []int
	for p := defaultMaxFrame; p < L; p += defaultMaxFrame {
		base = append(base, p)
	}
	it.one(base)
	seen := map[int]bool{}
	for _, p := range base {
		seen[p] = true
	}
	for i := 0; i+1 < len(it.b.ends); i++ {
		for d := -2; d <= 7; d++ {
			p := it.b.ends[i] + d
			if p < 1 || p > L-1 || seen[p] {
				continue
			}
			seen[p] = true
			cuts := append(append([]int{}, base...), p)
			sort.Ints(cuts)
			it.one(cuts)
		}
	}
	return it
}

// ---- driver ----

func runAuditFamilies(rep *lib.Report, thorough bool, deadline time.Time, timedOut *int32, mu *sync.Mutex, viol map[string]*vbest) string {
	expired := func() bool {
		if atomic.LoadInt32(timedOut) != 0 || time.Now().After(deadline) {
			atomic.StoreInt32(timedOut, 1)
			return true
		}
		return false
	}
	collectItem := func(fam string, it *item) {
		mu.Lock()
		defer mu.Unlock()
		rep.Count("evaluations", it.evals)
		rep.Count("transitions", it.calls)
		rep.Count(fam+"_cases", it.evals)
		rep.Count("distinct_nontrivial", it.nontrivial)
		rep.Count("cases_violating", it.violating)
		mergeViol(viol, it.viol)
	}

	if onlyRound7 {
		abortDone := make(chan string, 1)
		t0 := time.Now()
		go func() {
			n := runAfterAbort(rep, thorough, mu, viol)
			fmt.Fprintln(os.Stderr, "afterabort", time.Since(t0))
			abortDone <- n
		}()
		n := runLargeMsg(rep, thorough, expired, mu, viol)
		fmt.Fprintln(os.Stderr, "largemsg", time.Since(t0))
		return "; " + n + "; " + <-abortDone
	}

	// emptyframes
	ecfgs := emptyFrameConfigs(thorough)
	lib.Parallel(len(ecfgs), func(k int) {
		if expired() {
			return
		}
		collectItem("emptyframes", runEmptyFrames(ecfgs[k]))
	})

	// hdrorder, bigthensmall
	hcfgs := hdrOrderConfigs()
	lib.Parallel(len(hcfgs), func(k int) {
		if expired() {
			return
		}
		collectItem("hdrorder", runHdrOrder(hcfgs[k]))
	})
	bcfgs := bigThenSmallConfigs()
	lib.Parallel(len(bcfgs), func(k int) {
		if expired() {
			return
		}
		collectItem("bigthensmall", runBigThenSmall(bcfgs[k]))
	})

	// enchdr
	var ucfgs []config
	for _, e := range unknownEncodings {
		for _, m := range [][]msgSpec{{{5, false}}, {{5, true}}} {
			for _, pl := range []int{plLast, plSeparate} {
				for dir := range dirNames {
					for _, ct := range []string{"application/grpc", "application/json"} {
						ucfgs = append(ucfgs, config{msgs: m, enc: encIdentity, pl: pl, dir: dir, ct: ct, encHdr: e})
					}
				}
			}
		}
	}
	lib.Parallel(len(ucfgs), func(k int) {
		if expired() {
			return
		}
		r := runUnknownEncoding(ucfgs[k])
		collectItem("enchdr", r.it)
		rep.Count("enchdr_grpc_streams_rejected_with_header_error", r.grpcRejected)
		rep.Count("enchdr_grpc_streams_relayed", r.grpcRelayed)
	})

	// duplex
	dts := duplexTasks(thorough)
	lib.Parallel(len(dts), func(k int) {
		if expired() {
			return
		}
		r := runDuplex(dts[k])
		mu.Lock()
		defer mu.Unlock()
		rep.Count("evaluations", r.evals)
		rep.Count("transitions", r.calls)
		rep.Count("duplex_cases", r.evals)
		rep.Count("cases_violating", r.violating)
		mergeViol(viol, r.viol)
	})

	// round 7: afterabort (worker subprocesses, started now, joined before the wire family), largemsg
	r7Note := ""
	if !noRound7 {
		abortDone := make(chan string, 1)
		go func() { abortDone <- runAfterAbort(rep, thorough, mu, viol) }()
		r7Note = "; " + runLargeMsg(rep, thorough, expired, mu, viol)
		r7Note += "; " + <-abortDone
	}

	// wire
	wireNote := runWireFamily(rep, thorough, expired, deadline, mu, viol)
	wireNote += r7Note

	return fmt.Sprintf("; emptyframes: %d configurations (sequences of <=%d messages over sizes {0,1,4,5,6} x flag, identity/gzip, every END_STREAM placement, both directions, grpc/json) x all cut sets with <=1 cut x every non-empty set of insertion points of an empty non-final DATA frame; "+
		"enchdr: grpc-encoding values %q on %d configurations (gRPC streams judged for panics only, non-gRPC ones fully), plus 'no grpc-encoding header' in the main product for sequences of <=1 message; "+
		"duplex: %d pairs (request half x response half of one stream, incl. a Trailers-Only response) x every interleaving of their calls; "+
		"hdrorder: %d configurations: grpc-encoding before / after content-type, adjacent or with te, user-agent and a custom field between them, in the request block and in the response block (also with a response-only processor, where the response block alone makes the stream gRPC), all four encodings, compressed messages; "+
		"bigthensmall: %d configurations: [big, small], [big, small, small], [small, big, small] with an uncompressed big message of 40000, 70000 or 140000 bytes, cut at every multiple of 16384 plus one more cut at each offset -2..+7 around every message boundary; %s",
		len(ecfgs), map[bool]int{false: 1, true: 2}[thorough], unknownEncodings, len(ucfgs), len(dts), len(hcfgs), len(bcfgs), wireNote)
}
