// C20 extensions added by the audit (see AUDIT.md): families that vary what the original two parts kept fixed.
//
//	grid      every Range header of 1..3 specs over the complete small numeric domain 0..n+1 of tiny contents
//	sizes     contents around powers of two / page and buffer sizes (255 .. 65535)
//	history   one modifier instance answers 1..k requests; the bodies are read only after the last call, in
//	          reverse order or round-robin in 3-byte reads; setters (SetBoundary, SetExplicitPathMappings) and
//	          the request side (body.ModifyRequest) are steps of the alphabet
//	upstream  the response handed to the modifier is not a pristine 200: 206 / 416 with their own
//	          Content-Range, 404, chunked, multipart; judged on the wire image (res.Write + http.ReadResponse)
//	boundary  body.SetBoundary values (default, 1, 70, 71 characters, empty, characters that need quoting or are
//	          illegal) and the JSON constructor
//	xpath     request targets from a second segment alphabet (case variants of encoded dots, encoded separators
//	          inside a segment, NUL, over-long names, names of sibling directories that share the root's name
//	          as a prefix) x root spellings {absolute, trailing slash, relative, dotted} x constructors {New, New +
//	          map, JSON + map} x Range headers x query strings; plus URL.Path values without a leading slash
package main

import (
	"bufio"
	"bytes"
	"encoding/base64"
	"encoding/json"
	"fmt"
	"io"
	"net/http"
	"net/url"
	"os"
	"path/filepath"
	"sort"
	"strings"
	"sync/atomic"

	"github.com/google/martian/v3"
	"github.com/google/martian/v3/body"
	"github.com/google/martian/v3/parse"
	"github.com/google/martian/v3/proxyutil"
	"github.com/google/martian/v3/static"

	"verif/lib"
)

// famOn reports whether a family is enabled. VERIF_C20_FAMILIES (comma separated; development aid used to
// attribute a mutant to the family that catches it) restricts the run; unset = everything.
func famOn(name string) bool {
	v := os.Getenv("VERIF_C20_FAMILIES")
	if v == "" {
		return true
	}
	for _, f := range strings.Split(v, ",") {
		if f == name || f == "all" {
			return true
		}
	}
	return false
}

// ---------------------------------------------------------------------------------------------------
// grid and sizes: more rangeCases for the existing pipeline

func gridSizes(tier string) (sizes []int, tripleMax int) {
	if tier == "thorough" {
		return []int{0, 1, 2, 3, 4, 5}, 4
	}
	return []int{0, 1, 2, 3, 4}, 3
}

// gridSpecs is the complete spec domain over positions 0..n+1 (all orders, so reversed ones too).
func gridSpecs(n int) []string {
	var p []string
	for a := 0; a <= n+1; a++ {
		for b := 0; b <= n+1; b++ {
			p = append(p, fmt.Sprintf("%d-%d", a, b))
		}
	}
	for a := 0; a <= n+1; a++ {
		p = append(p, fmt.Sprintf("%d-", a))
	}
	for s := 0; s <= n+1; s++ {
		p = append(p, fmt.Sprintf("-%d", s))
	}
	return p
}

func gridHeaders(n int, triples bool) []string {
	p := gridSpecs(n)
	var out []string
	for _, a := range p {
		out = append(out, "bytes="+a)
	}
	for _, a := range p {
		for _, b := range p {
			out = append(out, "bytes="+a+","+b)
		}
	}
	if triples {
		for _, a := range p {
			for _, b := range p {
				for _, c := range p {
					out = append(out, "bytes="+a+","+b+","+c)
				}
			}
		}
	}
	return out
}

func extraSizes(tier string) []int {
	if tier == "thorough" {
		return []int{255, 256, 4095, 4096, 4097, 32768, 65535}
	}
	return []int{255, 4096, 4097, 65535}
}

// extraSizeHeaders: every single spec of the pool with every unit; thorough adds every pair with "bytes=".
func extraSizeHeaders(tier string, n int) []string {
	pool := specPool(n)
	var out []string
	for _, a := range pool {
		for _, u := range units {
			out = append(out, u+a)
		}
	}
	if tier == "thorough" {
		for _, a := range pool {
			for _, b := range pool {
				out = append(out, "bytes="+a+","+b)
			}
		}
	}
	return dedupe(out)
}

// allRangeFileSizes lists every content size some family asks the static modifier for.
func allRangeFileSizes() []int {
	out := []int{0, 1, 2, 10, 65536, 3, 4, 5}
	return append(out, extraSizes("thorough")...)
}

// ---------------------------------------------------------------------------------------------------
// special content: bytes that text, line or format oriented code would mangle (%, CR LF, --, NUL)

var (
	hContent = []byte("a%s\r\n--\x00%d\n-z%%\r\n")
	hSmall   = []byte("HELLO")
)

const (
	hFile  = "h.txt"
	hFile2 = "h5.bin"
)

func buildExtTree() error {
	if err := os.WriteFile(filepath.Join(rangeRoot, hFile), hContent, 0o644); err != nil {
		return err
	}
	if err := os.WriteFile(filepath.Join(rangeRoot, hFile2), hSmall, 0o644); err != nil {
		return err
	}
	// siblings of the path root whose names have the root's name as a prefix (or are a prefix of it)
	jail := filepath.Dir(pathRoot)
	for _, rel := range []string{"root2/a", "root2/sub/a", "root-x/a", "roo/a", "root.bak"} {
		p := filepath.Join(jail, rel)
		if err := os.MkdirAll(filepath.Dir(p), 0o755); err != nil {
			return err
		}
		if err := os.WriteFile(p, []byte(sentinelMark+":sibling:"+rel), 0o644); err != nil {
			return err
		}
	}
	return os.MkdirAll(filepath.Join(jail, "x"), 0o755) // for the dotted root spelling jail/x/../root
}

// ---------------------------------------------------------------------------------------------------
// history family

type histStep struct {
	Kind   string `json:"kind"` // res | req | boundary | map
	File   int    `json:"file,omitempty"`
	Range  bool   `json:"range,omitempty"`
	Header string `json:"header,omitempty"`
}

type histCase struct {
	Mod   int        `json:"mod"`
	Steps []histStep `json:"steps"`
	Sched string     `json:"read_schedule"` // reverse | roundrobin
}

func (c histCase) String() string {
	var s []string
	for _, st := range c.Steps {
		switch st.Kind {
		case "res":
			f := ""
			if c.Mod == 1 {
				f = "/" + []string{hFile, hFile2}[st.File] + " "
			}
			if st.Range {
				s = append(s, fmt.Sprintf("GET %sRange: %q", f, st.Header))
			} else {
				s = append(s, fmt.Sprintf("GET %s(no Range)", f))
			}
		case "req":
			s = append(s, "ModifyRequest")
		case "boundary":
			s = append(s, "SetBoundary")
		case "map":
			s = append(s, "SetExplicitPathMappings(toggle)")
		}
	}
	return fmt.Sprintf("%s modifier, one instance, calls [%s], bodies read after the last call (%s)", modNames[c.Mod], strings.Join(s, "; "), c.Sched)
}

var histBodyHeaders = []string{"bytes=0-3", "bytes=-3", "bytes=0-1,4-5", "bytes=4-5,0-1,9-9", "bytes=99-", "bytes=2-99"}
var histStaticHeaders = []string{"bytes=0-3", "bytes=-3", "bytes=0-1,3-4", "bytes=3-4,0-1,2-2", "bytes=99-"}

func histAlphabet(mod int) []histStep {
	var a []histStep
	if mod == 0 {
		a = append(a, histStep{Kind: "res"})
		for _, h := range histBodyHeaders {
			a = append(a, histStep{Kind: "res", Range: true, Header: h})
		}
		return append(a, histStep{Kind: "req"}, histStep{Kind: "boundary"})
	}
	for f := 0; f < 2; f++ {
		a = append(a, histStep{Kind: "res", File: f})
		for _, h := range histStaticHeaders {
			a = append(a, histStep{Kind: "res", File: f, Range: true, Header: h})
		}
	}
	return append(a, histStep{Kind: "map"})
}

func histCases(tier string) []histCase {
	maxLen := 3
	if tier == "thorough" {
		maxLen = 4
	}
	var out []histCase
	for mod := 0; mod < 2; mod++ {
		al := histAlphabet(mod)
		lib.Sequences(len(al), maxLen, func(seq []int) {
			if len(seq) == 0 {
				return
			}
			steps := make([]histStep, len(seq))
			nres := 0
			for i, s := range seq {
				steps[i] = al[s]
				if al[s].Kind == "res" || al[s].Kind == "req" {
					nres++
				}
			}
			if nres == 0 {
				return
			}
			for _, sched := range []string{"reverse", "roundrobin"} {
				out = append(out, histCase{Mod: mod, Steps: steps, Sched: sched})
			}
		})
	}
	return out
}

type histResp struct {
	step     int
	isReq    bool
	hasRange bool
	header   string
	content  []byte
	o        obs
	res      *http.Response
	rd       io.ReadCloser
	limit    int
	buf      bytes.Buffer
	done     bool
}

func guarded(f func() error) (panicMsg, errMsg string) {
	defer func() {
		if r := recover(); r != nil {
			panicMsg = fmt.Sprint(r)
		}
	}()
	if err := f(); err != nil {
		errMsg = err.Error()
	}
	return
}

func evalHistCase(c histCase) (vs []viol, nresp int) {
	var bm *body.Modifier
	var sm *static.Modifier
	mapped := false
	if c.Mod == 0 {
		bm = body.NewModifier(hContent, "application/x-c20")
		bm.SetBoundary("c20hist0")
	} else {
		sm = static.NewModifier(rangeRoot)
	}
	var rs []*histResp
	for i, st := range c.Steps {
		switch st.Kind {
		case "boundary":
			bm.SetBoundary(fmt.Sprintf("c20hist%d", i+1))
		case "map":
			mapped = !mapped
			if mapped {
				sm.SetExplicitPathMappings(map[string]string{"/" + hFile: "/" + hFile2})
			} else {
				sm.SetExplicitPathMappings(map[string]string{})
			}
		case "req":
			req, _ := http.NewRequest("POST", "http://example.com/", strings.NewReader("REQUEST-ORIGINAL-BODY"))
			req.Header.Set("Range", "bytes=0-1") // must not matter on the request side
			r := &histResp{step: i, isReq: true, content: hContent, limit: 4*len(hContent) + 8192}
			r.o.Panic, r.o.Err = guarded(func() error { return bm.ModifyRequest(req) })
			if r.o.Panic == "" {
				r.o.CL, r.o.Header, r.rd = req.ContentLength, req.Header, req.Body
			}
			rs = append(rs, r)
		case "res":
			r := &histResp{step: i, hasRange: st.Range, header: st.Header}
			var req *http.Request
			var orig *trackBody
			if c.Mod == 0 {
				r.content = hContent
				req, _ = http.NewRequest("GET", "http://example.com/", nil)
				orig = &trackBody{r: bytes.NewReader([]byte(upstreamMarker)), failAfterClose: true}
			} else {
				name := []string{hFile, hFile2}[st.File]
				r.content = [][]byte{hContent, hSmall}[st.File]
				if mapped {
					r.content = hSmall
				}
				req, _ = http.NewRequest("GET", "http://example.com/"+name, nil)
				orig = &trackBody{r: bytes.NewReader(nil)}
			}
			if st.Range {
				req.Header["Range"] = []string{st.Header}
			}
			res := proxyutil.NewResponse(200, orig, req)
			r.limit = 4*len(r.content) + 8192
			r.o.Panic, r.o.Err = guarded(func() error {
				if c.Mod == 0 {
					return bm.ModifyResponse(res)
				}
				return sm.ModifyResponse(res)
			})
			r.o.OrigClosed = orig.closed
			r.res = res
			if r.o.Panic == "" {
				r.rd = res.Body
			}
			rs = append(rs, r)
		}
	}
	// deferred reading
	readSome := func(r *histResp, max int) {
		if r.done || r.rd == nil {
			r.done = true
			return
		}
		p := make([]byte, max)
		n, err := r.rd.Read(p)
		r.buf.Write(p[:n])
		if r.buf.Len() > r.limit {
			r.o.Oversized, r.done = true, true
		}
		if err == io.EOF {
			r.done = true
		} else if err != nil {
			r.o.ReadErr, r.done = err.Error(), true
		}
	}
	if c.Sched == "reverse" {
		for i := len(rs) - 1; i >= 0; i-- {
			for !rs[i].done {
				readSome(rs[i], 4096)
			}
		}
	} else {
		for open := true; open; {
			open = false
			for _, r := range rs {
				if !r.done {
					readSome(r, 3)
					open = true
				}
			}
		}
	}
	for _, r := range rs {
		if r.rd != nil {
			r.rd.Close()
		}
		r.o.Body = r.buf.Bytes()
		if r.o.Oversized && len(r.o.Body) > r.limit {
			r.o.Body = r.o.Body[:r.limit]
		}
		pre := fmt.Sprintf("%s: call %d of %d: ", c, r.step+1, len(c.Steps))
		if r.isReq {
			switch {
			case r.o.Panic != "":
				vs = append(vs, viol{Sig: "body:history_request:panic", Symptom: "panic", Desc: pre + "ModifyRequest panicked: " + r.o.Panic})
			case r.o.Err != "":
				vs = append(vs, viol{Sig: "body:history_request:error", Symptom: "error", Desc: pre + "ModifyRequest failed: " + r.o.Err})
			case !bytes.Equal(r.o.Body, hContent) || r.o.ReadErr != "":
				vs = append(vs, viol{Sig: "body:history_request:wrong_bytes", Symptom: "wrong_bytes", Desc: pre + fmt.Sprintf("the request body is %q (read error %q), want the whole content", r.o.Body, r.o.ReadErr)})
			case r.o.CL != int64(len(hContent)):
				vs = append(vs, viol{Sig: "body:history_request:content_length_mismatch", Symptom: "content_length_mismatch", Desc: pre + fmt.Sprintf("request ContentLength %d for %d bytes", r.o.CL, len(hContent))})
			}
			continue
		}
		if r.o.Panic == "" {
			r.o.Status, r.o.Header, r.o.CL = r.res.StatusCode, r.res.Header, r.res.ContentLength
		}
		e := refModel(r.hasRange, r.header, len(r.content))
		jv, _ := judgeRange(modNames[c.Mod], r.content, e, r.o)
		for _, v := range jv {
			vs = append(vs, viol{Sig: modNames[c.Mod] + ":history:" + v.Symptom, Symptom: v.Symptom,
				Desc: pre + v.Desc + " [observed: " + r.o.brief() + "]"})
		}
	}
	return vs, len(rs)
}

// ---------------------------------------------------------------------------------------------------
// upstream family

var upstreamKinds = []string{"206", "416", "404", "chunked", "206mp"}

type upCase struct {
	Mod      int    `json:"mod"`
	Up       string `json:"upstream"`
	HasRange bool   `json:"has_range"`
	Header   string `json:"header"`
}

func (c upCase) String() string {
	h := "no Range header"
	if c.HasRange {
		h = fmt.Sprintf("Range: %q", c.Header)
	}
	return fmt.Sprintf("%s modifier, %d-byte content, %s, response being modified is an upstream %s", modNames[c.Mod], len(hContent), h, c.Up)
}

func upstreamResponse(kind string, req *http.Request) (*http.Response, *trackBody) {
	mk := func(code int, b string) (*http.Response, *trackBody) {
		orig := &trackBody{r: bytes.NewReader([]byte(b)), failAfterClose: true}
		res := proxyutil.NewResponse(code, orig, req)
		res.ContentLength = int64(len(b))
		res.Header.Set("Content-Length", fmt.Sprint(len(b)))
		res.Header.Set("Content-Type", "text/upstream")
		return res, orig
	}
	switch kind {
	case "206":
		res, o := mk(206, "UPSTREAM")
		res.Header.Set("Content-Range", "bytes 0-7/1000")
		return res, o
	case "416":
		res, o := mk(416, "")
		res.Header.Set("Content-Range", "bytes */1000")
		return res, o
	case "404":
		return mk(404, "not found")
	case "chunked":
		res, o := mk(200, upstreamMarker)
		res.Header.Del("Content-Length")
		res.ContentLength = -1
		res.TransferEncoding = []string{"chunked"}
		return res, o
	default: // 206mp
		b := "--UPB\r\nContent-Range: bytes 0-1/1000\r\n\r\nUP\r\n--UPB\r\nContent-Range: bytes 4-5/1000\r\n\r\nST\r\n--UPB--\r\n"
		res, o := mk(206, b)
		res.Header.Set("Content-Type", "multipart/byteranges; boundary=UPB")
		return res, o
	}
}

func upCases(tier string) []upCase {
	n := len(hContent)
	var hs []string
	for _, a := range specPool(n) {
		for _, u := range units {
			hs = append(hs, u+a)
		}
	}
	p2 := reducedPool(n)
	if tier == "thorough" {
		p2 = specPool(n)
	}
	for _, a := range p2 {
		for _, b := range p2 {
			hs = append(hs, "bytes="+a+","+b)
		}
	}
	var out []upCase
	for mod := 0; mod < 2; mod++ {
		for _, k := range upstreamKinds {
			out = append(out, upCase{Mod: mod, Up: k})
			for _, h := range dedupe(hs) {
				if !isHeavy(h) { // header-sized allocations are the business of the capped workers of part 1
					out = append(out, upCase{Mod: mod, Up: k, HasRange: true, Header: h})
				}
			}
		}
	}
	return out
}

func evalUpCase(c upCase) (vs []viol, nontrivial bool) {
	target := "http://example.com/"
	if c.Mod == 1 {
		target += hFile
	}
	req, _ := http.NewRequest("GET", target, nil)
	if c.HasRange {
		req.Header["Range"] = []string{c.Header}
	}
	res, orig := upstreamResponse(c.Up, req)
	var o obs
	o.Panic, o.Err = guarded(func() error {
		if c.Mod == 0 {
			m := body.NewModifier(hContent, "application/x-c20")
			m.SetBoundary("c20up")
			return m.ModifyResponse(res)
		}
		return static.NewModifier(rangeRoot).ModifyResponse(res)
	})
	o.OrigClosed = orig.closed
	e := refModel(c.HasRange, c.Header, len(hContent))
	add := func(symptom, desc string) {
		vs = append(vs, viol{Sig: modNames[c.Mod] + ":upstream:" + symptom, Symptom: symptom, Desc: c.String() + ": " + desc})
	}
	if o.Panic != "" {
		add("panic", "panic: "+o.Panic)
		return vs, e.Allow206
	}
	if o.Err != "" {
		add("error", "returned error "+o.Err)
		return vs, e.Allow206
	}
	// what the client sees: the wire image
	var w bytes.Buffer
	var werr error
	if p, _ := guarded(func() error { werr = res.Write(&w); return nil }); p != "" {
		add("panic", "panic while writing the modified response: "+p)
		return vs, e.Allow206
	}
	if werr != nil {
		add("unwritable", fmt.Sprintf("the modified response cannot be written: %v (ContentLength %d)", werr, res.ContentLength))
		return vs, e.Allow206
	}
	rr, err := http.ReadResponse(bufio.NewReader(bytes.NewReader(w.Bytes())), req)
	if err != nil {
		add("unparseable", "the written response does not parse: "+err.Error())
		return vs, e.Allow206
	}
	b, rerr := io.ReadAll(rr.Body)
	o.Status, o.Header, o.CL, o.Body = rr.StatusCode, rr.Header, rr.ContentLength, b
	if rerr != nil {
		o.ReadErr = rerr.Error()
	}
	if rr.ContentLength < 0 && rr.Header.Get("Content-Length") == "" {
		o.CL = int64(len(b)) // chunked on the wire: there is no Content-Length that could mismatch
	}
	oj := o
	if oj.Status != 206 && oj.Status != 416 {
		oj.Status = 200 // any other status (the upstream's own, e.g. 404) with the full content is the "full content" outcome
	}
	jv, _ := judgeRange(modNames[c.Mod], hContent, e, oj)
	// One cause, one signature: the modifier answered with the full content but left the upstream's range status
	// (and its Content-Range) in place -> stale_range_status, whatever the range oracle then makes of that 206 /
	// 416; a multipart answer that kept the upstream's top-level Content-Range -> stale_content_range.
	upStatus := map[string]int{"206": 206, "416": 416, "206mp": 206}[c.Up]
	staleStatus := upStatus != 0 && o.Status == upStatus && bytes.Equal(o.Body, hContent)
	seen := map[string]bool{}
	for _, v := range jv {
		sym := v.Symptom
		switch {
		case staleStatus:
			sym = "stale_range_status"
		case sym == "content_range_on_multipart" && o.Header.Get("Content-Range") == res.Header.Get("Content-Range") && upStatus != 0:
			sym = "stale_content_range"
		}
		if seen[sym] {
			continue
		}
		seen[sym] = true
		add(sym, v.Desc+" [on the wire: "+o.brief()+"]")
	}
	return vs, e.Allow206
}

// ---------------------------------------------------------------------------------------------------
// boundary family (body modifier only: the static modifier has no such setter)

type bndCase struct {
	Ctor     string `json:"constructor"` // new | json
	Set      bool   `json:"set_boundary"`
	Boundary string `json:"boundary"`
	Header   string `json:"header"`
}

func (c bndCase) String() string {
	b := "default boundary"
	if c.Set {
		b = fmt.Sprintf("SetBoundary(%q)", c.Boundary)
	}
	return fmt.Sprintf("body modifier (%s constructor), %s, %d-byte content, Range: %q", c.Ctor, b, len(hContent), c.Header)
}

func bndCases() []bndCase {
	bs := []string{"x", strings.Repeat("b", 69), strings.Repeat("b", 70), strings.Repeat("b", 71), "", "a b", "a:b", "a=b", "a,b", "(a)", "a/b?c",
		"a\"b", "a b ", "a;b", "café", "a\r\nX-Injected: 1"}
	hs := []string{"bytes=0-3", "bytes=0-1,4-5", "bytes=4-5,0-1,9-9", "bytes=-2,0-", "bytes=99-"}
	var out []bndCase
	for _, h := range hs {
		out = append(out, bndCase{Ctor: "new", Header: h}, bndCase{Ctor: "json", Header: h})
		for _, b := range bs {
			out = append(out, bndCase{Ctor: "new", Set: true, Boundary: b, Header: h})
		}
	}
	return out
}

func evalBndCase(c bndCase) (vs []viol, nontrivial bool) {
	add := func(symptom, desc string) {
		vs = append(vs, viol{Sig: "body:boundary:" + symptom, Symptom: symptom, Desc: c.String() + ": " + desc})
	}
	var mod martian.ResponseModifier
	if c.Ctor == "json" {
		msg := fmt.Sprintf(`{"body.Modifier":{"scope":["response"],"contentType":"application/x-c20","body":%q}}`, base64.StdEncoding.EncodeToString(hContent))
		r, err := parse.FromJSON([]byte(msg))
		if err != nil || r.ResponseModifier() == nil {
			add("constructor_error", fmt.Sprintf("parse.FromJSON: %v", err))
			return vs, false
		}
		mod = r.ResponseModifier()
	} else {
		m := body.NewModifier(hContent, "application/x-c20")
		if c.Set {
			m.SetBoundary(c.Boundary)
		}
		mod = m
	}
	req, _ := http.NewRequest("GET", "http://example.com/", nil)
	req.Header["Range"] = []string{c.Header}
	orig := &trackBody{r: bytes.NewReader([]byte(upstreamMarker)), failAfterClose: true}
	res := proxyutil.NewResponse(200, orig, req)
	o := observe(mod.ModifyResponse, res, orig, 4*len(hContent)+8192)
	e := refModel(true, c.Header, len(hContent))
	jv, _ := judgeRange("body", hContent, e, o)
	for _, v := range jv {
		add(v.Symptom, v.Desc+" [observed: "+o.brief()+"]")
	}
	return vs, len(e.Ranges) > 1
}

// ---------------------------------------------------------------------------------------------------
// xpath family

var longSeg = strings.Repeat("a", 256)

var xsegAlphabet = []string{"..", "%2e%2e", ".%2E", "%2e", "..%2f..", "%2e%2e%2fa", "%5c..", "root2", "root-x", "root.bak",
	"a", "sub", "%00", "a%00", "...", longSeg, "%c0%ae%c0%ae", "sentinel.txt"}

var (
	xCtors  = []string{"new", "new+map", "json+map"}
	xRoots  = []string{"abs", "abs/", "rel", "dotted"}
	xRanges = []string{"bytes=0-3", "bytes=2-3,0-0", "bytes=999-"}
	xQuery  = "?/../../sentinel.txt"
)

type xpathCase struct {
	Segs   []string `json:"segments"`
	Target string   `json:"request_target"` // for Rel: the URL.Path value
	Form   string   `json:"form"`           // origin-form | absolute-form | relative-url-path
	Ctor   string   `json:"constructor"`
	Root   string   `json:"root_spelling"`
	Range  string   `json:"range,omitempty"`
	Query  bool     `json:"query,omitempty"`
}

func (c xpathCase) isDefault() bool {
	return c.Ctor == "new" && c.Root == "abs" && c.Range == "" && !c.Query
}

func (c xpathCase) String() string {
	t := c.Target
	if len(t) > 120 {
		t = t[:60] + "...(" + fmt.Sprint(len(c.Target)) + " bytes)..." + t[len(t)-30:]
	}
	s := fmt.Sprintf("static modifier (%s, root spelled %s), %s %q", c.Ctor, c.Root, c.Form, t)
	if c.Query {
		s += " + query " + xQuery
	}
	if c.Range != "" {
		s += fmt.Sprintf(", Range: %q", c.Range)
	}
	return s
}

// dims lists the dimensions in which the case differs from the default variant.
func (c xpathCase) dims() []string {
	var d []string
	if c.Ctor != "new" {
		d = append(d, "map")
	}
	if c.Ctor == "json+map" {
		d = append(d, "json")
	}
	if c.Root != "abs" {
		d = append(d, "root:"+c.Root)
	}
	if c.Range != "" {
		d = append(d, "ranged")
	}
	if c.Query {
		d = append(d, "query")
	}
	return d
}

// symptomGroup: a partial body cannot be recognised as a sentinel, so "something was served for a path that
// designates no / another file" is one group when a violation is attributed to a simpler variant.
func symptomGroup(s string) string {
	switch s {
	case "sentinel_leak", "file_for_non_file", "wrong_file":
		return "served_wrong_file"
	}
	return s
}

// variantClass prefixes the scenario class with what differs from the default variant.
func (c xpathCase) variantClass() string {
	p := ""
	if c.Ctor == "json+map" {
		p += "json_"
	}
	if c.Root != "abs" {
		p += "root_" + map[string]string{"abs/": "trailing_slash", "rel": "relative", "dotted": "dotted"}[c.Root] + "_"
	}
	if c.Range != "" {
		p += "ranged_"
	}
	if c.Query {
		p += "query_"
	}
	return p
}

// xpathGroups returns the cases grouped by request target; the first case of each group is the default variant.
func xpathGroups(tier string) [][]xpathCase {
	fullLen, wideLen := 2, 3 // wideLen: sequence length covered with fewer variants
	if tier == "thorough" {
		fullLen = 3
	}
	var groups [][]xpathCase
	lib.Sequences(len(xsegAlphabet), wideLen, func(seq []int) {
		if len(seq) == 0 {
			return
		}
		segs := make([]string, len(seq))
		for i, s := range seq {
			segs[i] = xsegAlphabet[s]
		}
		p := "/" + strings.Join(segs, "/")
		for _, form := range []string{"origin-form", "absolute-form"} {
			t := p
			if form == "absolute-form" {
				t = "http://example.com" + p
			}
			base := xpathCase{Segs: segs, Target: t, Form: form, Ctor: "new", Root: "abs"}
			g := []xpathCase{base}
			if len(seq) <= fullLen {
				for _, ct := range xCtors {
					for _, r := range xRoots {
						if ct != "new" || r != "abs" {
							v := base
							v.Ctor, v.Root = ct, r
							g = append(g, v)
						}
					}
				}
				for _, rg := range xRanges {
					v := base
					v.Range = rg
					g = append(g, v)
					v.Ctor = "new+map"
					g = append(g, v)
				}
				v := base
				v.Query = true
				g = append(g, v)
			} else {
				if form == "absolute-form" {
					continue
				}
				v := base
				v.Ctor = "new+map"
				g = append(g, v)
			}
			groups = append(groups, g)
		}
		// URL.Path without a leading slash: cannot come from a request line, but another modifier may rewrite it
		if len(seq) <= fullLen {
			if dec, err := url.PathUnescape(strings.Join(segs, "/")); err == nil {
				base := xpathCase{Segs: segs, Target: dec, Form: "relative-url-path", Ctor: "new", Root: "abs"}
				v := base
				v.Ctor = "new+map"
				groups = append(groups, []xpathCase{base, v})
			}
		}
	})
	return groups
}

func xRootPath(spelling string) string {
	switch spelling {
	case "abs/":
		return pathRoot + "/"
	case "rel":
		rel, err := filepath.Rel(scratchDir, pathRoot) // the process runs with the scratch directory as cwd
		if err != nil {
			return pathRoot
		}
		return rel
	case "dotted":
		return filepath.Dir(pathRoot) + "/x/../" + filepath.Base(pathRoot) + "/."
	}
	return pathRoot
}

func xModifier(c xpathCase) (martian.ResponseModifier, error) {
	root := xRootPath(c.Root)
	switch c.Ctor {
	case "json+map":
		m, _ := json.Marshal(map[string]interface{}{"static.Modifier": map[string]interface{}{
			"scope": []string{"request", "response"}, "rootPath": root, "explicitPaths": explicitMap}})
		r, err := parse.FromJSON(m)
		if err != nil {
			return nil, err
		}
		if r.ResponseModifier() == nil {
			return nil, fmt.Errorf("no response modifier")
		}
		return r.ResponseModifier(), nil
	case "new+map":
		mod := static.NewModifier(root)
		m := map[string]string{}
		for k, v := range explicitMap {
			m[k] = v
		}
		mod.SetExplicitPathMappings(m)
		return mod, nil
	}
	return static.NewModifier(root), nil
}

// evalXPathCase returns the violations as (class, symptom, description) with the class of the default variant.
func evalXPathCase(c xpathCase) (vs []viol, nontrivial bool, outcome string) {
	var req *http.Request
	if c.Form == "relative-url-path" {
		req, _ = http.NewRequest("GET", "http://example.com/", nil)
		req.URL = &url.URL{Scheme: "http", Host: "example.com", Path: c.Target}
	} else {
		t := c.Target
		if c.Query {
			t += xQuery
		}
		var err error
		req, err = http.ReadRequest(bufio.NewReader(strings.NewReader("GET " + t + " HTTP/1.1\r\nHost: example.com\r\n\r\n")))
		if err != nil {
			return nil, false, "rejected_by_parser"
		}
	}
	if c.Range != "" {
		req.Header["Range"] = []string{c.Range}
	}
	mod, err := xModifier(c)
	if err != nil {
		return []viol{{Sig: "constructor", Symptom: "error", Desc: c.String() + ": " + err.Error()}}, false, "ctor_error"
	}
	orig := &trackBody{r: bytes.NewReader(nil)}
	res := proxyutil.NewResponse(200, orig, req)
	o := observe(mod.ModifyResponse, res, orig, 1<<16)

	rel, _ := normalize(req.URL.Path)
	fs := modelFS(rel)
	class := "path_" + fs
	if c.Form == "relative-url-path" {
		class = "relative_path"
	}
	// a name no file system can hold (NUL byte, a component longer than 255 bytes): certainly not a file -> 404
	unrep := strings.ContainsRune(rel, 0) // judged on the resolved path: "/%00/.." is just the root
	for _, seg := range strings.Split(rel, "/") {
		if len(seg) > 255 {
			unrep = true
		}
	}
	want := ""
	if fs == "file" {
		want = fileContent(rel)
	}
	if c.Ctor != "new" {
		if v, ok := explicitMap["/"+rel]; ok {
			mrel, climbed := normalize(v)
			class = "explicit_map_" + modelFS(mrel)
			if climbed {
				class = "explicit_map_climbing_value"
			}
			if c.Form == "relative-url-path" {
				class = "relative_path"
			}
			want = ""
			if modelFS(mrel) == "file" {
				want = fileContent(mrel)
			}
		}
	}
	add := func(symptom, detail string) {
		cl := class
		if unrep && symptom == "error" {
			cl = "path_unrepresentable_name" // the failing open is about the name, wherever it would resolve to
		}
		vs = append(vs, viol{Sig: cl, Symptom: symptom,
			Desc: fmt.Sprintf("%s (URL.Path %.80q, resolves to %.80q beneath the root): %s [observed: %s]", c, req.URL.Path, "/"+rel, detail, o.brief())})
	}
	plain := true // every segment of this alphabet except a / sub is hostile
	for _, s := range c.Segs {
		if s != "a" && s != "sub" {
			plain = false
		}
	}
	nontrivial = !plain || !c.isDefault()
	switch {
	case o.Panic != "":
		add("panic", "panic")
		return vs, nontrivial, "panic"
	case bytes.Contains(o.Body, []byte(sentinelMark)):
		add("sentinel_leak", "the response carries a file from outside the root")
		return vs, nontrivial, "sentinel"
	case o.Err != "":
		add("error", "returned an error; neither a file beneath the root nor 404")
		return vs, nontrivial, "error"
	case o.Status == 404:
		if want != "" && c.Form != "relative-url-path" {
			add("existing_file_404", "404 although the path designates an existing file beneath the root")
		}
		return vs, nontrivial, "404"
	case o.ReadErr != "":
		add("body_unreadable", "the body cannot be read ("+o.ReadErr+")")
		return vs, nontrivial, "unreadable"
	}
	if want == "" {
		add("file_for_non_file", fmt.Sprintf("status %d although the path designates no file (expected 404)", o.Status))
		return vs, nontrivial, "file_for_non_file"
	}
	if c.Range == "" {
		switch {
		case o.Status != 200:
			add("unexpected_status", fmt.Sprintf("status %d", o.Status))
		case string(o.Body) != want:
			add("wrong_file", "served something else than the file the path designates")
		case o.CL != int64(len(o.Body)):
			add("content_length_mismatch", fmt.Sprintf("Content-Length %d, body %d bytes", o.CL, len(o.Body)))
		}
		return vs, nontrivial, "file"
	}
	// Range request for a file reached through a hostile path / the map: the range oracle applies to that file
	jv, oc := judgeRange("static", []byte(want), refModel(true, c.Range, len(want)), o)
	for _, v := range jv {
		add(v.Symptom, v.Desc)
	}
	return vs, nontrivial, "file_" + oc
}

// ---------------------------------------------------------------------------------------------------
// driver

type extStats struct {
	cases, calls, nontrivial int64
	perFamily                map[string]int64
	rejected                 int64
}

func runExtensions(tier string, agg *aggregator) extStats {
	st := extStats{perFamily: map[string]int64{}}

	if famOn("history") {
		hc := histCases(tier)
		var calls, nt int64
		lib.Parallel(len(hc), func(i int) {
			c := hc[i]
			vs, nresp := evalHistCase(c)
			atomic.AddInt64(&calls, int64(nresp))
			if nresp >= 2 {
				atomic.AddInt64(&nt, 1)
			}
			key := int64(len(c.Steps))<<40 | int64(i)
			for _, v := range vs {
				agg.add(v.Sig, v.Desc, key, map[string]interface{}{"part": "history", "case": c})
			}
			agg.outcome(modNames[c.Mod]+":history/"+fmt.Sprintf("%d_calls", len(c.Steps)), 1)
		})
		st.cases += int64(len(hc))
		st.calls += calls
		st.nontrivial += nt
		st.perFamily["history_cases"] = int64(len(hc))
		st.perFamily["history_calls"] = calls
	}

	if famOn("upstream") {
		uc := upCases(tier)
		var nt int64
		lib.Parallel(len(uc), func(i int) {
			c := uc[i]
			vs, n := evalUpCase(c)
			if n {
				atomic.AddInt64(&nt, 1)
			}
			key := int64(strings.Count(c.Header, ","))<<44 | int64(len(c.Header))<<24 | int64(i)
			for _, v := range vs {
				agg.add(v.Sig, v.Desc, key, map[string]interface{}{"part": "upstream", "case": c})
			}
			agg.outcome(modNames[c.Mod]+":upstream_"+c.Up, 1)
		})
		st.cases += int64(len(uc))
		st.calls += int64(len(uc))
		st.nontrivial += nt
		st.perFamily["upstream_cases"] = int64(len(uc))
	}

	if famOn("boundary") {
		bc := bndCases()
		var nt int64
		lib.Parallel(len(bc), func(i int) {
			c := bc[i]
			vs, n := evalBndCase(c)
			if n {
				atomic.AddInt64(&nt, 1)
			}
			for _, v := range vs {
				agg.add(v.Sig, v.Desc, int64(len(c.Boundary))<<24|int64(i), map[string]interface{}{"part": "boundary", "case": c})
			}
			agg.outcome("body:boundary", 1)
		})
		st.cases += int64(len(bc))
		st.calls += int64(len(bc))
		st.nontrivial += nt
		st.perFamily["boundary_cases"] = int64(len(bc))
	}

	if famOn("xpath") {
		groups := xpathGroups(tier)
		var n, nt, rejected int64
		lib.Parallel(len(groups), func(gi int) {
			g := groups[gi]
			sort.SliceStable(g, func(i, j int) bool { return len(g[i].dims()) < len(g[j].dims()) })
			// A violation is attributed to the simplest variant of the same target that shows the same symptom
			// (its dimensions are a subset): one defect, one signature, however many variants inherit it.
			type shownT struct {
				dims    map[string]bool
				symptom string
				sig     string
			}
			var shown []shownT
			for vi, c := range g {
				vs, nontriv, outcome := evalXPathCase(c)
				if outcome == "rejected_by_parser" {
					atomic.AddInt64(&rejected, 1)
					continue
				}
				atomic.AddInt64(&n, 1)
				if nontriv {
					atomic.AddInt64(&nt, 1)
				}
				dset := map[string]bool{}
				for _, d := range c.dims() {
					dset[d] = true
				}
				for _, v := range vs {
					sig := ""
				search:
					for _, sh := range shown {
						if symptomGroup(sh.symptom) != symptomGroup(v.Symptom) {
							continue
						}
						for d := range sh.dims {
							if !dset[d] {
								continue search
							}
						}
						sig = sh.sig
						break
					}
					if sig == "" {
						// evalXPathCase puts the scenario class into Sig
						sig = "static:" + c.variantClass() + v.Sig + ":" + v.Symptom
						shown = append(shown, shownT{dset, v.Symptom, sig})
					}
					key := int64(len(c.Segs))<<40 | int64(len(c.Target))<<20 | int64(vi)
					if c.Form == "relative-url-path" {
						key |= 1 << 39 // prefer an example that can come from a request line
					}
					agg.add(sig, v.Desc, key, map[string]interface{}{"part": "xpath", "case": c})
				}
				agg.outcome("static:xpath/"+outcome, 1)
			}
		})
		st.cases += n
		st.calls += n
		st.nontrivial += nt
		st.rejected = rejected
		st.perFamily["xpath_cases"] = n
		st.perFamily["xpath_targets"] = int64(len(groups))
		st.perFamily["xpath_cases_rejected_by_http_parser"] = rejected
	}
	return st
}

func replayExt(part string, raw json.RawMessage) bool {
	show := func(desc string, vs []viol, prefix string) {
		fmt.Println(desc)
		for _, v := range vs {
			sig := v.Sig
			if prefix != "" {
				sig = prefix + v.Sig + ":" + v.Symptom
			}
			fmt.Printf(" VIOLATION %s\n  %s\n", sig, v.Desc)
		}
	}
	switch part {
	case "history":
		var c histCase
		json.Unmarshal(raw, &c)
		vs, _ := evalHistCase(c)
		show(c.String(), vs, "")
	case "upstream":
		var c upCase
		json.Unmarshal(raw, &c)
		vs, _ := evalUpCase(c)
		show(c.String(), vs, "")
	case "boundary":
		var c bndCase
		json.Unmarshal(raw, &c)
		vs, _ := evalBndCase(c)
		show(c.String(), vs, "")
	case "xpath":
		var c xpathCase
		json.Unmarshal(raw, &c)
		vs, _, outcome := evalXPathCase(c)
		show(c.String()+"\n outcome "+outcome, vs, "static:"+c.variantClass())
	default:
		return false
	}
	return true
}
