// C20 — synthetic bodies honour Range requests exactly and stay inside their root.
//
// Part 1 (ranges): every (content size, Range header) pair of a finite grammar — unit {bytes=, Bytes=, items=,
// missing} x 1..3 comma separated specs from a pool instantiated relative to the content size (inside, open,
// suffix, end >= size, start >= size, reversed, 2^31 / 2^63-1 / 2^63 / 2^64 / 10^30, negative, empty, spaces,
// non-numeric) — is given to the real body.Modifier and the real static.Modifier and the modified response is
// compared with a reference model written from the property statement (RFC 7233 semantics, see refModel).
// Headers carrying a number >= 64 MiB run in worker subprocesses capped with RLIMIT_AS so that an allocation
// sized from the header is attributed to the case (symptom oom) instead of killing the check.
// Part 2 (paths): every request target made of <= 3 (quick) / <= 4 (thorough) segments from
// {"", ".", "..", "a", "sub", "%2e%2e", "%2f", "\"} in origin-form and absolute-form, without and with an
// explicit path map, is parsed with http.ReadRequest and given to the static modifier whose root sits three
// directory levels below the scratch directory; every level above the root holds sentinel files with the
// same names as the files beneath the root. The answer must be 404 or the file the reference resolution
// (dot segments removed, never climbing above the root) designates; never a sentinel, never an error.
package main

import (
	"bufio"
	"bytes"
	"encoding/json"
	"errors"
	"fmt"
	"io"
	"math/big"
	"mime"
	"mime/multipart"
	"net/http"
	"os"
	"os/exec"
	"os/signal"
	"path/filepath"
	"runtime"
	"sort"
	"strconv"
	"strings"
	"sync"
	"sync/atomic"
	"syscall"
	"time"

	"github.com/google/martian/v3/body"
	"github.com/google/martian/v3/proxyutil"
	"github.com/google/martian/v3/static"

	"verif/lib"
)

const (
	heavyThreshold = 64 << 20 // a header naming a number >= this may make the implementation allocate that much
	workerHeadroom = 3 << 29  // a worker may grow its address space by 1.5 GiB (a 2^31-byte allocation never fits)
	upstreamMarker = "UPSTREAM-ORIGINAL-BODY"
	sentinelMark   = "SENTINEL-OUTSIDE-ROOT"
	caseDeadline   = 120 * time.Second
)

var modNames = [...]string{"body", "static"}

// ---------------------------------------------------------------------------------------------------
// contents

var (
	contentMu    sync.Mutex
	contentCache = map[int][]byte{}
)

// content returns n bytes, none of them zero (zero padding is then recognisable), with a long period.
func content(n int) []byte {
	contentMu.Lock()
	defer contentMu.Unlock()
	if c, ok := contentCache[n]; ok {
		return c
	}
	c := make([]byte, n)
	for i := range c {
		c[i] = byte(1 + (i+i/251+i/63001)%255)
	}
	contentCache[n] = c
	return c
}

func sizesFor(tier string) []int {
	if tier == "thorough" {
		return []int{0, 1, 2, 10, 65536}
	}
	return []int{0, 1, 10, 65536}
}

// ---------------------------------------------------------------------------------------------------
// Range header grammar

var units = []string{"bytes=", "Bytes=", "items=", ""}

func dedupe(in []string) []string {
	seen := map[string]bool{}
	var out []string
	for _, s := range in {
		if !seen[s] {
			seen[s] = true
			out = append(out, s)
		}
	}
	return out
}

// specPool instantiates the spec pool for content size n (simplest first).
func specPool(n int) []string {
	p := []string{"0-0", "1-4", "0-", "1-", "-1"}
	if n >= 1 {
		p = append(p, fmt.Sprintf("0-%d", n-1), fmt.Sprintf("%d-%d", n-1, n-1), fmt.Sprintf("%d-", n-1))
	}
	p = append(p, fmt.Sprintf("-%d", n), fmt.Sprintf("-%d", n+5), "-0")
	// end >= size
	p = append(p, fmt.Sprintf("0-%d", n), fmt.Sprintf("0-%d", n+10))
	if n >= 1 {
		p = append(p, fmt.Sprintf("%d-%d", n-1, n))
	}
	// start >= size
	p = append(p, fmt.Sprintf("%d-", n), fmt.Sprintf("%d-%d", n, n+5), fmt.Sprintf("%d-%d", n+5, n+9))
	// reversed
	p = append(p, "4-1")
	// huge: 2^31, 2^63-1, 2^63, 2^64, 10^30
	p = append(p, "0-2147483648", "0-9223372036854775807", "0-9223372036854775808", "0-18446744073709551616",
		"0-1000000000000000000000000000000", "2147483648-", "9223372036854775808-", "-9223372036854775808")
	// negative, empty, spaces, non-numeric
	p = append(p, "-1-4", "1--4", "", " 1-4", "1 - 4", "1-4 ", "a-b", "1-x", "-", "1-2-3")
	return dedupe(p)
}

// reducedPool is the pool used for three-spec headers in the quick tier.
func reducedPool(n int) []string {
	return dedupe([]string{"1-4", "0-", "-1", fmt.Sprintf("0-%d", n+10), fmt.Sprintf("%d-%d", n, n+5), "4-1",
		"0-2147483648", "", "1 - 4", "a-b"})
}

// headersFor returns every Range header value of the grammar for content size n, simplest first.
func headersFor(tier string, n int) []string {
	pool := specPool(n)
	var tuples []string
	for _, a := range pool {
		tuples = append(tuples, a)
	}
	for _, a := range pool {
		for _, b := range pool {
			tuples = append(tuples, a+","+b)
		}
	}
	p3 := pool
	if tier != "thorough" {
		p3 = reducedPool(n)
	}
	for _, a := range p3 {
		for _, b := range p3 {
			for _, c := range p3 {
				tuples = append(tuples, a+","+b+","+c)
			}
		}
	}
	var out []string
	for _, t := range tuples {
		for _, u := range units {
			out = append(out, u+t)
		}
	}
	return dedupe(out)
}

// isHeavy reports whether the header names a number >= heavyThreshold (decided from the text alone).
func isHeavy(h string) bool {
	i := 0
	for i < len(h) {
		if h[i] < '0' || h[i] > '9' {
			i++
			continue
		}
		j := i
		for j < len(h) && h[j] >= '0' && h[j] <= '9' {
			j++
		}
		d := strings.TrimLeft(h[i:j], "0")
		if len(d) > 9 {
			return true
		}
		if v, _ := strconv.ParseInt("0"+d, 10, 64); v >= heavyThreshold {
			return true
		}
		i = j
	}
	return false
}

// ---------------------------------------------------------------------------------------------------
// reference model (from the property statement / RFC 7233, never from the code under test)

const (
	kRange = iota
	kSuffix
	kEmpty
	kBad
)

type mspec struct {
	kind   int
	first  *big.Int // first position, or suffix length
	last   *big.Int // nil: open ended
	strict bool     // exactly the RFC syntax (optional whitespace only around the list element)
}

func digits(s string) bool {
	if s == "" {
		return false
	}
	for i := 0; i < len(s); i++ {
		if s[i] < '0' || s[i] > '9' {
			return false
		}
	}
	return true
}

func num(s string) *big.Int {
	v, _ := new(big.Int).SetString(s, 10)
	return v
}

func parseSpec(s string) mspec {
	t := strings.Trim(s, " \t")
	if t == "" {
		return mspec{kind: kEmpty}
	}
	i := strings.IndexByte(t, '-')
	if i < 0 {
		return mspec{kind: kBad}
	}
	l, r := t[:i], t[i+1:]
	lt, rt := strings.Trim(l, " \t"), strings.Trim(r, " \t")
	strict := lt == l && rt == r
	if lt == "" {
		if !digits(rt) {
			return mspec{kind: kBad}
		}
		return mspec{kind: kSuffix, first: num(rt), strict: strict}
	}
	if !digits(lt) {
		return mspec{kind: kBad}
	}
	if rt == "" {
		return mspec{kind: kRange, first: num(lt), strict: strict}
	}
	if !digits(rt) {
		return mspec{kind: kBad}
	}
	return mspec{kind: kRange, first: num(lt), last: num(rt), strict: strict}
}

// expect is the set of acceptable outcomes. Full content (200, whole body, matching Content-Length) is always
// acceptable: a server may ignore Range.
type expect struct {
	Class    string   // scenario class used in signatures
	Allow416 bool     // some requested range cannot be satisfied, or the header is not strictly well formed
	Allow206 bool     // the header designates at least one satisfiable range
	Ranges   [][2]int // the satisfiable ranges, in request order, last position clamped
}

var (
	big2p31 = new(big.Int).Lsh(big.NewInt(1), 31)
	big2p63 = new(big.Int).Lsh(big.NewInt(1), 63)
)

func refModel(hasRange bool, h string, n int) expect {
	if !hasRange {
		return expect{Class: "no_range"}
	}
	set := h
	lenient := false
	if i := strings.IndexByte(h, '='); i >= 0 {
		if !strings.EqualFold(h[:i], "bytes") {
			// other range unit: nothing this server understands. Ignore (full) or refuse (416).
			return expect{Class: "other_unit", Allow416: true}
		}
		set = h[i+1:]
	} else {
		lenient = true // unit missing: malformed, but the evident reading is tolerated
	}
	N := big.NewInt(int64(n))
	var bad, huge, suffix, reversed, startBeyond, endBeyond bool
	nspec := 0
	var sat [][2]int
	for _, p := range strings.Split(set, ",") {
		sp := parseSpec(p)
		if sp.kind == kEmpty {
			lenient = true
			continue
		}
		if sp.kind == kBad {
			bad = true
			continue
		}
		nspec++
		if !sp.strict {
			lenient = true
		}
		for _, v := range []*big.Int{sp.first, sp.last} {
			if v != nil && v.Cmp(big2p31) >= 0 {
				huge = true
			}
			if v != nil && v.Cmp(big2p63) >= 0 {
				lenient = true // not representable in 64 bits: refusing it is tolerated
			}
		}
		if sp.kind == kSuffix {
			suffix = true
			if n > 0 && sp.first.Sign() > 0 {
				s := n
				if sp.first.Cmp(N) < 0 {
					s = int(sp.first.Int64())
				}
				sat = append(sat, [2]int{n - s, n - 1})
			}
			continue
		}
		if sp.last != nil && sp.first.Cmp(sp.last) > 0 {
			reversed = true
			continue
		}
		if sp.first.Cmp(N) >= 0 {
			startBeyond = true
			continue
		}
		a, b := int(sp.first.Int64()), n-1
		if sp.last != nil {
			if sp.last.Cmp(N) >= 0 {
				endBeyond = true
			} else {
				b = int(sp.last.Int64())
			}
		}
		sat = append(sat, [2]int{a, b})
	}
	e := expect{}
	switch {
	case bad || nspec == 0:
		e.Class = "malformed"
	case huge:
		e.Class = "huge"
	case reversed:
		e.Class = "reversed"
	case suffix:
		e.Class = "suffix"
	case startBeyond:
		e.Class = "start_beyond_len"
	case endBeyond:
		e.Class = "end_beyond_len"
	case lenient:
		e.Class = "lenient_syntax"
	default:
		e.Class = "inside"
	}
	if bad || nspec == 0 || reversed {
		e.Allow416 = true
		return e
	}
	e.Allow416 = lenient || len(sat) < nspec
	e.Allow206 = len(sat) > 0
	e.Ranges = sat
	return e
}

// ---------------------------------------------------------------------------------------------------
// observation of the implementation

type trackBody struct {
	r              *bytes.Reader
	closed         bool
	failAfterClose bool
}

var errClosedBody = errors.New("http: read on closed response body")

func (t *trackBody) Read(p []byte) (int, error) {
	if t.closed && t.failAfterClose {
		return 0, errClosedBody
	}
	return t.r.Read(p)
}
func (t *trackBody) Close() error { t.closed = true; return nil }

type obs struct {
	Panic      string
	Err        string
	Status     int
	Header     http.Header
	CL         int64
	Body       []byte
	Oversized  bool
	ReadErr    string
	OrigClosed bool
}

func (o obs) brief() string {
	if o.Panic != "" {
		return "panic: " + o.Panic
	}
	b := o.Body
	suffix := ""
	if len(b) > 48 {
		b, suffix = b[:48], fmt.Sprintf("...(%d bytes)", len(o.Body))
	}
	s := fmt.Sprintf("status=%d ContentLength=%d Content-Range=%q Content-Type=%q body=%q%s", o.Status, o.CL,
		o.Header.Get("Content-Range"), o.Header.Get("Content-Type"), b, suffix)
	if o.Err != "" {
		s = fmt.Sprintf("error %q (original body closed=%v) ", o.Err, o.OrigClosed) + s
	}
	if o.ReadErr != "" {
		s += " body read error: " + o.ReadErr
	}
	return s
}

// observe calls mod on res and reads at most limit body bytes.
func observe(call func(*http.Response) error, res *http.Response, orig *trackBody, limit int) (o obs) {
	func() {
		defer func() {
			if r := recover(); r != nil {
				o.Panic = fmt.Sprint(r)
			}
		}()
		if err := call(res); err != nil {
			o.Err = err.Error()
		}
	}()
	o.OrigClosed = orig.closed
	if o.Panic != "" {
		return
	}
	o.Status, o.Header, o.CL = res.StatusCode, res.Header, res.ContentLength
	if res.Body != nil {
		b, err := io.ReadAll(io.LimitReader(res.Body, int64(limit)+1))
		if err != nil {
			o.ReadErr = err.Error()
		}
		if len(b) > limit {
			o.Oversized = true
			b = b[:limit]
		}
		o.Body = b
		res.Body.Close()
	}
	return
}

var (
	bodyMods   sync.Map // size -> *body.Modifier
	scratchDir string   // set by main / worker
	rangeRoot  string
	pathRoot   string
)

func runBodyRange(n int, hasRange bool, h string) obs {
	c := content(n)
	mi, ok := bodyMods.Load(n)
	if !ok {
		m := body.NewModifier(c, "application/x-c20")
		m.SetBoundary("c20boundaryc20boundary")
		mi, _ = bodyMods.LoadOrStore(n, m)
	}
	mod := mi.(*body.Modifier)
	req, _ := http.NewRequest("GET", "http://example.com/", nil)
	if hasRange {
		req.Header["Range"] = []string{h}
	}
	// the upstream response the modifier replaces: its body fails once closed, as a real one does
	orig := &trackBody{r: bytes.NewReader([]byte(upstreamMarker)), failAfterClose: true}
	res := proxyutil.NewResponse(200, orig, req)
	res.ContentLength = int64(len(upstreamMarker))
	return observe(mod.ModifyResponse, res, orig, 4*n+8192)
}

func rangeFile(n int) string { return fmt.Sprintf("f%d.bin", n) }

func runStaticRange(n int, hasRange bool, h string) obs {
	mod := static.NewModifier(rangeRoot)
	for attempt := 0; ; attempt++ {
		req, _ := http.NewRequest("GET", "http://example.com/"+rangeFile(n), nil)
		if hasRange {
			req.Header["Range"] = []string{h}
		}
		// after SkipRoundTrip the proxy hands the response modifiers proxyutil.NewResponse(200, nil, req): empty body
		orig := &trackBody{r: bytes.NewReader(nil)}
		res := proxyutil.NewResponse(200, orig, req)
		o := observe(mod.ModifyResponse, res, orig, 4*n+8192)
		if attempt < 3 && strings.Contains(o.Err, "too many open files") {
			runtime.GC() // the modifier leaves files to the finalizer; not the subject of this property
			time.Sleep(10 * time.Millisecond)
			continue
		}
		return o
	}
}

// ---------------------------------------------------------------------------------------------------
// judging a range case

type viol struct {
	Sig     string
	Symptom string
	Desc    string
}

type caseResult struct {
	Viols      []viol
	Nontrivial bool
	Outcome    string
}

func allZero(b []byte) bool {
	for _, x := range b {
		if x != 0 {
			return false
		}
	}
	return true
}

// cmpBytes classifies a difference between returned and expected bytes.
func cmpBytes(got, want []byte) string {
	switch {
	case bytes.Equal(got, want):
		return ""
	case len(got) > len(want) && bytes.Equal(got[:len(want)], want) && allZero(got[len(want):]):
		return "zero_padding"
	case len(got) > len(want) && bytes.Equal(got[:len(want)], want):
		return "bytes_outside_content"
	}
	return "wrong_bytes"
}

type part struct {
	cr   string
	data []byte
}

func readParts(b []byte, boundary string) ([]part, error) {
	if boundary == "" {
		return nil, errors.New("no boundary parameter")
	}
	mr := multipart.NewReader(bytes.NewReader(b), boundary)
	var out []part
	for {
		p, err := mr.NextRawPart()
		if err == io.EOF {
			return out, nil
		}
		if err != nil {
			return out, err
		}
		d, err := io.ReadAll(p)
		if err != nil {
			return out, err
		}
		out = append(out, part{cr: p.Header.Get("Content-Range"), data: d})
	}
}

func judgeRange(mod string, c []byte, e expect, o obs) (vs []viol, outcome string) {
	n := len(c)
	add := func(class, symptom, detail string) {
		vs = append(vs, viol{Sig: mod + ":" + class + ":" + symptom, Symptom: symptom, Desc: detail})
	}
	if o.Panic != "" {
		add(e.Class, "panic", "panic: "+o.Panic)
		return vs, "panic"
	}
	if o.Err != "" {
		if o.OrigClosed {
			add(e.Class, "error_body_closed", "returned error "+strconv.Quote(o.Err)+" after closing the original body; neither full content, 206 nor 416")
		} else {
			add(e.Class, "error", "returned error "+strconv.Quote(o.Err)+"; neither full content, 206 nor 416")
		}
		return vs, "error"
	}
	if o.ReadErr != "" {
		if o.Status == 416 {
			add("answer_416", "body_closed_unreadable", "416 answered but the response body is the closed original ("+o.ReadErr+"), Content-Length "+fmt.Sprint(o.CL)+": the response cannot be written")
		} else {
			add(e.Class, "body_unreadable", "body read error "+o.ReadErr)
		}
		return vs, "unreadable"
	}
	if o.Oversized {
		add(e.Class, "bytes_outside_content", "body longer than four times the content")
		return vs, "oversized"
	}
	if o.CL != int64(len(o.Body)) {
		add(e.Class, "content_length_mismatch", fmt.Sprintf("Content-Length %d but the body has %d bytes", o.CL, len(o.Body)))
	}
	switch o.Status {
	case 200:
		outcome = "full"
		if s := cmpBytes(o.Body, c); s != "" {
			add(e.Class, "full_"+s, "status 200 but the body is not the content")
		}
		if cr := o.Header.Get("Content-Range"); cr != "" {
			add(e.Class, "content_range_on_200", "status 200 with Content-Range "+cr)
		}
	case 416:
		outcome = "416"
		if !e.Allow416 {
			add(e.Class, "unexpected_416", "416 although every requested range can be satisfied")
		}
		if bytes.Contains(o.Body, []byte(upstreamMarker)) {
			add("answer_416", "upstream_body_leak", "416 carries the upstream body")
		}
		if cr := o.Header.Get("Content-Range"); cr != "" && cr != fmt.Sprintf("bytes */%d", n) {
			add(e.Class, "content_range_inconsistent", fmt.Sprintf("416 with Content-Range %q, want %q", cr, fmt.Sprintf("bytes */%d", n)))
		}
	case 206:
		outcome = "206"
		if !e.Allow206 {
			add(e.Class, "unexpected_206", "206 although no requested range can be satisfied / the header is invalid")
			return vs, outcome
		}
		wantCR := func(r [2]int) string { return fmt.Sprintf("bytes %d-%d/%d", r[0], r[1], n) }
		mt, params, err := mime.ParseMediaType(o.Header.Get("Content-Type"))
		if err != nil && strings.HasPrefix(strings.ToLower(o.Header.Get("Content-Type")), "multipart/byteranges") {
			add(e.Class, "multipart_malformed", "the multipart Content-Type does not parse: "+err.Error())
			return vs, "206_multipart"
		}
		if err == nil && mt == "multipart/byteranges" {
			outcome = "206_multipart"
			if cr := o.Header.Get("Content-Range"); cr != "" {
				add(e.Class, "content_range_on_multipart", "multipart/byteranges response with a top-level Content-Range "+strconv.Quote(cr))
			}
			parts, perr := readParts(o.Body, params["boundary"])
			if perr != nil {
				add(e.Class, "multipart_malformed", "multipart body does not parse: "+perr.Error())
				return vs, outcome
			}
			if len(parts) != len(e.Ranges) {
				add(e.Class, "multipart_part_count", fmt.Sprintf("%d parts for %d satisfiable ranges", len(parts), len(e.Ranges)))
				return vs, outcome
			}
			for i, p := range parts {
				r := e.Ranges[i]
				if s := cmpBytes(p.data, c[r[0]:r[1]+1]); s != "" {
					add(e.Class, s, fmt.Sprintf("part %d: want content[%d:%d] (%d bytes), got %d bytes", i, r[0], r[1]+1, r[1]+1-r[0], len(p.data)))
				}
				if p.cr != wantCR(r) {
					add(e.Class, "content_range_inconsistent", fmt.Sprintf("part %d: Content-Range %q, want %q", i, p.cr, wantCR(r)))
				}
			}
			return vs, outcome
		}
		if len(e.Ranges) != 1 {
			add(e.Class, "multiple_ranges_not_multipart", fmt.Sprintf("%d satisfiable ranges answered without multipart/byteranges", len(e.Ranges)))
			return vs, outcome
		}
		r := e.Ranges[0]
		if s := cmpBytes(o.Body, c[r[0]:r[1]+1]); s != "" {
			add(e.Class, s, fmt.Sprintf("want content[%d:%d] (%d bytes), got %d bytes", r[0], r[1]+1, r[1]+1-r[0], len(o.Body)))
		}
		if cr := o.Header.Get("Content-Range"); cr != wantCR(r) {
			add(e.Class, "content_range_inconsistent", fmt.Sprintf("Content-Range %q, want %q", cr, wantCR(r)))
		}
	default:
		outcome = "other_status"
		add(e.Class, "unexpected_status", fmt.Sprintf("status %d", o.Status))
	}
	return vs, outcome
}

type rangeCase struct {
	Mod      int    `json:"mod"`
	Size     int    `json:"size"`
	HasRange bool   `json:"has_range"`
	Header   string `json:"header"`
}

func (c rangeCase) String() string {
	if !c.HasRange {
		return fmt.Sprintf("%s modifier, %d-byte content, no Range header", modNames[c.Mod], c.Size)
	}
	return fmt.Sprintf("%s modifier, %d-byte content, Range: %q", modNames[c.Mod], c.Size, c.Header)
}

// complexity orders cases for the choice of the reported example: fewer specs, canonical unit, shorter, smaller.
func (c rangeCase) complexity() int64 {
	unit := int64(3)
	switch {
	case strings.HasPrefix(c.Header, "bytes="):
		unit = 0
	case strings.HasPrefix(c.Header, "Bytes="):
		unit = 1
	case !strings.Contains(c.Header, "="):
		unit = 2
	}
	return int64(strings.Count(c.Header, ","))<<44 | unit<<40 | int64(len(c.Header))<<24 | int64(c.Size)<<4 | int64(c.Mod)
}

func evalRangeCase(c rangeCase) caseResult {
	var o obs
	if c.Mod == 0 {
		o = runBodyRange(c.Size, c.HasRange, c.Header)
	} else {
		o = runStaticRange(c.Size, c.HasRange, c.Header)
	}
	e := refModel(c.HasRange, c.Header, c.Size)
	vs, outcome := judgeRange(modNames[c.Mod], content(c.Size), e, o)
	for i := range vs {
		vs[i].Desc = c.String() + ": " + vs[i].Desc + " [observed: " + o.brief() + "]"
	}
	return caseResult{Viols: vs, Nontrivial: e.Allow206, Outcome: e.Class + "/" + outcome}
}

// ---------------------------------------------------------------------------------------------------
// scratch tree

var rootFiles = []string{"a", "\\", "sub/a", "sub/\\", "sub/sub/a", "sub/sub/\\", "sub/sub/sub/a"}

func fileContent(rel string) string { return "FILE-BENEATH-ROOT:/" + rel }

func buildTree(tier string) error {
	rangeRoot = filepath.Join(scratchDir, "rangeroot")
	pathRoot = filepath.Join(scratchDir, "l3", "l2", "jail", "root")
	if err := os.MkdirAll(rangeRoot, 0o755); err != nil {
		return err
	}
	for _, n := range allRangeFileSizes() {
		if err := os.WriteFile(filepath.Join(rangeRoot, rangeFile(n)), content(n), 0o644); err != nil {
			return err
		}
	}
	for _, rel := range rootFiles {
		p := filepath.Join(pathRoot, rel)
		if err := os.MkdirAll(filepath.Dir(p), 0o755); err != nil {
			return err
		}
		if err := os.WriteFile(p, []byte(fileContent(rel)), 0o644); err != nil {
			return err
		}
	}
	// sentinels: at each of the three levels above the root, files with the names a hostile path can spell
	lvl := filepath.Dir(pathRoot)
	for i := 0; i < 3; i++ {
		for _, rel := range append([]string{"sentinel.txt"}, rootFiles...) {
			p := filepath.Join(lvl, rel)
			if err := os.MkdirAll(filepath.Dir(p), 0o755); err != nil {
				return err
			}
			if err := os.WriteFile(p, []byte(fmt.Sprintf("%s:%d:%s", sentinelMark, i, rel)), 0o644); err != nil {
				return err
			}
		}
		lvl = filepath.Dir(lvl)
	}
	return buildExtTree()
}

// ---------------------------------------------------------------------------------------------------
// paths

var segAlphabet = []string{"", ".", "..", "a", "sub", "%2e%2e", "%2f", "\\"}

var explicitMap = map[string]string{
	"/a":         "/sub/a",         // benign remap
	"/sub/a":     "/missing",       // mapped to a file that does not exist: 404 even though /sub/a exists
	"/sub/sub/a": "/../a",          // configured value climbing out of the root
	"/sub/sub":   "../../sub/a",    // same, relative spelling
	"/\\":        "sub/../../../a", // same, two levels
	"/sub/\\":    "sub/./sub/../a", // dotted but staying inside
}

type pathCase struct {
	Segs   []string `json:"segments"`
	Target string   `json:"request_target"`
	Form   string   `json:"form"`
	Map    bool     `json:"explicit_map"`
}

func (c pathCase) String() string {
	m := "no path map"
	if c.Map {
		m = "explicit path map"
	}
	return fmt.Sprintf("static modifier, %s request target %q, %s", c.Form, c.Target, m)
}

// normalize removes dot segments from a decoded URL path without ever climbing above the root; the result is
// "" (the root itself) or a relative slash separated path.
func normalize(p string) (rel string, climbed bool) {
	var st []string
	for _, s := range strings.Split(p, "/") {
		switch s {
		case "", ".":
		case "..":
			if len(st) > 0 {
				st = st[:len(st)-1]
			} else {
				climbed = true // tried to leave the root: clamped
			}
		default:
			st = append(st, s)
		}
	}
	return strings.Join(st, "/"), climbed
}

// modelFS answers what lies at a normalized relative path beneath the root: "file", "dir", "through_file", "missing".
func modelFS(rel string) string {
	if rel == "" {
		return "dir"
	}
	for _, f := range rootFiles {
		if f == rel {
			return "file"
		}
		if strings.HasPrefix(f, rel+"/") {
			return "dir"
		}
		if strings.HasPrefix(rel, f+"/") {
			return "through_file"
		}
	}
	return "missing"
}

func evalPathCase(c pathCase) (vs []viol, nontrivial bool, outcome string) {
	raw := "GET " + c.Target + " HTTP/1.1\r\nHost: example.com\r\n\r\n"
	req, err := http.ReadRequest(bufio.NewReader(strings.NewReader(raw)))
	if err != nil {
		return nil, false, "rejected_by_parser"
	}
	mod := static.NewModifier(pathRoot)
	if c.Map {
		m := map[string]string{}
		for k, v := range explicitMap {
			m[k] = v
		}
		mod.SetExplicitPathMappings(m)
	}
	orig := &trackBody{r: bytes.NewReader(nil)}
	res := proxyutil.NewResponse(200, orig, req)
	o := observe(mod.ModifyResponse, res, orig, 1<<16)

	// reference resolution
	rel, _ := normalize(req.URL.Path)
	class := "path_" + modelFS(rel)
	want := ""
	if modelFS(rel) == "file" {
		want = fileContent(rel)
	}
	if c.Map {
		if v, ok := explicitMap["/"+rel]; ok {
			mrel, climbed := normalize(v)
			class = "explicit_map_" + modelFS(mrel)
			if climbed {
				class = "explicit_map_climbing_value"
			}
			want = ""
			if modelFS(mrel) == "file" {
				want = fileContent(mrel)
			}
		}
	}
	for _, s := range c.Segs {
		if s == ".." || s == "%2e%2e" || s == "%2f" || s == "\\" {
			nontrivial = true
		}
	}
	add := func(symptom, detail string) {
		vs = append(vs, viol{Sig: "static:" + class + ":" + symptom,
			Desc: fmt.Sprintf("%s (URL.Path %q, resolves to %q beneath the root): %s [observed: %s]", c, req.URL.Path, "/"+rel, detail, o.brief())})
	}
	switch {
	case o.Panic != "":
		add("panic", "panic")
		return vs, nontrivial, "panic"
	case bytes.Contains(o.Body, []byte(sentinelMark)):
		add("sentinel_leak", "the response carries a file from outside the root")
		return vs, nontrivial, "sentinel"
	case o.Err != "":
		add("error", "returned an error; neither a file beneath the root nor 404")
		return vs, nontrivial, "error"
	case o.Status == 404:
		if want != "" {
			add("existing_file_404", "404 although the path designates an existing file beneath the root")
		}
		return vs, nontrivial, "404"
	case o.Status != 200:
		add("unexpected_status", fmt.Sprintf("status %d", o.Status))
		return vs, nontrivial, "other_status"
	case o.ReadErr != "":
		add("body_unreadable", "status 200 with Content-Length "+fmt.Sprint(o.CL)+" but the body cannot be read ("+o.ReadErr+"); neither a file nor 404")
		return vs, nontrivial, "unreadable"
	}
	beneath := false
	for _, f := range rootFiles {
		if string(o.Body) == fileContent(f) {
			beneath = true
		}
	}
	switch {
	case !beneath:
		add("outside_root", "the body is not the content of any file beneath the root")
	case want == "":
		add("file_for_non_file", "a file is served although the path designates no file (expected 404)")
	case string(o.Body) != want:
		add("wrong_file", "served a different file than the path designates")
	}
	if o.CL != int64(len(o.Body)) {
		add("content_length_mismatch", fmt.Sprintf("Content-Length %d, body %d bytes", o.CL, len(o.Body)))
	}
	return vs, nontrivial, "file"
}

func pathCases(tier string) []pathCase {
	maxSeg := 3
	if tier == "thorough" {
		maxSeg = 4
	}
	var out []pathCase
	emit := func(segs []string, origin, abs string) {
		for _, m := range []bool{false, true} {
			cp := append([]string(nil), segs...)
			out = append(out, pathCase{Segs: cp, Target: origin, Form: "origin-form", Map: m})
			out = append(out, pathCase{Segs: cp, Target: abs, Form: "absolute-form", Map: m})
		}
	}
	emit(nil, "/", "http://example.com") // the empty sequence; absolute-form without any path
	lib.Sequences(len(segAlphabet), maxSeg, func(seq []int) {
		if len(seq) == 0 {
			return
		}
		segs := make([]string, len(seq))
		for i, s := range seq {
			segs[i] = segAlphabet[s]
		}
		p := "/" + strings.Join(segs, "/")
		emit(segs, p, "http://example.com"+p)
	})
	return out
}

// ---------------------------------------------------------------------------------------------------
// aggregation

type sigAgg struct {
	count int
	best  []aggItem
}

type aggItem struct {
	key    int64
	desc   string
	replay interface{}
}

type aggregator struct {
	mu       sync.Mutex
	sigs     map[string]*sigAgg
	outcomes map[string]int64
}

func (a *aggregator) add(sig, desc string, key int64, replay interface{}) {
	a.mu.Lock()
	defer a.mu.Unlock()
	s := a.sigs[sig]
	if s == nil {
		s = &sigAgg{}
		a.sigs[sig] = s
	}
	s.count++
	s.best = append(s.best, aggItem{key, desc, replay})
	sort.SliceStable(s.best, func(i, j int) bool { return s.best[i].key < s.best[j].key })
	if len(s.best) > 3 {
		s.best = s.best[:3]
	}
}

func (a *aggregator) outcome(o string, n int64) {
	a.mu.Lock()
	a.outcomes[o] += n
	a.mu.Unlock()
}

// ---------------------------------------------------------------------------------------------------
// worker subprocess (heavy cases): one case per line on stdin, one result per line on stdout

func workerMain() {
	// The Go runtime and libc reserve address space at start-up; cap the growth from here on.
	asLimit := vmSize() + workerHeadroom
	lim := syscall.Rlimit{Cur: asLimit, Max: asLimit}
	if err := syscall.Setrlimit(syscall.RLIMIT_AS, &lim); err != nil {
		fmt.Fprintln(os.Stderr, "C20 worker: cannot set RLIMIT_AS:", err)
		os.Exit(3)
	}
	scratchDir = os.Getenv("VERIF_C20_SCRATCH")
	rangeRoot = filepath.Join(scratchDir, "rangeroot")
	in := bufio.NewReaderSize(os.Stdin, 1<<16)
	out := bufio.NewWriter(os.Stdout)
	n := 0
	for {
		line, err := in.ReadBytes('\n')
		if len(line) > 0 {
			var c rangeCase
			if jerr := json.Unmarshal(line, &c); jerr != nil {
				fmt.Fprintln(os.Stderr, "C20 worker: bad case:", jerr)
				os.Exit(3)
			}
			r := evalRangeCase(c)
			b, _ := json.Marshal(r)
			out.Write(b)
			out.WriteByte('\n')
			out.Flush()
			if n++; n%256 == 0 {
				runtime.GC()
			}
		}
		if err != nil {
			return
		}
	}
}

// vmSize returns the current virtual size of the process in bytes.
func vmSize() uint64 {
	b, err := os.ReadFile("/proc/self/statm")
	if err != nil {
		fmt.Fprintln(os.Stderr, "C20 worker: cannot read /proc/self/statm:", err)
		os.Exit(3)
	}
	f := strings.Fields(string(b))
	pages, _ := strconv.ParseUint(f[0], 10, 64)
	return pages * uint64(os.Getpagesize())
}

type worker struct {
	cmd    *exec.Cmd
	in     io.WriteCloser
	out    *bufio.Reader
	stderr *bytes.Buffer
}

func startWorker() (*worker, error) {
	cmd := exec.Command(os.Args[0], os.Args[1:]...)
	cmd.Env = append(os.Environ(), "VERIF_C20_WORKER=1", "VERIF_C20_SCRATCH="+scratchDir, "GOMAXPROCS=2", "GOTRACEBACK=none")
	in, err := cmd.StdinPipe()
	if err != nil {
		return nil, err
	}
	op, err := cmd.StdoutPipe()
	if err != nil {
		return nil, err
	}
	w := &worker{cmd: cmd, in: in, out: bufio.NewReaderSize(op, 1<<16), stderr: &bytes.Buffer{}}
	cmd.Stderr = w.stderr
	if err := cmd.Start(); err != nil {
		return nil, err
	}
	return w, nil
}

func (w *worker) stop() {
	w.in.Close()
	w.cmd.Process.Kill()
	w.cmd.Wait()
}

// run sends one case; died reports that the worker process ended (or hung) while working on it.
func (w *worker) run(c rangeCase) (r caseResult, died bool, why string) {
	b, _ := json.Marshal(c)
	if _, err := w.in.Write(append(b, '\n')); err != nil {
		w.cmd.Wait()
		return r, true, "worker gone before the case was sent: " + firstLines(w.stderr.String())
	}
	var hung int32
	t := time.AfterFunc(caseDeadline, func() { atomic.StoreInt32(&hung, 1); w.cmd.Process.Kill() })
	line, err := w.out.ReadBytes('\n')
	t.Stop()
	if err != nil {
		w.cmd.Wait()
		if atomic.LoadInt32(&hung) == 1 {
			return r, true, "hang"
		}
		return r, true, firstLines(w.stderr.String())
	}
	if jerr := json.Unmarshal(line, &r); jerr != nil {
		fmt.Fprintln(os.Stderr, "C20: bad worker reply:", jerr)
		os.Exit(2)
	}
	return r, false, ""
}

func firstLines(s string) string {
	ls := strings.Split(strings.TrimSpace(s), "\n")
	if len(ls) > 3 {
		ls = ls[:3]
	}
	return strings.Join(ls, " | ")
}

// ---------------------------------------------------------------------------------------------------

func cleanupAndExit(code int) {
	if scratchDir != "" {
		os.RemoveAll(scratchDir)
	}
	os.Exit(code)
}

func setupScratch(tier string) {
	base := filepath.Join(lib.Root, ".build", "c20")
	if err := os.MkdirAll(base, 0o755); err != nil {
		fmt.Fprintln(os.Stderr, "C20:", err)
		os.Exit(2)
	}
	d, err := os.MkdirTemp(base, "tree-")
	if err != nil {
		fmt.Fprintln(os.Stderr, "C20:", err)
		os.Exit(2)
	}
	scratchDir = d
	sigc := make(chan os.Signal, 1)
	signal.Notify(sigc, os.Interrupt, syscall.SIGTERM)
	go func() { <-sigc; cleanupAndExit(2) }()
	if err := buildTree(tier); err != nil {
		fmt.Fprintln(os.Stderr, "C20: cannot build the scratch tree:", err)
		cleanupAndExit(2)
	}
	// the relative root spelling of the xpath family is relative to the scratch directory
	if err := os.Chdir(scratchDir); err != nil {
		fmt.Fprintln(os.Stderr, "C20:", err)
		cleanupAndExit(2)
	}
}

func main() {
	if os.Getenv("VERIF_C20_WORKER") != "" {
		workerMain()
		return
	}
	tier := lib.Tier()
	replayFile := os.Getenv("VERIF_REPLAY")
	if replayFile != "" {
		if abs, err := filepath.Abs(replayFile); err == nil {
			replayFile = abs // setupScratch changes the working directory
		}
	}
	setupScratch(tier)
	if p := replayFile; p != "" {
		replay(p)
		cleanupAndExit(0)
	}
	rep := lib.NewReport("C20", "model_checking")
	agg := &aggregator{sigs: map[string]*sigAgg{}, outcomes: map[string]int64{}}

	// ---- part 1: ranges ----
	sizes := sizesFor(tier)
	var light, heavy []rangeCase
	nHeaders := 0
	seenCase := map[string]bool{}
	addCases := func(n int, hs []string) {
		for m := range modNames {
			if k := fmt.Sprintf("%d/%d/-", m, n); !seenCase[k] {
				seenCase[k] = true
				light = append(light, rangeCase{Mod: m, Size: n})
			}
			for _, h := range hs {
				if k := fmt.Sprintf("%d/%d/+%s", m, n, h); seenCase[k] {
					continue
				} else {
					seenCase[k] = true
				}
				c := rangeCase{Mod: m, Size: n, HasRange: true, Header: h}
				if isHeavy(h) {
					heavy = append(heavy, c)
				} else {
					light = append(light, c)
				}
			}
		}
	}
	if !famOn("base") {
		sizes = nil
	}
	for _, n := range sizes {
		hs := headersFor(tier, n)
		nHeaders += len(hs)
		for m := range modNames {
			seenCase[fmt.Sprintf("%d/%d/-", m, n)] = true
			for _, h := range hs {
				seenCase[fmt.Sprintf("%d/%d/+%s", m, n, h)] = true
			}
		}
		for m := range modNames {
			light = append(light, rangeCase{Mod: m, Size: n})
			for _, h := range hs {
				c := rangeCase{Mod: m, Size: n, HasRange: true, Header: h}
				if isHeavy(h) {
					heavy = append(heavy, c)
				} else {
					light = append(light, c)
				}
			}
		}
	}
	nBase := len(light) + len(heavy)
	if famOn("grid") {
		gs, tripleMax := gridSizes(tier)
		for _, n := range gs {
			addCases(n, gridHeaders(n, n <= tripleMax))
		}
	}
	nGrid := len(light) + len(heavy) - nBase
	if famOn("sizes") {
		for _, n := range extraSizes(tier) {
			addCases(n, extraSizeHeaders(tier, n))
		}
	}
	nSizes := len(light) + len(heavy) - nBase - nGrid
	var nontrivial, calls int64
	type failed struct {
		c  rangeCase
		vs []viol
	}
	var failedMu sync.Mutex
	var failures []failed
	record := func(c rangeCase, r caseResult) {
		if r.Nontrivial {
			atomic.AddInt64(&nontrivial, 1)
		}
		atomic.AddInt64(&calls, 1)
		if len(r.Viols) > 0 {
			failedMu.Lock()
			failures = append(failures, failed{c, r.Viols})
			failedMu.Unlock()
		}
		agg.outcome(modNames[c.Mod]+":"+r.Outcome, 1)
	}
	const chunk = 512
	nchunks := (len(light) + chunk - 1) / chunk
	lib.Parallel(nchunks, func(ci int) {
		for i := ci * chunk; i < (ci+1)*chunk && i < len(light); i++ {
			record(light[i], evalRangeCase(light[i]))
		}
		runtime.GC() // the static modifier leaves range-request files to the finalizer
	})

	nw := runtime.NumCPU()
	var spawned, deaths int64
	var wg sync.WaitGroup
	for s := 0; s < nw; s++ {
		wg.Add(1)
		go func(s int) {
			defer wg.Done()
			var w *worker
			for k := s; k < len(heavy); k += nw {
				c := heavy[k]
				if w == nil {
					var err error
					if w, err = startWorker(); err != nil {
						fmt.Fprintln(os.Stderr, "C20: cannot start worker:", err)
						cleanupAndExit(2)
					}
					atomic.AddInt64(&spawned, 1)
				}
				r, died, why := w.run(c)
				if died {
					atomic.AddInt64(&deaths, 1)
					w.stop()
					w = nil
					e := refModel(c.HasRange, c.Header, c.Size)
					symptom := "crash"
					switch {
					case why == "hang":
						symptom = "hang"
					case strings.Contains(why, "out of memory") || strings.Contains(why, "cannot allocate"):
						symptom = "oom"
					}
					r = caseResult{Nontrivial: e.Allow206, Outcome: e.Class + "/" + symptom,
						Viols: []viol{{Sig: modNames[c.Mod] + ":" + e.Class + ":" + symptom, Symptom: symptom,
							Desc: fmt.Sprintf("%s: the process serving the request died when its address space was allowed to grow by %d MiB (allocation sized from the header): %s", c, workerHeadroom>>20, why)}}}
				}
				record(c, r)
			}
			if w != nil {
				w.stop()
			}
		}(s)
	}
	wg.Wait()

	// A violating header of several specs is attributed to the scenario class of its first single-spec
	// sub-header (same unit, size and modifier; every one of them is a case of the enumeration) that shows the
	// same symptom, so that one defect yields one signature whatever else the header contains; when no single
	// spec shows it the class is multi_range.
	type skey struct {
		mod, size int
		header    string
	}
	singles := map[skey][]viol{}
	for _, f := range failures {
		if !strings.Contains(f.c.Header, ",") {
			singles[skey{f.c.Mod, f.c.Size, f.c.Header}] = f.vs
		}
	}
	for _, f := range failures {
		unit, set := "", f.c.Header
		if i := strings.IndexByte(set, '='); i >= 0 {
			unit, set = set[:i+1], set[i+1:]
		}
		for _, v := range f.vs {
			sig := v.Sig
			if strings.Contains(set, ",") && !strings.Contains(sig, ":answer_416:") {
				// no single spec of the header shows the symptom: the defect needs several ranges
				sig = modNames[f.c.Mod] + ":multi_range:" + v.Symptom
			search:
				for _, sp := range strings.Split(set, ",") {
					for _, sv := range singles[skey{f.c.Mod, f.c.Size, unit + sp}] {
						if sv.Symptom == v.Symptom {
							sig = sv.Sig
							break search
						}
					}
				}
			}
			agg.add(sig, v.Desc, f.c.complexity(), map[string]interface{}{"part": "range", "case": f.c})
		}
	}

	// ---- part 2: paths ----
	pcs := pathCases(tier)
	if !famOn("base") {
		pcs = nil
	}
	var pathNontrivial, pathRejected int64
	lib.Parallel(len(pcs), func(i int) {
		c := pcs[i]
		vs, nt, outcome := evalPathCase(c)
		if outcome == "rejected_by_parser" {
			atomic.AddInt64(&pathRejected, 1)
		} else {
			atomic.AddInt64(&calls, 1)
			if nt {
				atomic.AddInt64(&pathNontrivial, 1)
			}
		}
		key := int64(len(c.Segs))<<32 | int64(len(c.Target))<<8
		if c.Map {
			key |= 2
		}
		if c.Form != "origin-form" {
			key |= 1
		}
		for _, v := range vs {
			agg.add(v.Sig, v.Desc, key, map[string]interface{}{"part": "path", "case": c})
		}
		agg.outcome("static:path/"+outcome, 1)
	})

	// ---- extensions (ext.go) ----
	ext := runExtensions(tier, agg)
	calls += ext.calls

	// ---- report ----
	var sigs []string
	for s := range agg.sigs {
		sigs = append(sigs, s)
	}
	sort.Strings(sigs)
	for _, s := range sigs {
		a := agg.sigs[s]
		for _, it := range a.best {
			rep.Violate(s, it.desc, it.replay)
		}
		for i := len(a.best); i < a.count; i++ {
			rep.Violate(s, "", nil)
		}
	}
	nRange := int64(len(light) + len(heavy))
	nPath := int64(len(pcs)) - pathRejected
	rep.Count("range_cases", nRange)
	rep.Count("range_cases_in_capped_workers", int64(len(heavy)))
	rep.Count("range_headers_per_modifier", int64(nHeaders))
	rep.Count("range_cases_with_satisfiable_range", nontrivial)
	rep.Count("path_cases", int64(len(pcs)))
	rep.Count("path_cases_rejected_by_http_parser", pathRejected)
	rep.Count("path_cases_with_dotdot_encoded_or_backslash", pathNontrivial)
	rep.Count("worker_processes_spawned", spawned)
	rep.Count("worker_deaths_attributed", deaths)
	rep.Count("range_cases_grid", int64(nGrid))
	rep.Count("range_cases_extra_sizes", int64(nSizes))
	for k, v := range ext.perFamily {
		rep.Count(k, v)
	}
	rep.Coverage["states"] = nRange + nPath + ext.cases
	rep.Coverage["transitions"] = calls
	rep.Coverage["traces_validated_against_impl"] = calls
	rep.Coverage["evaluations"] = calls
	rep.Coverage["distinct_nontrivial"] = nontrivial + pathNontrivial + ext.nontrivial
	rep.Coverage["outcomes_by_class"] = agg.outcomes
	rep.Coverage["rule"] = "ranges: every header unit{bytes=,Bytes=,items=,missing} x 1..3 specs of the size-relative pool, for every content size and both modifiers (all distinct by construction); non-trivial = the reference model finds at least one satisfiable range (a 206 is an acceptable answer). paths: every segment sequence x {origin,absolute}-form x {no map, explicit map}; non-trivial = contains '..', '%2e%2e', '%2f' or a backslash segment. grid/sizes: more (size, header) pairs of the range part, deduplicated against it. history: every sequence of calls on one modifier instance x read schedule; non-trivial = at least two bodies outstanding. upstream / boundary: every (modifier, upstream kind | boundary, header); non-trivial = a 206 is acceptable (upstream) / several satisfiable ranges (boundary). xpath: every target x variant; non-trivial = a segment other than a / sub, or a non-default variant"
	rep.Coverage["exhaustive"] = true
	maxSeg, triple := 3, "reduced 10-spec pool for 3-spec headers"
	if tier == "thorough" {
		maxSeg, triple = 4, "full pool for 3-spec headers"
	}
	gs, gt := gridSizes(tier)
	hl := map[string]int{"quick": 3, "thorough": 4}[tier]
	rep.Coverage["bounds"] = fmt.Sprintf("content sizes %v; spec pool of %d specs (size 10), 1..3 specs (%s), 4 units; request paths of <= %d segments over %d segment spellings; grid: sizes %v, all specs over positions 0..n+1, 1..2 specs (3 for n <= %d); extra sizes %v; histories of <= %d calls over %d (body) / %d (static) steps x 2 read schedules; %d upstream kinds; xpath: <= 3 segments over %d spellings, %d constructors x %d root spellings",
		sizes, len(specPool(10)), triple, maxSeg, len(segAlphabet), gs, gt, extraSizes(tier), hl, len(histAlphabet(0)), len(histAlphabet(1)), len(upstreamKinds), len(xsegAlphabet), len(xCtors), len(xRoots))
	for _, i := range []int{1, len(light) / 3, len(light) / 2, len(light) - 1} {
		if i >= 0 && i < len(light) {
			rep.Sample(8, light[i].String())
		}
	}
	if len(heavy) > 0 {
		rep.Sample(8, heavy[len(heavy)/2].String())
	}
	if len(pcs) > 0 {
		rep.Sample(8, pcs[len(pcs)/2].String())
		rep.Sample(8, pcs[len(pcs)-1].String())
	}
	rep.Assumptions = []string{
		"ModifyResponse is called directly on a response built like the proxy builds it (body modifier: upstream response whose body fails after Close; static modifier: proxyutil.NewResponse(200, nil, req) as after SkipRoundTrip); ModifyRequest (context bookkeeping only) is not exercised",
		"a malformed or lenient header (missing unit, inner spaces, empty list elements, numbers beyond 64 bits) may be answered with full content, 416 or the 206 of its evident reading; other units, non-numeric, negative and reversed specs only with full content or 416",
		"path part runs on Linux: a backslash is an ordinary file name character; explicit path map values are treated as configured paths that must stay beneath the root",
		"one content byte pattern per size (no zero bytes) in the range part; the history, upstream and boundary families use a 17-byte content with %, CR LF, -- and NUL; sizes limited to the listed ones",
		"upstream family: judged on the wire image (res.Write, http.ReadResponse); a status other than 206 / 416 together with the full content counts as the full-content outcome; a chunked response has no Content-Length to mismatch",
		"xpath family: URL.Path values without a leading slash cannot come from a request line (another modifier must have rewritten the URL); for them 404 is always acceptable",
	}
	code := rep.FinishNoExit()
	cleanupAndExit(code)
}

func replay(path string) {
	b, err := os.ReadFile(path)
	if err != nil {
		fmt.Println(err)
		cleanupAndExit(2)
	}
	var rp struct {
		Sig   string
		First struct {
			Replay struct {
				Part string
				Case json.RawMessage
			}
		}
	}
	json.Unmarshal(b, &rp)
	fmt.Println("replaying", rp.Sig)
	switch rp.First.Replay.Part {
	case "range":
		var c rangeCase
		json.Unmarshal(rp.First.Replay.Case, &c)
		if isHeavy(c.Header) {
			w, err := startWorker()
			if err != nil {
				fmt.Println(err)
				cleanupAndExit(2)
			}
			r, died, why := w.run(c)
			w.stop()
			fmt.Printf("%s (capped worker)\n died=%v %s\n", c, died, why)
			for _, v := range r.Viols {
				fmt.Printf(" VIOLATION %s\n  %s\n", v.Sig, v.Desc)
			}
			return
		}
		r := evalRangeCase(c)
		fmt.Printf("%s\n outcome %s\n", c, r.Outcome)
		for _, v := range r.Viols {
			fmt.Printf(" VIOLATION %s\n  %s\n", v.Sig, v.Desc)
		}
	case "path":
		var c pathCase
		json.Unmarshal(rp.First.Replay.Case, &c)
		vs, _, outcome := evalPathCase(c)
		fmt.Printf("%s\n outcome %s\n", c, outcome)
		for _, v := range vs {
			fmt.Printf(" VIOLATION %s\n  %s\n", v.Sig, v.Desc)
		}
	default:
		if !replayExt(rp.First.Replay.Part, rp.First.Replay.Case) {
			fmt.Println("unknown replay part", rp.First.Replay.Part)
		}
	}
}
