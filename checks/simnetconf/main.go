// simnetconf runs the simnet-vs-kernel-TCP conformance self-test (see package simconf). Exit 2 on disagreement.
package main

import (
	"fmt"
	"os"

	"verif/checks/simconf"
	"verif/lib"
)

func main() {
	depth := 3
	if lib.Tier() == "thorough" {
		depth = 4
	}
	n, bad, ok := simconf.Run(depth)
	if !ok {
		fmt.Println("simnetconf: no loopback TCP available")
		return
	}
	for i, b := range bad {
		if i < 20 {
			fmt.Println("DISAGREE", b)
		}
	}
	fmt.Printf("simnetconf: %d scripts, %d disagreements\n", n, len(bad))
	if len(bad) > 0 {
		os.Exit(2)
	}
}
