package main

import (
	"net"
)

// Connection capability wrappers. *simnet.Conn has the method set of *net.TCPConn as far as bufio / io.Copy are
// concerned (ReadFrom, WriteTo, CloseRead, CloseWrite). A proxy is not always handed such connections: a TLS
// listener accepts *tls.Conn (CloseWrite, but neither ReadFrom nor WriteTo), SetDial may return any net.Conn
// (a TLS connection to an HTTPS downstream proxy, a SOCKS wrapper, ...), and a user's own listener may return a
// type that has nothing beyond net.Conn. The standard library picks different copy paths for each of them.

// bareConn exposes net.Conn only (embedding the interface hides every other method of the wrapped value).
type bareConn struct{ net.Conn }

// cwConn exposes net.Conn plus CloseWrite, like *tls.Conn.
type cwConn struct {
	net.Conn
	inner interface{ CloseWrite() error }
}

func (c cwConn) CloseWrite() error { return c.inner.CloseWrite() }

// wrapConn narrows c to the capability class kind ("" = leave as is).
func wrapConn(c net.Conn, kind string) net.Conn {
	switch kind {
	case "bare":
		return bareConn{c}
	case "cw":
		return cwConn{c, c.(interface{ CloseWrite() error })}
	}
	return c
}

// wrapListener hands out narrowed connections.
type wrapListener struct {
	net.Listener
	kind string
}

func (l wrapListener) Accept() (net.Conn, error) {
	c, err := l.Listener.Accept()
	if err != nil {
		return nil, err
	}
	return wrapConn(c, l.kind), nil
}
