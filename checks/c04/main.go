// C04 — blind CONNECT tunnels are byte-transparent both ways and propagate end-of-stream.
//
// The real proxy (no MITM) serves a simnet listener; a client thread issues CONNECT with every placement
// of early data relative to the head, then client and target each run a writer and a reader thread that
// exchange chunk lists in both directions at once; one side finishes first with a full close or a
// half-close. Every schedule within the deviation bound is executed; at the first quiescent point (no
// virtual time has passed, so no idle-timeout could have fired) the statement's clauses are evaluated.
package main

import (
	"bufio"
	"bytes"
	"encoding/json"
	"errors"
	"fmt"
	"io"
	"net"
	"net/http"
	"net/url"
	"os"
	"runtime"
	"strings"
	"time"

	"github.com/google/martian/v3/zzverif/simnet"
	"github.com/google/martian/v3/zzverif/vrt"

	"verif/checks/pworld"
	"verif/checks/simconf"
	"verif/lib"
)

type scenario struct {
	Head      int    // 0 head alone, 1 head+first chunk in one segment, 2 head split mid-line, 3 first chunk written before the 200 is read
	CChunks   []int  // client payload chunk sizes
	TChunks   []int  // target payload chunk sizes
	Initiator string // "client" or "target": who finishes first
	Mode      string // "full" close or "half" close (CloseWrite, keep reading)
	DialErr   bool
	ShortRead bool // proxy-side reads are short-read choice points
	PingPong  bool   // request/response conversation: each side sends its next chunk only after the other's previous chunk has arrived
	Route     string // "" direct dial; "downstream": via a downstream proxy; "downstream-coalesced": its 200 shares a segment with the first target bytes
	Pause     int    // seconds of (virtual) silence each side keeps before writing its last chunk; 0 = none
	// AbortDuringDial: the client resets its connection ("abort": RST) or closes it ("close": FIN) while the proxy
	// is still dialling the target; the 200 can then no longer be delivered. The target must still see
	// end-of-stream promptly and both connections must be released.
	AbortDuringDial string
	DownStatus      string // status line the downstream proxy confirms the tunnel with (default "200 OK"): any 2xx means tunnel mode
}

func (s scenario) String() string {
	if s.DialErr {
		return "dial-error"
	}
	if s.AbortDuringDial != "" {
		return fmt.Sprintf("client %ss while the proxy is dialling, route=%s", s.AbortDuringDial, s.Route)
	}
	return fmt.Sprintf("head=%d c=%v t=%v first=%s/%s short=%v pingpong=%v route=%s%s pause=%ds", s.Head, s.CChunks, s.TChunks, s.Initiator, s.Mode, s.ShortRead, s.PingPong, s.Route, map[bool]string{true: "(" + s.DownStatus + ")", false: ""}[s.DownStatus != ""], s.Pause)
}

func payload(tag byte, sizes []int) [][]byte {
	var out [][]byte
	k := 0
	for _, n := range sizes {
		b := make([]byte, n)
		for i := range b {
			b[i] = tag + byte(k%23)
			k++
		}
		out = append(out, b)
	}
	return out
}

func concat(chunks [][]byte) []byte { return bytes.Join(chunks, nil) }

type side struct {
	name     string
	conn     *simnet.Conn
	got      []byte
	eof      bool
	readErr  error
	readDone bool
	wrDone   bool
	wrErr    error
	closed   bool
}

type finding struct{ Sig, Desc string }

const connectHead = "CONNECT target.test:443 HTTP/1.1\r\nHost: target.test:443\r\nX-Conn: 0\r\n\r\n"

func run(sc scenario) (body func(), check func(r *vrt.Result) []finding) {
	var w *pworld.World
	var cs, ts *side
	var clientHead string
	var headStatus int
	var headWarning string
	var headErr error
	var proxyToTarget *simnet.Conn
	var dialStarted, clientGone bool
	type snap struct {
		cGot, tGot         int
		cEOF, tEOF         bool
		cDone, tDone       bool
		srvClosed, pcClose bool
		handlerDone        bool
		at                 time.Duration
	}
	var prompt, late snap
	cpay := payload('a', sc.CChunks)
	tpay := payload('A', sc.TChunks)
	takeSnap := func() snap {
		s := snap{at: vrt.Now()}
		if cs != nil {
			s.cGot, s.cEOF, s.cDone = len(cs.got), cs.eof, cs.readDone
		}
		if ts != nil {
			s.tGot, s.tEOF, s.tDone = len(ts.got), ts.eof, ts.readDone
		}
		if len(w.L.Accepted) > 0 {
			s.srvClosed = w.L.Accepted[0].Closed()
		}
		if proxyToTarget != nil {
			s.pcClose = proxyToTarget.Closed()
		}
		s.handlerDone = true
		for _, ti := range vrt.Snapshot() {
			if strings.Contains(ti.Label, "(*Proxy).Serve") && !ti.Done {
				s.handlerDone = false
			}
		}
		return s
	}
	// endpoint behaviour shared by both sides
	runSide := func(s *side, out [][]byte, initiator bool, r io.Reader, need []int) {
		finish := func() {
			if s.readDone && s.wrDone && !s.closed {
				s.closed = true
				s.conn.Close()
			}
		}
		wt := vrt.GoNamed(s.name+"-writer", func() {
			for k, ch := range out {
				if sc.PingPong && k < len(need) {
					n := need[k]
					vrt.WaitUntil("await-peer-data", func() bool { return len(s.got) >= n || s.readDone })
				}
				if sc.Pause > 0 && k == len(out)-1 {
					vrt.Sleep(time.Duration(sc.Pause) * time.Second)
				}
				if _, err := s.conn.Write(ch); err != nil {
					s.wrErr = err
					break
				}
			}
			s.wrDone = true
			if initiator {
				switch sc.Mode {
				case "full":
					s.closed = true
					s.conn.Close()
				case "abort":
					// the peer goes away abruptly (RST: crashed process, SO_LINGER 0) after its last write
					s.closed = true
					s.conn.Abort()
				default:
					s.conn.CloseWrite()
				}
				return
			}
			finish()
		})
		buf := make([]byte, 65536)
		for {
			n, err := r.Read(buf)
			s.got = append(s.got, buf[:n]...)
			if err != nil {
				if err == io.EOF {
					s.eof = true
				} else {
					s.readErr = err
				}
				break
			}
		}
		s.readDone = true
		if initiator {
			vrt.Join(wt)
			if !s.closed {
				s.closed = true
				s.conn.Close()
			}
			return
		}
		finish()
	}
	body = func() {
		w = pworld.NewWorld()
		cs, ts, proxyToTarget = nil, nil, nil
		dialStarted, clientGone = false, false
		clientHead, headStatus, headWarning, headErr = "", 0, "", nil
		w.Proxy.SetDial(func(network, addr string) (net.Conn, error) {
			if sc.DialErr {
				return nil, errors.New("simulated dial failure")
			}
			if sc.AbortDuringDial != "" {
				dialStarted = true
				vrt.Bump()
				vrt.WaitUntil("client-gone", func() bool { return clientGone })
			}
			a, b := simnet.Pipe("proxy>target", "target")
			a.ShortReads = sc.ShortRead
			proxyToTarget = a
			ts = &side{name: "target", conn: b}
			vrt.GoNamed("target", func() {
				var rd io.Reader = b
				out := tpay
				if sc.Route != "" {
					// act as the downstream proxy first: read the CONNECT head, answer 200
					br := bufio.NewReader(b)
					req, err := http.ReadRequest(br)
					if err != nil || req.Method != "CONNECT" {
						ts.readErr = fmt.Errorf("downstream proxy: bad CONNECT: %v", err)
						ts.readDone, ts.wrDone = true, true
						b.Close()
						return
					}
					head := "HTTP/1.1 200 OK\r\n\r\n"
					if sc.DownStatus != "" {
						head = "HTTP/1.1 " + sc.DownStatus + "\r\n\r\n"
					}
					if sc.Route == "downstream-coalesced" && len(out) > 0 {
						b.Write(append([]byte(head), out[0]...))
						out = out[1:]
					} else {
						b.Write([]byte(head))
					}
					rd = br
				}
				// ping-pong: the target answers chunk k of the client
				var need []int
				tot := 0
				for k := range sc.TChunks {
					if k < len(sc.CChunks) {
						tot += sc.CChunks[k]
					}
					need = append(need, tot)
				}
				if len(out) < len(sc.TChunks) {
					need = need[len(sc.TChunks)-len(out):]
				}
				runSide(ts, out, sc.Initiator == "target", rd, need)
			})
			return a, nil
		})
		if sc.Route != "" {
			u, _ := url.Parse("http://downstream.test:3128")
			w.Proxy.SetDownstreamProxy(u)
		}
		w.Start()
		vrt.GoNamed("client", func() {
			cl, err := w.Dial("client")
			if err != nil {
				headErr = err
				return
			}
			cl.C.Peer().ShortReads = sc.ShortRead
			cs = &side{name: "client", conn: cl.C}
			if sc.AbortDuringDial != "" {
				cl.Send(connectHead)
				vrt.WaitUntil("dial-started", func() bool { return dialStarted })
				if sc.AbortDuringDial == "abort" {
					cl.C.Abort()
				} else {
					cl.C.Close()
				}
				cs.readDone, cs.wrDone, cs.closed = true, true, true
				clientGone = true
				vrt.Bump()
				return
			}
			rest := cpay
			switch sc.Head {
			case 0:
				cl.Send(connectHead)
			case 1:
				if len(rest) > 0 {
					cl.Send(connectHead + string(rest[0]))
					rest = rest[1:]
				} else {
					cl.Send(connectHead)
				}
			case 2:
				cl.Send(connectHead[:17])
				cl.Send(connectHead[17:])
			case 3:
				cl.Send(connectHead)
				if len(rest) > 0 {
					cl.C.Write(rest[0])
					rest = rest[1:]
				}
			}
			br := bufio.NewReader(cl.C)
			res, err := http.ReadResponse(br, &http.Request{Method: "CONNECT"})
			if err != nil {
				headErr = err
				cs.readDone, cs.wrDone = true, true
				return
			}
			headStatus = res.StatusCode
			headWarning = res.Header.Get("Warning")
			clientHead = res.Status
			if res.StatusCode/100 != 2 {
				cs.readDone, cs.wrDone = true, true
				cl.C.Close()
				return
			}
			// ping-pong: the client sends chunk k after the target's chunk k-1 arrived
			var need []int
			tot := 0
			for k := range sc.CChunks {
				if k > 0 && k-1 < len(sc.TChunks) {
					tot += sc.TChunks[k-1]
				}
				need = append(need, tot)
			}
			if len(rest) < len(sc.CChunks) {
				need = need[len(sc.CChunks)-len(rest):]
			}
			runSide(cs, rest, sc.Initiator == "client", br, need)
		})
		vrt.WaitQuiescent()
		if sc.Pause > 0 {
			// the tunnel stays silent for sc.Pause seconds (well below the proxy's idle timeout) before the last
			// chunks are written; "promptly" is then judged one virtual second after the pause has ended
			vrt.Sleep(time.Duration(sc.Pause)*time.Second + time.Second)
			vrt.WaitQuiescent()
		}
		prompt = takeSnap()
		vrt.Sleep(11 * time.Minute)
		vrt.WaitQuiescent()
		late = takeSnap()
		if os.Getenv("VERIF_STACKS") != "" {
			buf := make([]byte, 1<<20)
			fmt.Fprintf(os.Stderr, "%s\n", buf[:runtime.Stack(buf, true)])
		}
		vrt.Log("head=%d %q %v err=%v", headStatus, clientHead, headWarning != "", headErr)
		vrt.Log("prompt=%+v", prompt)
		vrt.Log("late=%+v", late)
		if cs != nil {
			vrt.Log("client got=%d eof=%v rerr=%v werr=%v", len(cs.got), cs.eof, cs.readErr, cs.wrErr)
		}
		if ts != nil {
			vrt.Log("target got=%d eof=%v rerr=%v werr=%v", len(ts.got), ts.eof, ts.readErr, ts.wrErr)
		}
	}
	check = func(r *vrt.Result) []finding {
		var out []finding
		add := func(sig, format string, a ...interface{}) { out = append(out, finding{sig, fmt.Sprintf(format, a...)}) }
		if r.Outcome != "ok" {
			add("outcome:"+r.Outcome, "execution ended with %s: %s", r.Outcome, firstLine(r.Panic))
			return out
		}
		if sc.DialErr {
			if headStatus != 502 || headWarning == "" {
				add("dial_error:no_502_warning", "CONNECT to an unreachable target answered %d (Warning=%q, err=%v)", headStatus, headWarning, headErr)
			}
			if !late.srvClosed && !prompt.srvClosed {
				// connection may legitimately stay open for another request after a 502; the client closed it.
			}
			return out
		}
		if sc.AbortDuringDial != "" {
			tag := "client_" + sc.AbortDuringDial + "_during_dial"
			if sc.Route != "" {
				tag += ":" + sc.Route
			}
			if ts == nil {
				add("harness:no_dial:"+tag, "the proxy never dialled the target")
				return out
			}
			if !prompt.tDone {
				if late.tDone {
					add("eof_late:target:"+tag, "the client was gone before the tunnel was up; the target observed end-of-stream only after the idle timeout")
				} else {
					add("eof_never:target:"+tag, "the client was gone before the tunnel was up; the target never observed end-of-stream")
				}
			}
			if !prompt.srvClosed || !prompt.pcClose || !prompt.handlerDone {
				if late.srvClosed && late.pcClose && late.handlerDone {
					add("release_late:"+tag, "proxy released the connections only after the idle timeout (client side closed=%v, target side closed=%v, handler done=%v at quiescence)", prompt.srvClosed, prompt.pcClose, prompt.handlerDone)
				} else {
					add("release_never:"+tag, "proxy never released the connections (client side closed=%v, target side closed=%v, handler done=%v)", late.srvClosed, late.pcClose, late.handlerDone)
				}
			}
			return out
		}
		if headErr != nil || headStatus/100 != 2 {
			add("connect:no_200", "client did not receive a 2xx for CONNECT: status=%d err=%v", headStatus, headErr)
			return out
		}
		C, T := concat(cpay), concat(tpay)
		if sc.Head == 1 && len(cpay) > 0 || sc.Head == 3 && len(cpay) > 0 {
			// early data is part of C; the client thread sent it before runSide
		}
		early := sc.Head == 1 || sc.Head == 3
		tag := fmt.Sprintf("first=%s/%s", sc.Initiator, sc.Mode)
		if early {
			tag += ":early"
		}
		if sc.Route != "" {
			tag += ":" + sc.Route
		}
		if sc.PingPong {
			tag += ":pingpong"
		}
		if sc.Pause > 0 {
			tag += ":paused"
		}
		// integrity: whatever arrived is a prefix of what was sent (exactly once, in order)
		if !bytes.HasPrefix(C, ts.got) {
			add("corrupt:client_to_target:"+tag, "target received bytes that are not a prefix of the client's stream (got %d bytes)", len(ts.got))
		}
		if !bytes.HasPrefix(T, cs.got) {
			add("corrupt:target_to_client:"+tag, "client received bytes that are not a prefix of the target's stream (got %d bytes)", len(cs.got))
		}
		// what is owed
		owedToTarget := true                                          // all of C must reach the target ...
		owedToClient := true                                          // ... and all of T the client,
		if sc.Initiator == "client" && sc.Mode == "full" {
			owedToClient = false // the client stopped listening
		}
		if sc.Initiator == "target" && sc.Mode == "full" {
			owedToTarget = false
		}
		if sc.Mode == "abort" {
			// a reset may discard what was still in flight in either direction: only integrity (prefix), prompt
			// end-of-stream at the other end and the release of both connections are owed
			owedToClient, owedToTarget = false, false
		}
		sn := prompt
		if owedToTarget && sn.tGot != len(C) {
			if late.tGot == len(C) {
				add("delayed:client_to_target:"+tag, "target had received %d of %d client bytes at quiescence; the rest only arrived after the idle timeout", sn.tGot, len(C))
			} else {
				add("lost:client_to_target:"+tag, "target received %d of %d client bytes", late.tGot, len(C))
			}
		}
		if owedToClient && sn.cGot != len(T) {
			if late.cGot == len(T) {
				add("delayed:target_to_client:"+tag, "client had received %d of %d target bytes at quiescence; the rest only arrived after the idle timeout", sn.cGot, len(T))
			} else {
				add("lost:target_to_client:"+tag, "client received %d of %d target bytes", late.cGot, len(T))
			}
		}
		// end-of-stream propagation: the side that did not finish first must observe EOF promptly
		if sc.Initiator == "client" {
			if !sn.tDone {
				if late.tDone {
					add("eof_late:target:"+tag, "target observed end-of-stream only after the idle timeout (client finished first)")
				} else {
					add("eof_never:target:"+tag, "target never observed end-of-stream although the client finished and closed")
				}
			}
			if sc.Mode == "half" && !sn.cDone {
				if late.cDone {
					add("eof_late:client:"+tag, "client (half-closed, waiting for the reply) observed end-of-stream only after the idle timeout")
				} else {
					add("eof_never:client:"+tag, "client (half-closed) never observed end-of-stream")
				}
			}
		} else {
			if !sn.cDone {
				if late.cDone {
					add("eof_late:client:"+tag, "client observed end-of-stream only after the idle timeout (target finished first)")
				} else {
					add("eof_never:client:"+tag, "client never observed end-of-stream although the target finished and closed")
				}
			}
			if sc.Mode == "half" && !sn.tDone {
				if late.tDone {
					add("eof_late:target:"+tag, "target (half-closed) observed end-of-stream only after the idle timeout")
				} else {
					add("eof_never:target:"+tag, "target (half-closed) never observed end-of-stream")
				}
			}
		}
		// release
		if !sn.srvClosed || !sn.pcClose || !sn.handlerDone {
			if late.srvClosed && late.pcClose && late.handlerDone {
				add("release_late:"+tag, "proxy released the connections only after the idle timeout (client side closed=%v, target side closed=%v, handler done=%v at quiescence)", sn.srvClosed, sn.pcClose, sn.handlerDone)
			} else {
				add("release_never:"+tag, "proxy never released the connections (client side closed=%v, target side closed=%v, handler done=%v)", late.srvClosed, late.pcClose, late.handlerDone)
			}
		}
		return out
	}
	return
}

func firstLine(s string) string {
	if i := strings.IndexByte(s, '\n'); i >= 0 {
		return s[:i]
	}
	return s
}

func scenarios(tier string) []scenario {
	var out []scenario
	small := [][]int{{}, {3}, {1, 2}}
	for head := 0; head < 4; head++ {
		for _, cc := range small {
			if (head == 1 || head == 3) && len(cc) == 0 {
				continue
			}
			for _, tc := range small {
				for _, in := range []string{"client", "target"} {
					for _, mode := range []string{"full", "half"} {
						out = append(out, scenario{Head: head, CChunks: cc, TChunks: tc, Initiator: in, Mode: mode})
					}
				}
			}
		}
	}
	// larger sizes (bufio 4096 and io.Copy 32 KiB boundaries), fewer shapes
	big := [][]int{{4097}, {5000, 3}, {32769}}
	// both directions carry chunks larger than a bufio buffer at the same time (writes go straight to the sockets)
	for _, in := range []string{"client", "target"} {
		for _, mode := range []string{"full", "half"} {
			if tier == "quick" && mode == "full" {
				continue
			}
			out = append(out, scenario{Head: 0, CChunks: []int{4097, 4200}, TChunks: []int{4500, 4100}, Initiator: in, Mode: mode})
		}
	}
	if tier == "thorough" {
		big = append(big, []int{1 << 20})
	}
	for _, b := range big {
		for _, head := range []int{0, 1} {
			for _, in := range []string{"client", "target"} {
				for _, mode := range []string{"full", "half"} {
					out = append(out, scenario{Head: head, CChunks: b, TChunks: []int{2}, Initiator: in, Mode: mode})
					out = append(out, scenario{Head: head, CChunks: []int{2}, TChunks: b, Initiator: in, Mode: mode})
				}
			}
		}
	}
	// early data whose size sits on a buffer boundary (the client then waits for the target's answer)
	for _, n := range []int{1023, 1024, 1025, 2048, 3072, 4095, 4096, 8192} {
		for _, head := range []int{1, 3} {
			out = append(out, scenario{Head: head, CChunks: []int{n, 2}, TChunks: []int{3, 1}, Initiator: "client", Mode: "half", PingPong: true})
		}
	}
	// short reads on the proxy's sockets
	for _, head := range []int{1, 2} {
		for _, in := range []string{"client", "target"} {
			out = append(out, scenario{Head: head, CChunks: []int{1, 2}, TChunks: []int{3}, Initiator: in, Mode: "half", ShortRead: true})
		}
	}
	for _, route := range []string{"downstream", "downstream-coalesced"} {
		for _, head := range []int{0, 1} {
			for _, in := range []string{"client", "target"} {
				for _, mode := range []string{"full", "half"} {
					out = append(out, scenario{Head: head, CChunks: []int{1, 2}, TChunks: []int{3, 1}, Initiator: in, Mode: mode, Route: route})
				}
			}
		}
	}
	// conversations: nobody closes before the whole exchange has happened, each chunk answers the previous one
	for _, route := range []string{"", "downstream", "downstream-coalesced"} {
		for _, head := range []int{0, 1, 3} {
			for _, in := range []string{"client", "target"} {
				for _, mode := range []string{"full", "half"} {
					for _, sizes := range [][2][]int{{{1, 2}, {3, 1}}, {{2, 1, 1}, {1, 1}}, {{300}, {5000}}} {
						out = append(out, scenario{Head: head, CChunks: sizes[0], TChunks: sizes[1], Initiator: in, Mode: mode, Route: route, PingPong: true})
					}
				}
			}
		}
	}
	// pauses: a tunnel that stays silent for a while (shorter than the idle timeout) and then carries more data
	for _, route := range []string{"", "downstream", "downstream-coalesced"} {
		for _, pause := range []int{11, 200} {
			for _, in := range []string{"client", "target"} {
				if tier == "quick" && pause == 200 && in == "target" {
					continue
				}
				out = append(out, scenario{Head: 0, CChunks: []int{1, 2}, TChunks: []int{3, 1}, Initiator: in, Mode: "half", Route: route, Pause: pause})
			}
		}
	}
	// the downstream proxy confirms with a 2xx other than 200, or the way an HTTP/1.0 proxy would
	for _, st := range []string{"204 No Content", "201 Created", "299 Whatever", "200 Connection established"} {
		for _, in := range []string{"client", "target"} {
			out = append(out, scenario{Head: 0, CChunks: []int{1, 2}, TChunks: []int{3, 1}, Initiator: in, Mode: "half", Route: "downstream", DownStatus: st})
		}
	}
	// one end goes away with a reset instead of a close while the other end is waiting for more
	for _, route := range []string{"", "downstream"} {
		for _, in := range []string{"client", "target"} {
			out = append(out, scenario{Head: 0, CChunks: []int{1, 2}, TChunks: []int{3, 1}, Initiator: in, Mode: "abort", Route: route})
			out = append(out, scenario{Head: 0, CChunks: []int{300}, TChunks: []int{5000}, Initiator: in, Mode: "abort", Route: route, PingPong: true})
		}
	}
	for _, how := range []string{"abort", "close"} {
		for _, route := range []string{"", "downstream"} {
			out = append(out, scenario{AbortDuringDial: how, Route: route, Initiator: "client", Mode: "full"})
		}
	}
	out = append(out, scenario{DialErr: true}, scenario{DialErr: true, Route: "downstream"})
	return out
}

type shardOut struct {
	Counters   map[string]int64
	Violations []lib.Violation
	Samples    []interface{}
	Incomplete string
	MinBound   int
}

func main() {
	tier := lib.Tier()
	scen := scenarios(tier)
	bound := 2
	if tier == "thorough" {
		bound = 3
	}
	if rp := os.Getenv("VERIF_REPLAY"); rp != "" {
		// replay one recorded violation: same scenario, same schedule, with a full trace
		var doc struct {
			First struct {
				Replay struct {
					Scenario scenario
					Schedule []int
				}
			}
		}
		b, err := os.ReadFile(rp)
		if err != nil || json.Unmarshal(b, &doc) != nil {
			fmt.Fprintln(os.Stderr, "cannot read replay", rp, err)
			os.Exit(2)
		}
		body, check := run(doc.First.Replay.Scenario)
		r := vrt.Run(vrt.Config{Trace: true, MaxPoints: 50000}, doc.First.Replay.Schedule, body)
		for _, l := range r.Trace {
			fmt.Println("  ", l)
		}
		fmt.Println("outcome:", r.Outcome, r.Panic)
		for _, l := range r.Log {
			fmt.Println("log:", l)
		}
		for _, t := range r.Threads {
			fmt.Printf("thread %d %s done=%v blocked=%s\n", t.ID, t.Label, t.Done, t.Blocked)
		}
		fs := check(r)
		for _, f := range fs {
			fmt.Printf("VIOLATION property=C04 replay=%s\n  %s: %s\n", rp, f.Sig, f.Desc)
		}
		if len(fs) > 0 {
			os.Exit(1)
		}
		return
	}
	if i, n := lib.ShardEnv(); n > 0 {
		out := &shardOut{Counters: map[string]int64{}, MinBound: 99}
		per := 25 * time.Second
		if tier == "thorough" {
			per = 4 * time.Minute
		}
		for si, sc := range scen {
			if si%n != i {
				continue
			}
			b := bound
			big := false
			for _, x := range append(append([]int{}, sc.CChunks...), sc.TChunks...) {
				if x > 100 {
					big = true
				}
			}
			bidi := false
			if len(sc.CChunks) > 0 && len(sc.TChunks) > 0 && sc.CChunks[0] > 4096 && sc.TChunks[0] > 4096 {
				bidi = true
			}
			if big && !(bidi && tier == "quick") {
				b-- // long executions; the simultaneous-large-chunk scenarios keep the full bound in quick
			}
			body, check := run(sc)
			seen := map[string]bool{}
			st := vrt.Explore(vrt.ExploreConfig{Bound: b, Deadline: time.Now().Add(per), Config: vrt.Config{MaxPoints: 50000}}, body, func(prefix []int, r *vrt.Result) bool {
				for _, f := range check(r) {
					if !seen[f.Sig] {
						seen[f.Sig] = true
						if err := vrt.Confirm(vrt.Config{MaxPoints: 50000, MaxVTime: 3 * time.Hour}, r, body, 3); err != nil {
							fmt.Fprintln(os.Stderr, "ENGINE ERROR:", err)
							os.Exit(2)
						}
						out.Violations = append(out.Violations, lib.Violation{Sig: f.Sig, Desc: fmt.Sprintf("scenario {%s} schedule %v: %s", sc, r.ChoiceSeq(), f.Desc),
							Replay: map[string]interface{}{"scenario": sc, "schedule": r.ChoiceSeq(), "log": r.Log}})
					}
				}
				return true
			})
			if st.EngineError != "" {
				fmt.Fprintln(os.Stderr, "ENGINE ERROR:", st.EngineError)
				os.Exit(2)
			}
			out.Counters["scenarios"]++
			out.Counters["executions"] += int64(st.Execs)
			out.Counters["points"] += st.Points
			out.Counters["distinct_outcomes"] += int64(st.DistinctLogs)
			out.Counters["horizon_hits"] += int64(st.HorizonHits)
			if st.DistinctLogs > 1 {
				out.Counters["scenarios_with_multiple_outcomes"]++
			}
			if int64(st.MaxPoints) > out.Counters["max_points"] {
				out.Counters["max_points"] = int64(st.MaxPoints)
			}
			if !st.Exhaustive {
				out.Incomplete = fmt.Sprintf("scenario {%s}: cap hit, bound completed %d", sc, st.BoundCompleted)
			}
			if st.BoundCompleted < out.MinBound {
				out.MinBound = st.BoundCompleted
			}
			if len(out.Samples) < 2 {
				out.Samples = append(out.Samples, map[string]interface{}{"scenario": sc.String(), "executions": st.Execs, "distinct_outcomes": st.DistinctLogs, "bound": b})
			}
		}
		b, _ := json.Marshal(out)
		os.WriteFile(os.Getenv("VERIF_SHARD_OUT"), b, 0o644)
		return
	}
	rep := lib.NewReport("C04", "model_checking")
	// the TCP model the scenarios run on is validated against the kernel on every run (engine self-test)
	confDepth := 2
	if tier == "thorough" {
		confDepth = 3
	}
	if n, bad, ok := simconf.Run(confDepth); ok {
		rep.Coverage["simnet_conformance"] = map[string]interface{}{"scripts_replayed_on_loopback_tcp": n, "disagreements": len(bad), "depth": confDepth}
		if len(bad) > 0 {
			fmt.Fprintln(os.Stderr, "ENGINE ERROR: simnet disagrees with loopback TCP:", bad[0])
			os.Exit(2)
		}
	} else {
		rep.Coverage["simnet_conformance"] = "skipped: no loopback TCP available"
	}
	files, errs, outs := lib.RunShards(16, lib.Root+"/.build/c04/shards")
	minBound := 99
	for i, f := range files {
		if errs[i] != nil {
			fmt.Fprintf(os.Stderr, "shard %d failed: %v\n%s\n", i, errs[i], outs[i])
			os.Exit(2)
		}
		var so shardOut
		b, _ := os.ReadFile(f)
		if err := json.Unmarshal(b, &so); err != nil {
			fmt.Fprintf(os.Stderr, "shard %d: bad output: %v\n", i, err)
			os.Exit(2)
		}
		for k, v := range so.Counters {
			if k == "max_points" {
				if v > rep.Counter(k) {
					rep.Count(k, v-rep.Counter(k))
				}
				continue
			}
			rep.Count(k, v)
		}
		for _, v := range so.Violations {
			rep.Violate(v.Sig, v.Desc, v.Replay)
		}
		for _, s := range so.Samples {
			rep.Sample(8, s)
		}
		if so.Incomplete != "" {
			rep.Incomplete = so.Incomplete
		}
		if so.MinBound < minBound {
			minBound = so.MinBound
		}
	}
	rep.Coverage["states"] = rep.Counter("distinct_outcomes")
	rep.Coverage["transitions"] = rep.Counter("points")
	rep.Coverage["traces_validated_against_impl"] = rep.Counter("executions")
	rep.Coverage["bound_completed"] = minBound
	rep.Coverage["exhaustive"] = rep.Incomplete == ""
	rep.Coverage["bounds"] = fmt.Sprintf("%d scenarios (4 early-data placements x client/target chunk lists {[],[3],[1,2]} x who finishes first x full/half close; large sizes 4097/5003/32769 bytes; short-read variants; dial error); downstream-proxy route; silent periods of 11 s and 200 s of virtual time before the last chunks; every schedule with <= %d deviations (one less for large sizes)", len(scen), bound)
	rep.Coverage["explanation"] = "each execution runs the real proxy.go CONNECT path over simnet under the gosim scheduler; prompt = first quiescent point with zero virtual time elapsed (no timeout can have fired)"
	rep.Assumptions = []string{"simnet models TCP (coalescing reads, FIN on close / CloseWrite, writes to a closed peer fail from the second write on)", "real-time pauses are represented by interleavings"}
	rep.Finish()
}
