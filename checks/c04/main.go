// C04 — blind CONNECT tunnels are byte-transparent both ways and propagate end-of-stream.
//
// The real proxy (no MITM) serves a simnet listener; a client thread issues CONNECT with every placement
// of early data relative to the head, then client and target each run a writer and a reader thread that
// exchange chunk lists in both directions at once; one side finishes first with a full close or a
// half-close. Every schedule within the deviation bound is executed; at the first quiescent point (no
// virtual time has passed, so no idle-timeout could have fired) the statement's clauses are evaluated.
//
// The coverage audit (AUDIT.md) added, as further fields of the scenario: the capability class of the accepted and
// of the dialled connection (conns.go), a downstream proxy that fails or refuses the CONNECT, SetTimeout with tunnels
// that outlive it, bounded socket buffers with a stalled reader, exchanges before the CONNECT on the same
// connection, other spellings of the request, a second tunnel at the same time, both ends finishing together, and
// the oracle clauses eof_spurious / eof_unclean / release after a 502. Their signatures lead with the family name.
// Round 7 (sizeconv.go): conversations whose relayed messages have a size at a buffer constant of the code.
// Round 8 (idleconnect.go): the client connection sits idle before the CONNECT request is sent and the tunnel is then
// in use across the moment the deadline of that exchange would fire; dial errors of particular kinds.
//
// Development aids: C04_ONLY=<substring of the scenario description>, C04_BOUND=<n>, C04_LIST=1, C04_STATS=1.
package main

import (
	"bufio"
	"bytes"
	"encoding/json"
	"errors"
	"fmt"
	"io"
	"net"
	"net/http"
	"net/url"
	"os"
	"runtime"
	"strings"
	"time"

	"github.com/google/martian/v3/trafficshape"
	"github.com/google/martian/v3/zzverif/simnet"
	"github.com/google/martian/v3/zzverif/vrt"

	"verif/checks/pworld"
	"verif/checks/simconf"
	"verif/lib"
)

type scenario struct {
	Head      int    // 0 head alone, 1 head+first chunk in one segment, 2 head split mid-line, 3 first chunk written before the 200 is read, 4 head split mid-line and its second part shares a segment with the first chunk
	CChunks   []int  // client payload chunk sizes
	TChunks   []int  // target payload chunk sizes
	Initiator string // "client" or "target": who finishes first
	Mode      string // "full" close or "half" close (CloseWrite, keep reading)
	DialErr   bool
	ShortRead bool   // proxy-side reads are short-read choice points
	PingPong  bool   // request/response conversation: each side sends its next chunk only after the other's previous chunk has arrived
	Route     string // "" direct dial; "downstream": via a downstream proxy; "downstream-coalesced": its 200 shares a segment with the first target bytes
	Pause     int    // seconds of (virtual) silence each side keeps before writing its last chunk; 0 = none
	// AbortDuringDial: the client resets its connection ("abort": RST) or closes it ("close": FIN) while the proxy
	// is still dialling the target; the 200 can then no longer be delivered. The target must still see
	// end-of-stream promptly and both connections must be released.
	AbortDuringDial string
	DownStatus      string // status line the downstream proxy confirms the tunnel with (default "200 OK"): any 2xx means tunnel mode

	// ---- dimensions added by the audit (zero values = the behaviour of the scenarios above) ----

	// ClientConn / DialConn: capability class of the connection the proxy accepts / dials: "" = TCP-like (ReadFrom,
	// WriteTo, CloseWrite), "cw" = net.Conn + CloseWrite (like *tls.Conn), "bare" = net.Conn only, "ts" (client side
	// only) = a real trafficshape.Listener with default settings in front of the TCP-like connection.
	ClientConn string `json:",omitempty"`
	DialConn   string `json:",omitempty"`
	// DownFail: the downstream proxy does not confirm the tunnel: "close" (closes without answering), "garbage"
	// (answers with something that is not HTTP), "partial" (part of a head, then closes), "refuse:<name>" (a complete
	// final non-2xx answer, see refusals).
	DownFail string `json:",omitempty"`
	Timeout  int    `json:",omitempty"` // SetTimeout(seconds); 0 = the default of 5 minutes
	Gap      int    `json:",omitempty"` // seconds of (virtual) silence each side keeps before every one of its chunks
	// Cap bounds every socket buffer of the world (bytes; a write blocks while that many bytes are queued); Stall names
	// the end that does not start reading before the other end has received everything addressed to it.
	Cap   int    `json:",omitempty"`
	Stall string `json:",omitempty"`
	// Prior: what happened on the client's connection before the CONNECT: "502" (a CONNECT whose dial failed), "get"
	// (a proxied GET, answered), "get-pipelined" (the GET shares a segment with the CONNECT head).
	Prior string `json:",omitempty"`
	// Spelling of the CONNECT request: "" (HTTP/1.1 with Host), "http10", "close" (Connection: close), "proxyconn"
	// (Proxy-Connection: keep-alive and more headers), "ipv6" (authority [::1]:443).
	Spelling string `json:",omitempty"`
	// Second: a second client opens its own tunnel to another target through the same proxy at the same time.
	Second bool `json:",omitempty"`
	// ResModErr: the response modifier fails on the CONNECT response (the proxy adds a Warning and carries on).
	ResModErr bool `json:",omitempty"`
	// Lite: explored with one deviation less than the tier's bound (secondary combinations; does not change behaviour)
	Lite bool `json:",omitempty"`
	// SizeConv (round 7): the scenario is a conversation in which a relayed message of exactly this many bytes (a size
	// at, next to, or a multiple of a buffer size of the code: bufio 4096, io.Copy 32 KiB) is followed by its sender
	// waiting for the peer's reply; names the family in the signature, does not change behaviour
	SizeConv int `json:",omitempty"`
	// Round 8 (idleconnect.go). IdleMs: milliseconds of (virtual) silence the client keeps on its connection to the
	// proxy - after connecting, or after the exchange named by Prior - before it sends the CONNECT request;
	// IdleClass names where that silence lies relative to the proxy's timeout ("0", "under_half", "over_half",
	// "near_timeout", "late_first_byte") and, when set, names the family in the signature instead of "gaps".
	IdleMs    int    `json:",omitempty"`
	IdleClass string `json:",omitempty"`
	// DialErrKind (with DialErr): the error the dial fails with: "" an opaque error, "timeout" a net.Error whose
	// Timeout() is true (black-holed address, dial deadline), "eof" io.EOF, "closedpipe" io.ErrClosedPipe (what a
	// custom SetDial may hand back)
	DialErrKind string `json:",omitempty"`
}

// refusals: final answers of a downstream proxy that declines the tunnel; KeepAlive: it then waits for the next
// request on the same connection (as HTTP/1.1 proxies do, e.g. after a 407) instead of closing.
var refusals = map[string]struct {
	Head, Body string
	KeepAlive  bool
}{
	"403-close":         {"HTTP/1.1 403 Forbidden\r\nContent-Length: 9\r\nConnection: close\r\n\r\n", "forbidden", false},
	"407-keepalive":     {"HTTP/1.1 407 Proxy Authentication Required\r\nProxy-Authenticate: Basic realm=\"x\"\r\nContent-Length: 4\r\n\r\n", "auth", true},
	"502-keepalive-0":   {"HTTP/1.1 502 Bad Gateway\r\nContent-Length: 0\r\n\r\n", "", true},
	"503-keepalive-chk": {"HTTP/1.1 503 Service Unavailable\r\nTransfer-Encoding: chunked\r\n\r\n", "5\r\nlater\r\n0\r\n\r\n", true},
}

func (s scenario) String() string {
	if s.DialErr {
		if s.Route != "" {
			return "dial-error route=" + s.Route + s.extra()
		}
		return "dial-error" + s.extra()
	}
	if s.AbortDuringDial != "" {
		return fmt.Sprintf("client %ss while the proxy is dialling, route=%s", s.AbortDuringDial, s.Route)
	}
	if s.DownFail != "" {
		return fmt.Sprintf("downstream proxy fails the CONNECT: %s%s", s.DownFail, s.extra())
	}
	return fmt.Sprintf("head=%d c=%v t=%v first=%s/%s short=%v pingpong=%v route=%s%s pause=%ds", s.Head, s.CChunks, s.TChunks, s.Initiator, s.Mode, s.ShortRead, s.PingPong, s.Route, map[bool]string{true: "(" + s.DownStatus + ")", false: ""}[s.DownStatus != ""], s.Pause) + s.extra()
}

// extra renders the audit dimensions that are set.
func (s scenario) extra() string {
	out := ""
	add := func(k string, v interface{}) { out += fmt.Sprintf(" %s=%v", k, v) }
	if s.ClientConn != "" {
		add("clientconn", s.ClientConn)
	}
	if s.DialConn != "" {
		add("dialconn", s.DialConn)
	}
	if s.Timeout != 0 {
		add("timeout", fmt.Sprint(s.Timeout, "s"))
	}
	if s.Gap != 0 {
		add("gap", fmt.Sprint(s.Gap, "s"))
	}
	if s.Cap != 0 {
		add("cap", s.Cap)
	}
	if s.Stall != "" {
		add("stall", s.Stall)
	}
	if s.Prior != "" {
		add("prior", s.Prior)
	}
	if s.Spelling != "" {
		add("spelling", s.Spelling)
	}
	if s.Second {
		add("second", true)
	}
	if s.ResModErr {
		add("resmoderr", true)
	}
	if s.SizeConv != 0 {
		add("sizeconv", s.SizeConv)
	}
	if s.IdleClass != "" {
		add("idleconnect", fmt.Sprintf("%s(%dms)", s.IdleClass, s.IdleMs))
	}
	if s.DialErrKind != "" {
		add("dialerr", s.DialErrKind)
	}
	return out
}

// classTag is the part of a signature that names the audit dimensions in use.
func (s scenario) classTag() string {
	t := ""
	if s.ClientConn != "" {
		t += ":clientconn=" + s.ClientConn
	}
	if s.DialConn != "" {
		t += ":dialconn=" + s.DialConn
	}
	if s.IdleClass != "" {
		t += ":idleconnect=" + s.IdleClass
	} else if s.Gap != 0 {
		t += ":gaps"
	}
	if s.Cap != 0 {
		t += ":backpressure"
	}
	if s.Prior != "" {
		t += ":prior=" + s.Prior
	}
	if s.Spelling != "" {
		t += ":spelling=" + s.Spelling
	}
	if s.Second {
		t += ":second"
	}
	if s.ResModErr {
		t += ":resmoderr"
	}
	if s.SizeConv != 0 {
		t += fmt.Sprintf(":sizeconv=%d", s.SizeConv)
	}
	if s.DialErrKind != "" {
		t += ":dialerr=" + s.DialErrKind
	}
	return t
}

// family names the audit family of a scenario ("" for the scenarios that existed before the audit).
func (s scenario) family() string {
	if s.DownFail != "" {
		return "downstream_" + strings.Replace(s.DownFail, ":", "_", 1) + s.classTag()
	}
	return strings.TrimPrefix(s.classTag(), ":")
}

func (s scenario) head() string {
	switch s.Spelling {
	case "http10":
		return "CONNECT target.test:443 HTTP/1.0\r\nX-Conn: 0\r\n\r\n"
	case "close":
		return "CONNECT target.test:443 HTTP/1.1\r\nHost: target.test:443\r\nConnection: close\r\nX-Conn: 0\r\n\r\n"
	case "proxyconn":
		return "CONNECT target.test:443 HTTP/1.1\r\nHost: target.test:443\r\nUser-Agent: c04\r\nProxy-Connection: keep-alive\r\nX-Conn: 0\r\n\r\n"
	case "ipv6":
		return "CONNECT [::1]:443 HTTP/1.1\r\nHost: [::1]:443\r\nX-Conn: 0\r\n\r\n"
	}
	return connectHead
}

func payload(tag byte, sizes []int) [][]byte {
	var out [][]byte
	k := 0
	for _, n := range sizes {
		b := make([]byte, n)
		for i := range b {
			b[i] = tag + byte(k%23)
			k++
		}
		out = append(out, b)
	}
	return out
}

func concat(chunks [][]byte) []byte { return bytes.Join(chunks, nil) }

type side struct {
	name     string
	conn     *simnet.Conn
	got      []byte
	eof      bool
	readErr  error
	readDone bool
	wrDone   bool
	wrErr    error
	closed   bool
	eofTick  int // event number at which the reader saw end-of-stream (0 = never)
	shutTick int // event number just before this end first shut down its sending direction (0 = never)
}

// shut notes that this end is about to stop sending (Close, CloseWrite or Abort follows).
func (s *side) shut() {
	if s.shutTick == 0 {
		s.shutTick = vrt.Tick()
	}
}

type finding struct{ Sig, Desc string }

const connectHead = "CONNECT target.test:443 HTTP/1.1\r\nHost: target.test:443\r\nX-Conn: 0\r\n\r\n"

func run(sc scenario) (body func(), check func(r *vrt.Result) []finding) {
	var w *pworld.World
	var cs, ts *side
	var cs2, ts2 *side // the second tunnel (sc.Second)
	var clientHead string
	var headStatus int
	var headWarning string
	var headErr error
	var proxyToTarget, proxyToTarget2 *simnet.Conn
	var dialStarted, clientGone bool
	var dials int
	var priorNote string // "" = the exchange before the CONNECT went as expected
	var head2Status int
	var head2Err error
	// refusal by the downstream proxy: what the client made of the answer
	var refBody []byte
	var refBodyErr error
	var refDone bool
	type snap struct {
		cGot, tGot         int
		cEOF, tEOF         bool
		cDone, tDone       bool
		srvClosed, pcClose bool
		handlerDone        bool
		at                 time.Duration
		// second tunnel
		c2Got, t2Got     int
		c2Done, t2Done   bool
		srv2Closed, pc2C bool
		refDone          bool
	}
	var prompt, late snap
	cpay := payload('a', sc.CChunks)
	tpay := payload('A', sc.TChunks)
	c2pay := payload('k', []int{4500, 4100})
	t2pay := payload('K', []int{4300, 4400})
	takeSnap := func() snap {
		s := snap{at: vrt.Now()}
		if cs != nil {
			s.cGot, s.cEOF, s.cDone = len(cs.got), cs.eof, cs.readDone
			s.srvClosed = cs.conn.Peer().Closed()
		}
		if ts != nil {
			s.tGot, s.tEOF, s.tDone = len(ts.got), ts.eof, ts.readDone
		}
		if proxyToTarget != nil {
			s.pcClose = proxyToTarget.Closed()
		}
		if cs2 != nil {
			s.c2Got, s.c2Done = len(cs2.got), cs2.readDone
			s.srv2Closed = cs2.conn.Peer().Closed()
		}
		if ts2 != nil {
			s.t2Got, s.t2Done = len(ts2.got), ts2.readDone
		}
		if proxyToTarget2 != nil {
			s.pc2C = proxyToTarget2.Closed()
		}
		s.refDone = refDone
		s.handlerDone = true
		for _, ti := range vrt.Snapshot() {
			if strings.Contains(ti.Label, "(*Proxy).Serve") && !ti.Done {
				s.handlerDone = false
			}
		}
		return s
	}
	// endpoint behaviour shared by both sides
	// also, if set, is called by the writer thread after each of its chunks (and once more, with last=true, when it
	// has none left): the same thread then writes on behalf of the corresponding end of the second tunnel, so that
	// both tunnels have bytes in flight in the same direction at the same time without any scheduling deviation.
	// ready, if set, is awaited before the first chunk.
	runSide := func(s *side, out [][]byte, initiator bool, mode string, r io.Reader, need []int, stall func() bool, ready func() bool, also func(last bool)) {
		finish := func() {
			if s.readDone && s.wrDone && !s.closed {
				s.closed = true
				s.shut()
				s.conn.Close()
			}
		}
		wt := vrt.GoNamed(s.name+"-writer", func() {
			if ready != nil {
				vrt.WaitUntil("both-tunnels-up", ready)
			}
			for k, ch := range out {
				if sc.PingPong && k < len(need) {
					n := need[k]
					vrt.WaitUntil("await-peer-data", func() bool { return len(s.got) >= n || s.readDone })
				}
				if sc.Pause > 0 && k == len(out)-1 {
					vrt.Sleep(time.Duration(sc.Pause) * time.Second)
				}
				if sc.Gap > 0 {
					vrt.Sleep(time.Duration(sc.Gap) * time.Second)
				}
				if _, err := s.conn.Write(ch); err != nil {
					s.wrErr = err
					break
				}
				if also != nil {
					also(false)
				}
			}
			if also != nil {
				also(true)
			}
			s.wrDone = true
			if initiator {
				s.shut()
				switch mode {
				case "full":
					s.closed = true
					s.conn.Close()
				case "abort":
					// the peer goes away abruptly (RST: crashed process, SO_LINGER 0) after its last write
					s.closed = true
					s.conn.Abort()
				default:
					s.conn.CloseWrite()
				}
				return
			}
			finish()
		})
		if stall != nil {
			// this end is busy sending and does not read before the other end has received everything
			vrt.WaitUntil("stalled-reader", stall)
		}
		buf := make([]byte, 65536)
		for {
			n, err := r.Read(buf)
			s.got = append(s.got, buf[:n]...)
			if err != nil {
				if err == io.EOF {
					s.eof = true
					s.eofTick = vrt.Tick()
				} else {
					s.readErr = err
				}
				break
			}
		}
		s.readDone = true
		if initiator {
			vrt.Join(wt)
			if !s.closed {
				s.closed = true
				s.shut()
				s.conn.Close()
			}
			return
		}
		finish()
	}
	secondFailed := func() bool {
		return head2Err != nil || (head2Status != 0 && head2Status/100 != 2)
	}
	// driveSecond returns the hook through which the writer thread of an end of the first tunnel also writes the
	// chunks of the corresponding end of the second tunnel (one per call, the rest and a half-close on the last call)
	driveSecond := func(end func() *side, chunks [][]byte) func(last bool) {
		next := 0
		return func(last bool) {
			s2 := end()
			if s2 == nil || s2.wrDone {
				return
			}
			for next < len(chunks) {
				if _, err := s2.conn.Write(chunks[next]); err != nil {
					s2.wrErr = err
					next = len(chunks)
					break
				}
				next++
				if !last {
					return
				}
			}
			if last {
				s2.shut()
				s2.conn.CloseWrite()
				s2.wrDone = true
				vrt.Bump()
			}
		}
	}
	// readSecond is what an end of the second tunnel does itself: read until end-of-stream, close once its bytes
	// have been written too
	readSecond := func(s2 *side, r io.Reader) {
		buf := make([]byte, 65536)
		for {
			n, err := r.Read(buf)
			s2.got = append(s2.got, buf[:n]...)
			if err != nil {
				if err == io.EOF {
					s2.eof = true
				} else {
					s2.readErr = err
				}
				break
			}
		}
		s2.readDone = true
		vrt.WaitUntil("second-written", func() bool { return s2.wrDone })
		s2.closed = true
		s2.conn.Close()
	}
	initiates := func(who string) bool { return sc.Initiator == who || sc.Initiator == "both" }
	body = func() {
		w = pworld.NewWorld()
		cs, ts, proxyToTarget = nil, nil, nil
		cs2, ts2, proxyToTarget2 = nil, nil, nil
		dialStarted, clientGone = false, false
		dials = 0
		priorNote = ""
		head2Status, head2Err = 0, nil
		refBody, refBodyErr, refDone = nil, nil, false
		clientHead, headStatus, headWarning, headErr = "", 0, "", nil
		if sc.ResModErr {
			w.OnResponse = func(res *http.Response) error {
				if res.Request != nil && res.Request.Method == "CONNECT" {
					return errors.New("response modifier failed")
				}
				return nil
			}
		}
		w.Proxy.SetDial(func(network, addr string) (net.Conn, error) {
			dials++
			if sc.DialErr || (sc.Prior == "502" && dials == 1) {
				return nil, dialError(sc.DialErrKind)
			}
			if addr == "other.test:443" {
				a, b := simnet.Pipe("proxy>target2", "target2")
				proxyToTarget2 = a
				ts2 = &side{name: "target2", conn: b}
				vrt.GoNamed("target2", func() { readSecond(ts2, b) })
				return a, nil
			}
			if sc.AbortDuringDial != "" {
				dialStarted = true
				vrt.Bump()
				vrt.WaitUntil("client-gone", func() bool { return clientGone })
			}
			a, b := simnet.Pipe("proxy>target", "target")
			a.ShortReads = sc.ShortRead
			if sc.Cap > 0 {
				a.SetCapacity(sc.Cap)
				b.SetCapacity(sc.Cap)
			}
			proxyToTarget = a
			ts = &side{name: "target", conn: b}
			vrt.GoNamed("target", func() {
				var rd io.Reader = b
				out := tpay
				if sc.Route != "" {
					// act as the downstream proxy first: read the CONNECT head, answer 200
					br := bufio.NewReader(b)
					req, err := http.ReadRequest(br)
					if err != nil || req.Method != "CONNECT" {
						ts.readErr = fmt.Errorf("downstream proxy: bad CONNECT: %v", err)
						ts.readDone, ts.wrDone = true, true
						b.Close()
						return
					}
					if sc.DownFail != "" {
						// the downstream proxy does not confirm the tunnel
						waitEOF := false
						switch {
						case sc.DownFail == "close":
						case sc.DownFail == "garbage":
							b.Write([]byte("SSH-2.0-OpenSSH_8.9\r\n"))
							waitEOF = true
						case sc.DownFail == "partial":
							b.Write([]byte("HTTP/1.1 200 OK\r\nX-Pa"))
						default:
							rf := refusals[strings.TrimPrefix(sc.DownFail, "refuse:")]
							b.Write([]byte(rf.Head + rf.Body))
							waitEOF = rf.KeepAlive
						}
						ts.wrDone = true
						if waitEOF {
							// keeps the connection open for whatever comes next; closes when its peer does
							buf := make([]byte, 4096)
							for {
								n, err := br.Read(buf)
								ts.got = append(ts.got, buf[:n]...)
								if err != nil {
									ts.eof = err == io.EOF
									break
								}
							}
						}
						ts.readDone = true
						ts.closed = true
						b.Close()
						return
					}
					head := "HTTP/1.1 200 OK\r\n\r\n"
					if sc.DownStatus != "" {
						head = "HTTP/1.1 " + sc.DownStatus + "\r\n\r\n"
					}
					if sc.Route == "downstream-coalesced" && len(out) > 0 {
						b.Write(append([]byte(head), out[0]...))
						out = out[1:]
					} else {
						b.Write([]byte(head))
					}
					rd = br
				}
				// ping-pong: the target answers chunk k of the client
				var need []int
				tot := 0
				for k := range sc.TChunks {
					if k < len(sc.CChunks) {
						tot += sc.CChunks[k]
					}
					need = append(need, tot)
				}
				if len(out) < len(sc.TChunks) {
					need = need[len(sc.TChunks)-len(out):]
				}
				var stall func() bool
				if sc.Stall == "target" {
					stall = func() bool { return cs != nil && (len(cs.got) >= len(concat(tpay)) || cs.readDone) }
				}
				var ready func() bool
				var also func(bool)
				if sc.Second {
					ready = func() bool { return ts2 != nil || secondFailed() }
					also = driveSecond(func() *side { return ts2 }, t2pay)
				}
				runSide(ts, out, initiates("target"), sc.Mode, rd, need, stall, ready, also)
			})
			return wrapConn(a, sc.DialConn), nil
		})
		if sc.Route != "" {
			u, _ := url.Parse("http://downstream.test:3128")
			w.Proxy.SetDownstreamProxy(u)
		}
		if sc.Timeout > 0 {
			w.Proxy.SetTimeout(time.Duration(sc.Timeout) * time.Second)
		}
		switch sc.ClientConn {
		case "":
		case "ts":
			w.Wrap = func(l net.Listener) net.Listener { return trafficshape.NewListener(l) }
		default:
			w.Wrap = func(l net.Listener) net.Listener { return wrapListener{l, sc.ClientConn} }
		}
		w.Start()
		if sc.Second {
			vrt.GoNamed("client2", func() {
				cl, err := w.Dial("client2")
				if err != nil {
					head2Err = err
					return
				}
				cs2 = &side{name: "client2", conn: cl.C}
				cl.Send("CONNECT other.test:443 HTTP/1.1\r\nHost: other.test:443\r\nX-Conn: 1\r\n\r\n")
				br := bufio.NewReader(cl.C)
				res, err := http.ReadResponse(br, &http.Request{Method: "CONNECT"})
				if err != nil {
					head2Err = err
					cs2.readDone, cs2.wrDone = true, true
					return
				}
				head2Status = res.StatusCode
				if res.StatusCode/100 != 2 {
					cs2.readDone, cs2.wrDone = true, true
					cl.C.Close()
					return
				}
				readSecond(cs2, br)
			})
		}
		vrt.GoNamed("client", func() {
			cl, err := w.Dial("client")
			if err != nil {
				headErr = err
				return
			}
			cl.C.Peer().ShortReads = sc.ShortRead
			if sc.Cap > 0 {
				cl.C.SetCapacity(sc.Cap)
				cl.C.Peer().SetCapacity(sc.Cap)
			}
			cs = &side{name: "client", conn: cl.C}
			chead := sc.head()
			if sc.AbortDuringDial != "" {
				cl.Send(chead)
				vrt.WaitUntil("dial-started", func() bool { return dialStarted })
				if sc.AbortDuringDial == "abort" {
					cl.C.Abort()
				} else {
					cl.C.Close()
				}
				cs.readDone, cs.wrDone, cs.closed = true, true, true
				clientGone = true
				vrt.Bump()
				return
			}
			br := bufio.NewReader(cl.C)
			lastAnswerCloses := false
			readPlain := func(what string, want int) bool {
				res, err := http.ReadResponse(br, &http.Request{Method: what})
				if err != nil {
					priorNote = fmt.Sprintf("answer to the earlier %s unreadable: %v", what, err)
					return false
				}
				b, err := io.ReadAll(res.Body)
				if err != nil || res.StatusCode != want {
					priorNote = fmt.Sprintf("answer to the earlier %s: status %d (want %d), body %q, err %v", what, res.StatusCode, want, b, err)
					return false
				}
				lastAnswerCloses = res.Close
				return true
			}
			prefix := ""
			ok := true
			switch sc.Prior {
			case "502":
				cl.Send(chead)
				ok = readPlain("CONNECT", 502)
				if ok && lastAnswerCloses {
					// the proxy announced that it closes the connection after the 502 (it may): like any client, go on
					// with a new connection
					cl.C.Close()
					if cl, err = w.Dial("client"); err != nil {
						headErr = err
						return
					}
					cs.conn = cl.C
					br = bufio.NewReader(cl.C)
				}
			case "get":
				cl.Send(pworld.GetRequest("0", "/before"))
				ok = readPlain("GET", 200)
			case "get-pipelined":
				prefix = pworld.GetRequest("0", "/before")
			}
			if !ok {
				cs.readDone, cs.wrDone = true, true
				cl.C.Close()
				return
			}
			if sc.IdleMs > 0 {
				// the connection sits idle (a pooled / pre-connected proxy connection, a keep-alive connection between two
				// exchanges) before the CONNECT request is sent
				vrt.Sleep(time.Duration(sc.IdleMs) * time.Millisecond)
			}
			rest := cpay
			switch sc.Head {
			case 0:
				cl.Send(prefix + chead)
			case 1:
				if len(rest) > 0 {
					cl.Send(prefix + chead + string(rest[0]))
					rest = rest[1:]
				} else {
					cl.Send(prefix + chead)
				}
			case 2:
				cl.Send(prefix + chead[:17])
				cl.Send(chead[17:])
			case 3:
				cl.Send(prefix + chead)
				if len(rest) > 0 {
					cl.C.Write(rest[0])
					rest = rest[1:]
				}
			case 4:
				// head split mid-line, its second part shares a segment with the first payload bytes
				cl.Send(prefix + chead[:17])
				if len(rest) > 0 {
					cl.Send(chead[17:] + string(rest[0]))
					rest = rest[1:]
				} else {
					cl.Send(chead[17:])
				}
			}
			if sc.Prior == "get-pipelined" && !readPlain("GET", 200) {
				cs.readDone, cs.wrDone = true, true
				cl.C.Close()
				return
			}
			res, err := http.ReadResponse(br, &http.Request{Method: "CONNECT"})
			if err != nil {
				headErr = err
				cs.readDone, cs.wrDone = true, true
				return
			}
			headStatus = res.StatusCode
			headWarning = res.Header.Get("Warning")
			clientHead = res.Status
			if res.StatusCode/100 != 2 {
				// a final answer: the client reads it to its end (however that end is delimited), then closes
				refBody, refBodyErr = io.ReadAll(res.Body)
				refDone = true
				cs.readDone, cs.wrDone = true, true
				cs.closed = true
				cl.C.Close()
				return
			}
			// ping-pong: the client sends chunk k after the target's chunk k-1 arrived
			var need []int
			tot := 0
			for k := range sc.CChunks {
				if k > 0 && k-1 < len(sc.TChunks) {
					tot += sc.TChunks[k-1]
				}
				need = append(need, tot)
			}
			if len(rest) < len(sc.CChunks) {
				need = need[len(sc.CChunks)-len(rest):]
			}
			var stall func() bool
			if sc.Stall == "client" {
				stall = func() bool { return ts != nil && (len(ts.got) >= len(concat(cpay)) || ts.readDone) }
			}
			var ready func() bool
			var also func(bool)
			if sc.Second {
				ready = func() bool { return (cs2 != nil && head2Status/100 == 2) || secondFailed() }
				also = driveSecond(func() *side { return cs2 }, c2pay)
			}
			runSide(cs, rest, initiates("client"), sc.Mode, br, need, stall, ready, also)
		})
		vrt.WaitQuiescent()
		if sc.Pause > 0 || sc.Gap > 0 || sc.IdleMs > 0 {
			// the tunnel stays silent for a while (each silence well below the proxy's idle timeout) before chunks are
			// written; "promptly" is then judged one virtual second after the last pause can have ended
			d := time.Duration(sc.Pause) * time.Second
			if sc.Gap > 0 {
				d = time.Duration(sc.Gap*(len(sc.CChunks)+len(sc.TChunks))) * time.Second
			}
			d += time.Duration(sc.IdleMs) * time.Millisecond
			vrt.Sleep(d + time.Second)
			vrt.WaitQuiescent()
		}
		prompt = takeSnap()
		// well past the proxy's timeout (5 minutes unless the scenario sets one)
		if sc.Timeout > 0 {
			vrt.Sleep(time.Duration(2*sc.Timeout+10) * time.Second)
		} else {
			vrt.Sleep(11 * time.Minute)
		}
		vrt.WaitQuiescent()
		late = takeSnap()
		if os.Getenv("VERIF_STACKS") != "" {
			buf := make([]byte, 1<<20)
			fmt.Fprintf(os.Stderr, "%s\n", buf[:runtime.Stack(buf, true)])
		}
		vrt.Log("head=%d %q %v err=%v", headStatus, clientHead, headWarning != "", headErr)
		vrt.Log("prompt=%+v", prompt)
		vrt.Log("late=%+v", late)
		if cs != nil {
			vrt.Log("client got=%d eof=%v rerr=%v werr=%v", len(cs.got), cs.eof, cs.readErr, cs.wrErr)
		}
		if ts != nil {
			vrt.Log("target got=%d eof=%v rerr=%v werr=%v", len(ts.got), ts.eof, ts.readErr, ts.wrErr)
		}
		if sc.Second {
			vrt.Log("head2=%d err=%v", head2Status, head2Err)
			if cs2 != nil {
				vrt.Log("client2 got=%d eof=%v rerr=%v werr=%v", len(cs2.got), cs2.eof, cs2.readErr, cs2.wrErr)
			}
			if ts2 != nil {
				vrt.Log("target2 got=%d eof=%v rerr=%v werr=%v", len(ts2.got), ts2.eof, ts2.readErr, ts2.wrErr)
			}
		}
		if cs != nil && ts != nil {
			vrt.Log("eof-after-shutdown client=%v target=%v", !cs.eof || (ts.shutTick != 0 && cs.eofTick > ts.shutTick), !ts.eof || (cs.shutTick != 0 && ts.eofTick > cs.shutTick))
		}
		if sc.Prior != "" {
			vrt.Log("prior=%q", priorNote)
		}
		if sc.DownFail != "" {
			vrt.Log("refusal body=%q err=%v done=%v", refBody, refBodyErr, refDone)
		}
	}
	check = func(r *vrt.Result) []finding {
		var out []finding
		// Signatures of the audit families lead with the family ("clientconn=cw:dialconn=bare/lost:client_to_target:…",
		// "downstream_close/release_never"): known findings are matched by prefix, so one line can name a family.
		fam := sc.family()
		add := func(sig, format string, a ...interface{}) {
			if fam != "" {
				if i := strings.Index(sig+":", ":"+fam+":"); i >= 0 {
					sig = sig[:i] + sig[i+1+len(fam):]
				}
				sig = fam + "/" + sig
			}
			out = append(out, finding{sig, fmt.Sprintf(format, a...)})
		}
		if r.Outcome != "ok" {
			add("outcome:"+r.Outcome, "execution ended with %s: %s", r.Outcome, firstLine(r.Panic))
			return out
		}
		// release of everything the proxy holds for the (first) client
		release := func(tag string, outbound bool) {
			ok := func(s snap) bool { return s.srvClosed && (!outbound || s.pcClose) && s.handlerDone }
			if !ok(prompt) {
				if ok(late) {
					add("release_late:"+tag, "proxy released the connections only after the idle timeout (client side closed=%v, target side closed=%v, handler done=%v at quiescence)", prompt.srvClosed, prompt.pcClose, prompt.handlerDone)
				} else {
					add("release_never:"+tag, "proxy never released the connections (client side closed=%v, target side closed=%v, handler done=%v)", late.srvClosed, late.pcClose, late.handlerDone)
				}
			}
		}
		if sc.DialErr {
			if headStatus != 502 || headWarning == "" {
				add("dial_error:no_502_warning", "CONNECT to an unreachable target answered %d (Warning=%q, err=%v)", headStatus, headWarning, headErr)
				return out
			}
			// the client has read the 502 and closed its connection: nothing may be held any longer
			release("dial_error"+sc.classTag(), false)
			return out
		}
		if sc.DownFail != "" {
			tag := "downstream_" + strings.Replace(sc.DownFail, ":", "_", 1) + sc.classTag()
			if ts == nil {
				add("harness:no_dial:"+tag, "the proxy never dialled the downstream proxy")
				return out
			}
			if !strings.HasPrefix(sc.DownFail, "refuse:") {
				// no answer worth the name: the target is unreachable
				if headStatus != 502 || headWarning == "" {
					add("dial_error:no_502_warning:"+tag, "the downstream proxy failed the CONNECT (%s); the client got status=%d Warning=%q err=%v", sc.DownFail, headStatus, headWarning, headErr)
					return out
				}
			} else {
				rf := refusals[strings.TrimPrefix(sc.DownFail, "refuse:")]
				want := 0
				fmt.Sscanf(rf.Head, "HTTP/1.1 %d", &want)
				if headErr != nil || headStatus/100 == 2 || headStatus == 0 {
					add("refusal:no_final_status:"+tag, "the downstream proxy refused the CONNECT with %d; the client got status=%d err=%v", want, headStatus, headErr)
					return out
				}
				if headStatus != want && !(headStatus == 502 && headWarning != "") {
					add("refusal:status_changed:"+tag, "the downstream proxy refused the CONNECT with %d; the client got %d", want, headStatus)
				}
				if !prompt.refDone {
					if late.refDone {
						add("refusal:end_late:"+tag, "the client could tell where the refusal (%d) ends only after the idle timeout", headStatus)
					} else {
						add("refusal:end_never:"+tag, "the client never saw the end of the refusal (%d): neither framing nor end-of-stream", headStatus)
					}
					return out
				}
				if headStatus == want {
					wantBody := rf.Body
					if strings.Contains(rf.Head, "chunked") {
						wantBody = "later"
					}
					if string(refBody) != wantBody || refBodyErr != nil {
						add("refusal:body_changed:"+tag, "the refusal's body reached the client as %q (err=%v), sent %q", refBody, refBodyErr, wantBody)
					}
				}
			}
			// the client closed after the final answer: the downstream proxy must see end-of-stream, nothing may be held
			if !prompt.tDone {
				if late.tDone {
					add("eof_late:target:"+tag, "the downstream proxy observed end-of-stream only after the idle timeout")
				} else {
					add("eof_never:target:"+tag, "the downstream proxy never observed end-of-stream")
				}
			}
			release(tag, true)
			return out
		}
		if sc.AbortDuringDial != "" {
			tag := "client_" + sc.AbortDuringDial + "_during_dial"
			if sc.Route != "" {
				tag += ":" + sc.Route
			}
			tag += sc.classTag()
			if ts == nil {
				add("harness:no_dial:"+tag, "the proxy never dialled the target")
				return out
			}
			if !prompt.tDone {
				if late.tDone {
					add("eof_late:target:"+tag, "the client was gone before the tunnel was up; the target observed end-of-stream only after the idle timeout")
				} else {
					add("eof_never:target:"+tag, "the client was gone before the tunnel was up; the target never observed end-of-stream")
				}
			}
			release(tag, true)
			return out
		}
		if sc.Prior != "" && priorNote != "" {
			add("prior:unexpected"+sc.classTag(), "%s", priorNote)
			return out
		}
		if headErr != nil || headStatus/100 != 2 {
			add("connect:no_200"+sc.classTag(), "client did not receive a 2xx for CONNECT: status=%d err=%v", headStatus, headErr)
			return out
		}
		C, T := concat(cpay), concat(tpay)
		early := sc.Head == 1 || sc.Head == 3 || sc.Head == 4
		tag := fmt.Sprintf("first=%s/%s", sc.Initiator, sc.Mode)
		if early {
			tag += ":early"
		}
		if sc.Route != "" {
			tag += ":" + sc.Route
		}
		if sc.PingPong {
			tag += ":pingpong"
		}
		if sc.Pause > 0 {
			tag += ":paused"
		}
		tag += sc.classTag()
		// integrity: whatever arrived is a prefix of what was sent (exactly once, in order)
		if !bytes.HasPrefix(C, ts.got) {
			add("corrupt:client_to_target:"+tag, "target received bytes that are not a prefix of the client's stream (got %d bytes)", len(ts.got))
		}
		if !bytes.HasPrefix(T, cs.got) {
			add("corrupt:target_to_client:"+tag, "client received bytes that are not a prefix of the target's stream (got %d bytes)", len(cs.got))
		}
		// what is owed
		owedToTarget := true // all of C must reach the target ...
		owedToClient := true // ... and all of T the client,
		if initiates("client") && sc.Mode == "full" {
			owedToClient = false // the client stopped listening
		}
		if initiates("target") && sc.Mode == "full" {
			owedToTarget = false
		}
		if sc.Mode == "abort" {
			// a reset may discard what was still in flight in either direction: only integrity (prefix), prompt
			// end-of-stream at the other end and the release of both connections are owed
			owedToClient, owedToTarget = false, false
		}
		// a connection without CloseWrite can only be closed as a whole: when the proxy has to signal end-of-stream
		// through such a connection, the opposite direction ends with it
		canHalfToTarget := sc.DialConn != "bare"
		canHalfToClient := sc.ClientConn != "bare"
		if initiates("client") && sc.Mode == "half" && !canHalfToTarget {
			owedToClient = false
		}
		if initiates("target") && sc.Mode == "half" && !canHalfToClient {
			owedToTarget = false
		}
		sn := prompt
		if owedToTarget && sn.tGot != len(C) {
			if late.tGot == len(C) {
				add("delayed:client_to_target:"+tag, "target had received %d of %d client bytes at quiescence; the rest only arrived after the idle timeout", sn.tGot, len(C))
			} else {
				add("lost:client_to_target:"+tag, "target received %d of %d client bytes", late.tGot, len(C))
			}
		}
		if owedToClient && sn.cGot != len(T) {
			if late.cGot == len(T) {
				add("delayed:target_to_client:"+tag, "client had received %d of %d target bytes at quiescence; the rest only arrived after the idle timeout", sn.cGot, len(T))
			} else {
				add("lost:target_to_client:"+tag, "client received %d of %d target bytes", late.cGot, len(T))
			}
		}
		// end-of-stream propagation: the side that did not finish first must observe EOF promptly
		eofClause := func(who string, done, lateDone bool, why string) {
			if done {
				return
			}
			if lateDone {
				add("eof_late:"+who+":"+tag, "%s observed end-of-stream only after the idle timeout (%s)", who, why)
			} else {
				add("eof_never:"+who+":"+tag, "%s never observed end-of-stream (%s)", who, why)
			}
		}
		switch sc.Initiator {
		case "client":
			eofClause("target", sn.tDone, late.tDone, "the client finished first and closed")
			if sc.Mode == "half" {
				eofClause("client", sn.cDone, late.cDone, "half-closed, waiting for the reply")
			}
		case "target":
			eofClause("client", sn.cDone, late.cDone, "the target finished first and closed")
			if sc.Mode == "half" {
				eofClause("target", sn.tDone, late.tDone, "half-closed, waiting for the rest")
			}
		case "both":
			if sc.Mode == "half" {
				eofClause("target", sn.tDone, late.tDone, "both ends half-closed after their last byte")
				eofClause("client", sn.cDone, late.cDone, "both ends half-closed after their last byte")
			}
		}
		// the end that did not finish first is owed an orderly end-of-stream (a FIN after the data), not a reset, as
		// long as the proxy is able to send one
		if sc.Mode != "abort" && sc.Initiator != "both" {
			if sc.Initiator == "client" && canHalfToTarget && sn.tDone && !ts.eof {
				add("eof_unclean:target:"+tag, "the client finished and closed in an orderly way; the target's stream ended with %v instead of end-of-stream", ts.readErr)
			}
			if sc.Initiator == "target" && canHalfToClient && sn.cDone && !cs.eof {
				add("eof_unclean:client:"+tag, "the target finished and closed in an orderly way; the client's stream ended with %v instead of end-of-stream", cs.readErr)
			}
		}
		// end-of-stream is the other end's doing: nobody may be told that the stream has ended before the other end
		// has stopped sending (unless the proxy had no other way to pass on an end-of-stream, see above)
		if sc.Mode != "abort" {
			if ts.eof && (cs.shutTick == 0 || ts.eofTick < cs.shutTick) && !(initiates("target") && sc.Mode == "half" && !canHalfToClient) {
				add("eof_spurious:target:"+tag, "the target observed end-of-stream although the client had not stopped sending (target eof at event %d, client shut down at event %d)", ts.eofTick, cs.shutTick)
			}
			if cs.eof && (ts.shutTick == 0 || cs.eofTick < ts.shutTick) && !(initiates("client") && sc.Mode == "half" && !canHalfToTarget) {
				add("eof_spurious:client:"+tag, "the client observed end-of-stream although the target had not stopped sending (client eof at event %d, target shut down at event %d)", cs.eofTick, ts.shutTick)
			}
		}
		// release
		release(tag, true)
		if sc.Second {
			// the other tunnel: both of its ends half-close after their last byte, so everything is owed
			tag2 := "second_tunnel"
			C2, T2 := concat(c2pay), concat(t2pay)
			if head2Err != nil || head2Status/100 != 2 || cs2 == nil || ts2 == nil {
				add("connect:no_200:"+tag2, "the second client did not receive a 2xx for CONNECT: status=%d err=%v", head2Status, head2Err)
				return out
			}
			if !bytes.HasPrefix(C2, ts2.got) {
				add("corrupt:client_to_target:"+tag2, "the second target received bytes that are not a prefix of the second client's stream (got %d bytes)", len(ts2.got))
			}
			if !bytes.HasPrefix(T2, cs2.got) {
				add("corrupt:target_to_client:"+tag2, "the second client received bytes that are not a prefix of the second target's stream (got %d bytes)", len(cs2.got))
			}
			if sn.t2Got != len(C2) {
				add("lost:client_to_target:"+tag2, "the second target had %d of %d bytes at quiescence (%d in the end)", sn.t2Got, len(C2), late.t2Got)
			}
			if sn.c2Got != len(T2) {
				add("lost:target_to_client:"+tag2, "the second client had %d of %d bytes at quiescence (%d in the end)", sn.c2Got, len(T2), late.c2Got)
			}
			if !sn.t2Done || !sn.c2Done {
				add("eof_late:"+tag2, "end-of-stream had not reached both ends of the second tunnel at quiescence (client done=%v, target done=%v)", sn.c2Done, sn.t2Done)
			}
			if !sn.srv2Closed || !sn.pc2C {
				add("release_late:"+tag2, "the connections of the second tunnel were not released at quiescence (client side closed=%v, target side closed=%v)", sn.srv2Closed, sn.pc2C)
			}
		}
		return out
	}
	return
}

func firstLine(s string) string {
	if i := strings.IndexByte(s, '\n'); i >= 0 {
		return s[:i]
	}
	return s
}

func scenarios(tier string) []scenario {
	var out []scenario
	small := [][]int{{}, {3}, {1, 2}}
	for head := 0; head < 4; head++ {
		for _, cc := range small {
			if (head == 1 || head == 3) && len(cc) == 0 {
				continue
			}
			for _, tc := range small {
				for _, in := range []string{"client", "target"} {
					for _, mode := range []string{"full", "half"} {
						out = append(out, scenario{Head: head, CChunks: cc, TChunks: tc, Initiator: in, Mode: mode})
					}
				}
			}
		}
	}
	// larger sizes (bufio 4096 and io.Copy 32 KiB boundaries), fewer shapes
	big := [][]int{{4097}, {5000, 3}, {32769}}
	// both directions carry chunks larger than a bufio buffer at the same time (writes go straight to the sockets)
	for _, in := range []string{"client", "target"} {
		for _, mode := range []string{"full", "half"} {
			if tier == "quick" && mode == "full" {
				continue
			}
			out = append(out, scenario{Head: 0, CChunks: []int{4097, 4200}, TChunks: []int{4500, 4100}, Initiator: in, Mode: mode})
		}
	}
	if tier == "thorough" {
		big = append(big, []int{1 << 20})
	}
	for _, b := range big {
		for _, head := range []int{0, 1} {
			for _, in := range []string{"client", "target"} {
				for _, mode := range []string{"full", "half"} {
					out = append(out, scenario{Head: head, CChunks: b, TChunks: []int{2}, Initiator: in, Mode: mode})
					out = append(out, scenario{Head: head, CChunks: []int{2}, TChunks: b, Initiator: in, Mode: mode})
				}
			}
		}
	}
	// early data whose size sits on a buffer boundary (the client then waits for the target's answer)
	for _, n := range []int{1023, 1024, 1025, 2048, 3072, 4095, 4096, 8192} {
		for _, head := range []int{1, 3} {
			out = append(out, scenario{Head: head, CChunks: []int{n, 2}, TChunks: []int{3, 1}, Initiator: "client", Mode: "half", PingPong: true})
		}
	}
	// short reads on the proxy's sockets
	for _, head := range []int{1, 2} {
		for _, in := range []string{"client", "target"} {
			out = append(out, scenario{Head: head, CChunks: []int{1, 2}, TChunks: []int{3}, Initiator: in, Mode: "half", ShortRead: true})
		}
	}
	for _, route := range []string{"downstream", "downstream-coalesced"} {
		for _, head := range []int{0, 1} {
			for _, in := range []string{"client", "target"} {
				for _, mode := range []string{"full", "half"} {
					out = append(out, scenario{Head: head, CChunks: []int{1, 2}, TChunks: []int{3, 1}, Initiator: in, Mode: mode, Route: route})
				}
			}
		}
	}
	// conversations: nobody closes before the whole exchange has happened, each chunk answers the previous one
	for _, route := range []string{"", "downstream", "downstream-coalesced"} {
		for _, head := range []int{0, 1, 3} {
			for _, in := range []string{"client", "target"} {
				for _, mode := range []string{"full", "half"} {
					for _, sizes := range [][2][]int{{{1, 2}, {3, 1}}, {{2, 1, 1}, {1, 1}}, {{300}, {5000}}} {
						out = append(out, scenario{Head: head, CChunks: sizes[0], TChunks: sizes[1], Initiator: in, Mode: mode, Route: route, PingPong: true})
					}
				}
			}
		}
	}
	// pauses: a tunnel that stays silent for a while (shorter than the idle timeout) and then carries more data
	for _, route := range []string{"", "downstream", "downstream-coalesced"} {
		for _, pause := range []int{11, 200} {
			for _, in := range []string{"client", "target"} {
				if tier == "quick" && pause == 200 && in == "target" {
					continue
				}
				out = append(out, scenario{Head: 0, CChunks: []int{1, 2}, TChunks: []int{3, 1}, Initiator: in, Mode: "half", Route: route, Pause: pause})
			}
		}
	}
	// the downstream proxy confirms with a 2xx other than 200, or the way an HTTP/1.0 proxy would
	for _, st := range []string{"204 No Content", "201 Created", "299 Whatever", "200 Connection established"} {
		for _, in := range []string{"client", "target"} {
			out = append(out, scenario{Head: 0, CChunks: []int{1, 2}, TChunks: []int{3, 1}, Initiator: in, Mode: "half", Route: "downstream", DownStatus: st})
		}
	}
	// one end goes away with a reset instead of a close while the other end is waiting for more
	for _, route := range []string{"", "downstream"} {
		for _, in := range []string{"client", "target"} {
			out = append(out, scenario{Head: 0, CChunks: []int{1, 2}, TChunks: []int{3, 1}, Initiator: in, Mode: "abort", Route: route})
			out = append(out, scenario{Head: 0, CChunks: []int{300}, TChunks: []int{5000}, Initiator: in, Mode: "abort", Route: route, PingPong: true})
		}
	}
	for _, how := range []string{"abort", "close"} {
		for _, route := range []string{"", "downstream"} {
			out = append(out, scenario{AbortDuringDial: how, Route: route, Initiator: "client", Mode: "full"})
		}
	}
	out = append(out, scenario{DialErr: true}, scenario{DialErr: true, Route: "downstream"})
	out = append(append(out, auditScenarios(tier)...), sizeConvScenarios(tier)...)
	return append(out, idleConnectScenarios(tier)...)
}

// auditScenarios are the families added by the coverage audit (checks/c04/AUDIT.md). Scenarios marked Lite are
// explored with one deviation less than the tier's bound.
func auditScenarios(tier string) []scenario {
	var out []scenario
	thorough := tier == "thorough"
	inits := []string{"client", "target"}
	modes := []string{"full", "half"}
	// A. capability classes of the two connections the proxy copies between: the standard library takes a different
	// copy path for each (WriterTo / ReaderFrom / plain loop through the bufio buffers), and only some can half-close.
	for _, cc := range []string{"", "cw", "bare"} {
		for _, dc := range []string{"", "cw", "bare"} {
			if cc == "" && dc == "" {
				continue
			}
			oneSided := cc == "" || dc == ""
			if !thorough && !oneSided && !(cc == "bare" && dc == "bare") {
				continue
			}
			for _, route := range []string{"", "downstream-coalesced"} {
				if route != "" && !oneSided && !(thorough && cc == "bare" && dc == "bare") {
					continue
				}
				for _, in := range inits {
					for _, mode := range modes {
						// simultaneous small chunks, a conversation with early data, chunks above the bufio size
						if route == "" || thorough {
							out = append(out, scenario{Head: 0, CChunks: []int{1, 2}, TChunks: []int{3, 1}, Initiator: in, Mode: mode, Route: route, ClientConn: cc, DialConn: dc, Lite: thorough && !oneSided && cc != dc})
						}
						if mode == "half" || thorough {
							out = append(out, scenario{Head: 1, CChunks: []int{2, 1, 1}, TChunks: []int{1, 1}, Initiator: in, Mode: mode, Route: route, PingPong: true, ClientConn: cc, DialConn: dc, Lite: !thorough || !oneSided})
						}
						if mode == "half" && (route == "" || thorough) {
							out = append(out, scenario{Head: 0, CChunks: []int{4097, 4200}, TChunks: []int{4500, 4100}, Initiator: in, Mode: mode, Route: route, ClientConn: cc, DialConn: dc, Lite: true})
						}
					}
				}
			}
		}
	}
	// the proxy behind a traffic-shaping listener (martian's -traffic-shaping flag), default settings; a short
	// timeout keeps the number of bucket ticks per execution small
	for _, in := range inits {
		for _, mode := range modes {
			out = append(out, scenario{Head: 1, CChunks: []int{2, 1, 1}, TChunks: []int{1, 1}, Initiator: in, Mode: mode, PingPong: true, ClientConn: "ts", Timeout: 20, Lite: true})
			out = append(out, scenario{Head: 0, CChunks: []int{1, 2}, TChunks: []int{3, 1}, Initiator: in, Mode: mode, ClientConn: "ts", Timeout: 20, Lite: true})
		}
	}
	// B. the downstream proxy does not confirm the tunnel
	for _, f := range []string{"close", "garbage", "partial", "refuse:403-close", "refuse:407-keepalive", "refuse:502-keepalive-0", "refuse:503-keepalive-chk"} {
		out = append(out, scenario{Route: "downstream", DownFail: f, Initiator: "client", Mode: "full"})
	}
	// C. tunnels that outlive the proxy's timeout although no silence comes near it
	for _, route := range []string{"", "downstream"} {
		for _, in := range inits {
			out = append(out, scenario{Head: 0, CChunks: []int{1, 1, 1, 1}, TChunks: []int{1, 1, 1, 1}, Initiator: in, Mode: "half", Route: route, PingPong: true, Timeout: 30, Gap: 11})
			if route == "" {
				// only one end speaks: a long download, a long upload
				out = append(out, scenario{Head: 0, CChunks: []int{}, TChunks: []int{1, 1, 1, 1}, Initiator: in, Mode: "half", Timeout: 30, Gap: 11})
				out = append(out, scenario{Head: 0, CChunks: []int{1, 1, 1, 1}, TChunks: []int{}, Initiator: in, Mode: "half", Timeout: 30, Gap: 11})
			}
			if route == "" || thorough {
				out = append(out, scenario{Head: 0, CChunks: []int{1, 1}, TChunks: []int{1, 1}, Initiator: in, Mode: "half", Route: route, PingPong: true, Gap: 100})
				out = append(out, scenario{Head: 0, CChunks: []int{1, 1, 1, 1}, TChunks: []int{2, 2, 2, 2}, Initiator: in, Mode: "half", Route: route, Timeout: 30, Gap: 11})
			}
		}
	}
	// D. back-pressure: one end is busy sending and does not read; the other direction must keep flowing
	for _, stall := range []string{"target", "client"} {
		for _, in := range inits {
			for _, route := range []string{"", "downstream"} {
				if route != "" && !thorough && in != stall {
					continue
				}
				out = append(out, scenario{Head: 0, CChunks: []int{3000, 3000, 3000}, TChunks: []int{3000, 3000, 3000}, Initiator: in, Mode: "half", Route: route, Cap: 2048, Stall: stall})
			}
		}
	}
	// E. the CONNECT is not the first exchange on its connection
	for _, prior := range []string{"502", "get", "get-pipelined"} {
		for _, head := range []int{0, 1, 2} {
			for _, in := range inits {
				if !thorough && (head == 2 || in == "target") {
					continue
				}
				out = append(out, scenario{Head: head, CChunks: []int{1, 2}, TChunks: []int{3, 1}, Initiator: in, Mode: "half", Prior: prior, Lite: in == "target"})
			}
		}
		out = append(out, scenario{Head: 2, CChunks: []int{1, 2}, TChunks: []int{3, 1}, Initiator: "target", Mode: "half", Prior: prior, Lite: true})
		out = append(out, scenario{Head: 1, CChunks: []int{4096, 2}, TChunks: []int{3, 1}, Initiator: "client", Mode: "half", PingPong: true, Prior: prior})
		out = append(out, scenario{Head: 1, CChunks: []int{1, 2}, TChunks: []int{3, 1}, Initiator: "client", Mode: "half", Route: "downstream-coalesced", Prior: prior, Lite: true})
	}
	// F. other spellings of the CONNECT request, all routes
	for _, sp := range []string{"http10", "close", "proxyconn", "ipv6"} {
		for _, route := range []string{"", "downstream"} {
			for _, in := range inits {
				out = append(out, scenario{Head: 1, CChunks: []int{1, 2}, TChunks: []int{3, 1}, Initiator: in, Mode: "half", Route: route, Spelling: sp, Lite: true})
			}
		}
	}
	// G. two tunnels through one proxy at the same time, each with chunks above the buffer sizes in both directions
	for _, in := range inits {
		out = append(out, scenario{Head: 0, CChunks: []int{4097, 4200}, TChunks: []int{4500, 4100}, Initiator: in, Mode: "half", Second: true, Lite: !thorough})
	}
	out = append(out, scenario{Head: 1, CChunks: []int{1, 2}, TChunks: []int{3, 1}, Initiator: "client", Mode: "half", Second: true, Lite: true})
	// H. both ends finish at the same time
	for _, mode := range modes {
		for _, route := range []string{"", "downstream-coalesced"} {
			out = append(out, scenario{Head: 0, CChunks: []int{1, 2}, TChunks: []int{3, 1}, Initiator: "both", Mode: mode, Route: route, Lite: !thorough && route != ""})
			out = append(out, scenario{Head: 1, CChunks: []int{5000, 3}, TChunks: []int{4097}, Initiator: "both", Mode: mode, Route: route})
		}
	}
	// I. early data and coalesced first target bytes that fill the 4096-byte bufio buffers exactly, with the head in front
	hl := len(connectHead)
	for _, n := range []int{4096 - hl - 1, 4096 - hl, 4096 - hl + 1} {
		out = append(out, scenario{Head: 1, CChunks: []int{n, 2}, TChunks: []int{3, 1}, Initiator: "client", Mode: "half", PingPong: true})
	}
	dl := len("HTTP/1.1 200 OK\r\n\r\n")
	for _, n := range []int{4096 - dl - 1, 4096 - dl, 4096 - dl + 1, 5000} {
		out = append(out, scenario{Head: 0, CChunks: []int{2, 1}, TChunks: []int{n, 2}, Initiator: "target", Mode: "half", Route: "downstream-coalesced"})
	}
	// I2. the CONNECT head split mid-line with early data behind its second part
	for _, in := range inits {
		out = append(out, scenario{Head: 4, CChunks: []int{1, 2}, TChunks: []int{3, 1}, Initiator: in, Mode: "half"})
		out = append(out, scenario{Head: 4, CChunks: []int{4096, 2}, TChunks: []int{3, 1}, Initiator: in, Mode: "half", PingPong: true})
	}
	// J. a failing response modifier on the CONNECT answer does not stop the tunnel
	for _, route := range []string{"", "downstream"} {
		out = append(out, scenario{Head: 1, CChunks: []int{1, 2}, TChunks: []int{3, 1}, Initiator: "client", Mode: "half", Route: route, ResModErr: true, Lite: !thorough})
	}
	// K. unreachable target, other shapes of the request around it
	out = append(out, scenario{DialErr: true, Spelling: "http10"}, scenario{DialErr: true, ClientConn: "bare"}, scenario{DialErr: true, Prior: "get"})
	return out
}

// auditBoundCut says by how much the deviation bound of an audit scenario is lowered (long executions, many threads).
func (s scenario) auditBoundCut(b int) int {
	if s.Lite && b > 1 {
		return 1
	}
	return 0
}

type shardOut struct {
	Counters   map[string]int64
	Violations []lib.Violation
	Samples    []interface{}
	Incomplete string
	MinBound   int
}

func main() {
	tier := lib.Tier()
	scen := scenarios(tier)
	bound := 2
	if tier == "thorough" {
		bound = 3
	}
	// development aids: C04_ONLY=<substring of the scenario description> restricts the run, C04_BOUND=<n> overrides the
	// deviation bound, C04_LIST=1 prints the scenarios
	if only := os.Getenv("C04_ONLY"); only != "" {
		var keep []scenario
		for _, sc := range scen {
			if strings.Contains(sc.String(), only) {
				keep = append(keep, sc)
			}
		}
		scen = keep
	}
	if os.Getenv("C04_LIST") != "" {
		for i, sc := range scen {
			fmt.Printf("%4d %s\n", i, sc)
		}
		return
	}
	if rp := os.Getenv("VERIF_REPLAY"); rp != "" {
		// replay one recorded violation: same scenario, same schedule, with a full trace
		var doc struct {
			First struct {
				Replay struct {
					Scenario scenario
					Schedule []int
				}
			}
		}
		b, err := os.ReadFile(rp)
		if err != nil || json.Unmarshal(b, &doc) != nil {
			fmt.Fprintln(os.Stderr, "cannot read replay", rp, err)
			os.Exit(2)
		}
		body, check := run(doc.First.Replay.Scenario)
		r := vrt.Run(vrt.Config{Trace: true, MaxPoints: 50000}, doc.First.Replay.Schedule, body)
		for _, l := range r.Trace {
			fmt.Println("  ", l)
		}
		fmt.Println("outcome:", r.Outcome, r.Panic)
		for _, l := range r.Log {
			fmt.Println("log:", l)
		}
		for _, t := range r.Threads {
			fmt.Printf("thread %d %s done=%v blocked=%s\n", t.ID, t.Label, t.Done, t.Blocked)
		}
		fs := check(r)
		for _, f := range fs {
			fmt.Printf("VIOLATION property=C04 replay=%s\n  %s: %s\n", rp, f.Sig, f.Desc)
		}
		if len(fs) > 0 {
			os.Exit(1)
		}
		return
	}
	if i, n := lib.ShardEnv(); n > 0 {
		out := &shardOut{Counters: map[string]int64{}, MinBound: 99}
		per := 25 * time.Second
		if tier == "thorough" {
			per = 4 * time.Minute
		}
		for si, sc := range scen {
			if si%n != i {
				continue
			}
			b := bound
			big := false
			for _, x := range append(append([]int{}, sc.CChunks...), sc.TChunks...) {
				if x > 100 {
					big = true
				}
			}
			bidi := false
			if len(sc.CChunks) > 0 && len(sc.TChunks) > 0 && sc.CChunks[0] > 4096 && sc.TChunks[0] > 4096 {
				bidi = true
			}
			if sc.SizeConv != 0 {
				// round 7: one deviation less like the other large sizes, except the size that fills a bufio buffer
				// exactly, as the first message of its direction: full bound
				bidi = sc.SizeConv == 4096 && len(sc.CChunks) == 2
			}
			if big && !(bidi && tier == "quick") {
				b-- // long executions; the simultaneous-large-chunk scenarios keep the full bound in quick
			}
			b -= sc.auditBoundCut(b)
			if v := os.Getenv("C04_BOUND"); v != "" {
				fmt.Sscan(v, &b)
			}
			t0 := time.Now()
			body, check := run(sc)
			seen := map[string]bool{}
			st := vrt.Explore(vrt.ExploreConfig{Bound: b, Deadline: time.Now().Add(per), Config: vrt.Config{MaxPoints: 50000}}, body, func(prefix []int, r *vrt.Result) bool {
				for _, f := range check(r) {
					if !seen[f.Sig] {
						seen[f.Sig] = true
						if err := vrt.Confirm(vrt.Config{MaxPoints: 50000, MaxVTime: 3 * time.Hour}, r, body, 3); err != nil {
							fmt.Fprintln(os.Stderr, "ENGINE ERROR:", err)
							os.Exit(2)
						}
						out.Violations = append(out.Violations, lib.Violation{Sig: f.Sig, Desc: fmt.Sprintf("scenario {%s} schedule %v: %s", sc, r.ChoiceSeq(), f.Desc),
							Replay: map[string]interface{}{"scenario": sc, "schedule": r.ChoiceSeq(), "log": r.Log}})
					}
				}
				return true
			})
			if st.EngineError != "" {
				fmt.Fprintln(os.Stderr, "ENGINE ERROR:", st.EngineError)
				os.Exit(2)
			}
			if os.Getenv("C04_STATS") != "" {
				fmt.Fprintf(os.Stderr, "STAT %6d execs %6.1fs bound %d completed %d {%s}\n", st.Execs, time.Since(t0).Seconds(), b, st.BoundCompleted, sc)
			}
			out.Counters["scenarios"]++
			out.Counters["executions"] += int64(st.Execs)
			out.Counters["points"] += st.Points
			out.Counters["distinct_outcomes"] += int64(st.DistinctLogs)
			out.Counters["horizon_hits"] += int64(st.HorizonHits)
			if st.DistinctLogs > 1 {
				out.Counters["scenarios_with_multiple_outcomes"]++
			}
			if int64(st.MaxPoints) > out.Counters["max_points"] {
				out.Counters["max_points"] = int64(st.MaxPoints)
			}
			if !st.Exhaustive {
				out.Incomplete = fmt.Sprintf("scenario {%s}: cap hit, bound completed %d", sc, st.BoundCompleted)
			}
			if st.BoundCompleted < out.MinBound {
				out.MinBound = st.BoundCompleted
			}
			if len(out.Samples) < 2 {
				out.Samples = append(out.Samples, map[string]interface{}{"scenario": sc.String(), "executions": st.Execs, "distinct_outcomes": st.DistinctLogs, "bound": b})
			}
		}
		b, _ := json.Marshal(out)
		os.WriteFile(os.Getenv("VERIF_SHARD_OUT"), b, 0o644)
		return
	}
	rep := lib.NewReport("C04", "model_checking")
	// the TCP model the scenarios run on is validated against the kernel on every run (engine self-test)
	confDepth := 2
	if tier == "thorough" {
		confDepth = 3
	}
	if n, bad, ok := simconf.Run(confDepth); ok {
		rep.Coverage["simnet_conformance"] = map[string]interface{}{"scripts_replayed_on_loopback_tcp": n, "disagreements": len(bad), "depth": confDepth}
		if len(bad) > 0 {
			fmt.Fprintln(os.Stderr, "ENGINE ERROR: simnet disagrees with loopback TCP:", bad[0])
			os.Exit(2)
		}
	} else {
		rep.Coverage["simnet_conformance"] = "skipped: no loopback TCP available"
	}
	files, errs, outs := lib.RunShards(16, lib.Root+"/.build/c04/shards")
	minBound := 99
	for i, f := range files {
		if errs[i] != nil {
			fmt.Fprintf(os.Stderr, "shard %d failed: %v\n%s\n", i, errs[i], outs[i])
			os.Exit(2)
		}
		if os.Getenv("C04_STATS") != "" {
			fmt.Fprint(os.Stderr, outs[i])
		}
		var so shardOut
		b, _ := os.ReadFile(f)
		if err := json.Unmarshal(b, &so); err != nil {
			fmt.Fprintf(os.Stderr, "shard %d: bad output: %v\n", i, err)
			os.Exit(2)
		}
		for k, v := range so.Counters {
			if k == "max_points" {
				if v > rep.Counter(k) {
					rep.Count(k, v-rep.Counter(k))
				}
				continue
			}
			rep.Count(k, v)
		}
		for _, v := range so.Violations {
			rep.Violate(v.Sig, v.Desc, v.Replay)
		}
		for _, s := range so.Samples {
			rep.Sample(8, s)
		}
		if so.Incomplete != "" {
			rep.Incomplete = so.Incomplete
		}
		if so.MinBound < minBound {
			minBound = so.MinBound
		}
	}
	rep.Coverage["states"] = rep.Counter("distinct_outcomes")
	rep.Coverage["transitions"] = rep.Counter("points")
	rep.Coverage["traces_validated_against_impl"] = rep.Counter("executions")
	rep.Coverage["bound_completed"] = minBound
	rep.Coverage["exhaustive"] = rep.Incomplete == ""
	rep.Coverage["evaluations"] = rep.Counter("executions")
	rep.Coverage["distinct_nontrivial"] = rep.Counter("scenarios_with_multiple_outcomes")
	rep.Coverage["rule"] = "a case is a scenario (early-data placement, chunk lists of both directions, who finishes first and how, route, connection capability classes, history on the connection, request spelling, timing (before and after the CONNECT), buffer capacity, message sizes at the code's buffer constants inside a conversation); all its executions are the schedules with at most the stated number of deviations from the default schedule, and the oracle is evaluated on every one of them; a scenario counts as non-trivial when its observation log depends on the schedule (at least two distinct logs)"
	rep.Coverage["bounds"] = fmt.Sprintf("%d scenarios (5 early-data placements x client/target chunk lists {[],[3],[1,2]} x who finishes first {client, target, both} x full/half close/reset; large sizes 4097/5003/32769 bytes and sizes that fill the 4096-byte buffers exactly; short-read variants; dial error); downstream-proxy route incl. a downstream proxy that closes, answers garbage or refuses (403/407/502/503); connection capability classes {TCP-like, CloseWrite only, net.Conn only} on either side and a traffic-shaping listener; silent periods of 11 s and 200 s before the last chunks and tunnels that outlive SetTimeout(30 s) / the default timeout with 11 s / 100 s gaps; socket buffers capped at 2048 bytes with a stalled reader; CONNECT after a 502 / a GET / pipelined behind a GET; HTTP/1.0, Connection: close, Proxy-Connection, IPv6 spellings; a second tunnel at the same time; conversations in which a relayed message of 4095/4096/4097/8192 bytes (thorough: also 32767/32768/32769) is followed by its sender waiting for the reply, sent by the client, the target or both, as first or second message or twice in a row, on all three routes; client connections that sit idle for 0 / just under and over half the timeout / just under the timeout (SetTimeout(30 s) and the default) before the CONNECT is sent, as first exchange or after a GET, followed by ping-pong / upload-only / download-only traffic with 1 s..110 s gaps until three messages after the moment the deadline of the CONNECT exchange would fire, all three routes; dial errors that are a timeout net.Error / io.EOF / io.ErrClosedPipe; every schedule with <= %d deviations (one less for large sizes and for the scenarios marked lite)", len(scen), bound)
	rep.Coverage["explanation"] = "each execution runs the real proxy.go CONNECT path over simnet under the gosim scheduler; prompt = first quiescent point with zero virtual time elapsed (no timeout can have fired), or one virtual second after the last scripted pause"
	rep.Assumptions = []string{"simnet models TCP (coalescing reads, FIN on close / CloseWrite, writes to a closed peer fail from the second write on)", "real-time pauses are represented by interleavings and by scripted periods of virtual time", "a simnet write with an expired write deadline still succeeds while buffer space is left (the kernel would refuse it): a tunnel cut by the deadline shows through the reading side only"}
	rep.Finish()
}
