package main

import (
	"errors"
	"io"
	"net"
)

// Round 8, family M "idleconnect": the client connection sits idle before the CONNECT request is sent, and the
// tunnel is then in continuous use across the moment at which the deadline armed for that exchange would fire.
//
// The statement owes every byte to the other end "for any sizes, interleavings and timing of writes", and
// end-of-stream only as the other end's doing, never as the doing of the proxy's idle timeout while the tunnel is in
// use. The proxy arms a deadline (SetTimeout, default 5 minutes) at the start of every exchange on a client
// connection - when the connection is accepted, or when the previous exchange is over - i.e. *before* the CONNECT
// request is read. The `gaps` family (audit, C) starts its clock at the CONNECT: the client connects, sends CONNECT at
// once, and only then lets virtual time pass. Here the time that passes *before* the CONNECT is a dimension of its
// own:
//
//	timeout T   in {SetTimeout(30 s), the default (300 s)}
//	gap g       in {2T/15 (4 s / 40 s)}; thorough: + {11T/30 (11 s / 110 s)}; T/30 (1 s / 10 s) for near_timeout
//	idle        in {0,
//	                under_half      = T/2 - g/8,
//	                over_half       = T/2 + g/8,
//	                near_timeout    = T - 3.5 g  (g = T/30: three messages cross before the old deadline),
//	                late_first_byte = T - g/8    (the first message crosses after the old deadline)}
//	history     in {the CONNECT is the first exchange, the idle period follows a proxied GET on the same connection}
//	traffic     in {ping-pong (a 1-byte message crosses the tunnel every g seconds, alternating directions),
//	                upload only, download only (a 1-byte message every g seconds, the other end is silent)}
//	            with N = ceil((T - idle) / g) + 3 messages: the tunnel is in use until three messages after the moment
//	            the deadline of the CONNECT exchange would fire
//	route       in {direct, downstream, downstream-coalesced}
//	who finishes first afterwards in {client, target}, half-close
//
// No silence on either connection ever reaches the timeout: the longest is the idle period itself (< T), every other
// is g. Times are chosen so that no message coincides with a deadline. Oracle: the unchanged clauses of the check,
// judged one virtual second after the last message can have been written (`lost:*` / `delayed:*`, `corrupt:*`,
// `eof_spurious:*` - an end is told end-of-stream although the other end has not stopped sending -, `eof_late/never`,
// `release_*`). Signatures lead with `idleconnect=<idle class>/`.
func idleConnectScenarios(tier string) []scenario {
	var out []scenario
	thorough := tier == "thorough"
	type idleCase struct {
		class string
		gap   int // seconds
		ms    int // idle, milliseconds
	}
	for _, timeout := range []int{30, 0} {
		T := timeout
		if T == 0 {
			T = 300 // the default
		}
		gaps := []int{T * 2 / 15}
		if thorough {
			gaps = append(gaps, T*11/30)
		}
		var cases []idleCase
		for _, g := range gaps {
			cases = append(cases,
				idleCase{"0", g, 0},
				idleCase{"under_half", g, T*500 - g*125},
				idleCase{"over_half", g, T*500 + g*125},
				idleCase{"late_first_byte", g, T*1000 - g*125})
		}
		cases = append(cases, idleCase{"near_timeout", T / 30, T*1000 - (T/30)*3500})
		for _, ic := range cases {
			n := (T*1000-ic.ms+ic.gap*1000-1)/(ic.gap*1000) + 3
			ones := func(k int) []int {
				l := make([]int, k)
				for i := range l {
					l[i] = 1
				}
				return l
			}
			for _, route := range []string{"", "downstream", "downstream-coalesced"} {
				for _, prior := range []string{"", "get"} {
					if prior != "" && route != "" && !thorough {
						continue
					}
					for _, traffic := range []string{"pingpong", "upload", "download"} {
						if traffic != "pingpong" && (route != "" || prior != "") && !thorough {
							continue
						}
						for _, in := range []string{"client", "target"} {
							if traffic != "pingpong" && in == "target" && !thorough {
								continue
							}
							sc := scenario{Head: 0, Initiator: in, Mode: "half", Route: route, Prior: prior, Timeout: timeout, Gap: ic.gap, IdleMs: ic.ms, IdleClass: ic.class}
							switch traffic {
							case "pingpong":
								sc.CChunks, sc.TChunks, sc.PingPong = ones((n+1)/2), ones(n/2), true
							case "upload":
								sc.CChunks, sc.TChunks = ones(n), []int{}
							case "download":
								sc.CChunks, sc.TChunks = []int{}, ones(n)
							}
							// the timing is the dimension here; the secondary combinations run one deviation lower
							sc.Lite = prior != "" || traffic != "pingpong" || route == "downstream-coalesced"
							if thorough {
								// the third deviation only for the primary combination (first exchange, direct route, ping-pong,
								// g = 2T/15): the family is six times larger here
								sc.Lite = sc.Lite || route != "" || ic.gap != gaps[0]
							}
							out = append(out, sc)
						}
					}
				}
			}
		}
	}
	// Family K, continued: an unreachable target whose dial fails with an error of a particular kind. The statement
	// owes the 502 with a Warning header whatever made the target unreachable.
	for _, kind := range []string{"timeout", "eof", "closedpipe"} {
		for _, route := range []string{"", "downstream"} {
			out = append(out, scenario{DialErr: true, Route: route, DialErrKind: kind})
		}
		out = append(out, scenario{DialErr: true, DialErrKind: kind, Prior: "get", Lite: true})
	}
	return out
}

// dialTimeout is what a dial that runs into its deadline fails with: a net.Error whose Timeout() is true.
type dialTimeout struct{}

func (dialTimeout) Error() string   { return "i/o timeout" }
func (dialTimeout) Timeout() bool   { return true }
func (dialTimeout) Temporary() bool { return true }

func dialError(kind string) error {
	switch kind {
	case "timeout":
		return &net.OpError{Op: "dial", Net: "tcp", Err: dialTimeout{}}
	case "eof":
		return io.EOF
	case "closedpipe":
		return io.ErrClosedPipe
	}
	return errors.New("simulated dial failure")
}
