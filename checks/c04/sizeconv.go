package main

// Round 7, family L "sizeconv": conversations whose relayed messages have a size at a constant of the code.
//
// The statement owes every byte to the other end promptly "for any sizes, interleavings and timing of writes". The
// scenarios before this family combined sizes at the code's constants (bufio 4096 on all four buffered ends, io.Copy
// 32 KiB) only with bulk transfers, where the sender goes on writing or closes right away (whatever the relay holds
// back is pushed out by the next write or by the end-of-stream flush), and with early data (which takes another path
// through the proxy); conversations - a message, then the sender waits for the reply - only had messages of 1..3,
// 300 and 5000 bytes. Here a message of exactly n bytes crosses the established tunnel in one write, and its sender
// does not write again (and does not close) before the peer's reply to it has arrived:
//
//	n        in {4095, 4096, 4097, 8192} (thorough: + 32767, 32768, 32769)
//	sender   in {client, target, both (an echo: the reply has n bytes too)}
//	position in {first message of its direction, second message (behind a small one), twice in a row}
//	route    in {direct, downstream, downstream-coalesced}
//	who finishes first after the conversation in {client, target} x {half} (thorough: + full)
//
// Oracle: the unchanged clauses of the check (all bytes at the first quiescent point with no virtual time elapsed:
// `delayed:*` / `lost:*`; end-of-stream and release: `eof_*`, `release_*`; integrity: `corrupt:*`). A relay that
// holds a message back until more bytes follow leaves the conversation stuck at quiescence.
func sizeConvScenarios(tier string) []scenario {
	var out []scenario
	thorough := tier == "thorough"
	sizes := []int{4095, 4096, 4097, 8192}
	if thorough {
		sizes = append(sizes, 32767, 32768, 32769)
	}
	modes := []string{"half"}
	if thorough {
		modes = append(modes, "full")
	}
	// chunk lists of the sender of the n-byte message(s) and of the peer that answers with small messages; list k of
	// the client is written after the target's list k-1 has arrived, list k of the target after the client's list k
	shape := func(n int, pos string) (big, small []int) {
		switch pos {
		case "first":
			return []int{n, 2}, []int{3, 1}
		case "second":
			return []int{2, n, 1}, []int{3, 1, 2}
		}
		return []int{n, n, 1}, []int{3, 1, 2} // twice in a row
	}
	for _, n := range sizes {
		for _, pos := range []string{"first", "second", "twice"} {
			if n > 8192 && pos != "first" {
				continue
			}
			for _, sender := range []string{"client", "target", "both"} {
				big, small := shape(n, pos)
				var cc, tc []int
				switch sender {
				case "client":
					cc, tc = big, small
				case "target":
					// the client opens the conversation with a small message, the target answers with n bytes and waits
					cc, tc = small, big
				default:
					cc, tc = big, big
				}
				for _, route := range []string{"", "downstream", "downstream-coalesced"} {
					for _, in := range []string{"client", "target"} {
						for _, mode := range modes {
							out = append(out, scenario{Head: 0, CChunks: cc, TChunks: tc, Initiator: in, Mode: mode, Route: route, PingPong: true, SizeConv: n})
						}
					}
				}
			}
		}
	}
	return out
}
