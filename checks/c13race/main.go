// c13race is the auxiliary race pass of check C13: the thread bodies of the concurrent scenarios (traffic
// threads, query threads, reset thread on a configuration tree) run free on the UNREWRITTEN martian tree.
// It is built with `go build -race` and started by the C13 check binary, which parses the race detector's
// reports from stderr. Usage: race <tier> <iterations per scenario>.
//
// Nothing here is an oracle: the program only makes the accesses happen; a report is a violation of C13's
// "free of data races" clause when one of its stacks lies in martian code.
package main

import (
	"encoding/json"
	"fmt"
	"os"
	"strconv"
	"sync"

	mlog "github.com/google/martian/v3/log"

	"verif/checks/c13/scen"
)

// quiet replaces martian's default logger: the default one serialises every call through one global mutex,
// which would add happens-before edges between otherwise unordered threads and hide races.
type quiet struct{}

func (quiet) Infof(string, ...interface{})  {}
func (quiet) Debugf(string, ...interface{}) {}
func (quiet) Errorf(string, ...interface{}) {}

func extra() []scen.Conc {
	unmet := scen.Msg{}
	two := [][]scen.Msg{{unmet, unmet}, {unmet, unmet}}
	var out []scen.Conc
	for k := 0; k < scen.NumLeafKinds; k++ {
		m := unmet
		if k == scen.KPingback {
			m = scen.Msg{Met: 1 << uint(scen.KPingback)}
		}
		prog := [][]scen.Msg{{m, unmet}, {unmet, m}}
		if k != scen.KPingback {
			prog = two
		}
		out = append(out,
			scen.Conc{Name: "race/" + scen.KindNames[k] + "/2x2+2query+reset", Tree: scen.Leaf(k).Number(), Prime: []scen.Msg{unmet}, Threads: prog, Queries: 2, Reset: true},
			scen.Conc{Name: "race/group(" + scen.KindNames[k] + ")/2x2+2query", Tree: scen.Group(scen.Leaf(k)).Number(), Threads: prog, Queries: 2},
			scen.Conc{Name: "race/filterE(" + scen.KindNames[k] + ")/2x2+2query+reset", Tree: scen.FilterE(scen.Leaf(k)).Number(), Prime: []scen.Msg{unmet}, Threads: prog, Queries: 2, Reset: true},
		)
	}
	// result aliasing (see scen.ConcScenarios): more traffic and two queries on the primed groups
	metM := scen.Msg{Met: 1 << uint(scen.KMethod)}
	metMU := scen.Msg{Met: 1<<uint(scen.KMethod) | 1<<uint(scen.KURL)}
	for _, n := range []int{3, 5, 6, 7} {
		var p2, p3 []scen.Msg
		for i := 0; i < n-1; i++ {
			p2 = append(p2, metM)
			p3 = append(p3, metMU)
		}
		p2 = append(p2, unmet)
		p3 = append(p3, unmet)
		out = append(out,
			scen.Conc{Name: fmt.Sprintf("race/group(failure,method)/prime%d+2x2+2query", n), Tree: scen.Group(scen.Leaf(scen.KFailure), scen.Leaf(scen.KMethod)).Number(), Prime: p2, Threads: [][]scen.Msg{{metM, metM}, {metM, unmet}}, Queries: 2},
			scen.Conc{Name: fmt.Sprintf("race/group(failure,method,url)/prime%d+2x2+2query", n), Tree: scen.Group(scen.Leaf(scen.KFailure), scen.Leaf(scen.KMethod), scen.Leaf(scen.KURL)).Number(), Prime: p3, Threads: [][]scen.Msg{{metMU, metMU}, {metMU, unmet}}, Queries: 2},
			scen.Conc{Name: fmt.Sprintf("race/filterE(group(failure,method))/prime%d+2x2+2query", n), Tree: scen.FilterE(scen.Group(scen.Leaf(scen.KFailure), scen.Leaf(scen.KMethod))).Number(), Prime: p2, Threads: [][]scen.Msg{{metM, metM}, {metM, unmet}}, Queries: 2},
		)
	}
	return out
}

func main() {
	mlog.SetLogger(quiet{})
	tier := "quick"
	iters := 50
	if len(os.Args) > 1 {
		tier = os.Args[1]
	}
	if len(os.Args) > 2 {
		if n, err := strconv.Atoi(os.Args[2]); err == nil {
			iters = n
		}
	}
	scs := append(scen.ConcScenarios("thorough"), extra()...)
	_ = tier
	var total int64
	for _, sc := range scs {
		fmt.Fprintf(os.Stderr, "C13RACE scenario %s\n", sc.Name)
		for it := 0; it < iters; it++ {
			runOnce(sc)
			total++
		}
	}
	b, _ := json.Marshal(map[string]int64{"Scenarios": int64(len(scs)), "Iterations": total})
	fmt.Println(string(b))
}

func runOnce(sc scen.Conc) {
	h, err := scen.NewHarness(sc.Tree)
	if err != nil {
		fmt.Fprintf(os.Stderr, "C13RACE setup error %s: %v\n", sc.Name, err)
		os.Exit(3)
	}
	id := 0
	for _, m := range sc.Prime {
		id++
		x, err := scen.NewExchange(m, id)
		if err != nil {
			fmt.Fprintf(os.Stderr, "C13RACE setup error %s: %v\n", sc.Name, err)
			os.Exit(3)
		}
		h.Request(x)
		h.Response(x)
		x.Remove()
	}
	start := make(chan struct{})
	var wg sync.WaitGroup
	spawn := func(f func()) {
		wg.Add(1)
		go func() {
			defer wg.Done()
			<-start
			f()
		}()
	}
	var all []*scen.Exchange
	for _, prog := range sc.Threads {
		var xs []*scen.Exchange
		for _, m := range prog {
			id++
			x, err := scen.NewExchange(m, id)
			if err != nil {
				fmt.Fprintf(os.Stderr, "C13RACE setup error %s: %v\n", sc.Name, err)
				os.Exit(3)
			}
			xs = append(xs, x)
			all = append(all, x)
		}
		spawn(func() {
			for _, x := range xs {
				h.Request(x)
				if !sc.ReqOnly {
					h.Response(x)
				}
			}
		})
	}
	for q := 0; q < sc.Queries; q++ {
		spawn(func() { h.Query() })
	}
	if sc.Reset {
		spawn(func() { h.Reset() })
	}
	close(start)
	wg.Wait()
	h.Query()
	for _, x := range all {
		x.Remove()
	}
}
