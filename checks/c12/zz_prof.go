package main

import (
	"os"
	"runtime/pprof"
)

func init() {
	if p := os.Getenv("C12_PROF"); p != "" {
		f, _ := os.Create(p)
		pprof.StartCPUProfile(f)
		stopProf = pprof.StopCPUProfile
	}
}

func init() {
	if os.Getenv("C12_COUNTS") != "" {
		for _, a := range []*alphabet{alphaFull, alphaMid, alphaSmall, alphaTiny} {
			println(a.name)
			for n, c := range a.count(7) {
				println(n, c)
			}
		}
		os.Exit(0)
	}
}
