// C12 round 6 (see AUDIT.md, "Round 6"): two dimensions the check did not enumerate.
//
//	X  exchanges: one parsed tree is run on the request of an exchange and then on the response of THAT exchange
//	   (res.Request is the very request object the request pass worked on, as in the proxy), over alphabets that contain
//	   leaves which rewrite what a condition refers to (URL path, query, port, a request header). "A filter applies its
//	   modifier when its condition holds for the message": for the response the condition is judged on the exchange as
//	   it is when the response is evaluated, not as it was when the request was.
//	N  header names: header.Filter / header.RegexFilter configured with every header name class (an ordinary one, and
//	   Host, Content-Length, Transfer-Encoding, which net/http keeps in struct fields), canonical and lower-case
//	   spelling, a value that messages carry and one that none carries; messages parsed from wire text by net/http;
//	   alone and after a header.Modifier that rewrites that very header.
package main

import (
	"bufio"
	"fmt"
	"net/http"
	"sort"
	"strings"

	"github.com/google/martian/v3"
)

// ---------------------------------------------------------------------------------------------------------
// X: rewriting leaves
// ---------------------------------------------------------------------------------------------------------

type setLeaf struct {
	modifier string // registered name (all of these types implement requests only, or are rendered with scope [request])
	fields   string
	cond     int  // the filter condition that reads the rewritten part of the request
	val      bool // its truth after the leaf ran
	shape    string
	attr     string // what it rewrites (for signatures)
}

var setLeaves = []setLeaf{
	{"url.Modifier", `"path":"/hit"`, fURL, true, "set[path=/hit]", "path"},
	{"url.Modifier", `"path":"/miss"`, fURL, false, "set[path=/miss]", "path"},
	{"querystring.Modifier", `"name":"r","value":"1"`, fURLRegex, true, "set[r=1]", "query"},
	{"querystring.Modifier", `"name":"r","value":"0"`, fURLRegex, false, "set[r=0]", "query"},
	{"querystring.Modifier", `"name":"p","value":"1"`, fQS, true, "set[p=1]", "query"},
	{"querystring.Modifier", `"name":"p","value":"2"`, fQS, false, "set[p=2]", "query"},
	{"port.Modifier", `"port":8080`, fPort, true, "set[port=8080]", "port"},
	{"port.Modifier", `"remove":true`, fPort, false, "set[port=none]", "port"},
	{"header.Modifier", `"name":"X-Re","value":"yes","scope":["request"]`, fHeaderRegex, true, "set[X-Re=yes@req]", "request-header"},
	{"header.Modifier", `"name":"X-Re","value":"no","scope":["request"]`, fHeaderRegex, false, "set[X-Re=no@req]", "request-header"},
}

var (
	alphaX = &alphabet{name: "xchg", scopes: s3, probeSc: s3, errSc: []int{scAbsent}, sets: []int{0, 1, 2, 3, 4, 5, 6, 7, 8, 9},
		filters: []int{fURLRegex, fURL, fQS, fPort, fHeaderRegex}, aggs: []bool{false, true}, prios: []int{0, 1},
		describe: "xchg (evaluated on exchanges: request pass, then response pass on the same exchange): scopes {absent,[request],[response]} on probe, fifo (aggregateErrors false/true), priority ({0,1}), url.RegexFilter, url.Filter, querystring.Filter (modifier, modifier+else), port.Filter, header.RegexFilter (modifier); erroring leaf without scope; rewriting leaves url.Modifier path=/hit|/miss, querystring.Modifier r=1|r=0|p=1|p=2, port.Modifier 8080|remove, header.Modifier X-Re=yes|no on requests - each makes the condition of one filter type true resp. false from there on"}
	alphaXMid = &alphabet{name: "xchgmid", scopes: []int{scAbsent}, probeSc: s2, errSc: nil, sets: []int{0, 1, 2, 3, 4, 5, 6, 7, 8, 9},
		filters: []int{fURLRegex, fURL, fQS, fPort, fHeaderRegex}, aggs: []bool{false}, prios: []int{0},
		describe: "xchgmid (exchanges): fifo, priority ({0}), url.RegexFilter, url.Filter, querystring.Filter (modifier, modifier+else), port.Filter, header.RegexFilter (modifier) without scope; probe with scope {absent,[response]}; all ten rewriting leaves of xchg"}
)

const (
	modeSingle = iota
	modeMulti
	modeExchange
)

const attrValid = 1 << 7

func attrsOf(c [nFilters]bool) int {
	a := attrValid
	for i, f := range []int{fURLRegex, fQS, fPort, fHeaderRegex} {
		if c[f] {
			a |= 1 << i
		}
	}
	return a
}

func attrString(a int) string {
	if a&attrValid == 0 {
		return "-"
	}
	b := func(i int, t, f string) string {
		if a&(1<<i) != 0 {
			return t
		}
		return f
	}
	return b(0, "r=1", "r=0") + " " + b(1, "p has 1", "p without 1") + " " + b(2, "port 8080", "no port") + " " + b(3, "X-Re: yes", "X-Re: no")
}

// msgsX[mask]: one exchange per truth assignment of the conditions in mask (single-valued sources).
var msgsX [1 << nFilters][]msg

func init() {
	for mask := 0; mask < 1<<nFilters; mask++ {
		for asg := 0; asg < 1<<nFilters; asg++ {
			if asg&^mask != 0 {
				continue
			}
			m := msg{Kind: 2}
			for i := 0; i < nFilters; i++ {
				m.Cond[i] = asg&(1<<i) != 0
			}
			msgsX[mask] = append(msgsX[mask], m)
		}
	}
}

// xmask: the conditions whose initial truth matters for an exchange on t: those of its filters, and the port when a
// url.Filter occurs (its host condition does not hold for a URL with a port) next to a leaf that sets or removes the port.
func xmask(t *node) int {
	m := filterMask(t)
	if m&(1<<fURL) != 0 {
		walk(t, func(x, _ *node, _ int) {
			if x.Kind == kSet && setLeaves[x.Set].cond == fPort {
				m |= 1 << fPort
			}
		})
	}
	return m
}

func treeWire(t *node) bool {
	w := false
	walk(t, func(x, _ *node, _ int) {
		if x.CV > 0 || x.Kind == kSetHdr {
			w = true
		}
	})
	return w
}

func msgsForTree(root *node, mode int) []msg {
	if treeWire(root) {
		return wireMsgs[wireIndex(filterMask(root))]
	}
	switch mode {
	case modeMulti:
		return msgsMulti[filterMask(root)]
	case modeExchange:
		return msgsX[xmask(root)]
	}
	return msgsFor[filterMask(root)]
}

// msgsOfKind: the messages the minimiser may move to (the caller keeps those of the failing kind).
func msgsOfKind(t *node, kind int) []msg {
	if treeWire(t) {
		return wireMsgs[wireIndex(filterMask(t))]
	}
	if kind == 2 {
		return msgsX[xmask(t)]
	}
	return msgsMulti[filterMask(t)]
}

// expectExchange: the reference for an exchange. The request of the exchange is buildRequest(c, flip) (it carries the
// opposite own-header / cookie values of the response, as for a lone response); the response pass starts from what the
// request pass left behind for every condition that refers to the exchange's request.
func expectExchange(root *node, m msg) outcome {
	rc := m.Cond
	rc[fHeader], rc[fCookie] = !rc[fHeader], !rc[fCookie]
	st := &mstate{bit: reqBit, cond: rc}
	if rc[fHeader] {
		st.yes = 1
	}
	ro := runInterp(root, st)
	ro.Attrs = attrsOf(st.cond)
	st2 := &mstate{bit: resBit, cond: st.cond, status: 200}
	st2.cond[fHeader], st2.cond[fCookie] = m.Cond[fHeader], m.Cond[fCookie] // the response's own header / Set-Cookie
	if m.Cond[fHeader] {
		st2.yes = 1
	}
	o := runInterp(root, st2)
	o.Req = &ro
	o.Attrs = attrsOf(st2.cond)
	return o
}

func observeExchange(reqmod martian.RequestModifier, resmod martian.ResponseModifier, m msg, calls *int64) (o outcome) {
	defer func() {
		if p := recover(); p != nil {
			o.Extra = fmt.Sprintf("panic: %v", p)
		}
	}()
	req := buildRequest(m.Cond, true, m.Multi)
	var err error
	if reqmod != nil {
		*calls++
		err = reqmod.ModifyRequest(req)
	}
	ro := outcome{Path: req.URL.Path, Attrs: requestAttrs(req)}
	fillOutcome(&ro, req.Header, err)
	reqTrace := append([]string(nil), req.Header["X-Trace"]...)
	res := buildResponseOn(m.Cond, m.Multi, req) // the response of THIS exchange: res.Request is the request just modified
	err = nil
	if resmod != nil {
		*calls++
		err = resmod.ModifyResponse(res)
	}
	o.Path = res.Request.URL.Path
	o.Status = res.StatusCode
	fillOutcome(&o, res.Header, err)
	if strings.Join(reqTrace, ",") != strings.Join(res.Request.Header["X-Trace"], ",") {
		o.Extra = "trace written to the request of a response"
	}
	if ro.Extra != "" {
		o.Extra = ro.Extra
	}
	o.Req = &ro
	o.Attrs = requestAttrs(res.Request)
	return o
}

// requestAttrs: what the rewriting leaves may have changed on the exchange's request.
func requestAttrs(req *http.Request) int {
	var c [nFilters]bool
	q := req.URL.Query()
	c[fURLRegex] = q.Get("r") == "1"
	for _, v := range q["p"] {
		c[fQS] = c[fQS] || v == "1"
	}
	c[fPort] = strings.HasSuffix(req.URL.Host, ":8080")
	c[fHeaderRegex] = req.Header.Get("X-Re") == "yes"
	return attrsOf(c)
}

// exchangeClass: the class of a minimised failing exchange for the signature - the filter types and the parts of the
// message that rewriting leaves of the tree touch (one stale-condition defect yields the same class whichever group or branch holds the two together); the full
// shape when no filter is involved.
func exchangeClass(t *node) string {
	fs, ss := map[string]bool{}, map[string]bool{}
	walk(t, func(x, _ *node, _ int) {
		switch x.Kind {
		case kFilter:
			fs[kindName(x)] = true
		case kSet:
			ss[setLeaves[x.Set].attr] = true
		case kMarkU:
			ss["path"] = true
		case kSetHdr, kMarkH:
			ss["header"] = true
		case kMarkS:
			ss["status"] = true
		}
	})
	if len(fs) == 0 {
		return shape(t)
	}
	keys := func(m map[string]bool) string {
		var k []string
		for s := range m {
			k = append(k, s)
		}
		sort.Strings(k)
		return strings.Join(k, ",")
	}
	return "exchange[" + keys(fs) + ";rewrites:" + keys(ss) + "]"
}

// ---------------------------------------------------------------------------------------------------------
// N: header names
// ---------------------------------------------------------------------------------------------------------

// headerNameClass: the class of a minimised failing tree of family N for the signature: the header-named filter
// variants involved (type, header name, lower-case spelling only when the canonical one does not fail), whatever the
// configured value and whether a rewriting leaf is needed to show it; "" for every other tree.
func headerNameClass(t *node) string {
	fs := map[string]bool{}
	walk(t, func(x, _ *node, _ int) {
		if x.Kind == kFilter && x.CV > 0 {
			n, sp, v := cvParts(x.CV)
			name := hdrNames[n]
			if sp == 1 {
				name = strings.ToLower(name)
			}
			if v == 2 {
				name += "=any" // fails only with the expression that matches every value: about the presence of the header
			}
			fs[filterShape[x.FType]+"~"+name] = true
		}
	})
	var k []string
	for s := range fs {
		k = append(k, s)
	}
	sort.Strings(k)
	return strings.Join(k, ",")
}

const (
	hnXCond = iota // the ordinary header of header.Filter
	hnHost
	hnCL
	hnTE
	hnXRe // the ordinary header of header.RegexFilter
	nHdrNames
)

var hdrNames = [nHdrNames]string{"X-Cond", "Host", "Content-Length", "Transfer-Encoding", "X-Re"}

// hdrValue[name]: value A (the one generated messages may carry), value B (no generated message carries it; the
// rewriting leaf sethdr sets it)
var hdrValue = [nHdrNames][2]string{{"yes", "nope"}, {"h.example", "other.example"}, {"5", "7"}, {"chunked", "gzip"}, {"yes", "nope"}}

// hdrRegex[name]: an expression that matches value A only, one that matches value B only, one that matches every
// non-empty value ("the header is there")
var hdrRegex = [nHdrNames][3]string{{`^ye+s$`, `^no+pe$`, `^.+$`}, {`^h\\.exa+mple$`, `^other\\.exa+mple$`, `^.+$`}, {`^0*5$`, `^0*7$`, `^.+$`}, {`^chu+nked$`, `^gz+ip$`, `^.+$`}, {`^ye+s$`, `^no+pe$`, `^.+$`}}

const (
	hvAbsent = iota
	hvA
	hvB
	hvOther // present with a value that is neither A nor B
)

// a condition variant: 1 + name*6 + spelling*3 + value (value: 0 A, 1 B, 2 - header.RegexFilter only - any non-empty value)
func cvOf(name, spelling, value int) int { return 1 + name*6 + spelling*3 + value }
func cvParts(cv int) (name, spelling, value int) {
	cv--
	return cv / 6, cv / 3 % 2, cv % 3
}

func cvShape(cv int) string {
	n, sp, v := cvParts(cv)
	s := hdrNames[n]
	if sp == 1 {
		s = strings.ToLower(s)
	}
	return s + "=" + [3]string{"A", "B", "any"}[v]
}

func cvCond(ftype, cv int) string {
	n, sp, v := cvParts(cv)
	name := hdrNames[n]
	if sp == 1 {
		name = strings.ToLower(name)
	}
	if ftype == fHeaderRegex {
		return `"header":"` + name + `","regex":"` + hdrRegex[n][v] + `"`
	}
	return `"name":"` + name + `","value":"` + hdrValue[n][v] + `"`
}

// cvHolds: header.Filter - the message itself has a header of that name (in any spelling: HTTP header names are
// case-insensitive) whose value is the configured one; header.RegexFilter - the REQUEST of the exchange has one whose
// value matches the expression (its documentation: "iff the value of request header matches regex", for both kinds).
func cvHolds(ftype, cv int, st *mstate) bool {
	n, _, v := cvParts(cv)
	if ftype == fHeaderRegex {
		have := st.req[n]
		if st.bit == reqBit {
			have = st.own[n]
		}
		if v == 2 {
			return have != hvAbsent // every generated value is non-empty
		}
		return have == hvA+v
	}
	return st.own[n] == hvA+v
}

func nextWire(w int) int { return w%3 + 1 }

// wireState: what the wire text of the message (and, for a response, of the request it answers) says.
func wireState(st *mstate, m msg) {
	ab := func(b bool) int {
		if b {
			return hvA
		}
		return hvOther
	}
	framing := func(h *[nHdrNames]int, w int) {
		if w == 2 {
			h[hnCL] = hvA
		}
		if w == 3 {
			h[hnTE] = hvA
		}
	}
	if m.Kind == 0 {
		st.own[hnXCond], st.own[hnXRe], st.own[hnHost] = ab(m.Cond[fHeader]), ab(m.Cond[fHeaderRegex]), hvA
		framing(&st.own, m.Wire)
		st.req = st.own
		return
	}
	st.own[hnXCond], st.own[hnXRe], st.own[hnHost] = ab(m.Cond[fHeader]), ab(!m.Cond[fHeaderRegex]), hvAbsent // a response has no Host header
	framing(&st.own, m.Wire)
	st.req[hnXCond], st.req[hnXRe], st.req[hnHost] = ab(!m.Cond[fHeader]), ab(m.Cond[fHeaderRegex]), hvA
	framing(&st.req, nextWire(m.Wire))
}

func yn(b bool) string {
	if b {
		return "yes"
	}
	return "no"
}

func wireRequest(c [nFilters]bool, flip bool, wire int) *http.Request {
	hv := c[fHeader]
	if flip {
		hv = !hv
	}
	meth, hdr, body := "GET", "Host: h.example\r\nX-Cond: "+yn(hv)+"\r\nX-Re: "+yn(c[fHeaderRegex])+"\r\n", ""
	switch wire {
	case 2:
		meth, hdr, body = "POST", hdr+"Content-Length: 5\r\n", "hello"
	case 3:
		meth, hdr, body = "POST", hdr+"Transfer-Encoding: chunked\r\n", "5\r\nhello\r\n0\r\n\r\n"
	}
	req, err := http.ReadRequest(bufio.NewReader(strings.NewReader(meth + " http://h.example/miss?q=0 HTTP/1.1\r\n" + hdr + "\r\n" + body)))
	if err != nil {
		panic("harness: http.ReadRequest: " + err.Error())
	}
	return req
}

func wireResponse(c [nFilters]bool, wire int) *http.Response {
	req := wireRequest(c, true, nextWire(wire))
	hdr, body := "X-Cond: "+yn(c[fHeader])+"\r\nX-Re: "+yn(!c[fHeaderRegex])+"\r\n", "hello"
	switch wire {
	case 2:
		hdr += "Content-Length: 5\r\n"
	case 3:
		hdr, body = hdr+"Transfer-Encoding: chunked\r\n", "5\r\nhello\r\n0\r\n\r\n"
	}
	res, err := http.ReadResponse(bufio.NewReader(strings.NewReader("HTTP/1.1 200 OK\r\n"+hdr+"\r\n"+body)), req)
	if err != nil {
		panic("harness: http.ReadResponse: " + err.Error())
	}
	return res
}

// wireMsgs[i]: kinds x wire states x truth assignments of the ordinary-header conditions (bit 0 X-Cond, bit 1 X-Re)
var wireMsgs [4][]msg

func wireIndex(mask int) int {
	i := 0
	if mask&(1<<fHeader) != 0 {
		i |= 1
	}
	if mask&(1<<fHeaderRegex) != 0 {
		i |= 2
	}
	return i
}

func init() {
	for i := 0; i < 4; i++ {
		for asg := 0; asg < 4; asg++ {
			if asg&^i != 0 {
				continue
			}
			for kind := 0; kind < 2; kind++ {
				for w := 1; w <= 3; w++ {
					m := msg{Kind: kind, Wire: w}
					m.Cond[fHeader], m.Cond[fHeaderRegex] = asg&1 != 0, asg&2 != 0
					wireMsgs[i] = append(wireMsgs[i], m)
				}
			}
		}
	}
}

// headerNames: every header.Filter (modifier, modifier+else) and header.RegexFilter (modifier) over
// {ordinary name, Host, Content-Length, Transfer-Encoding} x {canonical, lower-case spelling} x {value A, value B}
// x filter scope (5) x probe scope(s) {absent,[request],[response]}, alone and as the second child of a fifo group
// whose first child rewrites that header to value B.
func headerNames() family {
	probeSc := s3
	var want int64
	want = 2 * (4*2*2*5*int64(len(probeSc)+len(probeSc)*len(probeSc)) + 4*2*3*5*int64(len(probeSc)))
	return family{name: "header_names", want: want,
		describe: "header_names: header.Filter (modifier, modifier+else) and header.RegexFilter (modifier) named after X-Cond resp. X-Re, Host, Content-Length, Transfer-Encoding, canonical and lower-case, configured with a value (expression) that generated messages carry (A) and one that only the rewriting leaf produces (B), header.RegexFilter also with an expression that every non-empty value matches; filter scopes {absent,[],[request],[response],both}, probes with scope {absent,[request],[response]}; each alone and after header.Modifier <that header>: <B> in a fifo group; messages parsed by net/http from wire text: requests and responses x {no framing header, Content-Length: 5, Transfer-Encoding: chunked} x the ordinary header with value A / another value (a response's request carries the other values)",
		gen: func(f func(*node)) {
			for _, ft := range []int{fHeader, fHeaderRegex} {
				names := []int{hnXCond, hnHost, hnCL, hnTE}
				if ft == fHeaderRegex {
					names[0] = hnXRe
				}
				for _, name := range names {
					for sp := 0; sp < 2; sp++ {
						for v := 0; v < 2+map[bool]int{true: 1}[ft == fHeaderRegex]; v++ {
							for _, fsc := range s5 {
								emit := func(kids []*node) {
									fl := &node{Kind: kFilter, FType: ft, CV: cvOf(name, sp, v), Scope: fsc, Kids: kids}
									f(fl)
									f(&node{Kind: kFifo, Kids: []*node{{Kind: kSetHdr, Set: name}, fl}})
								}
								for _, s1 := range probeSc {
									emit([]*node{{Kind: kProbe, Scope: s1}})
									if !filterElse[ft] {
										continue
									}
									for _, s2 := range probeSc {
										emit([]*node{{Kind: kProbe, Scope: s1}, {Kind: kProbe, Scope: s2}})
									}
								}
							}
						}
					}
				}
			}
		}}
}
