// C12 round 8 (see AUDIT.md, "Round 8"): the spelling dimension of filter conditions.
//
// Every family so far configured one fixed value per condition field and ran it on messages whose corresponding field
// has one spelling (GET / POST, /hit / /miss, p=1 / p=2 ...). "A filter applies its modifier when its condition holds
// for the message and its else-branch otherwise" also quantifies over HOW the configured value and the message spell
// the same thing. Family S enumerates, per filter type and per condition field, a small table of
// (configured spelling, message spelling) pairs whose verdict the documentation of the filter fixes (see condCases;
// each generator says where the verdict comes from), on messages that net/http parses from wire bytes the way the
// proxy receives them. Pairs the documentation does not decide are NOT generated (listed in AUDIT.md).
package main

import (
	"bufio"
	"encoding/json"
	"fmt"
	"net/http"
	"strings"

	"github.com/google/martian/v3"
)

// spellCase: one (configuration spelling, message spelling) pair of one condition field.
type spellCase struct {
	Filter string `json:"filter"` // registered name
	Field  string `json:"field"`  // condition field (signature)
	Class  string `json:"class"`  // what distinguishes the two spellings (signature)
	Cond   string `json:"cond"`   // the rendered condition fields of the filter node
	Cfg    string `json:"configured"`
	Msg    string `json:"message_spelling"`
	// the request on the wire (for a response: the request it answers)
	Method string `json:"method"`
	Target string `json:"target"`
	ReqHdr string `json:"request_header_lines,omitempty"`
	// Own: the condition refers to the message's own header lines (header.Filter, cookie.Filter); then a response
	// carries ResHdr and the request it answers carries OppReq (lines that give the opposite verdict, where one exists)
	Own    bool   `json:"own,omitempty"`
	ResHdr string `json:"response_header_lines,omitempty"`
	OppReq string `json:"request_lines_of_a_response,omitempty"`
	Holds  bool   `json:"holds"`
	Why    string `json:"why"`
	Else   bool   `json:"takes_else"`
}

type spellReplay struct {
	Case     spellCase `json:"case"`
	Kind     int       `json:"kind"` // 0 request, 1 response
	WithElse bool      `json:"with_else"`
}

func jstr(s string) string {
	b, _ := json.Marshal(s)
	return string(b)
}

func asciiLower(s string) string {
	b := []byte(s)
	for i, c := range b {
		if 'A' <= c && c <= 'Z' {
			b[i] = c + 'a' - 'A'
		}
	}
	return string(b)
}

const spellHost = "h.example"

// condCases: the whole table, simplest first within each field. thorough adds spellings, quick keeps at least one
// pair of every class of every field.
func condCases(thorough bool) []spellCase {
	var out []spellCase
	pick := func(quick, more []string) []string {
		if thorough {
			return append(append([]string(nil), quick...), more...)
		}
		return quick
	}

	// ---- method.Filter / method ---------------------------------------------------------------------------
	// "Filter runs modifier iff the request method matches the specified method." martian's own specification of
	// "matches" for two method names (method_filter_test.go: a filter for "get" runs on a GET request, one for
	// "connect" does not) is equality regardless of letter case; matching is a relation between two method names, so it
	// does not depend on which of the two is the configured one. net/http keeps the client's spelling of the method.
	for _, cfg := range pick([]string{"GET", "get", "Patch"}, []string{"Get", "PATCH", "patch"}) {
		for _, m := range pick([]string{"GET", "get", "Get", "PATCH", "patch", "POST", "GETS"}, []string{"gEt", "Patch", "post", "GE"}) {
			holds := asciiLower(cfg) == asciiLower(m)
			class := "other_method"
			if holds {
				class = "case_variant" // at least one of the two is not the canonical upper-case spelling
				if cfg == m && cfg == strings.ToUpper(cfg) {
					class = "same_spelling"
				}
			}
			out = append(out, spellCase{Filter: "method.Filter", Field: "method", Class: class, Cond: `"method":` + jstr(cfg), Cfg: cfg, Msg: m,
				Method: m, Target: "http://" + spellHost + "/x", Holds: holds, Else: true,
				Why: "method names match regardless of letter case (method.Filter doc + martian's own test table); the message keeps the client's spelling"})
		}
	}

	// ---- url.Filter ---------------------------------------------------------------------------------------
	// "Filter runs modifiers iff the request URL matches all of the segments in url"; NewFilter takes a *url.URL, the
	// JSON fields scheme/host/path/query fill its Scheme, Host, Path and RawQuery. net/url documents Path as the DECODED
	// path and RawQuery as the ENCODED query without '?'.
	type up struct {
		cfg, target string
		holds       bool
		class       string
	}
	urlCase := func(field, cond string, p up, why string) {
		out = append(out, spellCase{Filter: "url.Filter", Field: field, Class: p.class, Cond: cond, Cfg: p.cfg, Msg: p.target,
			Method: "GET", Target: p.target, Holds: p.holds, Else: true, Why: why})
	}
	// scheme: the scheme of "HTTP://h/x" is http (RFC 3986 3.1: case-insensitive, canonical form lower case). A
	// configured upper-case scheme is not generated (documentation silent).
	for _, p := range []up{
		{"http", "http://" + spellHost + "/x", true, "same_spelling"},
		{"https", "https://" + spellHost + "/x", true, "same_spelling"},
		{"https", "http://" + spellHost + "/x", false, "other_value"},
		{"http", "https://" + spellHost + "/x", false, "other_value"},
		{"http", "HTTP://" + spellHost + "/x", true, "case_variant"},
		{"https", "HTTP://" + spellHost + "/x", false, "other_value"},
	} {
		urlCase("scheme", `"scheme":`+jstr(p.cfg), p, "the request URL's scheme segment equals the configured one; a scheme on the wire is case-insensitive")
	}
	// host: MatchHost "matches two URL hosts with support for wildcards" (martian's tests: "*.martian.local").
	// Letter case of hosts, a wildcard spanning several labels, a wildcard elsewhere: documentation silent, not generated.
	for _, p := range []up{
		{spellHost, "http://" + spellHost + "/x", true, "same_spelling"},
		{spellHost, "http://g.example/x", false, "other_value"},
		{"*.example", "http://" + spellHost + "/x", true, "wildcard"},
		{"*.example", "http://g.example/x", true, "wildcard"},
		{"*.example", "http://h.other/x", false, "wildcard"},
	} {
		urlCase("host", `"host":`+jstr(p.cfg), p, "the request URL's host matches the configured host; a leading *. label is a wildcard")
	}
	// path: the configured path is a url.URL.Path, i.e. decoded; the message's path is what its wire form decodes to.
	// Only characters that MUST be escaped on the wire (space, non-ASCII, '%') are used for "escaped_on_wire": there the
	// decoded reading is the only one under which the configured path can name a request at all. %2F, %2B, %3D
	// (reserved characters, whose escaping RFC 3986 makes significant) are not generated.
	paths := []up{
		{"/files/report", "/files/report", true, "same_spelling"},
		{"/files/report", "/files/other", false, "other_value"},
		{"/files/my report", "/files/my%20report", true, "escaped_on_wire"},
		{"/files/my report", "/files/my+report", false, "escaped_on_wire"},
		{"/files/my report", "/files/my%2520report", false, "escaped_on_wire"},
		{"/files/my report", "/files/myreport", false, "other_value"},
		{"/café", "/caf%C3%A9", true, "escaped_on_wire"},
		{"/café", "/cafe", false, "other_value"},
		{"/a+b", "/a+b", true, "same_spelling"},
		{"/a+b", "/a%20b", false, "escaped_on_wire"},
		{"/a=b", "/a=b", true, "same_spelling"},
	}
	if thorough {
		paths = append(paths,
			up{"/café", "/caf%c3%a9", true, "escaped_on_wire"},
			up{"/café", "/café", true, "same_spelling"}, // raw UTF-8 octets in the request line
			up{"/100%", "/100%25", true, "escaped_on_wire"},
			up{"/100%", "/100", false, "other_value"},
			up{"/my report/x y", "/my%20report/x%20y", true, "escaped_on_wire"},
			up{"/日本", "/%E6%97%A5%E6%9C%AC", true, "escaped_on_wire"},
			up{"/日本", "/%E6%97%A5", false, "other_value"},
		)
	}
	for _, p := range paths {
		for _, q := range pick([]string{""}, []string{"?x=1"}) {
			pp := p
			pp.target = "http://" + spellHost + p.target + q
			urlCase("path", `"path":`+jstr(p.cfg), pp, "the configured path is the decoded path (url.URL.Path); a request for exactly that path spells it percent-encoded on the wire")
		}
	}
	// query: the configured query is a url.URL.RawQuery, i.e. the encoded query segment; the segment matches as a whole.
	// Two spellings that only decode to the same parameters ("a+b" / "a%20b") are not generated (documentation silent).
	for _, p := range []up{
		{"q=value", "?q=value", true, "same_spelling"},
		{"q=value", "?q=other", false, "other_value"},
		{"q=value", "", false, "other_value"},
		{"q=a%20b", "?q=a%20b", true, "escaped_on_wire"},
		{"q=a+b", "?q=a+b", true, "escaped_on_wire"},
		{"q=a%3Db", "?q=a%3Db", true, "escaped_on_wire"},
		{"q=%C3%A9", "?q=%C3%A9", true, "escaped_on_wire"},
		{"q=a%2Fb&r=1", "?q=a%2Fb&r=1", true, "escaped_on_wire"},
	} {
		pp := p
		pp.target = "http://" + spellHost + "/x" + p.target
		urlCase("query", `"query":`+jstr(p.cfg), pp, "the configured query is the encoded query segment (url.URL.RawQuery, JSON example \"q=value\"); the same octets on the wire match")
	}

	// ---- header.Filter / name, value --------------------------------------------------------------------------
	// "the request (response) contains a header that matches the provided name and value". Header names are
	// case-insensitive (HTTP); a header value is the field value without surrounding optional whitespace, taken
	// literally - HTTP has no percent-encoding in field values. Letter case of values: silent, not generated.
	hdr := func(class, cfgName, cfgVal, wireLine string, holds bool) {
		opp := ""
		if !holds {
			opp = cfgName + ": " + cfgVal + "\r\n" // the request a response answers DOES carry the header: must not matter
		}
		out = append(out, spellCase{Filter: "header.Filter", Field: map[bool]string{true: "name", false: "value"}[class == "name_case" || class == "other_name"], Class: class,
			Cond: `"name":` + jstr(cfgName) + `,"value":` + jstr(cfgVal), Cfg: cfgName + ": " + cfgVal, Msg: strings.TrimRight(wireLine, "\r\n"),
			Method: "GET", Target: "http://" + spellHost + "/x", ReqHdr: wireLine, Own: true, ResHdr: wireLine, OppReq: opp, Holds: holds, Else: true,
			Why: "header names are case-insensitive, values are literal field values (no percent-decoding, optional whitespace around them is not part of them)"})
	}
	for _, cn := range pick([]string{"X-Spell", "x-spell"}, []string{"X-SPELL"}) {
		for _, wn := range pick([]string{"X-Spell", "x-spell", "X-sPELL"}, []string{"X-SPELL"}) {
			hdr("name_case", cn, "yes", wn+": yes\r\n", true)
			hdr("name_case", cn, "yes", wn+": no\r\n", false)
		}
		hdr("other_name", cn, "yes", "X-Spell-2: yes\r\n", false)
	}
	hdr("literal_value", "X-Spell", "a b", "X-Spell: a b\r\n", true)
	hdr("literal_value", "X-Spell", "a b", "X-Spell: a%20b\r\n", false)
	hdr("literal_value", "X-Spell", "a%20b", "X-Spell: a%20b\r\n", true)
	hdr("literal_value", "X-Spell", "a=b+c", "X-Spell: a=b+c\r\n", true)
	hdr("literal_value", "X-Spell", "a+b", "X-Spell: a b\r\n", false)
	hdr("literal_value", "X-Spell", "a%2Fb", "X-Spell: a/b\r\n", false)
	hdr("surrounding_whitespace", "X-Spell", "yes", "X-Spell:   yes  \r\n", true)
	hdr("surrounding_whitespace", "X-Spell", "yes", "X-Spell:yes\r\n", true)
	if thorough {
		hdr("literal_value", "X-Spell", "café", "X-Spell: café\r\n", true) // obs-text octets, kept as they are
		hdr("literal_value", "X-Spell", "café", "X-Spell: caf%C3%A9\r\n", false)
		hdr("surrounding_whitespace", "X-Spell", "a b", "X-Spell: \ta b\t\r\n", true)
	}

	// ---- querystring.Filter / name, value -----------------------------------------------------------------
	// "the request contains a querystring param that matches the provided name and value": name and value of a
	// parameter are what the query's name=value pair decodes to. As for paths, only octets that must be (or, under either
	// reading of '+', can only be) escaped on the wire are used; '+' for a space, a raw second '=' and letter case are
	// not generated (documentation silent).
	qs := func(field, class, name, value, rawQuery string, holds bool) {
		out = append(out, spellCase{Filter: "querystring.Filter", Field: field, Class: class, Cond: `"name":` + jstr(name) + `,"value":` + jstr(value),
			Cfg: name + "=" + value, Msg: "?" + rawQuery, Method: "GET", Target: "http://" + spellHost + "/x?" + rawQuery, Holds: holds, Else: true,
			Why: "a query parameter's name and value are the decoded name and value of the pair on the wire"})
	}
	qs("value", "same_spelling", "p", "1", "p=1", true)
	qs("value", "other_value", "p", "1", "p=2", false)
	qs("value", "escaped_on_wire", "p", "a b", "p=a%20b", true)
	qs("value", "escaped_on_wire", "p", "a b", "p=a%2520b", false)
	qs("value", "escaped_on_wire", "p", "a b", "p=ab", false)
	qs("value", "escaped_on_wire", "p", "a=b", "p=a%3Db", true)
	qs("value", "escaped_on_wire", "p", "a+b", "p=a%2Bb", true)
	qs("value", "escaped_on_wire", "p", "café", "p=caf%C3%A9", true)
	qs("value", "escaped_on_wire", "p", "a/b", "p=a%2Fb", true)
	qs("value", "escaped_on_wire", "p", "a&b", "p=a%26b", true)
	qs("value", "escaped_on_wire", "p", "a&b", "p=a&b", false)
	qs("name", "escaped_on_wire", "my key", "1", "my%20key=1", true)
	qs("name", "escaped_on_wire", "my key", "1", "mykey=1", false)
	qs("name", "escaped_on_wire", "café", "1", "caf%C3%A9=1", true)
	qs("name", "other_name", "p", "1", "q=1", false)
	if thorough {
		qs("value", "escaped_on_wire", "p", "a b", "x=0&p=a%20b", true)
		qs("value", "escaped_on_wire", "p", "café", "p=caf%c3%a9", true)
		qs("value", "escaped_on_wire", "p", "100%", "p=100%25", true)
		qs("value", "escaped_on_wire", "p", "日本", "p=%E6%97%A5%E6%9C%AC", true)
		qs("name", "escaped_on_wire", "a=b", "1", "a%3Db=1", true)
	}

	// ---- cookie.Filter / name, value ------------------------------------------------------------------------
	// "contains a cookie that matches the provided name ... and value": a cookie pair is name "=" value, the value
	// being everything after the FIRST '=' (RFC 6265: '=' is a cookie-octet), taken literally - cookies have no
	// percent-encoding of their own. Quoted values, spaces, non-ASCII octets (net/http drops or strips them) and
	// letter case are not generated (documentation silent).
	ck := func(class, value, wireValue string, holds bool) {
		opp := ""
		if !holds {
			opp = "Cookie: sc=" + value + "\r\n"
		}
		out = append(out, spellCase{Filter: "cookie.Filter", Field: "value", Class: class, Cond: `"name":"sc","value":` + jstr(value), Cfg: "sc=" + value, Msg: "sc=" + wireValue,
			Method: "GET", Target: "http://" + spellHost + "/x", ReqHdr: "Cookie: sc=" + wireValue + "\r\n", Own: true, ResHdr: "Set-Cookie: sc=" + wireValue + "; Path=/\r\n", OppReq: opp,
			Holds: holds, Else: true, Why: "a cookie's value is the literal text after the first '=' of its pair"})
	}
	ck("same_spelling", "1", "1", true)
	ck("other_value", "1", "2", false)
	ck("literal_value", "a%20b", "a%20b", true)
	ck("literal_value", "a%20b", "a%2520b", false)
	ck("literal_value", "a=b", "a=b", true)
	ck("literal_value", "a+b", "a+b", true)
	ck("literal_value", "a+b", "a%2Bb", false)
	ck("literal_value", "a/b", "a%2Fb", false)
	out = append(out, spellCase{Filter: "cookie.Filter", Field: "name", Class: "other_name", Cond: `"name":"sc","value":"1"`, Cfg: "sc=1", Msg: "sd=1", Method: "GET",
		Target: "http://" + spellHost + "/x", ReqHdr: "Cookie: sd=1\r\n", Own: true, ResHdr: "Set-Cookie: sd=1; Path=/\r\n", OppReq: "Cookie: sc=1\r\n", Holds: false, Else: true,
		Why: "another cookie name"})

	// ---- port.Filter / port -----------------------------------------------------------------------------------
	// "Filter runs modifiers iff the port in the request URL matches port"; "no port explicitly declared - default
	// port": the port of a URL that names none is the default port of its scheme (80 http, 443 https). The host may be
	// spelled as a name or as an IP literal; a bracketed IPv6 literal contains colons that are not a port separator.
	// Leading zeros (":080") and an empty port ("h:") are not generated (documentation silent).
	pt := func(class string, port int, target string, holds bool) {
		out = append(out, spellCase{Filter: "port.Filter", Field: "port", Class: class, Cond: fmt.Sprintf(`"port":%d`, port), Cfg: fmt.Sprint(port), Msg: target,
			Method: "GET", Target: target, Holds: holds, Else: false, Why: "the port of the request URL: the explicit one, otherwise the default port of the scheme"})
	}
	pt("explicit_port", 8080, "http://h.example:8080/x", true)
	pt("explicit_port", 8080, "http://h.example:80/x", false)
	pt("explicit_port", 80, "http://h.example:80/x", true)
	pt("explicit_port", 80, "http://h.example:8080/x", false)
	pt("explicit_port", 443, "https://h.example:443/x", true)
	pt("default_port", 80, "http://h.example/x", true)
	pt("default_port", 8080, "http://h.example/x", false)
	pt("default_port", 443, "http://h.example/x", false)
	pt("default_port", 443, "https://h.example/x", true)
	pt("default_port", 80, "https://h.example/x", false)
	pt("explicit_port", 8080, "http://192.0.2.1:8080/x", true)
	pt("default_port", 80, "http://192.0.2.1/x", true)
	pt("ipv6_literal", 8080, "http://[2001:db8::1]:8080/x", true)
	pt("ipv6_literal", 80, "http://[2001:db8::1]:8080/x", false)
	pt("ipv6_literal", 80, "http://[2001:db8::1]/x", true)
	pt("ipv6_literal", 8080, "http://[2001:db8::1]/x", false)
	pt("ipv6_literal", 443, "https://[::1]/x", true)
	return out
}

func (c spellCase) doc(withElse bool) string {
	s := `{"` + c.Filter + `":{` + c.Cond + `,"modifier":{"header.Append":{"name":"X-Trace","value":"n1"}}`
	if withElse {
		s += `,"else":{"header.Append":{"name":"X-Trace","value":"n2"}}`
	}
	return s + "}}"
}

func (c spellCase) hostport() string {
	t := c.Target[strings.Index(c.Target, "://")+3:]
	if i := strings.IndexAny(t, "/?"); i >= 0 {
		t = t[:i]
	}
	return t
}

func (c spellCase) requestWire(hdr string) string {
	return c.Method + " " + c.Target + " HTTP/1.1\r\nHost: " + c.hostport() + "\r\n" + hdr + "\r\n"
}

// messages: the wire text(s) of the message of the given kind and the parsed message.
func (c spellCase) request(hdr string) (*http.Request, string, error) {
	w := c.requestWire(hdr)
	req, err := http.ReadRequest(bufio.NewReader(strings.NewReader(w)))
	return req, w, err
}

func (c spellCase) response() (*http.Response, string, error) {
	reqHdr, resHdr := c.ReqHdr, ""
	if c.Own {
		reqHdr, resHdr = c.OppReq, c.ResHdr
	}
	req, rw, err := c.request(reqHdr)
	if err != nil {
		return nil, rw, err
	}
	w := "HTTP/1.1 200 OK\r\n" + resHdr + "Content-Length: 0\r\n\r\n"
	res, err := http.ReadResponse(bufio.NewReader(strings.NewReader(w)), req)
	return res, rw + "--- answered by ---\r\n" + w, err
}

func (c spellCase) expected(withElse bool) []string {
	if c.Holds {
		return []string{"n1"}
	}
	if withElse {
		return []string{"n2"}
	}
	return nil
}

// runSpell: one case, one configuration, one message kind. Returns the symptom ("" = as demanded), what was observed
// and the wire text.
func runSpell(c spellCase, kind int, withElse bool, calls *int64) (sym, obs, wire string) {
	defer func() {
		if p := recover(); p != nil {
			sym, obs = "panic", fmt.Sprintf("panic: %v", p)
		}
	}()
	r, err, pan := safeParse([]byte(c.doc(withElse)))
	if pan != "" {
		return "parse_panic", pan, ""
	}
	if err != nil {
		return "rejected_valid", err.Error(), ""
	}
	var trace []string
	var merr error
	if kind == 0 {
		req, w, err := c.request(c.ReqHdr)
		if err != nil {
			panic("harness: http.ReadRequest: " + err.Error() + " on " + w)
		}
		wire = w
		var m martian.RequestModifier = r.RequestModifier()
		if m != nil {
			*calls++
			merr = m.ModifyRequest(req)
		}
		trace = req.Header["X-Trace"]
	} else {
		res, w, err := c.response()
		if err != nil {
			panic("harness: http.ReadResponse: " + err.Error() + " on " + w)
		}
		wire = w
		var m martian.ResponseModifier = r.ResponseModifier()
		if m != nil {
			*calls++
			merr = m.ModifyResponse(res)
		}
		trace = res.Header["X-Trace"]
		if len(res.Request.Header["X-Trace"]) > 0 {
			return "unexpected", "trace written to the request of a response", wire
		}
	}
	obs = fmt.Sprintf("trace=%v", trace)
	if merr != nil {
		return "unexpected", obs + " error=" + merr.Error(), wire
	}
	if strings.Join(trace, ",") != strings.Join(c.expected(withElse), ",") {
		return "trace_mismatch", obs, wire
	}
	return "", obs, wire
}

func spellDescribe() string {
	return "cond_spellings: per filter type and condition field (method.Filter method; url.Filter scheme, host, path, query; header.Filter name, value; querystring.Filter name, value; cookie.Filter name, value; port.Filter port) a table of (configured spelling, message spelling) pairs whose verdict the filter's documentation fixes: letter-case variants where the field is case-insensitive (methods, header names, the scheme on the wire), octets that are percent-encoded on the wire where the field is compared decoded (url path, query parameter name/value: space, non-ASCII, %, =, +, &, /), the same escaped octets taken literally where it is not (url query segment, header values, cookie values), default vs explicit ports, host names vs IPv4 / bracketed IPv6 literals; each pair as filter(modifier, else) and filter(modifier), on a request and on a response, both parsed by net/http from wire bytes (absolute-form request line); for header/cookie filters the request a response answers carries lines with the opposite verdict"
}

// condSpellings: family S.
func condSpellings(total *counters, genCounts map[string]int64) {
	cases := condCases(rep.Tier == "thorough")
	perField := map[string]int64{}
	var configs, evals, nontrivial int64
	byCfg := map[string][2]bool{} // per (filter, condition): was it seen holding / not holding
	for _, c := range cases {
		k := c.Filter + "|" + c.Cond
		v := byCfg[k]
		if c.Holds {
			v[0] = true
		} else {
			v[1] = true
		}
		byCfg[k] = v
	}
	sampled := map[string]bool{}
	for _, c := range cases {
		perField[c.Filter+"~"+c.Field+"["+c.Class+"]"]++
		for _, withElse := range []bool{true, false} {
			if withElse && !c.Else {
				continue
			}
			configs++
			total.trees++
			total.parses++
			for kind := 0; kind < 2; kind++ {
				evals++
				total.evals++
				sym, obs, wire := runSpell(c, kind, withElse, &total.calls)
				if sym == "" {
					continue
				}
				kindName := [2]string{"request", "response"}[kind]
				sig := "eval:" + c.Filter + "~" + c.Field + "[" + c.Class + "]:" + kindName + "+wire:" + sym
				rep.Violate(sig, fmt.Sprintf("config %s (configured %q) on the %s %q (message spelling %q): the condition %s (%s), so the statement demands trace=%v and no error; implementation gave %s",
					c.doc(withElse), c.Cfg, kindName, wire, c.Msg, map[bool]string{true: "holds", false: "does not hold"}[c.Holds], c.Why, c.expected(withElse), obs),
					replay{Part: "cond_spelling", Config: c.doc(withElse), Spelling: &spellReplay{Case: c, Kind: kind, WithElse: withElse}})
			}
		}
		// non-trivial: the configured condition is seen both holding and not holding within the family
		if v := byCfg[c.Filter+"|"+c.Cond]; v[0] && v[1] {
			nontrivial++
			if key := c.Filter + "~" + c.Field; !sampled[key] && c.Class != "same_spelling" {
				sampled[key] = true
				rep.Sample(24, map[string]interface{}{"config": c.doc(c.Else), "request_on_the_wire": c.requestWire(c.ReqHdr), "holds": c.Holds, "why": c.Why})
			}
		}
	}
	total.nontrivial += nontrivial
	genCounts["eval:flat:cond_spellings"] = configs
	rep.Coverage["cond_spellings"] = map[string]interface{}{"pairs": len(cases), "configurations": configs, "message_evaluations": evals, "pairs_per_field_and_class": perField,
		"pairs_whose_condition_is_seen_true_and_false": nontrivial}
}

func replaySpell(sr *spellReplay) {
	var calls int64
	sym, obs, wire := runSpell(sr.Case, sr.Kind, sr.WithElse, &calls)
	fmt.Printf("config: %s\nwire:\n%s\ncondition holds: %v (%s)\nexpected trace: %v\nobserved: %s\nresult: %q\n", sr.Case.doc(sr.WithElse), wire, sr.Case.Holds, sr.Case.Why, sr.Case.expected(sr.WithElse), obs, sym)
}
