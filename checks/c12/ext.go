// C12 audit extensions (see AUDIT.md): families that the original check did not enumerate.
//
//	A  the remaining registered filter types (url.RegexFilter, header.RegexFilter, port.Filter) in the tree alphabet
//	   ("ext" alphabet, evaluation and handler phases) and explicit scopes on the request-only / response-only leaves
//	B  flat priority groups over extreme priority values (int64 limits, negative, beyond 2^31 and 2^53) and wide flat
//	   groups (priority width <= 8 over three priority levels, fifo width <= 10) - widths and values beyond {0,1} x 5
//	C  further rejection variants at every node: two modifiers in one node object (single-key rule), no modifier,
//	   a JSON value of the wrong type in place of a node / scope / aggregateErrors / priority, near-miss scope strings
//	D  requests to the configuration endpoint that are not a complete POST: other methods carrying a valid
//	   configuration, and POST bodies whose reader fails after k bytes - the active configuration must stay in force
package main

import (
	"bytes"
	"errors"
	"fmt"
	"io"
	"net/http/httptest"
	"runtime"
	"strings"
	"sync"

	"github.com/google/martian/v3/martianhttp"
	_ "github.com/google/martian/v3/port"
)

// ---------------------------------------------------------------------------------------------------------
// A: alphabets with the remaining registered filters
// ---------------------------------------------------------------------------------------------------------

var (
	alphaExt = &alphabet{name: "ext", scopes: s5, probeSc: s5, errSc: s3, extra: []int{kHostErr, kMarkU, kMarkS}, extraSc: true,
		filters: []int{fURLRegex, fHeaderRegex, fPort, fQS, fQSAny}, aggs: []bool{false, true}, prios: []int{0, 1},
		describe: "ext: scopes {absent,[],[request],[response],[request,response]} on probe, fifo (aggregateErrors false/true), priority ({0,1}), url.RegexFilter (modifier, modifier+else), header.RegexFilter, port.Filter (modifier only: the types take no else), querystring.Filter with name+value and with a name only (modifier, modifier+else); erroring leaf with scope {absent,[request],[response]}; Host-append, url.Modifier, status.Modifier with every scope their type implements"}
	// error multisets: leaves that return the SAME error text, in flat and nested aggregating / halting groups
	alphaAgg = &alphabet{name: "agg", scopes: []int{scAbsent}, probeSc: []int{scAbsent}, errSc: []int{scAbsent}, extra: []int{kDupErr},
		filters: nil, aggs: []bool{false, true}, prios: []int{0},
		describe: "agg: fifo (aggregateErrors false/true) and priority ({0}) groups without scope over probe, erroring leaf with a unique text, erroring leaf whose text is the same for every instance (requests and responses)"}
	alphaExtMid = &alphabet{name: "extmid", scopes: s3, probeSc: s3, errSc: []int{scAbsent}, extra: nil,
		filters: []int{fURLRegex, fHeaderRegex, fPort}, aggs: []bool{false, true}, prios: []int{0, 1},
		describe: "extmid: scopes {absent,[request],[response]} on probe, fifo (aggregateErrors false/true), priority ({0,1}), url.RegexFilter (modifier, modifier+else), header.RegexFilter and port.Filter (modifier only); erroring leaf without scope"}
)

// ---------------------------------------------------------------------------------------------------------
// B: flat groups: extreme priority values, wide groups
// ---------------------------------------------------------------------------------------------------------

type family struct {
	name     string
	describe string
	gen      func(f func(*node))
	want     int64 // independent closed-form count
}

const (
	minInt64 = -1 << 63
	maxInt64 = 1<<63 - 1
)

var extremePrios = []int{minInt64, -1, 0, 1, 1 << 31, 1 << 53, 1<<53 + 1, maxInt64}

// simplerPrios: the priority values the minimiser tries in place of p (besides 0), simplest first, so that one defect in
// the handling of large or negative priorities converges on very few signatures.
var prioSimplicity = []int{0, 1, 2, -1, 1 << 31, 1 << 53, 1<<53 + 1, maxInt64, minInt64}

func simplerPrios(p int) []int {
	for i, q := range prioSimplicity {
		if q == p {
			return prioSimplicity[1:max(i, 1)]
		}
	}
	return prioSimplicity[1:]
}

func ipow(b, e int64) int64 {
	r := int64(1)
	for ; e > 0; e-- {
		r *= b
	}
	return r
}

// prioValues: every flat priority group with k <= maxK children, each child a probe or an erroring leaf (no scope),
// every priority vector over vals.
func prioValues(name string, vals []int, maxK int, withErr bool) family {
	kinds := []int{kProbe}
	if withErr {
		kinds = append(kinds, kErr)
	}
	var want int64
	for k := 0; k <= maxK; k++ {
		want += ipow(int64(len(vals)*len(kinds)), int64(k))
	}
	return family{name: name, want: want,
		describe: fmt.Sprintf("%s: every flat priority.Group with <=%d children (probe%s), priorities from %v", name, maxK, map[bool]string{true: " or erroring leaf", false: ""}[withErr], vals),
		gen: func(f func(*node)) {
			for k := 0; k <= maxK; k++ {
				nd := &node{Kind: kPrio, Prio: make([]int, k), Kids: make([]*node, k)}
				for i := range nd.Kids {
					nd.Kids[i] = &node{}
				}
				var rec func(i int)
				rec = func(i int) {
					if i == k {
						f(nd)
						return
					}
					for _, kd := range kinds {
						nd.Kids[i].Kind = kd
						for _, p := range vals {
							nd.Prio[i] = p
							rec(i + 1)
						}
					}
				}
				rec(0)
			}
		}}
}

// prioWide: flat priority groups with k <= maxK children over three priority levels; all children probes, or exactly one
// erroring leaf at every position.
func prioWide(maxK int) family {
	vals := []int{0, 1, 2}
	var want int64
	for k := 0; k <= maxK; k++ {
		want += ipow(3, int64(k)) * int64(k+1)
	}
	return family{name: "prio_wide", want: want,
		describe: fmt.Sprintf("prio_wide: every flat priority.Group with <=%d children, priorities from {0,1,2}, all probes or exactly one erroring leaf at each position", maxK),
		gen: func(f func(*node)) {
			for k := 0; k <= maxK; k++ {
				nd := &node{Kind: kPrio, Prio: make([]int, k), Kids: make([]*node, k)}
				for i := range nd.Kids {
					nd.Kids[i] = &node{}
				}
				var rec func(i int)
				rec = func(i int) {
					if i == k {
						for e := -1; e < k; e++ {
							for j := range nd.Kids {
								nd.Kids[j].Kind = kProbe
							}
							if e >= 0 {
								nd.Kids[e].Kind = kErr
							}
							f(nd)
						}
						return
					}
					for _, p := range vals {
						nd.Prio[i] = p
						rec(i + 1)
					}
				}
				rec(0)
			}
		}}
}

// fifoWide: flat fifo groups (halting and aggregating) with k <= maxK children, each a probe or an erroring leaf.
func fifoWide(maxK int) family {
	var want int64
	for k := 0; k <= maxK; k++ {
		want += 2 * ipow(2, int64(k))
	}
	return family{name: "fifo_wide", want: want,
		describe: fmt.Sprintf("fifo_wide: every flat fifo.Group (aggregateErrors false/true) with <=%d children, each a probe or an erroring leaf", maxK),
		gen: func(f func(*node)) {
			for _, agg := range []bool{false, true} {
				for k := 0; k <= maxK; k++ {
					nd := &node{Kind: kFifo, Agg: agg, Kids: make([]*node, k)}
					for i := range nd.Kids {
						nd.Kids[i] = &node{}
					}
					for bits := 0; bits < 1<<k; bits++ {
						for i := range nd.Kids {
							nd.Kids[i].Kind = kProbe
							if bits&(1<<i) != 0 {
								nd.Kids[i].Kind = kErr
							}
						}
						f(nd)
					}
				}
			}
		}}
}

// prioEntries: flat priority groups of width 2..maxK whose children are probes (so the execution order shows in the
// trace), priorities from {0,1,2}, and every spelling of every entry: an entry of priority 0 is written with
// "priority":0, without the key, or with "priority":null.
func prioEntries(maxK int) family {
	var want int64
	for k := 2; k <= maxK; k++ {
		want += ipow(5, int64(k)) // per entry: priorities 1, 2 explicit; priority 0 in three spellings
	}
	return family{name: "prio_entries", want: want,
		describe: fmt.Sprintf("prio_entries: every flat priority.Group with 2..%d probe children, priorities from {0,1,2}, each priority-0 entry spelled with \"priority\":0, without the key and with \"priority\":null", maxK),
		gen: func(f func(*node)) {
			for k := 2; k <= maxK; k++ {
				nd := &node{Kind: kPrio, Prio: make([]int, k), PrioSp: make([]int, k), Kids: make([]*node, k)}
				for i := range nd.Kids {
					nd.Kids[i] = &node{Kind: kProbe}
				}
				var rec func(i int)
				rec = func(i int) {
					if i == k {
						f(nd)
						return
					}
					for _, opt := range [][2]int{{0, 0}, {0, 1}, {0, 2}, {1, 0}, {2, 0}} {
						nd.Prio[i], nd.PrioSp[i] = opt[0], opt[1]
						rec(i + 1)
					}
				}
				rec(0)
			}
		}}
}

// prioEntryRejects: a priority group entry that names no modifier makes the whole configuration malformed. Every
// flat group of width 2..maxK over priorities {0,1} is accepted by one long-lived handler; then, for every position,
// the same document with that entry's modifier missing (key omitted, entry {}, "modifier":null) must be answered 400
// and leave effect and GET as they were.
func prioEntryRejects(maxK int, total *counters) {
	mod := martianhttp.NewModifier()
	c := &counters{}
	w := &handlerWorker{mod: mod, c: c}
	entry := func(p, id int) string {
		return fmt.Sprintf(`{"priority":%d,"modifier":{"header.Append":{"name":"X-Trace","value":"n%d"}}}`, p, id)
	}
	wrap := func(es []string) []byte {
		return []byte(`{"priority.Group":{"modifiers":[` + strings.Join(es, ",") + `]}}`)
	}
	msgs := msgsFor[0]
	for k := 2; k <= maxK; k++ {
		for bits := 0; bits < 1<<k; bits++ {
			nd := &node{Kind: kPrio, Prio: make([]int, k), Kids: make([]*node, k)}
			es := make([]string, k)
			for i := range es {
				nd.Prio[i] = bits >> i & 1
				nd.Kids[i] = &node{Kind: kProbe}
			}
			number(nd, 0)
			for i := range es {
				es[i] = entry(nd.Prio[i], nd.Kids[i].ID)
			}
			doc := wrap(es)
			c.trees++
			if code, pan := w.post(doc); code != 200 || pan != "" {
				rep.Violate("reconfig:valid_config:status_"+fmt.Sprint(code), fmt.Sprintf("POST of valid config %s answered %d %s", doc, code, pan), replay{Part: "reconfig", Config: string(doc)})
				continue
			}
			exps := make([]outcome, len(msgs))
			for i, m := range msgs {
				exps[i] = expect(nd, m)
				obs := observe(mod, mod, m, &c.calls)
				c.evals++
				if s := diff(exps[i], obs); s != "" {
					reportEval(nd, m, s, c)
				}
				exps[i] = obs
			}
			activeRaw := w.getRaw()
			for i := 0; i < k; i++ {
				for vi, bad := range []string{fmt.Sprintf(`{"priority":%d}`, nd.Prio[i]), `{}`, fmt.Sprintf(`{"priority":%d,"modifier":null}`, nd.Prio[i])} {
					es2 := append([]string{}, es...)
					es2[i] = bad
					bdoc := wrap(es2)
					c.rejects++
					code, pan := w.post(bdoc)
					rp := replay{Part: "reject", Config: string(bdoc), Previous: string(doc)}
					switch {
					case pan != "":
						rep.Violate("reject:priority_entry_without_modifier:panic", fmt.Sprintf("POST %s panicked: %s", bdoc, pan), rp)
						w.mod = martianhttp.NewModifier()
						mod = w.mod
						w.post(doc)
						continue
					case code == 200:
						rep.Violate("reject:priority_entry_without_modifier:accepted", fmt.Sprintf("configuration %s (entry %d of the priority group names no modifier, variant %d) was accepted with 200", bdoc, i, vi), rp)
						w.post(doc)
						continue
					case code != 400:
						rep.Violate("reject:priority_entry_without_modifier:status_"+fmt.Sprint(code), fmt.Sprintf("configuration %s answered %d, want 400", bdoc, code), rp)
					}
					for j, m := range msgs {
						obs := observe(mod, mod, m, &c.calls)
						c.evals++
						if !sameOutcome(exps[j], obs) {
							m := m
							rep.Violate("reconfig:after_reject:effect_changed", fmt.Sprintf("active config %s; after rejected (%d) POST of %s message %s gives trace=%v, want trace=%v", doc, code, bdoc, m, obs.Trace, exps[j].Trace),
								replay{Part: "reconfig", Config: string(bdoc), Previous: string(doc), Msg: &m, Expected: &exps[j], Observed: &obs})
							w.post(doc)
							break
						}
					}
					if raw := w.getRaw(); !bytes.Equal(raw, activeRaw) {
						rep.Violate("reconfig:after_reject:config_changed", fmt.Sprintf("active config %s; after rejected POST of %s GET returns %s", doc, bdoc, compact(raw)), rp)
						w.post(doc)
					}
				}
			}
		}
	}
	total.evals += c.evals
	total.calls += c.calls
	total.rejects += c.rejects
	total.posts += c.posts
	total.perPhase["handler:flat:prio_entry_rejects"] += c.trees
}

func runFamily(fam family, total *counters, mu *sync.Mutex, genCounts map[string]int64) {
	W := runtime.NumCPU()
	var wg sync.WaitGroup
	var enumerated, processed int64
	for w := 0; w < W; w++ {
		wg.Add(1)
		go func(w int) {
			defer wg.Done()
			c := &counters{behaviours: map[uint64]struct{}{}}
			idx := 0
			fam.gen(func(t *node) {
				mine := (idx>>5)%W == w
				idx++
				if mine {
					evalTree(t, c, false, false)
				}
			})
			mu.Lock()
			defer mu.Unlock()
			if w == 0 {
				enumerated = int64(idx)
			}
			processed += c.trees
			total.trees += c.trees
			total.nontrivial += c.nontrivial
			total.evals += c.evals
			total.calls += c.calls
			total.parses += c.parses
			total.unclassified += c.unclassified
		}(w)
	}
	wg.Wait()
	key := "eval:flat:" + fam.name
	genCounts[key] = enumerated
	if fam.want != enumerated {
		rep.Violate("harness:generator_count", fmt.Sprintf("%s: generator yielded %d trees, closed form says %d", key, enumerated, fam.want), nil)
	}
	if processed != enumerated {
		rep.Violate("harness:stripe_count", fmt.Sprintf("%s: processed %d of %d", key, processed, enumerated), nil)
	}
}

// ---------------------------------------------------------------------------------------------------------
// C: further rejection variants of one node
// ---------------------------------------------------------------------------------------------------------

// extendedRejects: own is the node's own (unmutated) JSON text, an object with exactly one key.
func extendedRejects(root *node, pos int, own []byte) []rejectCase {
	var nd, parent *node
	slot := 0
	walk(root, func(x, p *node, s int) {
		if x.Pos == pos {
			nd, parent, slot = x, p, s
		}
	})
	var out []rejectCase
	add := func(variant string, kind int, text string) {
		mu := mutation{kind, pos, text}
		out = append(out, rejectCase{variant, pos, render(root, mu), mu})
	}
	inner := string(own[1 : len(own)-1]) // "name":{...}
	const second = `"header.Modifier":{"name":"X-Other","value":"v"}`
	// the single-key rule: a node object names exactly one modifier
	add("two_modifiers_one_unknown", mutReplace, `{"verif.Unknown":{},`+inner+`}`)
	add("two_modifiers_one_unknown", mutReplace, `{`+inner+`,"verif.Unknown":{}}`)
	add("two_modifiers_both_known", mutReplace, `{`+second+`,`+inner+`}`)
	add("two_modifiers_both_known", mutReplace, `{`+inner+`,`+second+`}`)
	add("no_modifier", mutReplace, `{}`)
	// well-formed JSON of the wrong type where a node object is expected
	wrong := []string{`[]`, `"header.Append"`, `0`, `[` + string(own) + `]`, `true`}
	if !(parent != nil && parent.Kind == kFilter && slot == 1) {
		wrong = append(wrong, `null`) // ("else":null could be read as "no else": not demanded either way)
	}
	for _, t := range wrong {
		add("node_wrong_type", mutReplace, t)
	}
	// scope strings that are not exactly "request" / "response"
	for _, t := range []string{`[""]`, `["requests"]`, `["Request"]`, `["request "]`, `["request,response"]`, `["response","re"]`} {
		add("unsupported_scope", mutScope, `"scope":`+t)
	}
	for _, t := range []string{`"request"`, `{"request":true}`, `[1]`, `[["request"]]`, `true`} {
		add("scope_wrong_type", mutScope, `"scope":`+t)
	}
	if nd.Kind == kFifo {
		for _, t := range []string{`"true"`, `1`, `[true]`} {
			add("field_wrong_type", mutAgg, `"aggregateErrors":`+t)
		}
	}
	if nd.Kind == kPrio && len(nd.Kids) > 0 {
		for _, t := range []string{`"1"`, `1.5`, `9223372036854775808`, `true`, `[1]`} {
			add("field_wrong_type", mutPrio, t)
		}
	}
	return out
}

// ---------------------------------------------------------------------------------------------------------
// F: other spellings of the same scope
// ---------------------------------------------------------------------------------------------------------

// scopeSpellings: JSON texts that name the same set of message kinds as the scope variant (none for [], whose only
// spelling is the one the generator already uses).
func scopeSpellings(sc int) []string {
	switch sc {
	case scAbsent:
		return []string{`"scope":null`}
	case scReq:
		return []string{`"scope":["request","request"]`}
	case scRes:
		return []string{`"scope":["response","response"]`}
	case scBoth:
		return []string{`"scope":["request","response","request"]`, `"scope":["response","response","request"]`}
	}
	return nil
}

// spellTree: for every node of the tree, every other spelling of its scope leaves the meaning of the tree unchanged.
func spellTree(root *node, c *counters) {
	n := number(root, 0)
	c.trees++
	msgs := msgsFor[filterMask(root)]
	exps := make([]outcome, len(msgs))
	for i, m := range msgs {
		exps[i] = expect(root, m)
	}
	// a tree whose generated spelling already disagrees with the reference is an evaluation failure (reported by the
	// eval phases under its own signature), not a spelling one
	c.parses++
	if r, err, pan := safeParse(render(root, mutation{})); err != nil || pan != "" {
		return
	} else {
		for i, m := range msgs {
			c.evals++
			if diff(exps[i], observe(r.RequestModifier(), r.ResponseModifier(), m, &c.calls)) != "" {
				return
			}
		}
	}
	var at []*node
	walk(root, func(x, _ *node, _ int) { at = append(at, x) })
	for pos := 0; pos < n; pos++ {
		for si, text := range scopeSpellings(at[pos].Scope) {
			doc := render(root, mutation{mutScope, pos, text})
			c.parses++
			class := "scope_duplicate"
			if at[pos].Scope == scAbsent {
				class = "scope_null"
			}
			r, err, pan := safeParse(doc)
			if pan != "" || err != nil {
				rep.Violate("spelling:"+class+":rejected", fmt.Sprintf("config %s (node %d's scope spelled %s) was not accepted: %v %s", doc, pos, text, err, pan),
					replay{Part: "spelling", Config: string(doc)})
				continue
			}
			for i, m := range msgs {
				obs := observe(r.RequestModifier(), r.ResponseModifier(), m, &c.calls)
				c.evals++
				if s := diff(exps[i], obs); s != "" {
					m := m
					if s != "panic" && s != "unexpected" {
						s = "effect_mismatch" // one defect, one signature: which of trace / errors / state shows it depends on the tree
					}
					rep.Violate("spelling:"+class+":"+s, fmt.Sprintf("config %s (node %d's scope spelled %s, variant %d) on %s: statement demands trace=%v errors=%v, implementation gave trace=%v errors=%v %s",
						doc, pos, text, si, m, exps[i].Trace, exps[i].Errs, obs.Trace, obs.Errs, obs.Extra), replay{Part: "spelling", Config: string(doc), Msg: &m, Expected: &exps[i], Observed: &obs})
					break
				}
			}
		}
	}
}

// ---------------------------------------------------------------------------------------------------------
// D: requests to the endpoint that are not a complete POST
// ---------------------------------------------------------------------------------------------------------

const otherDoc = `{"header.Append":{"name":"X-Trace","value":"n999"}}`

type failingReader struct {
	data []byte
	off  int
}

var errBody = errors.New("verif: body reader failed")

func (r *failingReader) Read(p []byte) (int, error) {
	if r.off >= len(r.data) {
		return 0, errBody
	}
	n := copy(p, r.data[r.off:])
	if n > 1 {
		n = 1 + (n-1)/2 // short reads
	}
	r.off += n
	return n, nil
}

type otherCase struct {
	name   string
	method string
	body   func() io.Reader
	// truncated: the handler cannot have received a complete configuration
	truncated bool
	cut       int // body_read_error: the reader fails after this many bytes (-1: not applicable)
}

// otherRequest builds the request of one case from its replay note "<name>@<cut>" (used by --replay).
func otherRequest(note string) (method string, body io.Reader) {
	name, cut := note, 0
	if i := strings.IndexByte(note, '@'); i >= 0 {
		name = note[:i]
		fmt.Sscanf(note[i+1:], "%d", &cut)
	}
	if name == "body_read_error" {
		cut = min(max(cut, 0), len(otherDoc))
		return "POST", &failingReader{data: []byte(otherDoc[:cut])}
	}
	return strings.TrimPrefix(name, "method_"), bytes.NewReader([]byte(otherDoc))
}

func otherCases() []otherCase {
	var out []otherCase
	for _, m := range []string{"PUT", "DELETE", "PATCH", "HEAD", "OPTIONS"} {
		out = append(out, otherCase{"method_" + m, m, func() io.Reader { return bytes.NewReader([]byte(otherDoc)) }, false, -1})
	}
	n := len(otherDoc)
	for _, k := range []int{0, 1, n / 2, n - 1, n} {
		k := k
		out = append(out, otherCase{"body_read_error", "POST", func() io.Reader { return &failingReader{data: []byte(otherDoc[:k])} }, k < n, k})
	}
	return out
}

// others: with doc active (its effect on the messages red is exps, GET returns activeRaw), every request of otherCases is
// either refused (status not 2xx) and changes nothing, or accepted (2xx) and then the configuration it carries is fully
// in force - which is impossible for a body that was cut short.
func (w *handlerWorker) others(doc []byte, red []msg, exps []outcome, activeRaw []byte) {
	c := w.c
	probe := &node{Kind: kProbe, ID: 999}
	for _, oc := range otherCases() {
		c.rejects++
		code, pan := func() (code int, pan string) {
			defer func() {
				if p := recover(); p != nil {
					pan = fmt.Sprint(p)
				}
			}()
			rw := httptest.NewRecorder()
			c.posts++
			w.mod.ServeHTTP(rw, httptest.NewRequest(oc.method, "http://martian.proxy/configure", oc.body()))
			return rw.Code, ""
		}()
		note := fmt.Sprintf("%s@%d", oc.name, oc.cut)
		rp := replay{Part: "reconfig", Config: otherDoc, Previous: string(doc), Note: note}
		if pan != "" {
			rep.Violate("reconfig:"+oc.name+":panic", fmt.Sprintf("active config %s; %s request panicked: %s", doc, oc.name, pan), rp)
			w.mod = martianhttp.NewModifier()
			w.post(doc)
			continue
		}
		accepted := code >= 200 && code < 300
		if accepted && oc.truncated {
			rep.Violate("reconfig:"+oc.name+":accepted", fmt.Sprintf("active config %s; a POST whose body reader failed before the end of the document was answered %d", doc, code), rp)
		}
		bad := accepted
		for i, m := range red {
			want := exps[i]
			if accepted {
				want = expect(probe, m)
			}
			obs := observe(w.mod, w.mod, m, &c.calls)
			c.evals++
			if !sameOutcome(want, obs) {
				sym := "effect_changed"
				if accepted {
					sym = "accepted_but_not_in_force"
				}
				m := m
				rep.Violate("reconfig:"+oc.name+":"+sym, fmt.Sprintf("active config %s; after %s (answered %d) message %s gives trace=%v errors=%v, want trace=%v errors=%v %s",
					doc, oc.name, code, m, obs.Trace, obs.Errs, want.Trace, want.Errs, obs.Extra), replay{Part: "reconfig", Config: otherDoc, Previous: string(doc), Note: note, Msg: &m, Expected: &want, Observed: &obs})
				bad = true
				break
			}
		}
		if raw := w.getRaw(); !accepted && !bytes.Equal(raw, activeRaw) {
			rep.Violate("reconfig:"+oc.name+":config_changed", fmt.Sprintf("active config %s; after %s (answered %d) GET returns %s", doc, oc.name, code, compact(raw)), rp)
			bad = true
		} else if accepted && compact(raw) != otherDoc {
			rep.Violate("reconfig:"+oc.name+":accepted_but_not_in_force", fmt.Sprintf("active config %s; after %s (answered %d) GET returns %s", doc, oc.name, code, compact(raw)), rp)
		}
		if bad {
			w.post(doc)
		}
	}
}
