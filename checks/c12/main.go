// C12 — a JSON modifier configuration means what its tree says, for every tree.
//
// Program enumeration + reference interpreter (DESIGN.md section 7, C12).
//
// Part 1 (evaluation). A generator yields EVERY configuration tree with n nodes over an explicit alphabet of
// node types (probe leaf, erroring leaves, state-changing "mark" leaves, fifo.Group, priority.Group, the five
// filters with modifier / modifier+else) with a scope variant at every node, smallest n first. Each tree is
// rendered to JSON, parsed by the real parse.FromJSON and run on every message (request and response) of a
// message set that makes every filter condition occurring in the tree true and false. The observable result
// (ordered trace header values written by the probes, multiset of returned errors, state written by the mark
// leaves) is compared with a reference interpreter written from the property statement.
//
// Part 2 (rejection / reconfiguration). Every tree of the handler set is POSTed to one long-lived
// martianhttp.Modifier (ServeHTTP called directly): accepted => the new effect exactly (ids of consecutive
// configurations are disjoint, so stale parts would show); then, for every node of the tree, every rejection
// mutant (unknown modifier name, unsupported scope strings, a scope the node type does not implement,
// syntactically broken JSON at that node) is POSTed => HTTP 400 and effect + GET configuration still those of
// the last accepted tree; then the next tree replaces it (histories accepted, rejected*, accepted).
// Additionally every proper prefix of every document with <= 2 nodes must be rejected by parse.FromJSON.
//
// Audit extensions (ext.go, AUDIT.md): the remaining registered filters (url.RegexFilter, header.RegexFilter,
// port.Filter) in their own alphabets, flat groups over extreme int64 priorities and large widths, further rejection
// variants (two / no modifier in a node object, JSON of the wrong type, near-miss scope strings), requests to the
// endpoint that are not a complete POST (other methods, failing body readers), other spellings of a scope.
//
// Round 6 (round6.go): exchanges - the request pass and then the response pass of one parsed tree on ONE exchange (the
// response's Request is the request object the request pass rewrote), over alphabets with leaves that rewrite what the
// conditions read; header.Filter / header.RegexFilter named after the headers net/http keeps in struct fields (Host,
// Content-Length, Transfer-Encoding), on messages parsed from wire text.
package main

import (
	"bytes"
	"encoding/json"
	"fmt"
	"hash/fnv"
	"io"
	"net/http"
	"net/http/httptest"
	"net/url"
	"os"
	"regexp"
	"runtime"
	"runtime/debug"
	"sort"
	"strconv"
	"strings"
	"sync"
	"sync/atomic"
	"syscall"
	"time"

	"github.com/google/martian/v3"
	_ "github.com/google/martian/v3/cookie"
	_ "github.com/google/martian/v3/fifo"
	_ "github.com/google/martian/v3/header"
	mlog "github.com/google/martian/v3/log"
	"github.com/google/martian/v3/martianhttp"
	_ "github.com/google/martian/v3/martianurl"
	_ "github.com/google/martian/v3/method"
	"github.com/google/martian/v3/parse"
	_ "github.com/google/martian/v3/priority"
	_ "github.com/google/martian/v3/querystring"
	_ "github.com/google/martian/v3/status"

	"verif/lib"
)

// ---------------------------------------------------------------------------------------------------------
// alphabet
// ---------------------------------------------------------------------------------------------------------

const (
	kProbe   = iota // header.Append X-Trace n<id>: the probe
	kErr            // header.Append Content-Length e<id>: rejected by the header wrapper on requests and responses, text carries the id
	kHostErr        // header.Append Host x: rejected on requests (Host already set), silently without effect on responses
	kMarkH          // header.Append X-Cond yes: makes the header.Filter condition true from here on
	kMarkU          // url.Modifier path=/hit: request-only node type; makes the url.Filter condition true from here on
	kMarkS          // status.Modifier 418: response-only node type
	kFifo
	kPrio
	kFilter
	kDupErr // (audit, appended so that the numbering of older replays stays valid) header.Append Content-Length dup: rejected on requests and responses like kErr, but EVERY such leaf returns the same error text
	kSet    // (round 6) a request-only leaf that REWRITES what a condition refers to (URL path / query / port, request header X-Re): setLeaves[node.Set]
	kSetHdr // (round 6) header.Modifier <hdrNames[node.Set]>: <value B>: rewrites the header a header.Filter / header.RegexFilter variant (node.CV) refers to
)

const (
	fURL = iota
	fHeader
	fQS
	fMethod
	fCookie
	// the remaining registered filters (audit extension): not in the property's anchor list, but the statement
	// quantifies over "the registered groups, filters and modifiers" and each has its own copy of the wiring
	fURLRegex    // url.RegexFilter: modifier + else, condition on the (exchange's) request URL
	fHeaderRegex // header.RegexFilter: modifier only, condition on the (exchange's) REQUEST header for both kinds
	fPort        // port.Filter: modifier only, condition on the port of the (exchange's) request URL
	fQSAny       // querystring.Filter configured with a name only: holds iff the parameter is present, whatever its value(s)
	nFilters
)

var filterName = [nFilters]string{"url.Filter", "header.Filter", "querystring.Filter", "method.Filter", "cookie.Filter",
	"url.RegexFilter", "header.RegexFilter", "port.Filter", "querystring.Filter"}

// filterShape: the name used in shapes / signatures (differs from the JSON name only for configuration variants)
var filterShape = [nFilters]string{"url.Filter", "header.Filter", "querystring.Filter", "method.Filter", "cookie.Filter",
	"url.RegexFilter", "header.RegexFilter", "port.Filter", "querystring.Filter~nameonly"}
var filterCond = [nFilters]string{
	`"host":"h.example","path":"/hit"`,
	`"name":"X-Cond","value":"yes"`,
	`"name":"p","value":"1"`,
	`"method":"POST"`,
	`"name":"c","value":"1"`,
	`"regex":"[?&]r=1(&|$)"`,
	`"header":"X-Re","regex":"^ye+s$"`,
	`"port":8080`,
	`"name":"z"`,
}

// filterElse: the filter type takes an "else" branch
var filterElse = [nFilters]bool{true, true, true, true, true, true, false, false, true}

const (
	scAbsent = iota
	scNone
	scReq
	scRes
	scBoth
)

var scopeShape = [...]string{"", "@none", "@req", "@res", "@both"}

const (
	reqBit = 1
	resBit = 2
)

func typeMask(kind int) int {
	switch kind {
	case kMarkU:
		return reqBit
	case kMarkS:
		return resBit
	case kSet:
		return reqBit
	}
	return reqBit | resBit
}

// scopeMask: the message kinds a node acts on. An absent scope means every kind the node type implements.
func scopeMask(nd *node) int {
	switch nd.Scope {
	case scNone:
		return 0
	case scReq:
		return reqBit
	case scRes:
		return resBit
	case scBoth:
		return reqBit | resBit
	}
	if nd.Kind == kSetHdr && nd.Set == hnHost {
		return reqBit // rendered with "scope":["request"] (a response has no Host header to set)
	}
	return typeMask(nd.Kind)
}

type node struct {
	Kind  int   `json:"kind"`
	FType int   `json:"ftype,omitempty"`
	Scope int   `json:"scope,omitempty"`
	Agg   bool  `json:"agg,omitempty"`
	Prio  []int `json:"prio,omitempty"`
	// PrioSp (audit): how the priority of entry i is spelled: 0 `"priority":<n>`, 1 key omitted, 2 `"priority":null`
	// (1 and 2 only where the priority is 0); nil: all explicit
	PrioSp []int   `json:"priosp,omitempty"`
	Kids   []*node `json:"kids,omitempty"`
	// Set (round 6): kSet: index into setLeaves; kSetHdr: index into hdrNames
	Set int `json:"set,omitempty"`
	// CV (round 6): condition variant of a header.Filter / header.RegexFilter node (0: the fixed condition of filterCond;
	// >0: see cvOf - header name incl. the ones net/http keeps in struct fields, spelling, value)
	CV    int `json:"cv,omitempty"`
	Pos   int `json:"pos"` // preorder index
	ID    int `json:"id"`  // base + Pos: the value the node writes / the error it returns
	start int
	end   int
}

type alphabet struct {
	name     string
	scopes   []int // scope variants of groups and filters
	probeSc  []int // scope variants of the probe leaf
	errSc    []int // scope variants of the erroring leaf
	extra    []int // further leaves (scope absent): kHostErr, kMarkH, kMarkU, kMarkS
	extraSc  bool  // the further leaves additionally with every explicit scope their type implements
	sets     []int // (round 6) rewriting leaves: indices into setLeaves
	filters  []int
	aggs     []bool
	prios    []int
	describe string
}

var (
	s5 = []int{scAbsent, scNone, scReq, scRes, scBoth}
	s3 = []int{scAbsent, scReq, scRes}
	s2 = []int{scAbsent, scRes}

	alphaFull = &alphabet{name: "full", scopes: s5, probeSc: s5, errSc: s5, extra: []int{kHostErr, kMarkH, kMarkU, kMarkS},
		filters: []int{fURL, fHeader, fQS, fMethod, fCookie}, aggs: []bool{false, true}, prios: []int{0, 1},
		describe: "full: scopes {absent,[],[request],[response],[request,response]} on probe, erroring leaf, fifo (aggregateErrors false/true), priority (priorities {0,1}), url/header/querystring/method/cookie filters (modifier, modifier+else); extra leaves Host-append (errors on requests only), X-Cond mark, url.Modifier (request-only type), status.Modifier (response-only type)"}
	alphaMid = &alphabet{name: "mid", scopes: s3, probeSc: s3, errSc: []int{scAbsent}, extra: []int{kMarkH},
		filters: []int{fHeader, fURL}, aggs: []bool{false, true}, prios: []int{0, 1},
		describe: "mid: scopes {absent,[request],[response]} on probe, fifo (aggregateErrors false/true), priority ({0,1}), header and url filters (modifier, modifier+else); erroring leaf and X-Cond mark without scope"}
	alphaTiny = &alphabet{name: "tiny", scopes: []int{scAbsent}, probeSc: s2, errSc: []int{scAbsent}, extra: nil,
		filters: []int{fHeader}, aggs: []bool{false, true}, prios: []int{0, 1},
		describe: "tiny: fifo (aggregateErrors false/true), priority ({0,1}), header filter (modifier, modifier+else), erroring leaf, all without scope; probe with scope {absent,[response]}"}
	alphaSmall = &alphabet{name: "small", scopes: s2, probeSc: []int{scAbsent}, errSc: []int{scAbsent}, extra: nil,
		filters: []int{fHeader}, aggs: []bool{false, true}, prios: []int{0, 1},
		describe: "small: scopes {absent,[response]} on fifo (aggregateErrors false/true), priority ({0,1}), header filter (modifier, modifier+else); probe and erroring leaf without scope"}
)

// extraScopes: the scope variants of a further leaf (only scopes its type implements: the others are rejection cases).
func (a *alphabet) extraScopes(kind int) []int {
	if !a.extraSc {
		return []int{scAbsent}
	}
	out := []int{scAbsent, scNone}
	if typeMask(kind)&reqBit != 0 {
		out = append(out, scReq)
	}
	if typeMask(kind)&resBit != 0 {
		out = append(out, scRes)
	}
	if typeMask(kind) == reqBit|resBit {
		out = append(out, scBoth)
	}
	return out
}

// ---------------------------------------------------------------------------------------------------------
// exhaustive generator: every tree with exactly n nodes. The tree handed to f is only valid during the call.
// ---------------------------------------------------------------------------------------------------------

type gen struct{ a *alphabet }

func (g *gen) trees(n int, f func(*node)) {
	a := g.a
	if n == 1 {
		for _, sc := range a.probeSc {
			f(&node{Kind: kProbe, Scope: sc})
		}
		for _, sc := range a.errSc {
			f(&node{Kind: kErr, Scope: sc})
		}
		for _, k := range a.extra {
			for _, sc := range a.extraScopes(k) {
				f(&node{Kind: k, Scope: sc})
			}
		}
		for _, s := range a.sets {
			f(&node{Kind: kSet, Set: s})
		}
	}
	for _, agg := range a.aggs {
		for _, sc := range a.scopes {
			nd := &node{Kind: kFifo, Scope: sc, Agg: agg}
			g.forest(n-1, nil, func(kids []*node) {
				nd.Kids = kids
				f(nd)
			})
		}
	}
	for _, sc := range a.scopes {
		nd := &node{Kind: kPrio, Scope: sc}
		g.forest(n-1, nil, func(kids []*node) {
			nd.Kids = kids
			nd.Prio = make([]int, len(kids))
			var rec func(i int)
			rec = func(i int) {
				if i == len(kids) {
					f(nd)
					return
				}
				for _, p := range a.prios {
					nd.Prio[i] = p
					rec(i + 1)
				}
			}
			rec(0)
		})
	}
	if n >= 2 {
		for _, ft := range a.filters {
			for _, sc := range a.scopes {
				nd := &node{Kind: kFilter, FType: ft, Scope: sc}
				one := make([]*node, 1)
				g.trees(n-1, func(m *node) {
					one[0] = m
					nd.Kids = one
					f(nd)
				})
				two := make([]*node, 2)
				for s := 1; s <= n-2 && filterElse[ft]; s++ {
					g.trees(s, func(m *node) {
						g.trees(n-1-s, func(e *node) {
							two[0], two[1] = m, e
							nd.Kids = two
							f(nd)
						})
					})
				}
			}
		}
	}
}

func (g *gen) forest(total int, acc []*node, f func([]*node)) {
	if total == 0 {
		f(acc)
		return
	}
	for s := 1; s <= total; s++ {
		g.trees(s, func(t *node) {
			g.forest(total-s, append(acc, t), f)
		})
	}
}

// count is an independent closed-form count of the trees with exactly n nodes (cross-checks the generator).
func (a *alphabet) count(maxN int) []int64 {
	T := make([]int64, maxN+1)
	// F[k][m]: forests of k trees with m nodes in total
	F := make([][]int64, maxN+1)
	for k := range F {
		F[k] = make([]int64, maxN+1)
	}
	F[0][0] = 1
	leaves := int64(len(a.probeSc) + len(a.errSc))
	for _, k := range a.extra {
		leaves += int64(len(a.extraScopes(k)))
	}
	leaves += int64(len(a.sets))
	S, A, P := int64(len(a.scopes)), int64(len(a.aggs)), int64(len(a.prios))
	var FlElse, FlOnly int64 // filter types with / without an else branch
	for _, ft := range a.filters {
		if filterElse[ft] {
			FlElse++
		} else {
			FlOnly++
		}
	}
	for n := 1; n <= maxN; n++ {
		var t int64
		if n == 1 {
			t += leaves
		}
		pk := int64(1)
		for k := 0; k <= n-1; k++ {
			t += A * S * F[k][n-1]
			t += S * pk * F[k][n-1]
			pk *= P
		}
		if n >= 2 {
			x := T[n-1]
			for s := 1; s <= n-2; s++ {
				x += T[s] * T[n-1-s]
			}
			t += FlElse*S*x + FlOnly*S*T[n-1]
		}
		T[n] = t
		// forests with n nodes in total (T[1..n] known now)
		for k := 1; k <= n; k++ {
			var v int64
			for s := 1; s <= n; s++ {
				if n-s >= 0 {
					v += T[s] * F[k-1][n-s]
				}
			}
			F[k][n] = v
		}
	}
	return T
}

func number(nd *node, base int) int {
	pos := 0
	var rec func(x *node)
	rec = func(x *node) {
		x.Pos = pos
		x.ID = base + pos
		pos++
		for _, k := range x.Kids {
			rec(k)
		}
	}
	rec(nd)
	return pos
}

func clone(nd *node) *node {
	c := *nd
	c.Prio = append([]int(nil), nd.Prio...)
	c.PrioSp = append([]int(nil), nd.PrioSp...)
	c.Kids = make([]*node, len(nd.Kids))
	for i, k := range nd.Kids {
		c.Kids[i] = clone(k)
	}
	if len(c.Kids) == 0 {
		c.Kids = nil
	}
	return &c
}

func walk(nd *node, f func(x, parent *node, slot int)) {
	var rec func(x, p *node, slot int)
	rec = func(x, p *node, slot int) {
		f(x, p, slot)
		for i, k := range x.Kids {
			rec(k, x, i)
		}
	}
	rec(nd, nil, 0)
}

func filterMask(nd *node) int {
	m := 0
	walk(nd, func(x, _ *node, _ int) {
		if x.Kind == kFilter {
			m |= 1 << x.FType
		}
	})
	return m
}

func kindName(nd *node) string {
	switch nd.Kind {
	case kProbe:
		return "probe"
	case kErr:
		return "err"
	case kHostErr:
		return "hosterr"
	case kDupErr:
		return "duperr"
	case kMarkH:
		return "markH"
	case kMarkU:
		return "markU"
	case kMarkS:
		return "markS"
	case kFifo:
		if nd.Agg {
			return "fifo+agg"
		}
		return "fifo"
	case kPrio:
		return "prio"
	case kSet:
		return setLeaves[nd.Set].shape
	case kSetHdr:
		return "sethdr[" + hdrNames[nd.Set] + "]"
	}
	if nd.CV > 0 {
		return filterShape[nd.FType] + "~" + cvShape(nd.CV)
	}
	return filterShape[nd.FType]
}

func shape(nd *node) string {
	var sb strings.Builder
	var rec func(x *node)
	rec = func(x *node) {
		sb.WriteString(kindName(x))
		sb.WriteString(scopeShape[x.Scope])
		if x.Kind == kFifo || x.Kind == kPrio || x.Kind == kFilter {
			sb.WriteByte('(')
			for i, k := range x.Kids {
				if i > 0 {
					sb.WriteByte(',')
				}
				if x.Kind == kPrio {
					switch {
					case len(x.PrioSp) > i && x.PrioSp[i] == 1:
						sb.WriteString("omitted")
					case len(x.PrioSp) > i && x.PrioSp[i] == 2:
						sb.WriteString("null")
					default:
						sb.WriteString(strconv.Itoa(x.Prio[i]))
					}
					sb.WriteByte(':')
				}
				rec(k)
			}
			sb.WriteByte(')')
		}
	}
	rec(nd)
	return sb.String()
}

// ---------------------------------------------------------------------------------------------------------
// JSON rendering (with optional single-node mutation)
// ---------------------------------------------------------------------------------------------------------

const (
	mutNone = iota
	mutName
	mutScope
	mutReplace
	mutAgg  // the fifo group's aggregateErrors field replaced by text
	mutPrio // the priority of the priority group's first child replaced by text
)

type mutation struct {
	kind int
	at   int // preorder position
	text string
}

type renderer struct {
	b []byte
	m mutation
}

func (r *renderer) scope(nd *node) string {
	if r.m.kind == mutScope && r.m.at == nd.Pos {
		return r.m.text
	}
	switch nd.Scope {
	case scNone:
		return `"scope":[]`
	case scReq:
		return `"scope":["request"]`
	case scRes:
		return `"scope":["response"]`
	case scBoth:
		if nd.Pos%2 == 1 {
			return `"scope":["response","request"]`
		}
		return `"scope":["request","response"]`
	}
	return ""
}

func (r *renderer) field(first *bool, s string) {
	if s == "" {
		return
	}
	if !*first {
		r.b = append(r.b, ',')
	}
	*first = false
	r.b = append(r.b, s...)
}

func (r *renderer) node(nd *node) {
	nd.start = len(r.b)
	defer func() { nd.end = len(r.b) }()
	if r.m.kind == mutReplace && r.m.at == nd.Pos {
		r.b = append(r.b, r.m.text...)
		return
	}
	name := ""
	switch nd.Kind {
	case kProbe, kErr, kHostErr, kMarkH, kDupErr:
		name = "header.Append"
	case kMarkU:
		name = "url.Modifier"
	case kMarkS:
		name = "status.Modifier"
	case kSet:
		name = setLeaves[nd.Set].modifier
	case kSetHdr:
		name = "header.Modifier"
	case kFifo:
		name = "fifo.Group"
	case kPrio:
		name = "priority.Group"
	case kFilter:
		name = filterName[nd.FType]
	}
	if r.m.kind == mutName && r.m.at == nd.Pos {
		name = "verif.Unknown"
	}
	r.b = append(r.b, `{"`...)
	r.b = append(r.b, name...)
	r.b = append(r.b, `":{`...)
	first := true
	sc := r.scope(nd)
	switch nd.Kind {
	case kProbe:
		r.field(&first, `"name":"X-Trace","value":"n`+strconv.Itoa(nd.ID)+`"`)
		r.field(&first, sc)
	case kErr:
		r.field(&first, sc)
		r.field(&first, `"name":"Content-Length","value":"e`+strconv.Itoa(nd.ID)+`"`)
	case kHostErr:
		r.field(&first, `"name":"Host","value":"other.example"`)
		r.field(&first, sc)
	case kDupErr:
		r.field(&first, `"name":"Content-Length","value":"dup"`)
		r.field(&first, sc)
	case kMarkH:
		r.field(&first, `"name":"X-Cond","value":"yes"`)
		r.field(&first, sc)
	case kMarkU:
		r.field(&first, `"path":"/hit"`)
		r.field(&first, sc)
	case kMarkS:
		r.field(&first, `"statusCode":418`)
		r.field(&first, sc)
	case kSet:
		r.field(&first, setLeaves[nd.Set].fields)
	case kSetHdr:
		r.field(&first, `"name":"`+hdrNames[nd.Set]+`","value":"`+hdrValue[nd.Set][1]+`"`)
		if nd.Set == hnHost {
			r.field(&first, `"scope":["request"]`)
		}
	case kFifo:
		r.field(&first, sc)
		if r.m.kind == mutAgg && r.m.at == nd.Pos {
			r.field(&first, r.m.text)
		} else if nd.Agg {
			r.field(&first, `"aggregateErrors":true`)
		} else if nd.Pos%2 == 1 {
			r.field(&first, `"aggregateErrors":false`)
		}
		r.field(&first, `"modifiers":[`)
		for i, k := range nd.Kids {
			if i > 0 {
				r.b = append(r.b, ',')
			}
			r.node(k)
		}
		r.b = append(r.b, ']')
	case kPrio:
		r.field(&first, sc)
		r.field(&first, `"modifiers":[`)
		for i, k := range nd.Kids {
			if i > 0 {
				r.b = append(r.b, ',')
			}
			sp := 0
			if len(nd.PrioSp) > i && !(r.m.kind == mutPrio && r.m.at == nd.Pos) {
				sp = nd.PrioSp[i]
			}
			switch {
			case sp == 1:
				r.b = append(r.b, `{`...)
			case sp == 2:
				r.b = append(r.b, `{"priority":null,`...)
			case r.m.kind == mutPrio && r.m.at == nd.Pos && i == 0:
				r.b = append(append(append(r.b, `{"priority":`...), r.m.text...), ',')
			default:
				r.b = append(strconv.AppendInt(append(r.b, `{"priority":`...), int64(nd.Prio[i]), 10), ',')
			}
			r.b = append(r.b, `"modifier":`...)
			r.node(k)
			r.b = append(r.b, '}')
		}
		r.b = append(r.b, ']')
	case kFilter:
		if nd.CV > 0 {
			r.field(&first, cvCond(nd.FType, nd.CV))
		} else {
			r.field(&first, filterCond[nd.FType])
		}
		r.field(&first, sc)
		r.field(&first, `"modifier":`)
		r.node(nd.Kids[0])
		if len(nd.Kids) > 1 {
			r.b = append(r.b, `,"else":`...)
			r.node(nd.Kids[1])
		}
	}
	r.b = append(r.b, `}}`...)
}

func render(nd *node, m mutation) []byte {
	r := renderer{b: make([]byte, 0, 256), m: m}
	r.node(nd)
	return r.b
}

// ---------------------------------------------------------------------------------------------------------
// messages
// ---------------------------------------------------------------------------------------------------------

type msg struct {
	// Kind: 0 request, 1 response, 2 (round 6) exchange: the request pass on a request, then the response pass on a
	// response whose Request is that same (by then possibly rewritten) request object, as the proxy does
	Kind int            `json:"kind"`
	Cond [nFilters]bool `json:"cond"` // truth of the url, header, querystring, method, cookie conditions for this message
	// Multi > 0: the query parameter, the X-Cond header and the cookie named in the conditions carry two values
	Multi int `json:"multi,omitempty"`
	// Wire (round 6) > 0: the message is parsed from wire text by net/http (http.ReadRequest / http.ReadResponse), so
	// that Host, Content-Length and Transfer-Encoding sit where net/http puts them: 1 neither Content-Length nor
	// Transfer-Encoding, 2 "Content-Length: 5", 3 "Transfer-Encoding: chunked" (a response's request carries the next state)
	Wire int `json:"wire,omitempty"`
}

func (m msg) String() string {
	k := "request"
	if m.Kind == 1 {
		k = "response"
	}
	if m.Kind == 2 {
		k = "exchange(request pass, then response pass on the same exchange)"
	}
	if m.Wire > 0 {
		k += [...]string{"", "[wire]", "[wire, Content-Length: 5]", "[wire, Transfer-Encoding: chunked]"}[m.Wire]
	}
	var on []string
	for i, c := range m.Cond {
		if c {
			on = append(on, strings.Replace(filterShape[i], ".Filter", "", 1))
		}
	}
	return k + "{true:" + strings.Join(on, ",") + "}" + [...]string{"", "+multivalue(match later)", "+multivalue(match first)"}[m.Multi]
}

// multiMask: the filters whose condition reads a multi-valued source AND whose documentation says that the
// condition holds when any value matches (querystring.Matcher: "contains a querystring param that matches";
// header.Matcher: "contains a header that matches the provided name and value"; cookie.Matcher: "contains a cookie
// that matches"). header.RegexFilter ("iff the value of header matches regex") is silent about repeated lines.
const multiMask = 1<<fQS | 1<<fHeader | 1<<fCookie | 1<<fQSAny

// msgsFor: single-valued sources only; msgsMulti: msgsFor followed by the same assignments with every multi-valued
// source of multiMask carrying two values (Multi 1: the matching one last, Multi 2: the matching one first).
var msgsFor, msgsReduced, msgsMulti [1 << nFilters][]msg

func init() {
	for mask := 0; mask < 1<<nFilters; mask++ {
		for asg := 0; asg < 1<<nFilters; asg++ {
			if asg&^mask != 0 {
				continue
			}
			for kind := 0; kind < 2; kind++ {
				var m msg
				m.Kind = kind
				for i := 0; i < nFilters; i++ {
					m.Cond[i] = asg&(1<<i) != 0
				}
				msgsFor[mask] = append(msgsFor[mask], m)
				if asg == 0 || asg == mask {
					msgsReduced[mask] = append(msgsReduced[mask], m)
				}
			}
		}
		msgsMulti[mask] = msgsFor[mask]
		if mask&multiMask != 0 {
			msgsMulti[mask] = append([]msg{}, msgsFor[mask]...)
			for mode := 1; mode <= 2; mode++ {
				for _, m := range msgsFor[mask] {
					m.Multi = mode
					msgsMulti[mask] = append(msgsMulti[mask], m)
				}
			}
		}
	}
}

// two picks the spelling of a two-valued source: hit says whether one of the values is the matching one.
func two(multi int, hit bool, match, miss1, miss2 string) []string {
	switch {
	case multi == 0 && hit:
		return []string{match}
	case multi == 0:
		return []string{miss1}
	case !hit:
		return []string{miss1, miss2}
	case multi == 1:
		return []string{miss1, match}
	}
	return []string{match, miss1}
}

func buildRequest(c [nFilters]bool, flip bool, multi int) *http.Request {
	path, q, meth, host, re := "/miss", "q=0", "GET", "h.example", "no"
	if c[fURL] {
		path = "/hit"
	}
	for _, v := range two(multi, c[fQS], "1", "2", "3") {
		q += "&p=" + v
	}
	if c[fQSAny] { // present (with an empty first value when two-valued); false: absent
		for _, v := range two(multi, true, "7", "", "9")[:1+min(multi, 1)] {
			q += "&z=" + v
		}
	}
	if c[fURLRegex] {
		q += "&r=1"
	} else {
		q += "&r=0"
	}
	if c[fPort] {
		host = "h.example:8080" // false: no port in the URL (scheme http, i.e. the default port 80)
	}
	if c[fHeaderRegex] {
		re = "yes" // not flipped: header.RegexFilter looks at the request header for requests AND responses
	}
	if c[fMethod] {
		meth = "POST"
	}
	hv, cv := c[fHeader], c[fCookie]
	if flip {
		hv, cv = !hv, !cv
	}
	h := http.Header{"X-Cond": two(multi, hv, "yes", "no", "nope"), "Cookie": {"d=1; e=2"}, "X-Re": {re}}
	if cv || multi > 0 {
		h["Cookie"] = []string{"d=1; " + strings.Join(two(multi, cv, "c=1", "c=0", "c=2"), "; ")}
	}
	return &http.Request{Method: meth, URL: &url.URL{Scheme: "http", Host: host, Path: path, RawQuery: q},
		Proto: "HTTP/1.1", ProtoMajor: 1, ProtoMinor: 1, Host: host, Header: h}
}

// A response message: url, query and method conditions refer to the exchange's request; header and cookie
// conditions to the response's own header / Set-Cookie (the request of the exchange carries the opposite values,
// so an implementation looking at the wrong message is caught).
func buildResponse(c [nFilters]bool, multi int) *http.Response {
	return buildResponseOn(c, multi, buildRequest(c, true, multi))
}

// buildResponseOn: the response to the given request of the exchange.
func buildResponseOn(c [nFilters]bool, multi int, req *http.Request) *http.Response {
	h := http.Header{"X-Cond": two(multi, c[fHeader], "yes", "no", "nope"), "Set-Cookie": {"d=1"}, "X-Re": {"yes"}}
	if c[fHeaderRegex] {
		h["X-Re"] = []string{"no"} // the response's own header carries the opposite of the exchange's request header
	}
	if c[fCookie] || multi > 0 {
		h["Set-Cookie"] = append(h["Set-Cookie"], two(multi, c[fCookie], "c=1; Path=/", "c=0", "c=2")...)
	}
	return &http.Response{Status: "200 OK", StatusCode: 200, Proto: "HTTP/1.1", ProtoMajor: 1, ProtoMinor: 1, Header: h,
		Request: req}
}

// ---------------------------------------------------------------------------------------------------------
// outcome, reference interpreter, implementation runner
// ---------------------------------------------------------------------------------------------------------

const (
	hostErrID = -1
	dupErrID  = -2 // every kDupErr leaf: the error multiset counts how many of them were reported
)

type outcome struct {
	Trace  []int  `json:"trace"`  // ordered ids written to the trace header
	Errs   []int  `json:"errors"` // sorted multiset of error ids (-1: the Host append error)
	Yes    int    `json:"yes"`    // number of X-Cond: yes values on the message
	Path   string `json:"path"`   // URL path of the (exchange's) request
	Status int    `json:"status"` // status code (responses)
	Extra  string `json:"extra,omitempty"`
	// (round 6, exchanges only) Req: the outcome of the request pass (the other fields then describe the response pass);
	// Attrs: what the exchange's request looks like at the end (attrValid | r=1 | p has 1 | port 8080 | X-Re yes)
	Req   *outcome `json:"request_pass,omitempty"`
	Attrs int      `json:"attrs,omitempty"`
}

func (o outcome) empty() bool { return len(o.Trace) == 0 && len(o.Errs) == 0 }

func (o outcome) hash() uint64 {
	h := fnv.New64a()
	fmt.Fprint(h, o.Trace, o.Errs, o.Yes, o.Path, o.Status)
	return h.Sum64()
}

func diff(exp, obs outcome) string {
	if obs.Extra != "" {
		if strings.HasPrefix(obs.Extra, "panic") {
			return "panic"
		}
		return "unexpected"
	}
	if exp.Req != nil && obs.Req != nil {
		if s := diff(*exp.Req, *obs.Req); s != "" {
			return "request_pass_" + s
		}
	}
	if !eqInts(exp.Trace, obs.Trace) {
		return "trace_mismatch"
	}
	if !eqInts(exp.Errs, obs.Errs) {
		return "error_mismatch"
	}
	if exp.Yes != obs.Yes || exp.Path != obs.Path || exp.Status != obs.Status || exp.Attrs != obs.Attrs {
		return "state_mismatch"
	}
	return ""
}

func sameOutcome(a, b outcome) bool {
	if (a.Req == nil) != (b.Req == nil) || (a.Req != nil && !sameOutcome(*a.Req, *b.Req)) || a.Attrs != b.Attrs {
		return false
	}
	return eqInts(a.Trace, b.Trace) && eqInts(a.Errs, b.Errs) && a.Yes == b.Yes && a.Path == b.Path && a.Status == b.Status && a.Extra == b.Extra
}

func eqInts(a, b []int) bool {
	if len(a) != len(b) {
		return false
	}
	for i := range a {
		if a[i] != b[i] {
			return false
		}
	}
	return true
}

// ---- the reference interpreter: written from the property statement only ----

type mstate struct {
	bit    int
	cond   [nFilters]bool
	trace  []int
	yes    int
	status int
	// (round 6) own / req: state of the header hdrNames[i] on the message itself / on the exchange's request
	// (hvAbsent, hvA, hvB, hvOther); for a request both are the same thing
	own, req [nHdrNames]int
}

// interp evaluates the tree depth-first and returns the errors the node reports (nil: none).
func interp(nd *node, st *mstate) []int {
	if scopeMask(nd)&st.bit == 0 {
		return nil // the node does not act on this kind of message
	}
	switch nd.Kind {
	case kProbe:
		st.trace = append(st.trace, nd.ID)
	case kErr:
		return []int{nd.ID}
	case kHostErr:
		if st.bit == reqBit {
			return []int{hostErrID}
		}
	case kDupErr:
		return []int{dupErrID}
	case kMarkH:
		st.yes++
		st.cond[fHeader] = true
	case kMarkU:
		st.cond[fURL] = true
	case kMarkS:
		st.status = 418
	case kSet: // from here on the condition that reads the rewritten part holds / does not hold
		st.cond[setLeaves[nd.Set].cond] = setLeaves[nd.Set].val
	case kSetHdr: // header.Modifier: the message's header of that name now has exactly the value B
		st.own[nd.Set] = hvB
		if st.bit == reqBit {
			st.req[nd.Set] = hvB
		}
		if nd.Set == hnXCond {
			st.yes, st.cond[fHeader] = 0, false
		}
		if nd.Set == hnXRe && st.bit == reqBit {
			st.cond[fHeaderRegex] = false
		}
	case kFifo:
		var all []int
		for _, k := range nd.Kids { // listed order
			if e := interp(k, st); len(e) > 0 {
				if !nd.Agg {
					return e // the first error stops the group
				}
				all = append(all, e...) // aggregating: all children run, every error reported once
			}
		}
		return all
	case kPrio:
		order := make([]int, len(nd.Kids))
		for i := range order {
			order[i] = i
		}
		sort.SliceStable(order, func(x, y int) bool {
			a, b := order[x], order[y]
			if nd.Prio[a] != nd.Prio[b] {
				return nd.Prio[a] > nd.Prio[b] // descending priority
			}
			return a > b // later-listed first among equals
		})
		for _, i := range order {
			if e := interp(nd.Kids[i], st); len(e) > 0 {
				return e
			}
		}
	case kFilter:
		holds := st.cond[nd.FType]
		if nd.CV > 0 {
			holds = cvHolds(nd.FType, nd.CV, st)
		}
		if nd.FType == fURL && st.cond[fPort] {
			holds = false // the url.Filter condition names host "h.example"; the message's URL host is "h.example:8080"
		}
		if holds {
			return interp(nd.Kids[0], st)
		}
		if len(nd.Kids) > 1 {
			return interp(nd.Kids[1], st)
		}
	}
	return nil
}

func expect(root *node, m msg) outcome {
	if m.Kind == 2 {
		return expectExchange(root, m)
	}
	st := &mstate{bit: reqBit, cond: m.Cond}
	if m.Kind == 1 {
		st.bit = resBit
		st.status = 200
	}
	if m.Cond[fHeader] {
		st.yes = 1
	}
	if m.Wire > 0 {
		wireState(st, m)
	}
	return runInterp(root, st)
}

func runInterp(root *node, st *mstate) outcome {
	errs := interp(root, st)
	sort.Ints(errs)
	o := outcome{Trace: st.trace, Errs: errs, Yes: st.yes, Path: "/miss", Status: st.status}
	if st.cond[fURL] {
		o.Path = "/hit"
	}
	return o
}

// ---- running the real modifiers ----

func flatten(err error, out *[]error) {
	if err == nil {
		return
	}
	if me, ok := err.(*martian.MultiError); ok {
		for _, e := range me.Errors() {
			flatten(e, out)
		}
		return
	}
	*out = append(*out, err)
}

func observe(reqmod martian.RequestModifier, resmod martian.ResponseModifier, m msg, calls *int64) (o outcome) {
	defer func() {
		if p := recover(); p != nil {
			o.Extra = fmt.Sprintf("panic: %v", p)
		}
	}()
	var err error
	var h http.Header
	if m.Kind == 2 {
		return observeExchange(reqmod, resmod, m, calls)
	}
	if m.Kind == 0 {
		req := buildRequest(m.Cond, false, m.Multi)
		if m.Wire > 0 {
			req = wireRequest(m.Cond, false, m.Wire)
		}
		if reqmod != nil {
			*calls++
			err = reqmod.ModifyRequest(req)
		}
		h = req.Header
		o.Path = req.URL.Path
	} else {
		res := buildResponse(m.Cond, m.Multi)
		if m.Wire > 0 {
			res = wireResponse(m.Cond, m.Wire)
		}
		if resmod != nil {
			*calls++
			err = resmod.ModifyResponse(res)
		}
		h = res.Header
		o.Path = res.Request.URL.Path
		o.Status = res.StatusCode
		if len(res.Request.Header["X-Trace"]) > 0 {
			o.Extra = "trace written to the request of a response"
		}
	}
	fillOutcome(&o, h, err)
	return o
}

// fillOutcome reads the trace header, the X-Cond marks and the returned errors into o.
func fillOutcome(o *outcome, h http.Header, err error) {
	for _, v := range h["X-Trace"] {
		id, e := strconv.Atoi(strings.TrimPrefix(v, "n"))
		if e != nil || !strings.HasPrefix(v, "n") {
			o.Extra = "bad trace value " + v
		}
		o.Trace = append(o.Trace, id)
	}
	for _, v := range h["X-Cond"] {
		if v == "yes" {
			o.Yes++
		}
	}
	var errs []error
	flatten(err, &errs)
	for _, e := range errs {
		s := e.Error()
		switch {
		case s == "proxyutil: illegal header multiple: Host":
			o.Errs = append(o.Errs, hostErrID)
		case strings.HasPrefix(s, `strconv.ParseInt: parsing "dup"`):
			o.Errs = append(o.Errs, dupErrID)
		case strings.HasPrefix(s, `strconv.ParseInt: parsing "e`):
			t := strings.TrimPrefix(s, `strconv.ParseInt: parsing "e`)
			id, e2 := strconv.Atoi(t[:strings.IndexByte(t, '"')])
			if e2 != nil {
				o.Extra = "unexpected error: " + s
			}
			o.Errs = append(o.Errs, id)
		default:
			o.Extra = "unexpected error: " + s
		}
	}
	sort.Ints(o.Errs)
}

func safeParse(doc []byte) (r *parse.Result, err error, panicked string) {
	defer func() {
		if p := recover(); p != nil {
			panicked = fmt.Sprint(p)
		}
	}()
	r, err = parse.FromJSON(doc)
	return
}

// ---------------------------------------------------------------------------------------------------------
// failure minimisation (so that one defect yields one or very few signatures)
// ---------------------------------------------------------------------------------------------------------

// failure runs tree t on message m and returns "" when implementation and reference agree.
func failure(t *node, m msg, calls *int64) (string, outcome, outcome) {
	number(t, 0)
	doc := render(t, mutation{})
	r, err, pan := safeParse(doc)
	if pan != "" {
		return "parse_panic", outcome{}, outcome{Extra: "panic: " + pan}
	}
	if err != nil {
		return "rejected_valid", outcome{}, outcome{Extra: err.Error()}
	}
	exp := expect(t, m)
	obs := observe(r.RequestModifier(), r.ResponseModifier(), m, calls)
	return diff(exp, obs), exp, obs
}

func sameClass(a, b string) bool {
	if a == "" || b == "" {
		return a == b
	}
	cls := func(s string) int {
		switch s {
		case "rejected_valid":
			return 1
		case "panic", "parse_panic":
			return 2
		}
		return 3
	}
	return cls(a) == cls(b)
}

// candidates returns strictly simpler variants of t.
func candidates(t *node) []*node {
	var out []*node
	n := number(t, 0)
	edit := func(pos int, f func(x, parent *node, slot int) *node) {
		c := clone(t)
		number(c, 0)
		var res *node
		done := false
		walk(c, func(x, p *node, slot int) {
			if done || x.Pos != pos {
				return
			}
			done = true
			repl := f(x, p, slot)
			if repl == nil {
				return
			}
			if p == nil {
				res = repl
			} else {
				if repl != x {
					p.Kids[slot] = repl
				}
				res = c
			}
		})
		if res != nil {
			out = append(out, res)
		}
	}
	for pos := 0; pos < n; pos++ {
		var x *node
		walk(t, func(y, _ *node, _ int) {
			if y.Pos == pos {
				x = y
			}
		})
		for i := range x.Kids {
			i := i
			edit(pos, func(y, _ *node, _ int) *node { return y.Kids[i] }) // replace by a child subtree
			if x.Kind == kFifo || x.Kind == kPrio {
				edit(pos, func(y, _ *node, _ int) *node { // drop a child
					y.Kids = append(append([]*node{}, y.Kids[:i]...), y.Kids[i+1:]...)
					if y.Kind == kPrio {
						y.Prio = append(append([]int{}, y.Prio[:i]...), y.Prio[i+1:]...)
						if len(y.PrioSp) > i {
							y.PrioSp = append(append([]int{}, y.PrioSp[:i]...), y.PrioSp[i+1:]...)
						}
					}
					return y
				})
			}
		}
		if x.Kind == kFilter && len(x.Kids) > 1 {
			edit(pos, func(y, _ *node, _ int) *node { y.Kids = y.Kids[:1]; return y })
		}
		if x.Kind != kProbe { // replace the subtree by a probe (every scope, simplest first)
			for sc := scAbsent; sc <= scBoth; sc++ {
				sc := sc
				edit(pos, func(y, _ *node, _ int) *node { return &node{Kind: kProbe, Scope: sc} })
			}
		}
		for sc := scAbsent; sc < x.Scope; sc++ { // a simpler scope
			sc := sc
			edit(pos, func(y, _ *node, _ int) *node { y.Scope = sc; return y })
		}
		if x.Agg {
			edit(pos, func(y, _ *node, _ int) *node { y.Agg = false; return y })
		}
		if x.CV > 0 { // (round 6) the fixed condition of the older families, the ordinary header name, the canonical spelling, the value that messages carry
			name, sp, v := cvParts(x.CV)
			edit(pos, func(y, _ *node, _ int) *node { y.CV = 0; return y })
			if ord := map[int]int{fHeader: hnXCond, fHeaderRegex: hnXRe}[x.FType]; name != ord {
				edit(pos, func(y, _ *node, _ int) *node { y.CV = cvOf(ord, sp, v); return y })
			}
			if sp == 1 {
				edit(pos, func(y, _ *node, _ int) *node { y.CV = cvOf(name, 0, v); return y })
			} else if v == 1 {
				edit(pos, func(y, _ *node, _ int) *node { y.CV = cvOf(name, 0, 0); return y })
			}
		}
		for i, sp := range x.PrioSp {
			if sp != 0 {
				i := i
				edit(pos, func(y, _ *node, _ int) *node { y.PrioSp[i] = 0; return y })
			}
		}
		anyPrio := false
		for i, p := range x.Prio {
			if p != 0 {
				i := i
				anyPrio = true
				edit(pos, func(y, _ *node, _ int) *node { y.Prio[i] = 0; return y })
				for _, q := range simplerPrios(p) { // (only the extreme-value families have priorities beyond {0,1})
					q := q
					edit(pos, func(y, _ *node, _ int) *node { y.Prio[i] = q; return y })
				}
			}
		}
		if anyPrio {
			edit(pos, func(y, _ *node, _ int) *node {
				for i := range y.Prio {
					y.Prio[i] = 0
				}
				return y
			})
		}
	}
	return out
}

// failingOn looks for a message of the given kind (every truth assignment of the conditions occurring in t, fewest
// true conditions first) on which t fails with a symptom of the same class as sym.
func failingOn(t *node, kind int, sym string, calls *int64) (string, msg, bool) {
	number(t, 0)
	r, err, pan := safeParse(render(t, mutation{}))
	if pan != "" {
		return "parse_panic", msg{Kind: kind}, sameClass("parse_panic", sym)
	}
	if err != nil {
		return "rejected_valid", msg{Kind: kind}, sameClass("rejected_valid", sym)
	}
	for _, m := range msgsOfKind(t, kind) { // single-valued messages first
		if m.Kind != kind {
			continue
		}
		if s := diff(expect(t, m), observe(r.RequestModifier(), r.ResponseModifier(), m, calls)); s != "" && sameClass(s, sym) {
			return s, m, true
		}
	}
	return "", msg{}, false
}

func minimise(t *node, m msg, sym string, calls *int64) (*node, msg, string) {
	t = clone(t)
	for progress := true; progress; {
		progress = false
		for _, c := range candidates(t) {
			if s, m2, ok := failingOn(c, m.Kind, sym, calls); ok {
				t, m, sym, progress = c, m2, s, true
				break
			}
		}
	}
	if s, m2, ok := failingOn(t, m.Kind, sym, calls); ok {
		m, sym = m2, s
	}
	number(t, 0)
	return t, m, sym
}

// ---------------------------------------------------------------------------------------------------------
// workers
// ---------------------------------------------------------------------------------------------------------

var (
	rep          *lib.Report
	failingTrees int64
	maxMinimised = int64(20000)
)

type counters struct {
	trees, evals, calls, parses, nontrivial, rejects, posts, prefixes, unclassified int64
	behaviours                                                                      map[uint64]struct{}
	perPhase                                                                        map[string]int64
}

type replay struct {
	Part     string   `json:"part"`
	Config   string   `json:"config"`
	Tree     *node    `json:"tree,omitempty"`
	Msg      *msg     `json:"message,omitempty"`
	Expected *outcome `json:"expected,omitempty"`
	Observed *outcome `json:"observed,omitempty"`
	Previous string   `json:"previous_config,omitempty"`
	Note     string   `json:"note,omitempty"`
	// Spelling (round 8): a case of the cond_spellings family (Part "cond_spelling")
	Spelling *spellReplay `json:"spelling,omitempty"`
}

func kindStr(m msg) string {
	switch m.Kind {
	case 0:
		return "request"
	case 2:
		return "response_after_request_pass"
	}
	return "response"
}

func reportEval(root *node, m msg, sym string, c *counters) {
	if atomic.AddInt64(&failingTrees, 1) > maxMinimised {
		c.unclassified++
		return
	}
	// when the request pass of the exchange already disagrees, that is a failure on a plain request (before and after
	// minimising: the minimised exchange may fail earlier than the one it started from)
	asRequest := func(t *node, m msg, sym string) (msg, string) {
		if m.Kind != 2 || !strings.HasPrefix(sym, "request_pass_") {
			return m, sym
		}
		m0 := m
		m0.Kind = 0
		m0.Cond[fHeader], m0.Cond[fCookie] = !m.Cond[fHeader], !m.Cond[fCookie] // (the request of an exchange carries the opposite own-header values)
		if s0, _, _ := failure(clone(t), m0, &c.calls); s0 != "" {
			return m0, s0
		}
		return m, sym
	}
	m, sym = asRequest(root, m, sym)
	t, mm, s := minimise(root, m, sym, &c.calls)
	if m2, s2 := asRequest(t, mm, s); m2.Kind != mm.Kind {
		t, mm, s = minimise(t, m2, s2, &c.calls)
	}
	_, exp, obs := failure(t, mm, &c.calls)
	doc := string(render(t, mutation{}))
	kind := kindStr(mm)
	if mm.Multi > 0 {
		kind += "+multivalue" // fails only when a condition's source carries several values
	}
	if mm.Wire > 0 {
		kind += "+wire" // on a message parsed from wire text by net/http
	}
	sig := "eval:" + shape(t) + ":" + kind + ":" + s
	if mm.Kind == 2 {
		sig = "eval:" + exchangeClass(t) + ":" + kind + ":" + s
	} else if cls := headerNameClass(t); cls != "" {
		sig = "eval:" + cls + ":" + kind + ":" + s
	}
	desc := fmt.Sprintf("config %s on %s: statement demands trace=%v errors=%v yes=%d path=%s status=%d; implementation gave trace=%v errors=%v yes=%d path=%s status=%d %s (minimised from %s)",
		doc, mm, exp.Trace, exp.Errs, exp.Yes, exp.Path, exp.Status, obs.Trace, obs.Errs, obs.Yes, obs.Path, obs.Status, obs.Extra, shape(root))
	if mm.Kind == 2 && exp.Req != nil && obs.Req != nil {
		desc += fmt.Sprintf("; request pass: demanded trace=%v errors=%v, gave trace=%v errors=%v; the exchange's request at the end: demanded %s, observed %s",
			exp.Req.Trace, exp.Req.Errs, obs.Req.Trace, obs.Req.Errs, attrString(exp.Attrs), attrString(obs.Attrs))
	}
	rep.Violate(sig, desc, replay{Part: "eval", Config: doc, Tree: t, Msg: &mm, Expected: &exp, Observed: &obs})
}

// evalTree: part 1 for one tree.
func evalTree(root *node, c *counters, trackBehaviour, multi bool) {
	mode := modeSingle
	if multi {
		mode = modeMulti
	}
	evalTreeMode(root, c, trackBehaviour, mode)
}

func evalTreeMode(root *node, c *counters, trackBehaviour bool, mode int) {
	n := number(root, 0)
	doc := render(root, mutation{})
	c.trees++
	c.parses++
	r, err, pan := safeParse(doc)
	if pan != "" || err != nil {
		sym := "rejected_valid"
		if pan != "" {
			sym = "parse_panic"
		}
		reportEval(root, msg{}, sym, c)
		return
	}
	reqmod, resmod := r.RequestModifier(), r.ResponseModifier()
	msgs := msgsForTree(root, mode)
	var first uint64
	varies, nonEmpty := false, false
	bh := fnv.New64a()
	for i, m := range msgs {
		exp := expect(root, m)
		obs := observe(reqmod, resmod, m, &c.calls)
		c.evals++
		if s := diff(exp, obs); s != "" {
			reportEval(root, m, s, c)
			return
		}
		h := exp.hash()
		if i == 0 {
			first = h
		} else if h != first {
			varies = true
		}
		if !exp.empty() {
			nonEmpty = true
		}
		if trackBehaviour {
			fmt.Fprint(bh, h)
		}
	}
	if n >= 2 && varies && nonEmpty {
		c.nontrivial++
		if c.nontrivial%4096 == 1 {
			m := msgs[len(msgs)-1]
			rep.Sample(8, map[string]interface{}{"config": string(doc), "messages": len(msgs), "example_message": m.String(), "expected": expect(root, m)})
		}
	}
	if trackBehaviour {
		c.behaviours[bh.Sum64()] = struct{}{}
	}
}

// ---- part 2: handler ----

type handlerWorker struct {
	extended bool // audit extension: the additional rejection variants and the non-POST / failing-body requests
	mod      *martianhttp.Modifier
	seq      int
	prevDoc  string
	c        *counters
}

func (w *handlerWorker) post(doc []byte) (code int, pan string) {
	defer func() {
		if p := recover(); p != nil {
			pan = fmt.Sprint(p)
		}
	}()
	rw := httptest.NewRecorder()
	req := httptest.NewRequest("POST", "http://martian.proxy/configure", bytes.NewReader(doc))
	w.c.posts++
	w.mod.ServeHTTP(rw, req)
	return rw.Code, ""
}

func (w *handlerWorker) getRaw() []byte {
	rw := httptest.NewRecorder()
	w.mod.ServeHTTP(rw, httptest.NewRequest("GET", "http://martian.proxy/configure", nil))
	return rw.Body.Bytes()
}

func compact(raw []byte) string {
	var b bytes.Buffer
	if err := json.Compact(&b, raw); err != nil {
		return "not JSON: " + string(raw)
	}
	return b.String()
}

type rejectCase struct {
	variant string
	pos     int
	doc     []byte
	mut     mutation // mutNone: the document text was broken instead
}

// blame finds who let a configuration through that had to be rejected: the mutated node itself, or the lowest
// enclosing node that accepts its own sub-document although the mutated node alone is rejected.
func blame(root *node, rc rejectCase) string {
	if rc.mut.kind == mutNone {
		return "document"
	}
	var path []*node
	var find func(x *node) bool
	find = func(x *node) bool {
		path = append(path, x)
		if x.Pos == rc.pos {
			return true
		}
		for _, k := range x.Kids {
			if find(k) {
				return true
			}
		}
		path = path[:len(path)-1]
		return false
	}
	find(root)
	for i := len(path) - 1; i >= 0; i-- {
		doc := render(path[i], rc.mut)
		if _, err, pan := safeParse(doc); err != nil || pan != "" {
			continue
		}
		if i == len(path)-1 {
			name := "value"
			if len(doc) > 2 && doc[1] == '"' && bytes.IndexByte(doc[2:], '"') >= 0 {
				name = string(doc[2 : 2+bytes.IndexByte(doc[2:], '"')])
			}
			return "self:" + name
		}
		name := strings.TrimSuffix(kindName(path[i]), "+agg")
		if path[i].Kind == kFilter {
			if path[i].Kids[0] == path[i+1] {
				name += ".modifier"
			} else {
				name += ".else"
			}
		}
		return "swallowed_by:" + name
	}
	return "document"
}

// acceptedRejects collects wrongly accepted configurations; signatures are formed at the end of the run so that a
// defect in code shared by all node types yields one signature instead of one per node type.
var acceptedRejects = struct {
	sync.Mutex
	m map[string]map[string][]lib.Violation // variant -> blame -> cases (first 3 with details)
	n map[string]int
}{m: map[string]map[string][]lib.Violation{}, n: map[string]int{}}

func recordAccepted(variant, who, desc string, rp replay) {
	acceptedRejects.Lock()
	defer acceptedRejects.Unlock()
	if acceptedRejects.m[variant] == nil {
		acceptedRejects.m[variant] = map[string][]lib.Violation{}
	}
	acceptedRejects.n[variant+"|"+who]++
	if len(acceptedRejects.m[variant][who]) < 3 {
		acceptedRejects.m[variant][who] = append(acceptedRejects.m[variant][who], lib.Violation{Desc: desc, Replay: rp})
	}
}

func flushAccepted() {
	var variants []string
	for v := range acceptedRejects.m {
		variants = append(variants, v)
	}
	sort.Strings(variants)
	for _, v := range variants {
		var whos, selfs []string
		for w := range acceptedRejects.m[v] {
			whos = append(whos, w)
			if strings.HasPrefix(w, "self:") {
				selfs = append(selfs, w)
			}
		}
		sort.Strings(whos)
		collapse := len(selfs) >= 4
		done := false
		for _, w := range whos {
			sig := "reject:" + v + ":" + w + ":accepted"
			if collapse && strings.HasPrefix(w, "self:") {
				if done {
					continue
				}
				done = true
				sig = "reject:" + v + ":self:any_node_type:accepted"
			}
			for _, c := range acceptedRejects.m[v][w] {
				rep.Violate(sig, c.Desc+fmt.Sprintf(" [%d cases accepted by %s]", acceptedRejects.n[v+"|"+w], w), c.Replay)
			}
		}
	}
}

func rejectCases(root *node, extended bool) []rejectCase {
	var out []rejectCase
	n := number(root, 100)
	base := render(root, mutation{}) // fills start/end
	type span struct{ s, e int }
	spans := make([]span, n)
	walk(root, func(x, _ *node, _ int) { spans[x.Pos] = span{x.start, x.end} })
	for pos := 0; pos < n; pos++ {
		mu := mutation{mutName, pos, ""}
		out = append(out, rejectCase{"unknown_name", pos, render(root, mu), mu})
		for _, sc := range []string{`"scope":["bogus"]`, `"scope":["request","bogus"]`, `"scope":["bogus","response"]`} {
			mu := mutation{mutScope, pos, sc}
			out = append(out, rejectCase{"unsupported_scope", pos, render(root, mu), mu})
		}
		for _, leaf := range []string{
			`{"url.Modifier":{"scope":["response"],"path":"/hit"}}`,
			`{"url.Modifier":{"scope":["request","response"],"path":"/hit"}}`,
			`{"status.Modifier":{"scope":["request"],"statusCode":418}}`,
			`{"status.Modifier":{"statusCode":418,"scope":["response","request"]}}`,
		} {
			mu := mutation{mutReplace, pos, leaf}
			out = append(out, rejectCase{"unimplemented_scope", pos, render(root, mu), mu})
		}
		s, e := spans[pos].s, spans[pos].e
		cat := func(parts ...[]byte) []byte { return bytes.Join(parts, nil) }
		if extended {
			out = append(out, extendedRejects(root, pos, base[s:e])...)
		}
		out = append(out,
			rejectCase{"malformed_truncated", pos, cat(base[:s+1]), mutation{}},
			rejectCase{"malformed_truncated", pos, cat(base[:(s+e)/2]), mutation{}},
			rejectCase{"malformed_unbalanced", pos, cat(base[:e-1], base[e:]), mutation{}},
			rejectCase{"malformed_stray_comma", pos, cat(base[:s+1], []byte(","), base[s+1:]), mutation{}},
			rejectCase{"malformed_unquoted_key", pos, cat(base[:s+1], base[s+2:]), mutation{}},
		)
	}
	out = append(out, rejectCase{"malformed_trailing", 0, append(append([]byte{}, base...), '}'), mutation{}},
		rejectCase{"malformed_trailing", 0, append(append([]byte{}, base...), base...), mutation{}})
	return out
}

func (w *handlerWorker) tree(root *node) {
	c := w.c
	base := (w.seq % 2) * 200
	w.seq++
	number(root, base)
	doc := render(root, mutation{})
	rootCopy := clone(root) // ids fixed at base
	code, pan := w.post(doc)
	c.trees++
	if pan != "" || code != 200 {
		rep.Violate("reconfig:valid_config:status_"+strconv.Itoa(code), fmt.Sprintf("POST of valid config %s answered %d %s", doc, code, pan),
			replay{Part: "reconfig", Config: string(doc), Previous: w.prevDoc})
		w.mod = martianhttp.NewModifier()
		w.prevDoc = ""
		return
	}
	msgs := msgsFor[filterMask(root)]
	for _, m := range msgs {
		exp := expect(rootCopy, m)
		obs := observe(w.mod, w.mod, m, &c.calls)
		c.evals++
		if s := diff(exp, obs); s != "" {
			// wrong through the handler: if the directly parsed configuration behaves the same way, the tree
			// semantics are at fault (reported under the part-1 signature), not the reconfiguration
			if r, err, pan := safeParse(doc); pan == "" && err == nil && sameOutcome(obs, observe(r.RequestModifier(), r.ResponseModifier(), m, &c.calls)) {
				reportEval(rootCopy, m, s, c)
				break
			}
			rep.Violate("reconfig:after_accept:effect_mismatch", fmt.Sprintf("after accepting %s (previous config %s) message %s: expected trace=%v errors=%v, got trace=%v errors=%v %s",
				doc, w.prevDoc, m, exp.Trace, exp.Errs, obs.Trace, obs.Errs, obs.Extra),
				replay{Part: "reconfig", Config: string(doc), Previous: w.prevDoc, Msg: &m, Expected: &exp, Observed: &obs})
			break
		}
	}
	activeRaw := w.getRaw()
	if g := compact(activeRaw); g != string(doc) {
		rep.Violate("reconfig:after_accept:config_mismatch", fmt.Sprintf("GET after accepting %s returns %s", doc, g), replay{Part: "reconfig", Config: string(doc), Previous: w.prevDoc})
	}
	red := msgsReduced[filterMask(root)]
	exps := make([]outcome, len(red)) // what the accepted configuration does (validated against the reference above)
	for i, m := range red {
		exps[i] = observe(w.mod, w.mod, m, &c.calls)
	}
	for _, rc := range rejectCases(root, w.extended) { // renumbers root with base 100
		c.rejects++
		code, pan := w.post(rc.doc)
		if pan != "" {
			rep.Violate("reject:"+rc.variant+":panic", fmt.Sprintf("POST %s panicked: %s", rc.doc, pan), replay{Part: "reject", Config: string(rc.doc), Previous: string(doc)})
			w.mod = martianhttp.NewModifier()
			w.post(doc)
			continue
		}
		if code == 200 {
			recordAccepted(rc.variant, blame(root, rc),
				fmt.Sprintf("configuration %s (%s at node %d) was accepted with 200", rc.doc, rc.variant, rc.pos), replay{Part: "reject", Config: string(rc.doc), Previous: string(doc)})
			w.post(doc)
			continue
		}
		if code != 400 {
			rep.Violate("reject:"+rc.variant+":status_"+strconv.Itoa(code), fmt.Sprintf("configuration %s answered %d, want 400", rc.doc, code), replay{Part: "reject", Config: string(rc.doc), Previous: string(doc)})
		}
		bad := false
		for i, m := range red {
			obs := observe(w.mod, w.mod, m, &c.calls)
			c.evals++
			if !sameOutcome(exps[i], obs) {
				rep.Violate("reconfig:after_reject:effect_changed", fmt.Sprintf("active config %s; after rejected (%d) POST of %s message %s gives trace=%v errors=%v, want trace=%v errors=%v %s",
					doc, code, rc.doc, m, obs.Trace, obs.Errs, exps[i].Trace, exps[i].Errs, obs.Extra),
					replay{Part: "reconfig", Config: string(rc.doc), Previous: string(doc), Msg: &m, Expected: &exps[i], Observed: &obs})
				bad = true
				break
			}
		}
		if raw := w.getRaw(); !bytes.Equal(raw, activeRaw) {
			g := compact(raw)
			rep.Violate("reconfig:after_reject:config_changed", fmt.Sprintf("active config %s; after rejected POST of %s GET returns %s", doc, rc.doc, g),
				replay{Part: "reconfig", Config: string(rc.doc), Previous: string(doc)})
			bad = true
		}
		if bad {
			w.post(doc)
		}
	}
	if w.extended {
		w.others(doc, red, exps, activeRaw)
	}
	w.prevDoc = string(doc)
}

// prefixes: every proper prefix of the document must be rejected by parse.FromJSON.
func prefixTree(root *node, c *counters) {
	number(root, 0)
	doc := render(root, mutation{})
	for cut := 0; cut < len(doc); cut++ {
		c.prefixes++
		c.parses++
		r, err, pan := safeParse(doc[:cut])
		if pan != "" {
			rep.Violate("reject:prefix:panic", fmt.Sprintf("parse.FromJSON(%q) panicked: %s", doc[:cut], pan), replay{Part: "prefix", Config: string(doc[:cut])})
		} else if err == nil || r != nil {
			rep.Violate("reject:prefix:accepted", fmt.Sprintf("parse.FromJSON accepted the truncated document %q", doc[:cut]), replay{Part: "prefix", Config: string(doc[:cut])})
		}
	}
}

// ---------------------------------------------------------------------------------------------------------
// phases
// ---------------------------------------------------------------------------------------------------------

type phase struct {
	part  string // eval | handler | prefix
	a     *alphabet
	sizes []int
	ext   bool // handler: with the extended rejection variants and the non-POST / failing-body requests
	multi bool // eval: additionally the messages whose multi-valued condition sources carry two values
}

func runPhase(p phase, total *counters, mu *sync.Mutex, genCounts map[string]int64) {
	W := runtime.NumCPU()
	for _, n := range p.sizes {
		var wg sync.WaitGroup
		var enumerated int64
		for w := 0; w < W; w++ {
			wg.Add(1)
			go func(w int) {
				defer wg.Done()
				c := &counters{behaviours: map[uint64]struct{}{}}
				hw := &handlerWorker{mod: martianhttp.NewModifier(), c: c, extended: p.ext}
				g := &gen{a: p.a}
				idx := 0
				g.trees(n, func(t *node) {
					mine := (idx>>5)%W == w
					idx++
					if !mine {
						return
					}
					switch p.part {
					case "eval":
						evalTree(t, c, p.a == alphaFull && n <= 3, p.multi)
					case "exchange":
						evalTreeMode(t, c, false, modeExchange)
					case "handler":
						hw.tree(t)
					case "prefix":
						prefixTree(t, c)
					case "spell":
						spellTree(t, c)
					}
				})
				mu.Lock()
				if w == 0 {
					enumerated = int64(idx)
				}
				if p.part == "eval" || p.part == "exchange" {
					total.trees += c.trees
					total.nontrivial += c.nontrivial
				}
				total.evals += c.evals
				total.calls += c.calls
				total.parses += c.parses
				total.rejects += c.rejects
				total.posts += c.posts
				total.prefixes += c.prefixes
				total.unclassified += c.unclassified
				for k := range c.behaviours {
					total.behaviours[k] = struct{}{}
				}
				key := fmt.Sprintf("%s:%s:n=%d", p.part, p.a.name, n)
				total.perPhase[key] += c.trees
				mu.Unlock()
			}(w)
		}
		wg.Wait()
		key := fmt.Sprintf("%s:%s:n=%d", p.part, p.a.name, n)
		genCounts[key] = enumerated
		if want := p.a.count(n)[n]; want != enumerated {
			rep.Violate("harness:generator_count", fmt.Sprintf("%s: generator yielded %d trees, closed form says %d", key, enumerated, want), nil)
		}
		if p.part != "prefix" && total.perPhase[key] != enumerated {
			rep.Violate("harness:stripe_count", fmt.Sprintf("%s: processed %d of %d", key, total.perPhase[key], enumerated), nil)
		}
	}
}

func doReplay(path string) {
	b, err := os.ReadFile(path)
	if err != nil {
		fmt.Println("cannot read replay:", err)
		os.Exit(2)
	}
	var f struct {
		Sig   string `json:"sig"`
		First struct {
			Replay replay `json:"replay"`
		} `json:"first"`
	}
	if err := json.Unmarshal(b, &f); err != nil {
		fmt.Println("bad replay:", err)
		os.Exit(2)
	}
	rp := f.First.Replay
	fmt.Println("replaying", f.Sig)
	if rp.Spelling != nil {
		var calls int64
		replaySpell(rp.Spelling)
		if sym, _, _ := runSpell(rp.Spelling.Case, rp.Spelling.Kind, rp.Spelling.WithElse, &calls); sym != "" {
			os.Exit(1)
		}
		os.Exit(0)
	}
	if rp.Tree != nil && rp.Msg != nil {
		var calls int64
		s, exp, obs := failure(rp.Tree, *rp.Msg, &calls)
		if exp.Req != nil && obs.Req != nil {
			fmt.Printf("request pass expected: %+v\nrequest pass observed: %+v\n", *exp.Req, *obs.Req)
			exp.Req, obs.Req = nil, nil
		}
		fmt.Printf("config: %s\nmessage: %s\nexpected: %+v\nobserved: %+v\nresult: %q\n", render(rp.Tree, mutation{}), *rp.Msg, exp, obs, s)
		if s != "" {
			os.Exit(1)
		}
		os.Exit(0)
	}
	m := martianhttp.NewModifier()
	last := 0
	for i, d := range []string{rp.Previous, rp.Config} {
		if d == "" {
			continue
		}
		rw := httptest.NewRecorder()
		method, body := "POST", io.Reader(strings.NewReader(d))
		if i == 1 && (strings.HasPrefix(rp.Note, "method_") || strings.HasPrefix(rp.Note, "body_read_error")) {
			method, body = otherRequest(rp.Note) // audit family D: not a complete POST
			d += " (" + rp.Note + ")"
		}
		m.ServeHTTP(rw, httptest.NewRequest(method, "http://martian.proxy/configure", body))
		fmt.Printf("%s %s\n  -> %d %s\n", method, d, rw.Code, strings.TrimSpace(rw.Body.String()))
		last = rw.Code
	}
	if rp.Part == "reject" && last == 200 {
		fmt.Println("result: a configuration that had to be rejected was accepted")
		os.Exit(1)
	}
	if rp.Msg != nil && rp.Expected != nil {
		var calls int64
		obs := observe(m, m, *rp.Msg, &calls)
		fmt.Printf("message: %s\nexpected: %+v\nobserved: %+v\n", *rp.Msg, *rp.Expected, obs)
		if !sameOutcome(*rp.Expected, obs) && diff(*rp.Expected, obs) != "" {
			fmt.Println("result: effect differs")
			os.Exit(1)
		}
	}
	fmt.Println("result: as demanded")
	os.Exit(0)
}

// quiet replaces martian's default logger, whose every call (even a suppressed Debugf) takes one global mutex.
type quiet struct{}

func (quiet) Infof(string, ...interface{})  {}
func (quiet) Debugf(string, ...interface{}) {}
func (quiet) Errorf(string, ...interface{}) {}

var phaseCost []string

func cpuSeconds() float64 {
	var ru syscall.Rusage
	syscall.Getrusage(syscall.RUSAGE_SELF, &ru)
	return float64(ru.Utime.Sec+ru.Stime.Sec) + float64(ru.Utime.Usec+ru.Stime.Usec)/1e6
}

func main() {
	mlog.SetLogger(quiet{})
	// the live heap is tiny and everything else is short-lived garbage: collect by memory limit, not by growth ratio
	debug.SetGCPercent(-1)
	debug.SetMemoryLimit(1 << 30)
	if p := os.Getenv("VERIF_REPLAY"); p != "" {
		doReplay(p)
	}
	if len(os.Args) > 1 && os.Args[1] == "counts" {
		for _, a := range []*alphabet{alphaFull, alphaMid, alphaSmall, alphaTiny, alphaExt, alphaExtMid, alphaAgg, alphaX, alphaXMid} {
			fmt.Println(a.name, a.count(6)[1:])
		}
		return
	}
	rep = lib.NewReport("C12", "model_checking")
	var phases []phase
	var families []family
	entryRejectWidth := 0
	bounds := ""
	if rep.Tier == "thorough" {
		phases = []phase{
			{"eval", alphaFull, []int{1, 2, 3}, false, true},
			{"eval", alphaFull, []int{4}, false, false},
			{"eval", alphaMid, []int{5}, false, false},
			{"eval", alphaTiny, []int{6}, false, false},
			{"prefix", alphaFull, []int{1, 2}, false, false},
			{"handler", alphaFull, []int{1, 2}, true, false},
			{"handler", alphaFull, []int{3}, false, false},
			{"handler", alphaSmall, []int{4}, false, false},
			{"handler", alphaMid, []int{3}, true, false},
			{"eval", alphaExt, []int{1, 2, 3}, false, true},
			{"eval", alphaExtMid, []int{4}, false, false},
			{"prefix", alphaExt, []int{1, 2}, false, false},
			{"handler", alphaExt, []int{1, 2}, true, false},
			{"handler", alphaExtMid, []int{3}, true, false},
			{"eval", alphaAgg, []int{1, 2, 3, 4, 5, 6}, false, false},
			{"spell", alphaFull, []int{1, 2, 3}, false, false},
			{"spell", alphaExt, []int{1, 2}, false, false},
			{"exchange", alphaX, []int{1, 2, 3, 4}, false, false},
			{"exchange", alphaXMid, []int{5}, false, false},
			{"exchange", alphaFull, []int{1, 2, 3}, false, false},
			{"exchange", alphaExt, []int{1, 2, 3}, false, false},
		}
		families = []family{prioValues("prio_values", extremePrios, 4, true), prioValues("prio_values_probes", extremePrios, 5, false), prioWide(8), fifoWide(12), prioEntries(5), headerNames()}
		entryRejectWidth = 4
		bounds = "evaluation: all trees with <=4 nodes over the full alphabet, all trees with exactly 5 nodes over the mid alphabet, exactly 6 nodes over the tiny alphabet (each reduced alphabet is a subset of the next larger one, so their smaller sizes are already covered); rejection/reconfiguration through the handler: full alphabet <=3 nodes, small alphabet 4 nodes; all document prefixes for <=2 nodes" +
			"; audit extensions: evaluation of all trees with <=3 nodes over the ext alphabet and exactly 4 nodes over the extmid alphabet (remaining registered filters), flat priority groups with <=4 children (probe or erroring leaf) and <=5 children (probes) over 8 extreme int64 priorities, flat priority groups of width <=8 over 3 levels, flat fifo groups of width <=12; handler: ext alphabet <=2 nodes, extmid 3 nodes; scope spellings (null for absent, duplicated entries) at every node of full <=3 and ext <=2; error multisets (erroring leaves with one common text in flat and nested halting / aggregating fifo and priority groups, agg alphabet) <=6 nodes; two-valued condition sources (match first / later / none) on full <=3 and ext <=3; priority entry spellings (key omitted, null) on flat groups of width 2..5, entries without modifier on width 2..4; the extended rejection variants and the non-POST / failing-body requests on full <=2, mid 3, ext <=2, extmid 3; prefixes of ext documents with <=2 nodes" +
			"; round 6: exchanges (request pass, then response pass on a response whose Request is that same request object) for every truth assignment, on all trees with <=4 nodes over the xchg alphabet (filters on the exchange's request x leaves that rewrite URL path / query / port / a request header), exactly 5 nodes over xchgmid, and on full <=3 and ext <=3; header-named conditions: header.Filter / header.RegexFilter over {ordinary, Host, Content-Length, Transfer-Encoding} x 2 spellings x 2 values x 5 scopes x probe scopes, alone and after a header.Modifier of that header, on wire-parsed requests and responses x 3 framings x ordinary-header truth"
	} else {
		phases = []phase{
			{"eval", alphaFull, []int{1, 2, 3}, false, true},
			{"eval", alphaMid, []int{4}, false, false},
			{"eval", alphaSmall, []int{5}, false, false},
			{"prefix", alphaFull, []int{1, 2}, false, false},
			{"handler", alphaFull, []int{1, 2}, true, false},
			{"handler", alphaMid, []int{3}, false, false},
			{"eval", alphaExt, []int{1, 2, 3}, false, true},
			{"handler", alphaExt, []int{1}, true, false},
			{"handler", alphaExtMid, []int{2}, true, false},
			{"eval", alphaAgg, []int{1, 2, 3, 4, 5}, false, false},
			{"spell", alphaFull, []int{1, 2}, false, false},
			{"spell", alphaMid, []int{3}, false, false},
			{"exchange", alphaX, []int{1, 2, 3}, false, false},
			{"exchange", alphaXMid, []int{4}, false, false},
			{"exchange", alphaFull, []int{1, 2, 3}, false, false},
		}
		families = []family{prioValues("prio_values", extremePrios, 3, true), prioWide(6), fifoWide(9), prioEntries(4), headerNames()}
		entryRejectWidth = 3
		bounds = "evaluation: all trees with <=3 nodes over the full alphabet, exactly 4 nodes over the mid alphabet and exactly 5 nodes over the small alphabet (each reduced alphabet is a subset of the next larger one); rejection/reconfiguration through the handler: full alphabet <=2 nodes, mid alphabet 3 nodes; all document prefixes for <=2 nodes" +
			"; audit extensions: evaluation of all trees with <=3 nodes over the ext alphabet (remaining registered filters), flat priority groups with <=3 children over 8 extreme int64 priorities, flat priority groups of width <=6 over 3 levels, flat fifo groups of width <=9; handler: ext alphabet 1 node, extmid 2 nodes; scope spellings (null for absent, duplicated entries) at every node of full <=2 and mid 3; error multisets (erroring leaves with one common text in flat and nested halting / aggregating fifo and priority groups, agg alphabet) <=5 nodes; two-valued condition sources (match first / later / none) on full <=3 and ext <=3; priority entry spellings (key omitted, null) on flat groups of width 2..4, entries without modifier on width 2..3; the extended rejection variants and the non-POST / failing-body requests on full <=2, ext 1, extmid 2" +
			"; round 6: exchanges (request pass, then response pass on a response whose Request is that same request object) for every truth assignment, on all trees with <=3 nodes over the xchg alphabet (filters on the exchange's request x leaves that rewrite URL path / query / port / a request header), exactly 4 nodes over xchgmid, and on full <=3; header-named conditions: header.Filter / header.RegexFilter over {ordinary, Host, Content-Length, Transfer-Encoding} x 2 spellings x 2 values x 5 scopes x probe scopes, alone and after a header.Modifier of that header, on wire-parsed requests and responses x 3 framings x ordinary-header truth"
	}
	total := &counters{behaviours: map[uint64]struct{}{}, perPhase: map[string]int64{}}
	var mu sync.Mutex
	genCounts := map[string]int64{}
	// development aid (mutant triage): VERIF_C12_PHASES=<regexp> runs only the phases / flat families whose key
	// ("eval:full", "handler:ext", "eval:flat:prio_wide", ...) matches; the run is then marked incomplete
	only := func(key string) bool { return true }
	if pat := os.Getenv("VERIF_C12_PHASES"); pat != "" {
		re := regexp.MustCompile(pat)
		only = re.MatchString
		rep.Incomplete = "restricted to phases matching " + pat
	}
	for _, p := range phases {
		if !only(p.part + ":" + p.a.name) {
			continue
		}
		t0, c0 := time.Now(), cpuSeconds()
		runPhase(p, total, &mu, genCounts)
		phaseCost = append(phaseCost, fmt.Sprintf("%s:%s:%v wall=%.1fs cpu=%.1fs", p.part, p.a.name, p.sizes, time.Since(t0).Seconds(), cpuSeconds()-c0))
	}
	for _, fam := range families {
		if !only("eval:flat:" + fam.name) {
			continue
		}
		t0, c0 := time.Now(), cpuSeconds()
		runFamily(fam, total, &mu, genCounts)
		phaseCost = append(phaseCost, fmt.Sprintf("eval:flat:%s wall=%.1fs cpu=%.1fs", fam.name, time.Since(t0).Seconds(), cpuSeconds()-c0))
	}
	if only("handler:flat:prio_entry_rejects") {
		prioEntryRejects(entryRejectWidth, total)
	}
	if only("eval:flat:cond_spellings") {
		t0, c0 := time.Now(), cpuSeconds()
		condSpellings(total, genCounts)
		phaseCost = append(phaseCost, fmt.Sprintf("eval:flat:cond_spellings wall=%.1fs cpu=%.1fs", time.Since(t0).Seconds(), cpuSeconds()-c0))
	}
	rep.Coverage["phase_cost"] = phaseCost
	flushAccepted()
	if total.unclassified > 0 && rep.Incomplete == "" {
		rep.Incomplete = fmt.Sprintf("more than %d failing trees: %d further failing trees were counted but not minimised/classified", maxMinimised, total.unclassified)
	}
	var handlerTrees int64
	for k, v := range total.perPhase {
		if strings.HasPrefix(k, "handler:") {
			handlerTrees += v
		}
	}
	rep.Coverage["states"] = total.trees
	rep.Coverage["distinct_behaviours_full_le3"] = len(total.behaviours)
	rep.Coverage["transitions"] = total.calls + total.posts + total.parses
	rep.Coverage["modifier_calls"] = total.calls
	rep.Coverage["handler_posts"] = total.posts
	rep.Coverage["traces_validated_against_impl"] = total.trees + handlerTrees
	rep.Coverage["evaluations"] = total.evals + total.rejects + total.prefixes
	rep.Coverage["message_evaluations"] = total.evals
	rep.Coverage["rejection_cases"] = total.rejects
	rep.Coverage["prefix_cases"] = total.prefixes
	rep.Coverage["handler_histories"] = handlerTrees
	rep.Coverage["distinct_nontrivial"] = total.nontrivial
	rep.Coverage["trees_per_phase"] = genCounts
	rep.Coverage["rule"] = "every tree with exactly n nodes of the stated alphabet is generated (generator count cross-checked against a closed-form count), rendered to JSON, parsed by parse.FromJSON and run on both message kinds x every truth assignment of the filter conditions occurring in it; a tree is non-trivial when it has >=2 nodes, its expected outcome is non-empty for some message and differs between messages (kind or condition dependent); exchange phases run request pass and response pass on one exchange per truth assignment; the header_names family runs on messages parsed from wire text"
	rep.Coverage["exhaustive"] = true
	rep.Coverage["bounds"] = bounds + "; round 8: condition spellings - for every condition field of method/url/header/querystring/cookie/port filters the table of (configured spelling, message spelling) pairs decided by the documentation (counts in coverage.cond_spellings), each as filter(modifier[,else]) on a wire-parsed request and response"
	alphas := []string{alphaFull.describe, alphaMid.describe, alphaSmall.describe, alphaTiny.describe, alphaExt.describe, alphaExtMid.describe, alphaAgg.describe, alphaX.describe, alphaXMid.describe}
	for _, fam := range families {
		alphas = append(alphas, fam.describe)
	}
	alphas = append(alphas, spellDescribe())
	rep.Coverage["alphabets"] = alphas
	rep.Coverage["rejection_variants"] = "per node: unknown name, 3 unsupported scope lists, 4 unimplemented-scope leaves, 5 syntactic breakages; extended (see bounds): an unknown / a second known modifier next to the node's own key in both orders, {}, 5-6 JSON values of the wrong type in place of the node, 6 near-miss scope strings, 5 scope values of the wrong type, 3 aggregateErrors and 5 priority values of the wrong type; per accepted configuration (extended): PUT/DELETE/PATCH/HEAD/OPTIONS carrying a valid configuration and POST bodies whose reader fails after 0, 1, half, all but one and all bytes"
	rep.Assumptions = []string{
		"an absent scope means every message kind the node type implements; \"scope\":[] names no kind, so the node never acts",
		"for a response, the url, querystring and method conditions refer to the request of the exchange, the header and cookie conditions to the response's own header / Set-Cookie",
		"url.RegexFilter and port.Filter conditions refer to the URL of the (exchange's) request; header.RegexFilter's condition refers to the header of the exchange's REQUEST for requests and responses alike (its documentation says so); header.RegexFilter and port.Filter take no else branch (none is generated for them)",
		"\"scope\":null means the same as an absent scope; a scope list that repeats a kind names that kind once",
		"a priority group entry without a \"priority\" key, or with \"priority\":null, has priority 0; an entry that names no modifier makes the configuration malformed",
		"where a condition's source is multi-valued the condition holds iff any value matches, for the filters whose documentation says so (querystring.Filter: any value of the parameter, or mere presence when only a name is configured; header.Filter: any header line equal to the value; cookie.Filter: any cookie of that name and value); comma lists inside one header line, repeated lines for header.RegexFilter and empty configured values of header/cookie filters are not generated (documentation silent)",
		"a node object names exactly one modifier (the single-key rule of parse.FromJSON): two keys, no key, or a JSON value that is not an object count as malformed; scope names are exactly the lower-case strings \"request\" and \"response\"; a priority is a JSON integer in the int64 range; aggregateErrors is a JSON boolean",
		"a request to the configuration endpoint that is answered with a non-2xx status is a rejected reconfiguration (nothing may change); one answered 2xx must put the configuration it carries fully in force; a POST whose body could not be read to the end can never be accepted",
		"errors are identified by their text (the erroring leaf's text carries its node id; the same-text erroring leaf returns one fixed text from every instance); a MultiError is read through Errors(), nested ones recursively; error MULTISETS are compared (count per text), order is not",
		"exchanges (round 6): the response pass is run on a response whose Request field is the very request object the request pass modified (as martian.Proxy does); a condition that refers to the exchange's request (url.Filter, url.RegexFilter, querystring.Filter, port.Filter, method.Filter, header.RegexFilter) is judged on that request as it is when the response is evaluated, i.e. after the rewriting leaves of the request pass; the response pass runs even when the request pass returned an error (the proxy logs it and carries on)",
		"header-named conditions (round 6): a message has the header lines of its wire form - Host, Content-Length and Transfer-Encoding included although net/http keeps them in struct fields - and, after header.Modifier name:value ran on it, exactly the value given for that name; header names are case-insensitive; a response has no Host header; header.RegexFilter refers to the header of the exchange's request; \"Content-Length: 0\", a message with both framing headers and transfer codings other than chunked (net/http refuses them) are not generated",
		"condition spellings (round 8): method names match regardless of letter case, whichever side is configured (method.Filter doc + martian's own test table); url.Filter's path is a url.URL.Path (decoded) and its query a url.URL.RawQuery (the encoded segment, compared as a whole), its scheme is compared with the lower-case scheme of the request URL, a leading \"*.\" label of its host is a wildcard for one label; header names are case-insensitive and header values literal field values without surrounding whitespace; a query parameter's name and value are the decoded ones; a cookie's value is the literal text after the first '=' of its pair; the port of a URL that names none is the default port of its scheme (80/443), and the colons inside a bracketed IPv6 literal are not a port separator; pairs the documentation does not decide (letter case of hosts, paths, values, parameter and cookie names; %2F/%2B/%3D in paths; '+' for a space in queries; quoted or non-ASCII cookie values; an upper-case configured scheme; ports with leading zeros) are not generated",
		"leaf behaviour (header append on X-Trace/X-Cond, Content-Length and Host special cases, url.Modifier, status.Modifier) is taken as given; the property under test is the composition",
		"rejection cases: unknown names, scope strings outside {request,response}, scopes a node type does not implement, syntactically invalid JSON and (audit extension) the wrong-type / two-key variants listed under rejection_variants; wrong types of the filters' own condition fields and \"else\":null are not examined",
	}
	rep.Finish()
}
