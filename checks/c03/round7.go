package main

// Round 7 additions.
//
// (1) downstream-proxy route: the answer of a downstream proxy to a forwarded CONNECT is a response of an
// "origin" in the sense of the statement. The earlier `downstream` family judged only the status line once the
// head was complete; here every framing of a refusal (Content-Length, Content-Length + Connection: close,
// chunked, chunked with trailer, close-delimited) and a 2xx followed by early tunnel bytes is cut at EVERY
// offset and what the client receives is judged against the statement: the complete answer, or a response
// that is detectably incomplete followed by connection close.
//
// (2) HTTP/2 path of an intercepted connection: see h2relay.go.

import (
	"bytes"
	"fmt"
	"strings"

	"verif/checks/h1harness"
)

const refusalBody100 = "0123456789abcdefghijklmnopqrstuvwxyzABCDEFGHIJKLMNOPQRSTUVWXYZ-_0123456789abcdefghijklmnopqrstuvwxyz" // 100 bytes

var downstreamScriptsR7 = []script{
	mkScript("r7_407_cl100", "HTTP/1.1 407 Proxy Authentication Required\r\nProxy-Authenticate: Basic realm=\"ds\"\r\nContent-Type: text/plain\r\nContent-Length: 100\r\n\r\n", refusalBody100, refusalBody100, false, false, 407),
	mkScript("r7_403_cl_close", "HTTP/1.1 403 Forbidden\r\nContent-Length: 26\r\nConnection: close\r\n\r\n", alpha26, alpha26, false, true, 403),
	mkScript("r7_403_chunked", "HTTP/1.1 403 Forbidden\r\nTransfer-Encoding: chunked\r\n\r\n", "5\r\nhello\r\n7\r\n, world\r\n0\r\n\r\n", "hello, world", false, false, 403),
	mkScript("r7_503_chunked_trailer", "HTTP/1.1 503 Service Unavailable\r\nTransfer-Encoding: chunked\r\nTrailer: X-Sum\r\n\r\n", "3\r\nabc\r\n4\r\ndefg\r\n0\r\nX-Sum: 7\r\n\r\n", "abcdefg", false, false, 503),
	mkScript("r7_504_close_delimited", "HTTP/1.1 504 Gateway Timeout\r\nContent-Type: text/plain\r\n\r\n", "0123456789", "0123456789", true, true, 504),
	mkScript("r7_200_early_tunnel_bytes", "HTTP/1.1 200 Connection established\r\n\r\n", "EARLY-TUNNEL-BYTES", "EARLY-TUNNEL-BYTES", true, false, 200),
	mkScript("r7_200_cl_ignored", "HTTP/1.1 200 OK\r\nContent-Length: 5\r\n\r\n", "early", "early", true, false, 200),
}

// thorough only: a refusal body beyond one 4096-byte bufio buffer
func downstreamScriptsR7Big() script {
	big := strings.Repeat(alpha26, 200)
	return mkScript("r7_407_cl5200", fmt.Sprintf("HTTP/1.1 407 Proxy Authentication Required\r\nContent-Length: %d\r\n\r\n", len(big)), big, big, false, false, 407)
}

func init() {
	downstreamScriptsR7 = append(downstreamScriptsR7, downstreamScriptsR7Big())
}

func isR7Downstream(name string) bool { return strings.HasPrefix(name, "r7_") }

func round7Scenarios(tier string, add func(Scenario)) {
	for _, ds := range downstreamScriptsR7 {
		if ds.name == "r7_407_cl5200" && tier != "thorough" {
			continue
		}
		for k := 0; k <= len(ds.wire); k++ {
			add(Scenario{Kind: "downstream", Script: ds.name, K: k, Method: "CONNECT", Proto: "1.1"})
			if tier == "thorough" && k < ds.headLen {
				add(Scenario{Kind: "downstream", Script: ds.name, K: k, Method: "CONNECT", Proto: "1.1", Pipe: true})
			}
		}
	}
	h2RelayScenarios(tier, add)
}

// downstreamBodyVerdict: the downstream proxy sent its complete response head and K-headLen bytes behind it.
func downstreamBodyVerdict(s *Scenario, ds script, cl *h1harness.Client, out *runOut, report func(sym, detail string)) {
	cut := s.K < len(ds.wire)
	if ds.status/100 == 2 {
		// 2xx: the tunnel is up; what follows the head is tunnel payload. The client must receive the head, then
		// exactly the bytes the downstream proxy sent, then (cut: the end of the stream; complete: what the far
		// end answers to a request sent through the tunnel).
		lines, end := cl.ReadHead()
		status := ""
		if end == h1harness.EndOK && len(lines) > 0 {
			if f := strings.Fields(lines[0]); len(f) >= 2 {
				status = f[1]
			}
		}
		out.outcome = fmt.Sprintf("connect=%s/%s", status, short(end))
		if end == h1harness.EndHang || end == h1harness.EndStalled {
			report("no_response", "the CONNECT is never answered: "+end)
			return
		}
		if status != "200" {
			report("resp_mismatch", fmt.Sprintf("the downstream proxy answered %d, the client got %q (%s)", ds.status, lines, end))
			return
		}
		want := append([]byte{}, ds.wire[ds.headLen:s.K]...)
		if !cut {
			cl.Send([]byte("GET /second HTTP/1.1\r\nHost: " + originHost + "\r\n\r\n"))
			want = append(want, secondResp...)
		}
		cl.CloseWrite()
		got, e := cl.Drain()
		out.outcome += fmt.Sprintf(" tunnel=%d/%s", len(got), short(e))
		switch {
		case e == h1harness.EndHang:
			report("hang", "the tunnel neither delivers nor ends within the hang deadline")
		case !bytes.Equal(got, want):
			report("tunnel_bytes_mismatch", fmt.Sprintf("downstream proxy sent %q behind its 2xx head; through the tunnel the client received %q, want %q", trunc(ds.wire[ds.headLen:s.K], 40), trunc(got, 80), trunc(want, 80)))
		}
		return
	}
	r := cl.ReadResponse("GET")
	out.outcome = fmt.Sprintf("refusal=%d/%s/%s/%s", r.Status, r.Framing, short(r.HeadErr), short(r.BodyEnd))
	switch {
	case r.HeadErr == h1harness.EndHang || r.HeadErr == h1harness.EndStalled:
		report("no_response", "the CONNECT is never answered: "+r.HeadErr)
		return
	case r.HeadErr != "":
		report("resp_malformed", fmt.Sprintf("the downstream proxy sent a complete head (offset %d of %d) but the client cannot parse a response head: %s", s.K, len(ds.wire), r.HeadErr))
		return
	case r.Status != ds.status:
		report("resp_mismatch", fmt.Sprintf("the downstream proxy answered %d, the client got %d", ds.status, r.Status))
		return
	}
	switch {
	case !cut:
		// the complete answer must arrive complete
		if r.BodyEnd != h1harness.EndOK || !bytes.Equal(r.Body, ds.body) {
			report("complete_refusal_not_relayed", fmt.Sprintf("the downstream proxy's complete %d answer (body %q) reached the client as body %q ending %s", ds.status, trunc(ds.body, 40), trunc(r.Body, 40), r.BodyEnd))
		}
	case ds.closeDelimited && r.BodyEnd == h1harness.EndOK && bytes.Equal(r.Body, ds.wire[ds.headLen:s.K]):
		// a close-delimited answer cut short is, on the wire, a complete shorter answer: nothing to detect
	case r.BodyEnd == h1harness.EndOK:
		report("truncation_not_detectable", fmt.Sprintf("the downstream proxy closed at offset %d of %d of its %s-framed %d answer; the client parsed a complete %s-framed response with body %q (full body %q)", s.K, len(ds.wire), framingOf(ds), ds.status, r.Framing, trunc(r.Body, 40), trunc(ds.body, 40)))
	case r.BodyEnd == h1harness.EndUnexpEOF:
		if !bytes.HasPrefix(ds.body, r.Body) {
			report("resp_body_mismatch", fmt.Sprintf("partial body %q is not a prefix of the downstream proxy's body", trunc(r.Body, 60)))
		}
	case r.BodyEnd == h1harness.EndStalled:
		report("incomplete_response_conn_left_open", fmt.Sprintf("the downstream proxy closed at offset %d of %d (in the body); the client got %d of %d body bytes and the connection stays open", s.K, len(ds.wire), len(r.Body), len(ds.body)))
		return
	default:
		report("resp_malformed", "body of the relayed refusal: "+r.BodyEnd)
	}
	if cut {
		// ... followed by connection close, and nothing else
		extra, e := cl.Drain()
		switch {
		case e == h1harness.EndStalled || e == h1harness.EndHang:
			report("incomplete_response_conn_left_open", fmt.Sprintf("after the incomplete %d answer the proxy keeps the client connection open (%s)", ds.status, e))
		case len(extra) > 0 && r.BodyEnd == h1harness.EndOK:
			report("later_response_bytes_in_earlier_response", fmt.Sprintf("bytes behind the answer: %q", trunc(extra, 60)))
		}
	}
}

func framingOf(ds script) string {
	h := strings.ToLower(string(ds.wire[:ds.headLen]))
	switch {
	case strings.Contains(h, "transfer-encoding: chunked"):
		return "chunked"
	case strings.Contains(h, "content-length:"):
		return "content-length"
	}
	return "close"
}
