package main

// Round 8b addition: origin answers whose body is NOT what the declared Content-Encoding says.
//
// "Whatever an origin does ... or send bytes that are not HTTP ... No such failure ... terminates the proxy
// process." The truncation family has a configuration dimension (no modifier / har.Logger / martianlog.Logger /
// marbl), but every body its origin sends satisfies the headers that describe it. A body-logging modifier that
// *decodes* bodies (har.Logger with body logging, martianlog.Logger with SetDecode(true)) runs code on the
// origin's bytes that is reached only when they contradict their Content-Encoding: the "cannot decode, log as
// received" fallbacks. Here the origin's response is perfectly framed HTTP; its payload lies about its coding.
//
// Space (kind `coding`), fully crossed:
//   declared Content-Encoding  {gzip, deflate, br, x-unknown}
//   body bytes                 {plain text, a gzip stream cut in half, a gzip stream with a wrong CRC-32,
//                               nothing at all, a correct gzip stream (matches only `gzip`: the control)}
//   framing                    {Content-Length, chunked, close-delimited}
//   configuration              {no modifier, har.NewLogger() (logs bodies), martianlog.NewLogger(),
//                               martianlog.NewLogger()+SetDecode(true), marbl.NewModifier}
//   request 1                  {GET, HEAD (the answer is the head alone: declared coding, no body)}
//                              thorough: + POST, x {fresh, reused upstream connection}
//   thorough: the same answers cut by the origin at every offset of their body (origin closes).
// Each scenario continues with a well-formed request on the same client connection.
//
// Oracle (statement; the same code path as the truncation family): the origin's answer is complete and
// well-formed, so the client must receive it unchanged (status, body bytes exactly as sent - the proxy is not
// asked to decode anything) or a well-formed 502 with a Warning seen by the modifier; when the origin cut the
// answer, the complete/shorter prefix rules of the truncation family apply (detectably incomplete + close). After
// a complete keep-alive response or a 502 the next request on the same connection must be served. The proxy
// process must survive (worker subprocess attribution, signature `<class>+modifier:<m>:crash`).

import (
	"bytes"
	"compress/gzip"
	"fmt"
	"strings"
	"sync"
)

const codingPlain = "this is plain text, not a compressed stream"

var codingDeclared = []string{"gzip", "deflate", "br", "x-unknown"}
var codingBodies = []string{"plain", "gzip_truncated", "gzip_badcrc", "empty", "gzip_valid"}
var codingFramings = []string{"cl", "chunked", "close"}
var codingMods = []string{"", "har", "martianlog", "martianlog_decode", "marbl"}

func codingBody(shape string) []byte {
	var zb bytes.Buffer
	zw := gzip.NewWriter(&zb)
	zw.Write([]byte(codingPlain + " - " + codingPlain))
	zw.Close()
	z := zb.Bytes()
	switch shape {
	case "plain":
		return []byte(codingPlain)
	case "gzip_truncated":
		return append([]byte{}, z[:len(z)/2]...)
	case "gzip_badcrc":
		b := append([]byte{}, z...)
		b[len(b)-8] ^= 0xff // first byte of the CRC-32 in the gzip trailer
		return b
	case "empty":
		return nil
	}
	return z // gzip_valid
}

func codingScriptName(coding, body, framing string) string {
	return "ce_" + coding + "/" + body + "/" + framing
}

var codingOnce sync.Once
var codingList []script
var codingIndex map[string]int

func codingScripts() []script {
	codingOnce.Do(func() {
		codingIndex = map[string]int{}
		for _, coding := range codingDeclared {
			for _, shape := range codingBodies {
				body := codingBody(shape)
				for _, fr := range codingFramings {
					head := "HTTP/1.1 200 OK\r\nContent-Type: text/plain\r\nContent-Encoding: " + coding + "\r\n"
					var wire []byte
					closeDelimited := false
					switch fr {
					case "cl":
						head += fmt.Sprintf("Content-Length: %d\r\n\r\n", len(body))
						wire = body
					case "chunked":
						head += "Transfer-Encoding: chunked\r\n\r\n"
						var w bytes.Buffer
						if n := len(body); n > 0 { // two chunks (one for a single byte)
							cut := n / 2
							if cut > 0 {
								fmt.Fprintf(&w, "%x\r\n%s\r\n", cut, body[:cut])
							}
							fmt.Fprintf(&w, "%x\r\n%s\r\n", n-cut, body[cut:])
						}
						w.WriteString("0\r\n\r\n")
						wire = w.Bytes()
					case "close":
						head += "\r\n"
						wire = body
						closeDelimited = true
					}
					sc := script{name: codingScriptName(coding, shape, fr), wire: append([]byte(head), wire...), headLen: len(head), status: 200, body: body, closeDelimited: closeDelimited, closes: closeDelimited}
					codingIndex[sc.name] = len(codingList)
					codingList = append(codingList, sc)
				}
			}
		}
	})
	return codingList
}

func lookupCodingScript(name string) (script, bool) {
	list := codingScripts()
	i, ok := codingIndex[name]
	if !ok {
		return script{}, false
	}
	return list[i], true
}

// codingMatches: does the body satisfy the declared coding? (only a correct gzip stream declared as gzip does)
func codingMatches(name string) bool {
	return strings.HasPrefix(name, "ce_gzip/gzip_valid/")
}

// codingClass: scenario class of a `coding` scenario (without the modifier suffix).
func codingClass(s *Scenario, wireLen int) string {
	c := "origin_body_not_in_declared_content_coding"
	if codingMatches(s.Script) {
		c = "origin_body_in_declared_content_coding"
	}
	if s.K < wireLen {
		c += "+truncated"
	}
	return c
}

// codingCrashClass: the class used when the scenario terminated its worker process.
func codingCrashClass(s *Scenario) string {
	sc, _ := lookupCodingScript(s.Script)
	n := len(sc.wire)
	if s.Method == "HEAD" {
		n = sc.headLen
	}
	c := codingClass(s, n)
	if s.Mod != "" {
		c += "+modifier:" + s.Mod
	}
	return c
}

func round8bScenarios(tier string, add func(Scenario)) {
	thorough := tier == "thorough"
	methods, reuse := []string{"GET", "HEAD"}, []bool{false}
	if thorough {
		methods, reuse = []string{"GET", "HEAD", "POST"}, []bool{false, true}
	}
	for _, sc := range codingScripts() {
		for _, mod := range codingMods {
			for _, m := range methods {
				for _, reused := range reuse {
					k := len(sc.wire)
					if m == "HEAD" {
						k = sc.headLen
					}
					add(Scenario{Kind: "coding", Script: sc.name, K: k, Reused: reused, Method: m, Proto: "1.1", Mod: mod})
				}
			}
			if thorough {
				// the origin closes inside the (mislabelled) body
				for k := sc.headLen; k < len(sc.wire); k++ {
					add(Scenario{Kind: "coding", Script: sc.name, K: k, Method: "GET", Proto: "1.1", Mod: mod})
				}
			}
		}
	}
}
