package main

// Round 7: byte sequences on the HTTP/2 path of an intercepted (MITM) connection.
//
// The proxy is configured with SetMITM and an h2.Config (all hosts allowed, RootCAs = the test CA); the client
// opens a CONNECT tunnel to a scripted HTTP/2 origin (TLS on a loopback port, certificate of the test CA),
// negotiates ALPN h2 inside the tunnel and speaks raw frames; the origin answers with raw frames as well. One
// header block of the exchange is the block under test. It sits at one of five positions (request HEADERS,
// request trailers - both sent by the client; response HEADERS, response trailers, PUSH_PROMISE - sent by the
// origin) and is enumerated over
//   * every sequence of at most 2 (quick) / 3 (thorough) HPACK atoms over {dynamic table size update to 0, size
//     update to 4096, literal field without indexing, literal field with indexing, indexed static field,
//     indexed dynamic field, truncated literal}, bare or (header positions) with the mandatory pseudo-header
//     fields - this contains the empty-after-decoding blocks (size updates only), blocks that are invalid HPACK
//     and ordinary ones;
//   * the way the block is cut into a HEADERS/PUSH_PROMISE fragment and a CONTINUATION fragment (every cut
//     offset incl. 0 and len; quick: 4 offsets);
//   * blocks around the frame size constant of the relay (16384, 2*16384), with and without priority
//     information in the HEADERS frame;
// and the origin's complete answer (HEADERS, DATA, trailers) is cut at every byte offset (origin_cut).
//
// Oracle, from the statement: the proxy process survives (worker subprocesses attribute a crash to its
// scenario) and still serves a fresh connection; nothing hangs: once the client has sent a complete request on
// a stream it sees the end of that stream, a stream reset, a GOAWAY or the end of the connection within the
// hang deadline; DATA delivered on a stream is a prefix of what the origin sent on THAT stream (no bytes of a
// later response in an earlier one); an answer the origin did not finish (origin_cut before the end of its
// last frame) never reaches the client as a complete one (END_STREAM), i.e. it stays detectably incomplete.

import (
	"bytes"
	"crypto/tls"
	"crypto/x509"
	"fmt"
	"io"
	"net"
	"os"
	"strings"
	"sync"
	"time"

	"github.com/google/martian/v3/h2"
	"github.com/google/martian/v3/mitm"
	"golang.org/x/net/http2"
	"golang.org/x/net/http2/hpack"

	"verif/checks/h1harness"
)

var h2Positions = []string{"req_headers", "req_trailers", "res_headers", "res_trailers", "push_promise"}
var h2Atoms = []string{"U0", "U4", "F", "I", "S", "D", "X"}

const h2Authority = "origin.test"
const h2FirstBody = "first-body-of-stream-1"
const h2FrameSize = 16384

func appendVarInt(dst []byte, prefixBits uint, first byte, v uint64) []byte {
	max := uint64(1)<<prefixBits - 1
	if v < max {
		return append(dst, first|byte(v))
	}
	dst = append(dst, first|byte(max))
	v -= max
	for v >= 128 {
		dst = append(dst, byte(v&0x7f)|0x80)
		v >>= 7
	}
	return append(dst, byte(v))
}

// litField: literal header field without indexing, new name, no Huffman coding.
func litField(name, value string) []byte {
	b := []byte{0x00}
	b = appendVarInt(b, 7, 0, uint64(len(name)))
	b = append(b, name...)
	b = appendVarInt(b, 7, 0, uint64(len(value)))
	return append(b, value...)
}

func atomBytes(a string) []byte {
	switch a {
	case "U0":
		return []byte{0x20}
	case "U4":
		return []byte{0x3f, 0xe1, 0x1f}
	case "F":
		return litField("x-f", "1")
	case "I":
		return append([]byte{0x40}, litField("x-i", "2")[1:]...)
	case "S":
		return []byte{0x90} // static table entry 16: accept-encoding: gzip, deflate
	case "D":
		return []byte{0xbe} // index 62: the newest entry of the dynamic table
	case "X":
		return []byte{0x40, 0x05, 'a'} // literal whose name is announced with 5 bytes and has 1
	}
	return nil
}

func mandatoryFields(pos string) []byte {
	var b []byte
	switch pos {
	case "req_headers":
		for _, f := range [][2]string{{":method", "POST"}, {":scheme", "https"}, {":authority", h2Authority}, {":path", "/first"}, {"content-type", "text/plain"}} {
			b = append(b, litField(f[0], f[1])...)
		}
	case "push_promise":
		for _, f := range [][2]string{{":method", "GET"}, {":scheme", "https"}, {":authority", h2Authority}, {":path", "/pushed"}} {
			b = append(b, litField(f[0], f[1])...)
		}
	case "res_headers":
		b = append(litField(":status", "200"), litField("content-type", "text/plain")...)
	}
	return b
}

func splitAtoms(s string) []string {
	if s == "" {
		return nil
	}
	return strings.Split(s, ",")
}

// h2Block returns the header block under test: the leading size updates, then (Std) the mandatory fields of
// the position, then the remaining atoms, then (Big) one field with a value of Big bytes.
func h2Block(s *Scenario) []byte {
	atoms := splitAtoms(s.Atoms)
	i := 0
	var b []byte
	for i < len(atoms) && (atoms[i] == "U0" || atoms[i] == "U4") {
		b = append(b, atomBytes(atoms[i])...)
		i++
	}
	if s.Std {
		b = append(b, mandatoryFields(s.Follow)...)
	}
	for ; i < len(atoms); i++ {
		b = append(b, atomBytes(atoms[i])...)
	}
	if s.Big > 0 {
		b = append(b, litField("x-big", strings.Repeat("#", s.Big))...) // '#': 12-bit Huffman code, so never Huffman coded
	}
	return b
}

// h2BlockModel: RFC 7541 - is the block valid HPACK and how many fields does it decode to? (Size updates only
// at the start of a block; an index must name an existing entry; the block must end at a field boundary. The
// dynamic table of the direction is empty before the block: every other block of the session uses literals
// without indexing.)
func h2BlockModel(s *Scenario) (valid bool, fields int) {
	atoms := splitAtoms(s.Atoms)
	i := 0
	for i < len(atoms) && (atoms[i] == "U0" || atoms[i] == "U4") {
		i++
	}
	if s.Std {
		switch s.Follow {
		case "req_headers":
			fields += 5
		case "push_promise":
			fields += 4
		case "res_headers":
			fields += 2
		}
	}
	dyn := 0
	for ; i < len(atoms); i++ {
		switch atoms[i] {
		case "U0", "U4", "X":
			return false, 0
		case "D":
			if dyn == 0 {
				return false, 0
			}
		case "I":
			dyn++
		}
		fields++
	}
	if s.Big > 0 {
		fields++
	}
	return true, fields
}

func h2Sender(pos string) string {
	if pos == "req_headers" || pos == "req_trailers" {
		return "client"
	}
	return "origin"
}

// h2RelayClass: scenario class of the signature.
func h2RelayClass(s *Scenario) string {
	if s.Follow == "origin_cut" {
		return "h2_relay+origin_closes_mid_response"
	}
	valid, fields := h2BlockModel(s)
	shape := "header_block"
	switch {
	case !valid:
		shape = "malformed_hpack_block"
	case fields == 0:
		shape = "fieldless_header_block"
	case s.Big > 0:
		shape = "header_block_at_frame_size_limit"
	case s.K >= 0:
		shape = "header_block_with_continuation"
	case !s.Std && s.Follow != "req_trailers" && s.Follow != "res_trailers":
		shape = "header_block_without_pseudo_fields"
	}
	return "h2_relay+" + h2Sender(s.Follow) + "_" + shape
}

func atomSequences(maxLen int) []string {
	out := []string{""}
	prev := []string{""}
	for l := 1; l <= maxLen; l++ {
		var next []string
		for _, p := range prev {
			for _, a := range h2Atoms {
				if p == "" {
					next = append(next, a)
				} else {
					next = append(next, p+","+a)
				}
			}
		}
		out = append(out, next...)
		prev = next
	}
	return out
}

func isTrailerPos(pos string) bool { return pos == "req_trailers" || pos == "res_trailers" }

func h2RelayScenarios(tier string, add func(Scenario)) {
	thorough := tier == "thorough"
	maxLen := 2
	if thorough {
		maxLen = 3
	}
	// A. atom sequences x position x {bare, with mandatory fields}
	for _, pos := range h2Positions {
		for _, std := range []bool{false, true} {
			if std && isTrailerPos(pos) {
				continue
			}
			ml := maxLen
			if thorough && !std && !isTrailerPos(pos) {
				ml = 2 // bare blocks at header positions lack the pseudo-header fields anyway
			}
			for _, seq := range atomSequences(ml) {
				add(Scenario{Kind: "mitm", Script: "h2_relay", Follow: pos, Atoms: seq, Std: std, K: -1})
			}
		}
	}
	// B. the block cut into HEADERS/PUSH_PROMISE + CONTINUATION at offset j
	for _, pos := range h2Positions {
		for _, seq := range atomSequences(1) {
			s := Scenario{Kind: "mitm", Script: "h2_relay", Follow: pos, Atoms: seq, Std: !isTrailerPos(pos)}
			n := len(h2Block(&s))
			for j := 0; j <= n; j++ {
				if !thorough && !(j == 0 || j == 1 || j == n-1 || j == n) {
					continue
				}
				s.K = j
				add(s)
			}
		}
	}
	// C. blocks around the relay's frame size constant
	for _, pos := range h2Positions {
		for _, prio := range []bool{false, true} {
			if prio && pos == "push_promise" {
				continue
			}
			for _, base := range []int{h2FrameSize, 2 * h2FrameSize} {
				s := Scenario{Kind: "mitm", Script: "h2_relay", Follow: pos, Std: !isTrailerPos(pos), Prio: prio, K: -1}
				overhead := len(h2Block(&s)) + len(litField("x-big", "")) + 2 // + 2: the value length takes 3 bytes
				lo, hi := base-overhead-8, base-overhead+8                    // sent block length in base-8 .. base+8
				if !isTrailerPos(pos) {
					if !thorough {
						continue
					}
					hi = base - overhead + 72 // re-encoding shortens the mandatory fields (static table, Huffman)
				}
				for l := lo; l <= hi; l++ {
					s.Big = l
					add(s)
				}
			}
		}
	}
	// D. the origin's complete answer (HEADERS, DATA, trailers) cut at every byte offset
	n := len(h2OriginAnswer(&Scenario{Follow: "origin_cut"}, 1))
	for k := 0; k <= n; k++ {
		add(Scenario{Kind: "mitm", Script: "h2_relay", Follow: "origin_cut", K: k})
	}
}

// ---------------------------------------------------------------------------------------------------
// TLS material: one CA per process

var h2CAOnce sync.Once
var h2ProxyCfg *mitm.Config
var h2OriginTLS *tls.Config
var h2CAErr error

func h2Material() (*mitm.Config, *tls.Config, error) {
	h2CAOnce.Do(func() {
		ca, priv, err := mitm.NewAuthority("c03.h2relay", "C03 Authority", time.Hour)
		if err != nil {
			h2CAErr = err
			return
		}
		roots := x509.NewCertPool()
		roots.AddCert(ca)
		omc, err := mitm.NewConfig(ca, priv)
		if err != nil {
			h2CAErr = err
			return
		}
		h2OriginTLS = omc.TLSForHost("127.0.0.1")
		h2OriginTLS.NextProtos = []string{"h2"}
		if h2ProxyCfg, h2CAErr = mitm.NewConfig(ca, priv); h2CAErr != nil {
			return
		}
		h2ProxyCfg.SetH2Config(&h2.Config{AllowedHostsFilter: func(string) bool { return true }, RootCAs: roots})
	})
	return h2ProxyCfg, h2OriginTLS, h2CAErr
}

// ---------------------------------------------------------------------------------------------------
// frames

// writeBlock writes a header block as HEADERS (or PUSH_PROMISE) + CONTINUATION frames: cut at `cut` if
// cut >= 0, and in any case so that no frame exceeds the default maximum frame size.
func writeBlock(fr *http2.Framer, stream uint32, promise uint32, block []byte, endStream, prio bool, cut int) error {
	first, rest := block, []byte(nil)
	if cut >= 0 && cut <= len(block) {
		first, rest = block[:cut], block[cut:]
	}
	max := h2FrameSize
	if prio {
		max -= 5
	}
	if promise != 0 {
		max -= 4
	}
	var frags [][]byte
	if len(first) > max {
		frags = append(frags, first[max:])
		first = first[:max]
	}
	if cut >= 0 || len(rest) > 0 {
		frags = append(frags, rest)
	}
	var conts [][]byte
	for _, f := range frags {
		for len(f) > h2FrameSize {
			conts = append(conts, f[:h2FrameSize])
			f = f[h2FrameSize:]
		}
		conts = append(conts, f)
	}
	var err error
	if promise != 0 {
		err = fr.WritePushPromise(http2.PushPromiseParam{StreamID: stream, PromiseID: promise, BlockFragment: first, EndHeaders: len(conts) == 0})
	} else {
		p := http2.HeadersFrameParam{StreamID: stream, BlockFragment: first, EndStream: endStream, EndHeaders: len(conts) == 0}
		if prio {
			p.Priority = http2.PriorityParam{StreamDep: 0, Weight: 200}
		}
		err = fr.WriteHeaders(p)
	}
	for i, c := range conts {
		if err != nil {
			return err
		}
		err = fr.WriteContinuation(stream, i == len(conts)-1, c)
	}
	return err
}

func stdResponseBlock() []byte {
	return append(litField(":status", "200"), litField("content-type", "text/plain")...)
}

// h2OriginAnswer: the bytes the origin sends once the request on `stream` is complete.
func h2OriginAnswer(s *Scenario, stream uint32) []byte {
	var buf bytes.Buffer
	fr := http2.NewFramer(&buf, nil)
	if stream != 1 {
		writeBlock(fr, stream, 0, stdResponseBlock(), false, false, -1)
		fr.WriteData(stream, true, []byte(marker))
		return buf.Bytes()
	}
	under := func(pos string) (block []byte, prio bool, cut int) {
		if s.Follow == pos {
			return h2Block(s), s.Prio, s.K
		}
		return nil, false, -1
	}
	if s.Follow == "push_promise" {
		b, _, cut := under("push_promise")
		writeBlock(fr, 1, 2, b, false, false, cut)
	}
	if b, prio, cut := under("res_headers"); s.Follow == "res_headers" {
		writeBlock(fr, 1, 0, b, false, prio, cut)
	} else {
		writeBlock(fr, 1, 0, stdResponseBlock(), false, false, -1)
	}
	switch s.Follow {
	case "res_trailers":
		fr.WriteData(1, false, []byte(h2FirstBody))
		b, prio, cut := under("res_trailers")
		writeBlock(fr, 1, 0, b, true, prio, cut)
	case "origin_cut":
		fr.WriteData(1, false, []byte(h2FirstBody))
		writeBlock(fr, 1, 0, litField("x-sum", "22"), true, false, -1)
	default:
		fr.WriteData(1, true, []byte(h2FirstBody))
	}
	if s.Follow == "push_promise" {
		writeBlock(fr, 2, 0, stdResponseBlock(), false, false, -1)
		fr.WriteData(2, true, []byte("pushed-body"))
	}
	return buf.Bytes()
}

// h2Origin: scripted HTTP/2 origin on a loopback port.
type h2Origin struct {
	l        net.Listener
	mu       sync.Mutex
	requests int // streams whose request arrived completely
	conns    []net.Conn
}

func startH2Origin(s *Scenario, tcfg *tls.Config) (*h2Origin, error) {
	l, err := net.Listen("tcp", "127.0.0.1:0")
	if err != nil {
		return nil, err
	}
	o := &h2Origin{l: l}
	go func() {
		for {
			c, err := l.Accept()
			if err != nil {
				return
			}
			o.mu.Lock()
			o.conns = append(o.conns, c)
			o.mu.Unlock()
			go o.serve(s, tls.Server(c, tcfg))
		}
	}()
	return o, nil
}

func (o *h2Origin) stop() {
	o.l.Close()
	o.mu.Lock()
	defer o.mu.Unlock()
	for _, c := range o.conns {
		c.Close()
	}
}

func (o *h2Origin) serve(s *Scenario, c *tls.Conn) {
	defer c.Close()
	c.SetDeadline(time.Now().Add(60 * time.Second))
	if err := c.Handshake(); err != nil {
		return
	}
	pre := make([]byte, len(h2Preface))
	if _, err := io.ReadFull(c, pre); err != nil || string(pre) != h2Preface {
		return
	}
	fr := http2.NewFramer(c, c) // used for writing only: the vendored framer rejects legal frames when reading (see readRawFrame)
	if fr.WriteSettings() != nil {
		return
	}
	ended := map[uint32]bool{} // END_STREAM seen on a HEADERS frame whose block is not finished yet
	answered := map[uint32]bool{}
	for {
		f, err := readRawFrame(c)
		if err != nil {
			return
		}
		var done uint32
		switch f.typ {
		case http2.FrameSettings:
			if f.flags&0x1 == 0 {
				fr.WriteSettingsAck()
			}
		case http2.FramePing:
			if f.flags&0x1 == 0 && len(f.payload) == 8 {
				var d [8]byte
				copy(d[:], f.payload)
				fr.WritePing(true, d)
			}
		case http2.FrameHeaders:
			if f.flags&0x1 != 0 {
				ended[f.stream] = true
			}
			if f.flags&0x4 != 0 && ended[f.stream] {
				done = f.stream
			}
		case http2.FrameContinuation:
			if f.flags&0x4 != 0 && ended[f.stream] {
				done = f.stream
			}
		case http2.FrameData:
			if f.flags&0x1 != 0 {
				done = f.stream
			}
		}
		if done != 0 && !answered[done] {
			answered[done] = true
			o.mu.Lock()
			o.requests++
			o.mu.Unlock()
			ans := h2OriginAnswer(s, done)
			if s.Follow == "origin_cut" && done == 1 {
				c.Write(ans[:s.K])
				if s.K < len(ans) {
					return // closes the connection
				}
				continue
			}
			if _, err := c.Write(ans); err != nil {
				return
			}
		}
	}
}

// ---------------------------------------------------------------------------------------------------
// client side and verdict

type h2StreamResult struct {
	end    string // end_stream | rst:<code> | goaway:<code> | closed | hang | invalid_headers | conn_error:<code> | write_failed
	status string
	body   []byte
}

// rawFrame: one HTTP/2 frame as it is on the wire. The framer of the x/net version martian pins refuses to READ
// a HEADERS frame with a zero-length header block fragment (legal: RFC 7540 section 6.2; newer x/net accepts
// it), which is exactly what a relayed field-less block looks like, so both scripted ends read frames
// themselves.
type rawFrame struct {
	typ     http2.FrameType
	flags   byte
	stream  uint32
	payload []byte
}

func readRawFrame(r io.Reader) (*rawFrame, error) {
	var h [9]byte
	if _, err := io.ReadFull(r, h[:]); err != nil {
		return nil, err
	}
	n := int(h[0])<<16 | int(h[1])<<8 | int(h[2])
	f := &rawFrame{typ: http2.FrameType(h[3]), flags: h[4], stream: (uint32(h[5])<<24 | uint32(h[6])<<16 | uint32(h[7])<<8 | uint32(h[8])) & 0x7fffffff}
	f.payload = make([]byte, n)
	if _, err := io.ReadFull(r, f.payload); err != nil {
		return nil, err
	}
	return f, nil
}

// h2Client: the reading half of the scripted client (frames, header block assembly, HPACK state).
type h2Client struct {
	tc      *tls.Conn
	fr      *http2.Framer // writing only
	dec     *hpack.Decoder
	frag    []byte // header block being assembled
	fragFor uint32 // stream the assembled block belongs to (for PUSH_PROMISE: 0, the block is decoded and dropped)
	fragEnd bool   // the HEADERS frame carried END_STREAM
	pushed  []byte
}

// await reads frames until stream `id` is over one way or another.
func (c *h2Client) await(id uint32) h2StreamResult {
	var r h2StreamResult
	for {
		f, err := readRawFrame(c.tc)
		if err != nil {
			if os.IsTimeout(err) {
				r.end = "hang"
			} else {
				r.end = "closed"
			}
			return r
		}
		p := f.payload
		blockDone := false
		switch f.typ {
		case http2.FrameSettings:
			if f.flags&0x1 == 0 {
				c.fr.WriteSettingsAck()
			}
		case http2.FramePing:
			if f.flags&0x1 == 0 && len(p) == 8 {
				var d [8]byte
				copy(d[:], p)
				c.fr.WritePing(true, d)
			}
		case http2.FrameHeaders, http2.FramePushPromise:
			pad := 0
			if f.flags&0x8 != 0 && len(p) > 0 {
				pad = int(p[0])
				p = p[1:]
			}
			skip := 0
			if f.typ == http2.FrameHeaders && f.flags&0x20 != 0 {
				skip = 5
			}
			if f.typ == http2.FramePushPromise {
				skip = 4
			}
			if skip+pad > len(p) {
				r.end = "malformed_frame_from_proxy"
				return r
			}
			c.frag = append([]byte{}, p[skip:len(p)-pad]...)
			c.fragFor, c.fragEnd = f.stream, f.typ == http2.FrameHeaders && f.flags&0x1 != 0
			if f.typ == http2.FramePushPromise {
				c.fragFor = 0
			}
			blockDone = f.flags&0x4 != 0
		case http2.FrameContinuation:
			c.frag = append(c.frag, p...)
			blockDone = f.flags&0x4 != 0
		case http2.FrameData:
			if f.flags&0x8 != 0 && len(p) > 0 && int(p[0]) < len(p) {
				p = p[1 : len(p)-int(p[0])]
			}
			if f.stream == 2 {
				c.pushed = append(c.pushed, p...)
			}
			if f.stream == id {
				r.body = append(r.body, p...)
				if f.flags&0x1 != 0 {
					r.end = "end_stream"
					return r
				}
			}
		case http2.FrameRSTStream:
			if f.stream == id && len(p) == 4 {
				r.end = "rst:" + http2.ErrCode(uint32(p[0])<<24|uint32(p[1])<<16|uint32(p[2])<<8|uint32(p[3])).String()
				return r
			}
		case http2.FrameGoAway:
			code := uint32(0)
			if len(p) >= 8 {
				code = uint32(p[4])<<24 | uint32(p[5])<<16 | uint32(p[6])<<8 | uint32(p[7])
			}
			r.end = "goaway:" + http2.ErrCode(code).String()
			return r
		}
		if blockDone {
			fields, err := c.dec.DecodeFull(c.frag)
			if err != nil {
				r.end = "undecodable_header_block_from_proxy"
				return r
			}
			if c.fragFor == id {
				for _, h := range fields {
					if h.Name == ":status" {
						r.status = h.Value
					}
				}
				if c.fragEnd {
					r.end = "end_stream"
					return r
				}
			}
		}
	}
}

func runH2Relay(s *Scenario, kind string, quiet time.Duration) *runOut {
	out := &runOut{}
	class := "mitm_client_stream:" + mitmClass(s)
	report := func(sym, detail string) {
		out.findings = append(out.findings, finding{class, sym, detail})
	}
	cfg, otls, err := h2Material()
	if err != nil {
		out.findings = append(out.findings, finding{"harness", "ca_failed", err.Error()})
		return out
	}
	ho, err := startH2Origin(s, otls)
	if err != nil {
		out.findings = append(out.findings, finding{"harness", "listen_failed", err.Error()})
		return out
	}
	defer ho.stop()
	target := ho.l.Addr().String()

	origin := &h1harness.Origin{} // serves the marker request of the fresh plain-HTTP connection
	origin.Handler = func(conn, idx int, req *h1harness.RawRequest, perr error) h1harness.Action {
		if perr != nil {
			return h1harness.Action{Close: true}
		}
		if strings.HasSuffix(req.Target, "/second") && req.Method == "GET" {
			return h1harness.Action{Write: [][]byte{secondResp}}
		}
		return h1harness.Action{Write: [][]byte{genericResp}}
	}
	env, err := h1harness.NewEnv(h1harness.EnvOpts{Kind: kind, MITM: cfg, ResMod: &recorder{}, Dial: func(n int, addr string) error {
		if !strings.HasPrefix(addr, originHost+":") {
			return h1harness.Refused(addr)
		}
		return nil
	}}, origin)
	if err != nil {
		out.findings = append(out.findings, finding{"harness", "env_failed", err.Error()})
		return out
	}
	defer func() {
		out.origin = len(env.Origin.Log()) + ho.requests
		if !env.Close() {
			report("proxy_shutdown_hang", "proxy.Close() did not return within 20 s")
		}
	}()
	cl, err := env.NewClient()
	if err != nil {
		out.findings = append(out.findings, finding{"harness", "client_dial_failed", err.Error()})
		return out
	}
	if m, ok := cl.Conn.(*h1harness.MemConn); ok {
		m.StallAware = false // the upstream side of this session is a real socket: silence here is not a deadlock
	}
	const hang = 15 * time.Second
	cl.HangDeadline = hang
	cl.Send([]byte("CONNECT " + target + " HTTP/1.1\r\nHost: " + target + "\r\n\r\n"))
	cl.Conn.SetDeadline(time.Now().Add(hang))
	lines, end := cl.ReadHead()
	if end != h1harness.EndOK || len(lines) == 0 || !strings.Contains(lines[0], " 200") || cl.Buffered() != 0 {
		out.findings = append(out.findings, finding{"harness", "h2_connect_failed", fmt.Sprintf("%q %s", lines, end)})
		return out
	}
	s1, s3 := h2StreamResult{end: "-"}, h2StreamResult{end: "-"}
	var pushed []byte
	func() {
		tc := tls.Client(cl.Conn, &tls.Config{InsecureSkipVerify: true, NextProtos: []string{"h2"}})
		if err := tc.Handshake(); err != nil {
			s1.end = "handshake_failed"
			// the proxy dials the origin before it shakes hands with the client: a refusal here is a harness problem
			out.findings = append(out.findings, finding{"harness", "h2_handshake_failed", err.Error()})
			return
		}
		if p := tc.ConnectionState().NegotiatedProtocol; p != "h2" {
			out.findings = append(out.findings, finding{"harness", "h2_not_negotiated", p})
			return
		}
		fr := http2.NewFramer(tc, tc)
		hc := &h2Client{tc: tc, fr: fr, dec: hpack.NewDecoder(4096, nil)}
		defer func() { pushed = hc.pushed }()
		werr := func(errs ...error) bool {
			for _, e := range errs {
				if e != nil {
					return true
				}
			}
			return false
		}
		_, e0 := io.WriteString(tc, h2Preface)
		e1 := fr.WriteSettings()
		// stream 1: POST with a body; the block under test is its HEADERS block or its trailer section
		var e2, e3, e4 error
		if s.Follow == "req_headers" {
			e2 = writeBlock(fr, 1, 0, h2Block(s), false, s.Prio, s.K)
		} else {
			e2 = writeBlock(fr, 1, 0, mandatoryFields("req_headers"), false, false, -1)
		}
		if s.Follow == "req_trailers" {
			e3 = fr.WriteData(1, false, []byte("hello"))
			e4 = writeBlock(fr, 1, 0, h2Block(s), true, s.Prio, s.K)
		} else {
			e3 = fr.WriteData(1, true, []byte("hello"))
		}
		if werr(e0, e1, e2, e3, e4) {
			s1.end = "write_failed" // the proxy has already given up on the connection
		}
		cl.Conn.SetDeadline(time.Now().Add(hang))
		if r := hc.await(1); s1.end != "write_failed" || r.end != "hang" {
			s1 = r
		}
		if s1.end == "hang" {
			report("hang", fmt.Sprintf("the client sent a complete request on stream 1 (block under test %x...) and sees neither the end of the stream, a reset, a GOAWAY nor the end of the connection within %v", trunc(h2Block(s), 24), hang))
			return
		}
		if !(s1.end == "end_stream" || strings.HasPrefix(s1.end, "rst:")) {
			return // the connection is over
		}
		// a well-formed request on the same connection
		var b []byte
		for _, f := range [][2]string{{":method", "GET"}, {":scheme", "https"}, {":authority", h2Authority}, {":path", "/second"}} {
			b = append(b, litField(f[0], f[1])...)
		}
		cl.Conn.SetDeadline(time.Now().Add(hang))
		if writeBlock(fr, 3, 0, b, true, false, -1) != nil {
			s3.end = "write_failed"
			return
		}
		s3 = hc.await(3)
		if s3.end == "hang" {
			report("hang", fmt.Sprintf("after stream 1 ended with %s the well-formed request on stream 3 sees neither an answer, a reset, a GOAWAY nor the end of the connection within %v", s1.end, hang))
		}
	}()
	cl.Conn.Close()
	out.outcome = fmt.Sprintf("h2 s1=%s/%s s3=%s/%s", s1.end, s1.status, s3.end, s3.status)
	// no bytes of another response inside a response
	if !bytes.HasPrefix([]byte(h2FirstBody), s1.body) {
		report("h2_response_bytes_on_wrong_stream", fmt.Sprintf("DATA delivered on stream 1 %q is not a prefix of what the origin sent on it (%q)", trunc(s1.body, 60), h2FirstBody))
	}
	if !bytes.HasPrefix([]byte(marker), s3.body) {
		report("h2_response_bytes_on_wrong_stream", fmt.Sprintf("DATA delivered on stream 3 %q is not a prefix of what the origin sent on it (%q)", trunc(s3.body, 60), marker))
	}
	if !bytes.HasPrefix([]byte("pushed-body"), pushed) {
		report("h2_response_bytes_on_wrong_stream", fmt.Sprintf("DATA delivered on the pushed stream: %q", trunc(pushed, 60)))
	}
	if s.Follow == "origin_cut" {
		full := len(h2OriginAnswer(s, 1))
		if s.K < full && s1.end == "end_stream" {
			report("truncation_not_detectable", fmt.Sprintf("the origin closed at offset %d of %d of its answer (before the end of its last frame) but the client saw stream 1 end regularly (status %s, %d body bytes)", s.K, full, s1.status, len(s1.body)))
		}
		if s.K == full && !(s1.end == "end_stream" && s1.status == "200" && string(s1.body) == h2FirstBody) {
			report("complete_response_not_relayed", fmt.Sprintf("the origin's complete answer reached the client as %s status %q body %q", s1.end, s1.status, trunc(s1.body, 40)))
		}
	}
	// the proxy must still serve a fresh connection
	c2, err := env.NewClient()
	if err != nil {
		report("proxy_dead_after_stream", "cannot connect to the proxy any more: "+err.Error())
		return out
	}
	if quiet > 0 {
		c2.QuietTimeout = quiet
	}
	c2.Send(request("GET", "/second", "1.1"))
	r := c2.ReadResponse("GET")
	if r.HeadErr != "" || r.Status != 200 || string(r.Body) != marker {
		report("proxy_dead_after_stream", fmt.Sprintf("a fresh connection is not served after the HTTP/2 session: head=%q status=%d body=%q", r.HeadErr, r.Status, trunc(r.Body, 40)))
	}
	return out
}
