package main

// Client byte streams against a proxy with MITM enabled (SetMITM): a CONNECT request in many request-line /
// Host shapes, then - once the proxy has answered 200 - a TLS ClientHello with or without SNI, a ClientHello
// cut at every offset, a plaintext request, garbage or nothing at all. The statement's demand is that no such
// stream terminates the proxy process; additionally a fresh connection must still be served afterwards.

import (
	"bufio"
	"bytes"
	"crypto/tls"
	"fmt"
	"io"
	"net"
	"net/http"
	"os"
	"strconv"
	"strings"
	"sync"
	"time"

	"github.com/google/martian/v3/h2"
	"github.com/google/martian/v3/mitm"

	"verif/checks/h1harness"
)

type connectVariant struct {
	name string
	wire string
}

func connectVariants() []connectVariant {
	h := originHost
	v := func(n, w string) connectVariant { return connectVariant{n, w} }
	out := []connectVariant{
		v("authority_port", "CONNECT "+h+":443 HTTP/1.1\r\nHost: "+h+":443\r\n\r\n"),
		v("authority_noport", "CONNECT "+h+" HTTP/1.1\r\nHost: "+h+"\r\n\r\n"),
		v("authority_port_no_host_header", "CONNECT "+h+":443 HTTP/1.1\r\n\r\n"),
		v("authority_port_empty_host_header", "CONNECT "+h+":443 HTTP/1.1\r\nHost:\r\n\r\n"),
		v("authority_port_http10", "CONNECT "+h+":443 HTTP/1.0\r\n\r\n"),
		v("origin_form_no_host", "CONNECT /tunnel HTTP/1.1\r\n\r\n"),
		v("origin_form_empty_host", "CONNECT /tunnel HTTP/1.1\r\nHost:\r\n\r\n"),
		v("origin_form_host", "CONNECT /tunnel HTTP/1.1\r\nHost: "+h+":443\r\n\r\n"),
		v("ipv6_port", "CONNECT [::1]:443 HTTP/1.1\r\nHost: [::1]:443\r\n\r\n"),
		v("ipv6_noport", "CONNECT [::1] HTTP/1.1\r\nHost: [::1]\r\n\r\n"),
		v("port_only", "CONNECT :443 HTTP/1.1\r\nHost: :443\r\n\r\n"),
		v("asterisk", "CONNECT * HTTP/1.1\r\nHost: "+h+"\r\n\r\n"),
		v("ip_port", "CONNECT 127.0.0.1:443 HTTP/1.1\r\nHost: 127.0.0.1:443\r\n\r\n"),
	}
	// odd Host values reaching the proxy through an origin-form target (req.Host is then the Host header)
	for i, hv := range []string{"[", "[]", "]", ":", "[::1", "::1]", "a:b:c", "[::1]:", ".", " "} {
		out = append(out, v("origin_form_odd_host_"+strconv.Itoa(i), "CONNECT /t HTTP/1.1\r\nHost: "+hv+"\r\n\r\n"))
	}
	return out
}

// what the client does after the proxy answered the CONNECT
var mitmFollows = []string{"hello_sni", "hello_nosni", "hello_tls12_nosni", "plaintext_request", "garbage_tls_record", "garbage_binary", "one_byte_0x16", "close", "close_without_reading"}

func lookupConnect(name string) string {
	for _, c := range connectVariants() {
		if c.name == name {
			return c.wire
		}
	}
	return ""
}

var caOnce sync.Once
var mitmCfg, mitmCfgH2 *mitm.Config
var caErr error

// mitmConfig returns the per-process MITM configuration, with HTTP/2 enabled for all hosts if h2on.
func mitmConfig(h2on bool) (*mitm.Config, error) {
	caOnce.Do(func() {
		ca, priv, err := mitm.NewAuthority("c03.proxy", "C03 Authority", time.Hour)
		if err != nil {
			caErr = err
			return
		}
		if mitmCfg, caErr = mitm.NewConfig(ca, priv); caErr != nil {
			return
		}
		if mitmCfgH2, caErr = mitm.NewConfig(ca, priv); caErr != nil {
			return
		}
		mitmCfgH2.SetH2Config(&h2.Config{AllowedHostsFilter: func(string) bool { return true }})
	})
	if h2on {
		return mitmCfgH2, caErr
	}
	return mitmCfg, caErr
}

const h2Preface = "PRI * HTTP/2.0\r\n\r\nSM\r\n\r\n"

// upstream dial outcomes of the h2 family. h2.Config.Proxy dials the CONNECT target itself (tls.Dial, not
// the proxy's dial function), so the target is a real loopback port prepared per scenario.
var h2DialOutcomes = []string{"refused", "tls_fails_plaintext", "accept_close"}

// h2Target prepares the loopback port the CONNECT names and returns its address and a cleanup function.
func h2Target(outcome string) (string, func(), error) {
	l, err := net.Listen("tcp", "127.0.0.1:0")
	if err != nil {
		return "", nil, err
	}
	addr := l.Addr().String()
	if outcome == "refused" {
		l.Close() // nothing listens on the port any more
		return addr, func() {}, nil
	}
	go func() {
		for {
			c, err := l.Accept()
			if err != nil {
				return
			}
			if outcome == "tls_fails_plaintext" {
				c.SetDeadline(time.Now().Add(5 * time.Second))
				c.Write([]byte("HTTP/1.1 400 Bad Request\r\nContent-Length: 0\r\n\r\n"))
			}
			c.Close()
		}
	}()
	return addr, func() { l.Close() }, nil
}

func helloConfig(kind string) *tls.Config {
	c := &tls.Config{InsecureSkipVerify: true, NextProtos: []string{"http/1.1"}}
	switch kind {
	case "hello_sni":
		c.ServerName = originHost
	case "hello_tls12_nosni", "compact":
		c.MaxVersion = tls.VersionTLS12
		c.CurvePreferences = []tls.CurveID{tls.X25519}
	}
	return c
}

type captureConn struct {
	net.Conn
	buf bytes.Buffer
}

func (c *captureConn) Write(p []byte) (int, error)      { c.buf.Write(p); return len(p), nil }
func (c *captureConn) Read(p []byte) (int, error)       { return 0, io.EOF }
func (c *captureConn) Close() error                     { return nil }
func (c *captureConn) SetDeadline(time.Time) error      { return nil }
func (c *captureConn) SetReadDeadline(time.Time) error  { return nil }
func (c *captureConn) SetWriteDeadline(time.Time) error { return nil }
func (c *captureConn) LocalAddr() net.Addr              { return &net.TCPAddr{} }
func (c *captureConn) RemoteAddr() net.Addr             { return &net.TCPAddr{} }

// clientHello returns the bytes of a ClientHello record produced by crypto/tls for the compact no-SNI
// configuration (the random fields differ between calls, the length does not).
func clientHello() []byte {
	cc := &captureConn{}
	tls.Client(cc, helloConfig("compact")).Handshake()
	return cc.buf.Bytes()
}

func defaultClientHello() []byte {
	cc := &captureConn{}
	tls.Client(cc, helloConfig("hello_sni")).Handshake()
	return cc.buf.Bytes()
}

func defaultHelloLen() int {
	if v := os.Getenv("C03_HELLO_SNI_LEN"); v != "" {
		n, _ := strconv.Atoi(v)
		return n
	}
	n := len(defaultClientHello())
	os.Setenv("C03_HELLO_SNI_LEN", strconv.Itoa(n))
	return n
}

// helloLen is the ClientHello length used to enumerate truncation offsets; workers take it from the parent
// so that scenario indices agree between the processes.
func helloLen() int {
	if v := os.Getenv("C03_HELLO_LEN"); v != "" {
		n, _ := strconv.Atoi(v)
		return n
	}
	n := len(clientHello())
	os.Setenv("C03_HELLO_LEN", strconv.Itoa(n))
	return n
}

func mitmScenarios(tier string, add func(Scenario)) {
	for _, c := range connectVariants() {
		for _, f := range mitmFollows {
			add(Scenario{Kind: "mitm", Script: c.name, Follow: f, K: -1})
		}
	}
	// a ClientHello (no SNI) cut at every offset
	// intercepted HTTPS requests whose upstream fails: two requests inside one TLS session, each must be
	// answered with a well-formed 502 carrying a Warning that passed through the response modifier
	for _, d := range []string{"refused", "plaintext_origin", "timeout", "eof"} {
		for _, c := range []string{"authority_port", "authority_noport", "ip_port"} {
			add(Scenario{Kind: "mitm", Script: c, Follow: "tls_two_requests", Dial: d, K: -1})
		}
	}
	// MITM with HTTP/2 enabled for all hosts: the client negotiates ALPN h2 and sends the preface (complete,
	// cut at every offset, or garbage) while the proxy's own upstream dial fails in three ways
	for _, d := range h2DialOutcomes {
		add(Scenario{Kind: "mitm", Script: "h2_connect", Follow: "h2_preface", Dial: d, K: -1})
		add(Scenario{Kind: "mitm", Script: "h2_connect", Follow: "h2_garbage", Dial: d, K: -1})
		add(Scenario{Kind: "mitm", Script: "h2_connect", Follow: "h2_no_bytes", Dial: d, K: -1})
		for k := 0; k < len(h2Preface); k++ {
			add(Scenario{Kind: "mitm", Script: "h2_connect", Follow: "h2_preface_truncated", Dial: d, K: k})
		}
	}
	n := helloLen()
	for _, c := range connectVariants() {
		if tier != "thorough" && c.name != "origin_form_no_host" {
			continue // thorough: every CONNECT shape
		}
		for k := 0; k <= n; k++ {
			add(Scenario{Kind: "mitm", Script: c.name, Follow: "hello_truncated", K: k})
		}
	}
	if tier == "thorough" {
		// every prefix of the CONNECT request itself (then EOF), for every shape
		for _, c := range connectVariants() {
			for k := 0; k < len(c.wire); k++ {
				add(Scenario{Kind: "mitm", Script: c.name, Follow: "connect_prefix", K: k})
			}
		}
		// every prefix of crypto/tls's default ClientHello with SNI (TLS 1.3 key shares) for four shapes
		nd := defaultHelloLen()
		for _, c := range []string{"authority_port", "origin_form_no_host", "ipv6_noport", "port_only"} {
			for k := 0; k <= nd; k++ {
				add(Scenario{Kind: "mitm", Script: c, Follow: "hello_sni_truncated", K: k})
			}
		}
	}
}

// mitmClass is the scenario class used in signatures: which kind of host information the CONNECT carried and
// which kind of continuation followed (coarse, so that one defect yields one or two signatures).
func mitmClass(s *Scenario) string {
	v := s.Script
	if v == "h2_connect" {
		return "h2_upstream_dial_failure+alpn_h2"
	}
	if v == "h2_relay" {
		return h2RelayClass(s)
	}
	switch {
	case v == "origin_form_no_host" || v == "origin_form_empty_host" || v == "origin_form_odd_host_9":
		v = "connect_without_host"
	case strings.HasPrefix(v, "origin_form_odd_host_"):
		v = "connect_odd_host"
	case strings.HasPrefix(v, "authority_") || v == "ip_port" || v == "origin_form_host":
		v = "connect_with_host"
	case strings.HasPrefix(v, "ipv6_"):
		v = "connect_ipv6_literal"
	}
	f := s.Follow
	if f == "tls_two_requests" {
		return "intercepted_request_upstream_failure"
	}
	switch f {
	case "hello_nosni", "hello_tls12_nosni", "hello_truncated":
		f = "tls_hello_without_sni"
	case "hello_sni", "hello_sni_truncated":
		f = "tls_hello_with_sni"
	case "garbage_tls_record", "garbage_binary", "one_byte_0x16":
		f = "garbage"
	case "close", "close_without_reading":
		f = "close"
	}
	return v + "+" + f
}

func runMITMStream(s *Scenario, kind string, quiet time.Duration) *runOut {
	if s.Script == "h2_relay" {
		return runH2Relay(s, kind, quiet)
	}
	out := &runOut{}
	class := "mitm_client_stream:" + mitmClass(s)
	report := func(sym, detail string) {
		out.findings = append(out.findings, finding{class, sym, detail})
	}
	cfg, err := mitmConfig(s.Script == "h2_connect")
	if err != nil {
		out.findings = append(out.findings, finding{"harness", "ca_failed", err.Error()})
		return out
	}
	origin := &h1harness.Origin{}
	origin.Handler = func(conn, idx int, req *h1harness.RawRequest, perr error) h1harness.Action {
		if perr != nil {
			return h1harness.Action{Close: true} // e.g. the transport's TLS ClientHello towards the plaintext origin
		}
		if strings.HasSuffix(req.Target, "/second") && req.Method == "GET" {
			return h1harness.Action{Write: [][]byte{secondResp}}
		}
		return h1harness.Action{Write: [][]byte{genericResp}}
	}
	rec := &recorder{}
	env, err := h1harness.NewEnv(h1harness.EnvOpts{Kind: kind, MITM: cfg, ResMod: rec, Dial: func(n int, addr string) error {
		if s.Follow == "tls_two_requests" && strings.HasSuffix(addr, ":443") && s.Dial != "plaintext_origin" {
			return dialError(s.Dial, addr)
		}
		if !strings.HasPrefix(addr, originHost+":") && !(s.Follow == "tls_two_requests" && strings.HasSuffix(addr, ":443")) {
			return h1harness.Refused(addr)
		}
		return nil
	}}, origin)
	if err != nil {
		out.findings = append(out.findings, finding{"harness", "env_failed", err.Error()})
		return out
	}
	defer func() {
		out.origin = len(env.Origin.Log())
		if !env.Close() {
			report("proxy_shutdown_hang", "proxy.Close() did not return within 20 s")
		}
	}()
	cl, err := env.NewClient()
	if err != nil {
		out.findings = append(out.findings, finding{"harness", "client_dial_failed", err.Error()})
		return out
	}
	if quiet > 0 {
		cl.QuietTimeout = quiet
	}
	stream := lookupConnect(s.Script)
	if s.Script == "h2_connect" {
		target, cleanup, err := h2Target(s.Dial)
		if err != nil {
			out.findings = append(out.findings, finding{"harness", "listen_failed", err.Error()})
			return out
		}
		defer cleanup()
		stream = "CONNECT " + target + " HTTP/1.1\r\nHost: " + target + "\r\n\r\n"
	}
	if s.Follow == "connect_prefix" {
		stream = stream[:s.K]
	}
	cl.Send([]byte(stream))
	if s.Follow == "connect_prefix" {
		cl.CloseWrite()
	}
	follow := "-"
	connect := ""
	if s.Follow == "close_without_reading" {
		cl.Conn.Close()
		connect = "unread"
	} else {
		lines, end := cl.ReadHead()
		switch {
		case end != h1harness.EndOK:
			connect = short(end)
			if end == h1harness.EndHang || end == h1harness.EndStalled {
				report("hang", fmt.Sprintf("CONNECT %q is neither answered nor refused (%s)", stream, end))
			}
		case len(lines) == 0:
			connect = "empty"
		default:
			f := strings.Fields(lines[0])
			if len(f) >= 2 {
				connect = f[1]
			} else {
				connect = "malformed"
			}
		}
		if connect == "200" && cl.Buffered() == 0 {
			follow = mitmFollowUp(s, cl, rec, report)
		} else if connect == "200" {
			follow = "unexpected_bytes_after_200"
		}
	}
	cl.Conn.Close()
	out.outcome = fmt.Sprintf("connect=%s follow=%s", connect, follow)
	// the proxy must still serve a fresh connection
	c2, err := env.NewClient()
	if err != nil {
		report("proxy_dead_after_stream", "cannot connect to the proxy any more: "+err.Error())
		return out
	}
	if quiet > 0 {
		c2.QuietTimeout = quiet
	}
	c2.Send(request("GET", "/second", "1.1"))
	r := c2.ReadResponse("GET")
	if r.HeadErr != "" || r.Status != 200 || string(r.Body) != marker {
		report("proxy_dead_after_stream", fmt.Sprintf("a fresh connection is not served after the stream: head=%q status=%d body=%q", r.HeadErr, r.Status, trunc(r.Body, 40)))
	}
	return out
}

// mitmFollowUp performs what follows the 200 and returns a coarse outcome.
func mitmFollowUp(s *Scenario, cl *h1harness.Client, rec *recorder, report func(sym, detail string)) string {
	drain := func() string {
		cl.CloseWrite()
		got, end := cl.Drain()
		if end == h1harness.EndHang {
			report("hang", "after the client's EOF the intercepted connection is neither answered nor closed within the hang deadline")
		} else if end == h1harness.EndStalled {
			report("hang_conn_not_closed_after_client_eof", fmt.Sprintf("after the client's EOF the proxy neither answers nor closes the intercepted connection (received %q)", trunc(got, 60)))
		}
		first := "none"
		if len(got) > 0 {
			first = "bytes"
			if bytes.HasPrefix(got, []byte("HTTP/")) {
				if f := strings.Fields(string(trunc(got, 40))); len(f) >= 2 {
					first = f[1]
				}
			} else if got[0] == 0x15 {
				first = "tls_alert"
			}
		}
		return first + "," + short(end)
	}
	switch s.Follow {
	case "tls_two_requests":
		cl.Conn.SetDeadline(time.Now().Add(cl.HangDeadline))
		tc := tls.Client(cl.Conn, helloConfig("hello_sni"))
		if err := tc.Handshake(); err != nil {
			report("mitm_handshake_failed", err.Error())
			return "handshake_refused"
		}
		br := bufio.NewReader(tc)
		res := ""
		for i, path := range []string{"/first", "/second"} {
			tc.Write([]byte("GET " + path + " HTTP/1.1\r\nHost: " + originHost + "\r\n\r\n"))
			r, err := http.ReadResponse(br, &http.Request{Method: "GET"})
			if err != nil {
				sym := "no_502_on_incomplete_head"
				if i > 0 {
					sym = "second_request_not_served_after_502"
				}
				report(sym, fmt.Sprintf("intercepted request %d (%s) whose upstream fails (%s): no well-formed response: %v", i+1, path, s.Dial, err))
				return res + "err"
			}
			body, berr := io.ReadAll(r.Body)
			res += fmt.Sprintf("%d,", r.StatusCode)
			seen := false
			for _, w := range r.Header["Warning"] {
				if rec.sawWarningOn502(w) {
					seen = true
				}
			}
			switch {
			case berr != nil:
				report("502_malformed", fmt.Sprintf("response %d body: %v", i+1, berr))
				return res
			case r.StatusCode != 502:
				report("no_502_on_incomplete_head", fmt.Sprintf("intercepted request %d whose upstream fails (%s) got status %d body %q", i+1, s.Dial, r.StatusCode, trunc(body, 40)))
				return res
			case len(r.Header["Warning"]) == 0:
				report("502_without_warning", fmt.Sprintf("response %d: %v", i+1, r.Header))
			case !seen:
				report("502_warning_not_seen_by_modifier", fmt.Sprintf("response %d: Warning %q", i+1, r.Header["Warning"]))
			}
		}
		return res
	case "h2_preface", "h2_garbage", "h2_no_bytes", "h2_preface_truncated":
		cl.Conn.SetDeadline(time.Now().Add(cl.HangDeadline))
		tc := tls.Client(cl.Conn, &tls.Config{InsecureSkipVerify: true, NextProtos: []string{"h2"}})
		if err := tc.Handshake(); err != nil {
			return "handshake_refused"
		}
		if p := tc.ConnectionState().NegotiatedProtocol; p != "h2" {
			return "alpn=" + p // the scenario did not reach the HTTP/2 path
		}
		switch s.Follow {
		case "h2_preface":
			tc.Write([]byte(h2Preface + "\x00\x00\x00\x04\x00\x00\x00\x00\x00"))
		case "h2_garbage":
			tc.Write([]byte("GET / HTTP/1.1\r\nHost: x\r\n\r\n\x00\xff\xfe not a preface at all"))
		case "h2_preface_truncated":
			if s.K > 0 {
				tc.Write([]byte(h2Preface[:s.K]))
			}
		}
		// Whatever the client sent, the proxy's upstream dial fails: no response can ever come. A client that has
		// done its part (valid preface and SETTINGS) must then see its connection closed; a connection left open
		// and idle until the proxy's idle timeout is the hang the statement excludes. (For the other continuations
		// the ending is recorded, not judged.)
		_, inMemory := cl.Conn.(*h1harness.MemConn)
		if !inMemory { // over TCP a stall can only be seen as a quiet period
			cl.Conn.SetDeadline(time.Now().Add(1500 * time.Millisecond))
		}
		buf := make([]byte, 256)
		end := "eof"
		for {
			if _, err := tc.Read(buf); err != nil {
				switch {
				case strings.Contains(err.Error(), "stalled"), os.IsTimeout(err) && !inMemory:
					end = "stalled" // the proxy keeps the client connection open and idle
					if s.Follow == "h2_preface" {
						report("conn_left_open", "the origin cannot be reached (upstream dial fails) but the proxy neither answers nor closes the client's HTTP/2 connection: it stays open and idle")
					}
				case os.IsTimeout(err):
					end = "timeout"
					report("hang", "nothing happens on the intercepted h2 connection within the hang deadline")
				}
				break
			}
		}
		return "h2," + end
	case "hello_sni", "hello_nosni", "hello_tls12_nosni":
		cl.Conn.SetDeadline(time.Now().Add(cl.HangDeadline))
		tc := tls.Client(cl.Conn, helloConfig(s.Follow))
		if err := tc.Handshake(); err != nil {
			if strings.Contains(err.Error(), "stalled") || os.IsTimeout(err) {
				report("hang", "TLS handshake with the intercepting proxy does not make progress: "+err.Error())
				return "handshake_hang"
			}
			return "handshake_refused"
		}
		// an intercepted request; the scripted origin does not speak TLS, so a 502 is the expected answer
		tc.Write([]byte("GET /second HTTP/1.1\r\nHost: " + originHost + "\r\nConnection: close\r\n\r\n"))
		buf := make([]byte, 64)
		n, _ := io.ReadAtLeast(tc, buf, 12)
		st := "no_response"
		if f := strings.Fields(string(buf[:n])); len(f) >= 2 && strings.HasPrefix(f[0], "HTTP/") {
			st = f[1]
		}
		return "handshake_ok," + st
	case "connect_prefix":
		return "?" // a strict prefix of a CONNECT request never earns a 200
	case "hello_truncated", "hello_sni_truncated":
		h := clientHello()
		if s.Follow == "hello_sni_truncated" {
			h = defaultClientHello()
		}
		k := s.K
		if k > len(h) {
			k = len(h)
		}
		cl.Send(h[:k])
		return "truncated:" + drain()
	case "plaintext_request":
		cl.Send(request("GET", "/second", "1.1"))
		return drain()
	case "garbage_tls_record":
		cl.Send([]byte("\x16\x03\x01\x00\x05hello\x16\x03\x01\xff\xff"))
		return drain()
	case "garbage_binary":
		cl.Send([]byte("\x00\xff\xfe\x80 garbage \r\n\r\n"))
		return drain()
	case "one_byte_0x16":
		cl.Send([]byte{0x16})
		return drain()
	case "close":
		return "closed"
	}
	return "?"
}
