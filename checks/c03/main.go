// C03 — upstream failures become 502s or clean closes, never a crash, hang or desync.
//
// Fault enumeration: dial outcome x origin response script x EVERY truncation offset, a fixed corpus of
// non-HTTP origin answers x every prefix, and a corpus of client byte streams x every prefix plus one-byte
// corruptions of valid requests at every position; each followed by a well-formed second request on the
// same client connection whose response carries a distinctive marker. The REAL martian.NewProxy() (default
// http.Transport, a recording response modifier) runs in worker subprocesses so that a proxy panic is
// attributed to its scenario. Oracle: DESIGN.md C03 O.
package main

import (
	"bytes"
	"crypto/tls"
	"encoding/json"
	"errors"
	"fmt"
	"io"
	"net"
	"net/http"
	"os"
	"sort"
	"strings"
	"sync"
	"time"

	"verif/checks/h1harness"
	"verif/lib"

	martian "github.com/google/martian/v3"
	"github.com/google/martian/v3/har"
	"github.com/google/martian/v3/marbl"
	"github.com/google/martian/v3/martianlog"
)

const originHost = "origin.test"
const marker = "@@MARKER-SECOND-RESP@@!!"

var secondResp = []byte("HTTP/1.1 200 OK\r\nContent-Type: text/plain\r\nX-Second: yes\r\nContent-Length: 24\r\n\r\n" + marker)
var warmResp = []byte("HTTP/1.1 200 OK\r\nContent-Length: 7\r\n\r\nwarm-ok")
var genericResp = []byte("HTTP/1.1 200 OK\r\nContent-Length: 7\r\nX-Generic: yes\r\n\r\ngeneric")

// ---------------------------------------------------------------------------------------------------
// scenario description

type Scenario struct {
	ID     int    `json:"id"`
	Kind   string `json:"kind"`             // truncate | garbage | dial | client | mitm | upload | keepopen | downstream | coding (round8b.go)
	Follow string `json:"follow,omitempty"` // kind mitm: what the client sends after the 200 to its CONNECT
	Script string `json:"script,omitempty"` // response script / corpus entry name
	K      int    `json:"k"`                // bytes of the script the origin writes before it closes (origin kinds); prefix length (client kind, -1: corruption)
	Dial   string `json:"dial,omitempty"`   // refused | accept_close (kind dial)
	Reused bool   `json:"reused,omitempty"` // the fault hits an upstream connection that already served a warm-up exchange
	Method string `json:"m,omitempty"`      // method of request 1 (GET | POST)
	Proto  string `json:"p,omitempty"`      // client protocol: 1.1 | 1.0ka
	// audit extensions
	Repeat  int    `json:"repeat,omitempty"`  // number of consecutive faulted requests for /first (default 1)
	Upload  string `json:"upload,omitempty"`  // kind upload: what the origin does once it has the request HEAD (it never reads the body): close_at_head | early_413_close | partial_head
	Body    int    `json:"body,omitempty"`    // kind upload: size of request 1's body
	Chunked bool   `json:"chunked,omitempty"` // kind upload: request 1's body is chunked
	Expect  bool   `json:"expect,omitempty"`  // kind upload: request 1 carries Expect: 100-continue
	Tail    string `json:"tail,omitempty"`    // kind keepopen: bytes the origin sends right after its complete response while keeping the connection open
	IdleMs  int    `json:"idle_ms,omitempty"` // kind client: proxy.SetTimeout; the client sends the stream and then stays silent without closing
	DialRes string `json:"dialres,omitempty"` // what a failing dial returns NEXT TO its error: "" untyped nil | typed_nil_tls | typed_nil_tcp | closed_conn
	Mod     string `json:"mod,omitempty"`     // stock modifier installed as request+response modifier: "" | har | martianlog | marbl
	M2      string `json:"m2,omitempty"`      // method of the second request ("" = GET | POST | HEAD)
	Pipe    bool   `json:"pipe,omitempty"`    // the second request is already sent (same write) when the fault happens
	Split   int    `json:"split,omitempty"`   // > 0: the origin writes its k bytes in two writes, cut at this offset
	Two     bool   `json:"two,omitempty"`     // corruption of the two bytes at Pos, Pos+1 (Repl, Repl2)
	Repl2   int    `json:"repl2,omitempty"`
	Pos     int    `json:"pos,omitempty"`  // corruption position
	Repl    int    `json:"repl,omitempty"` // replacement byte
	TCP     bool   `json:"tcp,omitempty"`
	// round 7 (h2relay.go): header block shape on the HTTP/2 path of an intercepted connection
	Atoms string `json:"atoms,omitempty"` // HPACK atoms of the block under test, comma separated
	Std   bool   `json:"std,omitempty"`   // the mandatory pseudo-header fields are added to the block
	Prio  bool   `json:"prio,omitempty"`  // the HEADERS frame carries priority information
	Big   int    `json:"big,omitempty"`   // > 0: the block carries one field whose value has this many bytes
}

type script struct {
	name           string
	wire           []byte
	headLen        int
	status         int
	body           []byte // de-framed body
	closeDelimited bool
	closes         bool // complete response ends the upstream connection AND the client connection (Connection: close / close-delimited)
}

func mkScript(name, head string, wireBody string, body string, closeDelimited, closes bool, status int) script {
	return script{name: name, wire: []byte(head + wireBody), headLen: len(head), status: status, body: []byte(body), closeDelimited: closeDelimited, closes: closes}
}

const alpha26 = "abcdefghijklmnopqrstuvwxyz"

func scripts(tier string) []script {
	out := []script{
		mkScript("cl", "HTTP/1.1 200 OK\r\nContent-Type: text/plain\r\nContent-Length: 26\r\n\r\n", alpha26, alpha26, false, false, 200),
		mkScript("chunked", "HTTP/1.1 200 OK\r\nTransfer-Encoding: chunked\r\n\r\n", "5\r\nhello\r\n7\r\n, world\r\n0\r\n\r\n", "hello, world", false, false, 200),
		mkScript("204", "HTTP/1.1 204 No Content\r\nX-A: b\r\n\r\n", "", "", false, false, 204),
		mkScript("cl_close", "HTTP/1.1 200 OK\r\nContent-Length: 26\r\nConnection: close\r\n\r\n", alpha26, alpha26, false, true, 200),
		mkScript("close_delimited", "HTTP/1.1 200 OK\r\nContent-Type: text/plain\r\n\r\n", "0123456789", "0123456789", true, true, 200),
	}
	if tier == "thorough" {
		big := strings.Repeat(alpha26, 200) // 5200 bytes: beyond one 4096-byte bufio buffer
		out = append(out,
			mkScript("cl_5200", fmt.Sprintf("HTTP/1.1 200 OK\r\nContent-Length: %d\r\n\r\n", len(big)), big, big, false, false, 200),
			mkScript("chunked_5200", "HTTP/1.1 200 OK\r\nTransfer-Encoding: chunked\r\n\r\n", fmt.Sprintf("%x\r\n%s\r\n%x\r\n%s\r\n0\r\n\r\n", 4100, big[:4100], 1100, big[4100:]), big, false, false, 200),
			mkScript("interim_cl", "HTTP/1.1 103 Early Hints\r\nLink: </a>\r\n\r\nHTTP/1.1 200 OK\r\nContent-Length: 5\r\n\r\n", "hello", "hello", false, false, 200),
			mkScript("two_interim_chunked", "HTTP/1.1 100 Continue\r\n\r\nHTTP/1.1 103 Early Hints\r\nLink: </a>\r\n\r\nHTTP/1.1 200 OK\r\nTransfer-Encoding: chunked\r\n\r\n", "3\r\nabc\r\n4\r\ndefg\r\n0\r\n\r\n", "abcdefg", false, false, 200),
			mkScript("chunked_trailer", "HTTP/1.1 200 OK\r\nTransfer-Encoding: chunked\r\nTrailer: X-Sum, X-Other\r\n\r\n", "5\r\nhello\r\n7\r\n, world\r\n0\r\nX-Sum: 12\r\nX-Other: v\r\n\r\n", "hello, world", false, false, 200),
			mkScript("chunked_ext", "HTTP/1.1 200 OK\r\nTransfer-Encoding: chunked\r\n\r\n", "5;a=b\r\nhello\r\n7;q=\"x\"\r\n, world\r\n0;last\r\n\r\n", "hello, world", false, false, 200),
			manyChunks(),
		)
	}
	return out
}

// manyChunks: a chunked body of 60 chunks of sizes 1..60 (1830 bytes).
func manyChunks() script {
	var wire, body strings.Builder
	for i := 1; i <= 60; i++ {
		c := strings.Repeat(string(rune('a'+i%26)), i)
		fmt.Fprintf(&wire, "%x\r\n%s\r\n", i, c)
		body.WriteString(c)
	}
	wire.WriteString("0\r\n\r\n")
	return mkScript("chunked_60_chunks", "HTTP/1.1 200 OK\r\nTransfer-Encoding: chunked\r\n\r\n", wire.String(), body.String(), false, false, 200)
}

type corpusEntry struct {
	name  string
	bytes []byte
	cuts  []int // nil: every prefix
}

func originCorpus() []corpusEntry {
	e := func(n, s string) corpusEntry { return corpusEntry{name: n, bytes: []byte(s)} }
	big := "HTTP/1.1 200 OK\r\nX-Big: " + strings.Repeat("a", 11<<20) + "\r\nContent-Length: 0\r\n\r\n"
	out := []corpusEntry{
		e("binary", "\x00\x01\x02\xff\xfe\r\n\r\n\x80\x81 binary \x00"),
		e("ssh_banner", "SSH-2.0-OpenSSH_8.9p1\r\n"),
		e("smtp_banner", "220 mail.example.com ESMTP ready\r\n"),
		e("tls_alert", "\x15\x03\x03\x00\x02\x02\x28"),
		e("h2_settings", "\x00\x00\x00\x04\x00\x00\x00\x00\x00"),
		e("bad_version", "HTTP/9.9 200 OK\r\nContent-Length: 0\r\n\r\n"),
		e("no_status", "HTTP/1.1 \r\n\r\n"),
		e("status_not_numeric", "HTTP/1.1 abc OK\r\nContent-Length: 0\r\n\r\n"),
		e("status_line_only_lf", "HTTP/1.1 200 OK\nContent-Length: 2\n\nhi"),
		e("bad_content_length", "HTTP/1.1 200 OK\r\nContent-Length: abc\r\n\r\nhello"),
		e("negative_content_length", "HTTP/1.1 200 OK\r\nContent-Length: -5\r\n\r\nhello"),
		e("conflicting_content_length", "HTTP/1.1 200 OK\r\nContent-Length: 3\r\nContent-Length: 5\r\n\r\nhello"),
		e("bad_chunk_size", "HTTP/1.1 200 OK\r\nTransfer-Encoding: chunked\r\n\r\nzz\r\nhello\r\n0\r\n\r\n"),
		e("chunk_size_overflow", "HTTP/1.1 200 OK\r\nTransfer-Encoding: chunked\r\n\r\nffffffffffffffffff\r\nhello\r\n"),
		e("header_without_colon", "HTTP/1.1 200 OK\r\nBadHeaderLine\r\nContent-Length: 0\r\n\r\n"),
		e("http09_html", "<html><body>hello</body></html>\n"),
		e("request_echo", "GET / HTTP/1.1\r\nHost: x\r\n\r\n"),
		e("six_interim", strings.Repeat("HTTP/1.1 100 Continue\r\n\r\n", 6)+"HTTP/1.1 200 OK\r\nContent-Length: 0\r\n\r\n"),
		e("unknown_transfer_encoding", "HTTP/1.1 200 OK\r\nTransfer-Encoding: bogus\r\n\r\nhello"),
		{name: "oversized_header", bytes: []byte(big), cuts: []int{1 << 20, 10<<20 + 1024, len(big)}},
	}
	return append(out, controlByteHeaders()...)
}

// controlByteHeaders: a valid status line followed by one header line that carries a control (or otherwise
// unusual) byte at the start / middle / end of its name or of its value, then a complete rest of the message.
// The parse error text of such a line contains the raw byte, which must not make the proxy's own 502
// (whose Warning header quotes the error) unreadable.
func controlByteHeaders() []corpusEntry {
	var out []corpusEntry
	bytesPool := []struct {
		name string
		b    byte
	}{{"nul", 0x00}, {"soh", 0x01}, {"bel", 0x07}, {"bs", 0x08}, {"esc", 0x1b}, {"del", 0x7f}, {"x80", 0x80}, {"xff", 0xff}, {"cr", '\r'}, {"tab", '\t'}}
	for _, bp := range bytesPool {
		for _, where := range []string{"name_start", "name_middle", "name_end", "value_start", "value_middle", "value_end"} {
			name, value := "X-Ctl", "abcd"
			c := string([]byte{bp.b})
			switch where {
			case "name_start":
				name = c + name
			case "name_middle":
				name = name[:2] + c + name[2:]
			case "name_end":
				name += c
			case "value_start":
				value = c + value
			case "value_middle":
				value = value[:2] + c + value[2:]
			case "value_end":
				value += c
			}
			out = append(out, corpusEntry{name: "ctl_" + bp.name + "_" + where, bytes: []byte("HTTP/1.1 200 OK\r\n" + name + ": " + value + "\r\nContent-Length: 2\r\n\r\nhi")})
		}
	}
	return out
}

func clientCorpus() []corpusEntry {
	e := func(n, s string) corpusEntry { return corpusEntry{name: n, bytes: []byte(s)} }
	h := "Host: " + originHost + "\r\n"
	abs := "http://" + originHost + "/first"
	hugeMethod := strings.Repeat("A", 100<<10) + " / HTTP/1.1\r\n" + h + "\r\n"
	longURI := "GET http://" + originHost + "/" + strings.Repeat("u", 64<<10) + " HTTP/1.1\r\n" + h + "\r\n"
	longHeader := "GET " + abs + " HTTP/1.1\r\n" + h + "X-Long: " + strings.Repeat("v", 2<<20) + "\r\n\r\n"
	return []corpusEntry{
		e("binary", "\x00\x01\x02\xff\xfe\r\n\r\n\x80\x81 binary \x00"),
		e("tls_client_hello", "\x16\x03\x01\x00\x2f\x01\x00\x00\x2b\x03\x03"+strings.Repeat("\x11", 32)+"\x00\x00\x02\x13\x01\x01\x00"),
		e("ssh_banner", "SSH-2.0-OpenSSH_8.9p1\r\n"),
		e("h2_preface", "PRI * HTTP/2.0\r\n\r\nSM\r\n\r\n\x00\x00\x00\x04\x00\x00\x00\x00\x00"),
		e("smtp", "EHLO client.example.com\r\nMAIL FROM:<a@b>\r\n"),
		e("bad_version", "GET "+abs+" HTTP/9.9\r\n"+h+"\r\n"),
		e("no_version", "GET /\r\n\r\n"),
		e("lowercase_method", "get "+abs+" HTTP/1.1\r\n"+h+"\r\n"),
		e("negative_content_length", "POST "+abs+" HTTP/1.1\r\n"+h+"Content-Length: -1\r\n\r\n"),
		e("overflow_content_length", "POST "+abs+" HTTP/1.1\r\n"+h+"Content-Length: 99999999999999999999\r\n\r\nx"),
		e("conflicting_content_length", "POST "+abs+" HTTP/1.1\r\n"+h+"Content-Length: 1\r\nContent-Length: 2\r\n\r\nxy"),
		e("te_and_cl", "POST "+abs+" HTTP/1.1\r\n"+h+"Transfer-Encoding: chunked\r\nContent-Length: 3\r\n\r\n1\r\nx\r\n0\r\n\r\n"),
		e("bad_chunk_size", "POST "+abs+" HTTP/1.1\r\n"+h+"Transfer-Encoding: chunked\r\n\r\nzz\r\nhello\r\n0\r\n\r\n"),
		e("chunk_size_overflow", "POST "+abs+" HTTP/1.1\r\n"+h+"Transfer-Encoding: chunked\r\n\r\nffffffffffffffffff\r\nhello\r\n"),
		e("bad_trailer", "POST "+abs+" HTTP/1.1\r\n"+h+"Transfer-Encoding: chunked\r\n\r\n1\r\nx\r\n0\r\nnot a trailer\r\n\r\n"),
		e("te_gzip", "POST "+abs+" HTTP/1.1\r\n"+h+"Transfer-Encoding: gzip\r\n\r\nhello"),
		e("header_without_colon", "GET "+abs+" HTTP/1.1\r\n"+h+"BadHeaderLine\r\n\r\n"),
		e("header_nul", "GET "+abs+" HTTP/1.1\r\n"+h+"X-A: b\x00c\r\n\r\n"),
		e("space_before_colon", "GET "+abs+" HTTP/1.1\r\nHost : "+originHost+"\r\n\r\n"),
		e("obs_fold", "GET "+abs+" HTTP/1.1\r\n"+h+"X-A: b\r\n c\r\n\r\n"),
		e("bad_url", "GET http://[::1/ HTTP/1.1\r\n\r\n"),
		e("bad_percent", "GET /%zz HTTP/1.1\r\n"+h+"\r\n"),
		e("no_host", "GET / HTTP/1.1\r\n\r\n"),
		e("asterisk", "OPTIONS * HTTP/1.1\r\n"+h+"\r\n"),
		e("bad_port", "GET http://"+originHost+":99999/first HTTP/1.1\r\nHost: "+originHost+":99999\r\n\r\n"),
		e("connect_empty", "CONNECT  HTTP/1.1\r\n\r\n"),
		e("connect_refused", "CONNECT nowhere.test:443 HTTP/1.1\r\nHost: nowhere.test:443\r\n\r\n"),
		e("connect_origin", "CONNECT "+originHost+":80 HTTP/1.1\r\nHost: "+originHost+":80\r\n\r\n"),
		e("expect_without_body", "GET "+abs+" HTTP/1.1\r\n"+h+"Expect: 100-continue\r\n\r\n"),
		e("upgrade", "GET "+abs+" HTTP/1.1\r\n"+h+"Connection: Upgrade\r\nUpgrade: websocket\r\n\r\n"),
		e("short_body", "POST "+abs+" HTTP/1.1\r\n"+h+"Content-Length: 10\r\n\r\nabc"),
		e("http10_no_host", "GET /first HTTP/1.0\r\n\r\n"),
		{name: "huge_method", bytes: []byte(hugeMethod), cuts: []int{4096, 4097, 64 << 10, len(hugeMethod)}},
		{name: "long_uri", bytes: []byte(longURI), cuts: []int{4096, 40000, len(longURI)}},
		{name: "long_header", bytes: []byte(longHeader), cuts: []int{1 << 20, len(longHeader)}},
	}
}

func corruptionBases() []corpusEntry {
	h := "Host: " + originHost + "\r\n"
	return []corpusEntry{
		{name: "get", bytes: []byte("GET http://" + originHost + "/first HTTP/1.1\r\n" + h + "Accept: */*\r\n\r\n")},
		{name: "post_cl", bytes: []byte("POST http://" + originHost + "/first HTTP/1.1\r\n" + h + "Content-Length: 5\r\n\r\nhello")},
		{name: "post_chunked", bytes: []byte("POST /first HTTP/1.1\r\n" + h + "Transfer-Encoding: chunked\r\n\r\n5\r\nhello\r\n0\r\n\r\n")},
	}
}

// scenarios enumerates the scenario space; only the scenarios selected by keep are materialised (a worker keeps
// its own share, the parent none), all are counted.
func scenarios(tier string, keep func(id int) bool) (map[int]*Scenario, int, map[string]int) {
	list := map[int]*Scenario{}
	total := 0
	fam := map[string]int{}
	add := func(s Scenario) {
		s.ID = total
		total++
		fam[s.Kind]++
		if keep == nil || !keep(s.ID) {
			return
		}
		// loopback-TCP re-run of every 9th (quick) / 197th (thorough) scenario, except the multi-megabyte streams
		if !(s.Script == "oversized_header" || s.Script == "huge_method" || s.Script == "long_uri" || s.Script == "long_header" || s.Script == "h2_relay") { // h2_relay: its upstream side is a loopback socket in either mode
			s.TCP = s.ID%9 == 0
			if tier == "thorough" {
				s.TCP = s.ID%197 == 0 // sparser: loopback sockets linger in TIME_WAIT and ephemeral ports are finite
			}
		}
		list[s.ID] = &s
	}
	protos := []string{"1.1"}
	if tier == "thorough" {
		protos = []string{"1.1", "1.0ka"}
	}
	// 1. every truncation offset of every response script x client protocol x {fresh, reused upstream
	// connection} x {GET, POST}; thorough: x second request {GET, POST with body, HEAD} x {second request sent
	// after response 1, already sent (pipelined) when the fault happens}
	m2s, pipes := []string{""}, []bool{false}
	if tier == "thorough" {
		m2s, pipes = []string{"", "POST", "HEAD"}, []bool{false, true}
	}
	methods := []string{"GET", "POST"}
	if tier == "thorough" {
		methods = []string{"GET", "POST", "HEAD"}
	}
	for _, sc := range scripts(tier) {
		for _, pr := range protos {
			for _, reused := range []bool{false, true} {
				for _, m := range methods {
					for _, m2 := range m2s {
						for _, pipe := range pipes {
							last := len(sc.wire)
							if m == "HEAD" {
								last = sc.headLen // the answer to HEAD is the head alone
							}
							for k := 0; k <= last; k++ {
								add(Scenario{Kind: "truncate", Script: sc.name, K: k, Reused: reused, Method: m, Proto: pr, M2: m2, Pipe: pipe})
							}
						}
					}
				}
			}
		}
	}
	// 1c. the same with a stock body-handling modifier installed as request and response modifier
	// (har.NewLogger(), martianlog.NewLogger(), marbl.NewModifier): quick: the three short scripts chunked /
	// Content-Length / close-delimited; thorough: every script (the 5200-byte ones with fewer variants)
	mods := []string{"har", "martianlog", "marbl"}
	for _, mod := range mods {
		for _, sc := range scripts(tier) {
			quickSet := sc.name == "chunked" || sc.name == "cl" || sc.name == "close_delimited"
			if tier != "thorough" {
				if !quickSet {
					continue
				}
				for _, reused := range []bool{false, true} {
					for _, m := range []string{"GET", "POST"} {
						for k := 0; k <= len(sc.wire); k++ {
							add(Scenario{Kind: "truncate", Script: sc.name, K: k, Reused: reused, Method: m, Proto: "1.1", Mod: mod})
						}
					}
				}
				continue
			}
			for _, pr := range protos {
				for _, reused := range []bool{false, true} {
					for _, m := range methods {
						for _, m2 := range m2s {
							for _, pipe := range pipes {
								if len(sc.wire) > 2000 && (pr != "1.1" || m2 == "HEAD") {
									continue // the 5200-byte scripts: HTTP/1.1 clients, second request GET or POST
								}
								last := len(sc.wire)
								if m == "HEAD" {
									last = sc.headLen
								}
								for k := 0; k <= last; k++ {
									add(Scenario{Kind: "truncate", Script: sc.name, K: k, Reused: reused, Method: m, Proto: pr, M2: m2, Pipe: pipe, Mod: mod})
								}
							}
						}
					}
				}
			}
			twoWrites(sc, mod, add)
		}
	}
	// 1b (thorough). the origin's k bytes cut into two writes (no modifier; with modifiers: above)
	if tier == "thorough" {
		for _, sc := range scripts(tier) {
			twoWrites(sc, "", add)
		}
	}
	// 2. dial outcomes: the first dial fails with an error of every class - on the plain-HTTP path (the
	// transport dials; request 1 GET/POST) and on the CONNECT path (the proxy's own connect() dials; request 1
	// is CONNECT) - or is accepted and closed at once; the second request follows afterwards or is already
	// pipelined
	for _, pr := range protos {
		for _, m := range []string{"GET", "POST", "CONNECT"} {
			for _, de := range dialErrorClasses {
				for _, m2 := range m2s {
					for _, pipe := range []bool{false, true} {
						add(Scenario{Kind: "dial", Dial: de, Method: m, Proto: pr, Script: "cl", K: -1, M2: m2, Pipe: pipe})
					}
				}
			}
			if m != "CONNECT" {
				for _, m2 := range m2s {
					for _, pipe := range []bool{false, true} {
						add(Scenario{Kind: "dial", Dial: "accept_close", Method: m, Proto: pr, Script: "cl", K: -1, M2: m2, Pipe: pipe})
					}
				}
			}
		}
	}
	// 3. non-HTTP origin answers: every prefix (k >= 1; k = 0 is truncation offset 0 above)
	for _, c := range originCorpus() {
		cuts := c.cuts
		if cuts == nil {
			for k := 1; k <= len(c.bytes); k++ {
				cuts = append(cuts, k)
			}
		}
		for _, k := range cuts {
			for _, reused := range []bool{false, true} {
				if reused && (tier != "thorough" || c.cuts != nil) {
					continue
				}
				for _, m2 := range m2s {
					for _, pipe := range pipes {
						if c.cuts != nil && (m2 != "" || pipe) {
							continue
						}
						add(Scenario{Kind: "garbage", Script: c.name, K: k, Reused: reused, Method: "GET", Proto: "1.1", M2: m2, Pipe: pipe})
					}
				}
			}
		}
	}
	// 4. client byte streams: every prefix of every corpus entry, then a well-formed request
	for _, c := range clientCorpus() {
		cuts := c.cuts
		if cuts == nil {
			for k := 0; k <= len(c.bytes); k++ {
				cuts = append(cuts, k)
			}
		}
		for _, k := range cuts {
			add(Scenario{Kind: "client", Script: c.name, K: k})
		}
	}
	// 5. one corrupted byte at every position of three short valid requests
	repl := []int{0x00, '\n', 0xff}
	if tier == "thorough" {
		repl = []int{0x00, '\n', '\r', ' ', ':', '0', 0x7f, 0x80, 0xff, -1} // -1: flip bit 5 (letter case)
	}
	for _, b := range corruptionBases() {
		for pos := range b.bytes {
			for _, r := range repl {
				rb := r
				if r == -1 {
					rb = int(b.bytes[pos] ^ 0x20)
				}
				if byte(rb) == b.bytes[pos] {
					continue
				}
				add(Scenario{Kind: "client", Script: "corrupt_" + b.name, K: -1, Pos: pos, Repl: rb})
			}
		}
	}
	auditScenarios(tier, add)
	// 6. client byte streams against a proxy with MITM enabled
	mitmScenarios(tier, add)
	// 7. round 7: framed answers of a downstream proxy to CONNECT cut at every offset (round7.go) and header
	// block shapes on the HTTP/2 path of an intercepted connection (h2relay.go)
	round7Scenarios(tier, add)
	// 8. round 8b: complete, well-framed origin answers whose body is not what their Content-Encoding declares,
	// through every logger configuration (round8b.go)
	round8bScenarios(tier, add)
	// 5b (thorough). every two-byte corruption window of the same requests: both bytes replaced by every pair
	// over {NUL, LF, CR, SP, 0xff}
	if tier == "thorough" {
		pair := []int{0x00, '\n', '\r', ' ', 0xff}
		for _, b := range corruptionBases() {
			for pos := 0; pos+1 < len(b.bytes); pos++ {
				for _, r1 := range pair {
					for _, r2 := range pair {
						add(Scenario{Kind: "client", Script: "corrupt_" + b.name, K: -1, Pos: pos, Repl: r1, Two: true, Repl2: r2})
					}
				}
			}
		}
	}
	return list, total, fam
}

// auditScenarios: families added by the audit of the check.
func auditScenarios(tier string, add func(Scenario)) {
	thorough := tier == "thorough"
	// A1. the origin stops caring while the request is still being uploaded: it answers (or not) as soon as it
	// has the request head, never reads the body and closes
	bodies := []int{6, 4097, 300001}
	for _, up := range []string{"close_at_head", "partial_head", "early_413_close"} {
		for _, n := range bodies {
			for _, ch := range []bool{false, true} {
				for _, ex := range []bool{false, true} {
					for _, reused := range []bool{false, true} {
						for _, pipe := range []bool{false, true} {
							if !thorough && (pipe && n > 6 || reused && ch) {
								continue
							}
							if pipe && n > 100000 {
								continue // the pipelined request must fit the connection buffers
							}
							add(Scenario{Kind: "upload", Upload: up, Body: n, Chunked: ch, Expect: ex, Reused: reused, Pipe: pipe, Method: "POST", Proto: "1.1", K: -1})
						}
					}
				}
			}
		}
	}
	// A2. several faulted requests in a row on one client connection (each must yield its own 502), then a good one
	for _, sc := range scripts("quick") {
		step := 1
		if !thorough {
			step = 7
		}
		for _, rp := range []int{2, 3} {
			for _, m := range []string{"GET", "POST"} {
				for k := 0; k < sc.headLen; k += step {
					add(Scenario{Kind: "truncate", Script: sc.name, K: k, Method: m, Proto: "1.1", Repeat: rp})
				}
			}
		}
	}
	// A3. the origin keeps the connection open after a complete response but sends unsolicited bytes behind it
	tails := []string{"\x00\xffGARBAGE\r\n", "HTTP/1.1 200 OK\r\nContent-Length: 3\r\n\r\nBAD", "HTTP/1.1 20", "\r\n"}
	for _, scn := range []string{"cl", "chunked", "204"} {
		for ti := range tails {
			for _, m := range []string{"GET", "POST"} {
				for _, m2 := range []string{"", "POST", "HEAD"} {
					for _, pipe := range []bool{false, true} {
						add(Scenario{Kind: "keepopen", Script: scn, K: ti, Tail: tails[ti], Method: m, Proto: "1.1", M2: m2, Pipe: pipe})
					}
				}
			}
		}
	}
	// A4. request 1 asks for the connection to be closed: the 502 is delivered and the connection then closes
	for _, sc := range scripts("quick") {
		for _, m := range []string{"GET", "POST"} {
			for k := 0; k < sc.headLen; k++ {
				if !thorough && k%5 != 0 {
					continue
				}
				add(Scenario{Kind: "truncate", Script: sc.name, K: k, Method: m, Proto: "1.1close"})
			}
		}
	}
	for _, de := range dialErrorClasses {
		for _, m := range []string{"GET", "CONNECT"} {
			add(Scenario{Kind: "dial", Dial: de, Method: m, Proto: "1.1close", Script: "cl", K: -1})
		}
	}
	// A4b. what a failing dial function returns next to its error: a typed-nil *tls.Conn / *net.TCPConn (the
	// usual result of `return tls.Dial(...)`), or a connection it has already closed
	for _, dr := range []string{"typed_nil_tls", "typed_nil_tcp", "closed_conn"} {
		for _, de := range dialErrorClasses {
			if !thorough && de != "refused" && de != "timeout" && de != "eof" {
				continue
			}
			for _, m := range []string{"GET", "POST", "CONNECT"} {
				if !thorough && m == "POST" {
					continue
				}
				for _, pipe := range []bool{false, true} {
					add(Scenario{Kind: "dial", Dial: de, DialRes: dr, Method: m, Proto: "1.1", Script: "cl", K: -1, Pipe: pipe})
				}
			}
		}
	}
	// A5. CONNECT through a downstream proxy (SetDownstreamProxy): the downstream proxy's answer to the
	// CONNECT is cut at every offset
	for _, ds := range downstreamScripts {
		for k := 0; k <= len(ds.wire); k++ {
			for _, pipe := range []bool{false, true} {
				if pipe && k >= ds.headLen {
					continue
				}
				add(Scenario{Kind: "downstream", Script: ds.name, K: k, Method: "CONNECT", Proto: "1.1", Pipe: pipe})
			}
		}
	}
	// A6. the client sends part of a request and then stays silent without closing: the proxy's timeout must end
	// the connection (SetTimeout(400 ms); wall-clock bound: the generous hang deadline)
	for _, st := range []string{"", "GET http://origin.test/fi", "POST http://origin.test/first HTTP/1.1\r\nHost: origin.test\r\nContent-Length: 10\r\n\r\nabc", "GET http://origin.test/first HTTP/1.1\r\nHost: origin.test\r\n"} {
		add(Scenario{Kind: "client", Script: "idle", Tail: st, K: len(st), IdleMs: 400})
	}
}

var downstreamScripts = []script{
	mkScript("ds_200", "HTTP/1.1 200 Connection established\r\n\r\n", "", "", false, false, 200),
	mkScript("ds_200_cl0", "HTTP/1.1 200 OK\r\nContent-Length: 0\r\nVia: 1.1 downstream\r\n\r\n", "", "", false, false, 200),
	mkScript("ds_407", "HTTP/1.1 407 Proxy Authentication Required\r\nProxy-Authenticate: Basic realm=\"ds\"\r\nContent-Length: 4\r\n\r\n", "auth", "auth", false, false, 407),
	mkScript("ds_503_close", "HTTP/1.1 503 Service Unavailable\r\nContent-Length: 0\r\nConnection: close\r\n\r\n", "", "", false, true, 503),
}

// twoWrites: the origin writes its k bytes in two writes cut at j. Scripts up to 260 bytes: every pair j < k;
// longer scripts: every k with j in {1, k/2, k-1}, and the complete response cut at every j.
func twoWrites(sc script, mod string, add func(Scenario)) {
	n := len(sc.wire)
	for _, reused := range []bool{false, true} {
		for _, m := range []string{"GET", "POST"} {
			if n <= 260 {
				for k := 2; k <= n; k++ {
					for j := 1; j < k; j++ {
						add(Scenario{Kind: "truncate", Script: sc.name, K: k, Split: j, Reused: reused, Method: m, Proto: "1.1", Mod: mod})
					}
				}
				continue
			}
			if reused {
				continue
			}
			for k := 4; k <= n; k++ {
				for _, j := range []int{1, k / 2, k - 1} {
					add(Scenario{Kind: "truncate", Script: sc.name, K: k, Split: j, Method: m, Proto: "1.1", Mod: mod})
				}
			}
			for j := 2; j < n-1; j++ {
				if j != n/2 {
					add(Scenario{Kind: "truncate", Script: sc.name, K: n, Split: j, Method: m, Proto: "1.1", Mod: mod})
				}
			}
		}
	}
}

// ---------------------------------------------------------------------------------------------------
// recording response modifier

type modCall struct {
	Status   int
	Warnings []string
}

type recorder struct {
	mu    sync.Mutex
	calls []modCall
}

func (r *recorder) ModifyResponse(res *http.Response) error {
	r.mu.Lock()
	r.calls = append(r.calls, modCall{Status: res.StatusCode, Warnings: append([]string(nil), res.Header["Warning"]...)})
	r.mu.Unlock()
	return nil
}

func (r *recorder) sawWarningOn502(w string) bool {
	r.mu.Lock()
	defer r.mu.Unlock()
	for _, c := range r.calls {
		if c.Status != 502 {
			continue
		}
		for _, x := range c.Warnings {
			if x == w {
				return true
			}
		}
	}
	return false
}

// stockModifier returns the request and response modifiers of a configuration: the recording modifier alone,
// or a stock martian modifier followed by the recording modifier (the stock modifier's error is returned to
// the proxy, as a modifier group would).
type chained struct {
	first martian.ResponseModifier
	rec   *recorder
}

func (c chained) ModifyResponse(res *http.Response) error {
	err := c.first.ModifyResponse(res)
	c.rec.ModifyResponse(res)
	return err
}

var marblOnce sync.Once
var marblMod *marbl.Modifier

func stockModifier(name string, rec *recorder) (martian.RequestModifier, martian.ResponseModifier) {
	switch name {
	case "har":
		l := har.NewLogger()
		return l, chained{l, rec}
	case "martianlog":
		l := martianlog.NewLogger()
		l.SetLogFunc(func(string) {})
		return l, chained{l, rec}
	case "martianlog_decode":
		l := martianlog.NewLogger()
		l.SetDecode(true)
		l.SetLogFunc(func(string) {})
		return l, chained{l, rec}
	case "marbl":
		// one stream (and its goroutine) per process, written to nowhere
		marblOnce.Do(func() { marblMod = marbl.NewModifier(discard{}) })
		return marblMod, chained{marblMod, rec}
	}
	return nil, rec
}

type discard struct{}

func (discard) Write(p []byte) (int, error) { return len(p), nil }

// ---------------------------------------------------------------------------------------------------
// execution

type finding struct {
	class, symptom, detail string
}

type runOut struct {
	findings []finding
	outcome  string
	origin   int
}

// dial error classes: what the dial function hands back for the first dial
var dialErrorClasses = []string{"refused", "timeout", "eof", "closed_pipe", "unexpected_eof", "generic"}

func dialError(class, addr string) error {
	switch class {
	case "timeout": // a net.Error with Timeout() == true
		return &net.OpError{Op: "dial", Net: "tcp", Err: os.ErrDeadlineExceeded}
	case "eof":
		return io.EOF
	case "closed_pipe":
		return io.ErrClosedPipe
	case "unexpected_eof":
		return io.ErrUnexpectedEOF
	case "generic":
		return errors.New("c03: dial failed for no particular reason")
	}
	return h1harness.Refused(addr)
}

func request(method, path, proto string) []byte {
	var sb strings.Builder
	v := "HTTP/1.1"
	if proto == "1.0ka" {
		v = "HTTP/1.0"
	}
	if method == "CONNECT" {
		fmt.Fprintf(&sb, "CONNECT %s:80 %s\r\nHost: %s:80\r\n", originHost, v, originHost)
		if proto == "1.0ka" {
			sb.WriteString("Connection: keep-alive\r\n")
		}
		if proto == "1.1close" {
			sb.WriteString("Connection: close\r\n")
		}
		sb.WriteString("\r\n")
		return []byte(sb.String())
	}
	fmt.Fprintf(&sb, "%s http://%s%s %s\r\nHost: %s\r\n", method, originHost, path, v, originHost)
	if proto == "1.0ka" {
		sb.WriteString("Connection: keep-alive\r\n")
	}
	if proto == "1.1close" {
		sb.WriteString("Connection: close\r\n")
	}
	if method == "POST" {
		sb.WriteString("Content-Type: application/x-www-form-urlencoded\r\nContent-Length: 6\r\n\r\ndata=1")
	} else {
		sb.WriteString("\r\n")
	}
	return []byte(sb.String())
}

// uploadRequest: request 1 of the upload family (POST with a body of the given size and framing).
func uploadRequest(s *Scenario) []byte {
	var sb strings.Builder
	fmt.Fprintf(&sb, "POST http://%s/first HTTP/1.1\r\nHost: %s\r\nContent-Type: application/octet-stream\r\n", originHost, originHost)
	if s.Expect {
		sb.WriteString("Expect: 100-continue\r\n")
	}
	body := strings.Repeat("u", s.Body)
	if s.Chunked {
		sb.WriteString("Transfer-Encoding: chunked\r\n\r\n")
		for len(body) > 0 {
			n := 4000
			if n > len(body) {
				n = len(body)
			}
			fmt.Fprintf(&sb, "%x\r\n%s\r\n", n, body[:n])
			body = body[n:]
		}
		sb.WriteString("0\r\n\r\n")
	} else {
		fmt.Fprintf(&sb, "Content-Length: %d\r\n\r\n%s", s.Body, body)
	}
	return []byte(sb.String())
}

func lookupScript(tier, name string) (script, bool) {
	for _, s := range scripts("thorough") {
		if s.name == name {
			return s, true
		}
	}
	return script{}, false
}

func lookupCorpus(list []corpusEntry, name string) []byte {
	for _, c := range list {
		if c.name == name {
			return c.bytes
		}
	}
	return nil
}

var corpusOnce sync.Once
var oCorpus, cCorpus []corpusEntry

func corpora() {
	corpusOnce.Do(func() { oCorpus, cCorpus = originCorpus(), clientCorpus() })
}

func runScenario(s *Scenario, kind string, quiet time.Duration) *runOut {
	corpora()
	if s.Kind == "client" {
		return runClientStream(s, kind, quiet)
	}
	if s.Kind == "mitm" {
		return runMITMStream(s, kind, quiet)
	}
	if s.Kind == "downstream" {
		return runDownstreamConnect(s, kind, quiet)
	}
	out := &runOut{}
	rec := &recorder{}
	// what the origin does with the first request for /first
	var faultBytes []byte
	var sc script
	isScript := false
	switch s.Kind {
	case "truncate":
		sc, isScript = lookupScript("", s.Script)
		if s.Method == "HEAD" { // a well-behaved origin answers HEAD with the head alone
			sc.wire, sc.body = sc.wire[:sc.headLen], nil
		}
		faultBytes = sc.wire[:s.K]
	case "coding":
		sc, isScript = lookupCodingScript(s.Script)
		if s.Method == "HEAD" {
			sc.wire, sc.body = sc.wire[:sc.headLen], nil
		}
		faultBytes = sc.wire[:s.K]
	case "garbage":
		faultBytes = lookupCorpus(oCorpus, s.Script)[:s.K]
	case "dial":
		sc, _ = lookupScript("", s.Script)
	case "keepopen":
		sc, isScript = lookupScript("", s.Script)
		faultBytes = append(append([]byte{}, sc.wire...), s.Tail...)
	}
	var mu sync.Mutex
	faults := 0
	repeat := s.Repeat
	if repeat < 1 {
		repeat = 1
	}
	origin := &h1harness.Origin{}
	if s.Kind == "upload" {
		origin.Early = func(conn, idx int, head *h1harness.RawRequest) *h1harness.Action {
			if !strings.HasSuffix(head.Target, "/first") {
				return nil
			}
			mu.Lock()
			first := faults == 0
			faults++
			mu.Unlock()
			if !first {
				return nil
			}
			switch s.Upload {
			case "partial_head":
				return &h1harness.Action{Write: [][]byte{[]byte("HTTP/1.1 200 OK\r\nContent-Le")}, Close: true}
			case "early_413_close":
				return &h1harness.Action{Write: [][]byte{[]byte("HTTP/1.1 413 Payload Too Large\r\nContent-Length: 0\r\nConnection: close\r\n\r\n")}, Close: true}
			}
			return &h1harness.Action{Close: true}
		}
	}
	origin.Handler = func(conn, idx int, req *h1harness.RawRequest, perr error) h1harness.Action {
		if perr != nil {
			return h1harness.Action{Close: true}
		}
		if req.Method == "HEAD" && strings.HasSuffix(req.Target, "/second") {
			return h1harness.Action{Write: [][]byte{secondResp[:len(secondResp)-len(marker)]}}
		}
		if req.Method != "GET" && req.Method != "POST" && !(req.Method == "HEAD" && s.Method == "HEAD") {
			// e.g. left-over bytes of an earlier request body glued in front of the method
			return h1harness.Action{Write: [][]byte{[]byte("HTTP/1.1 400 Bad Request\r\nContent-Length: 10\r\nX-Origin-Saw-Method: " + fmt.Sprintf("%q", req.Method) + "\r\n\r\nbad method")}}
		}
		switch {
		case strings.HasSuffix(req.Target, "/warm"):
			return h1harness.Action{Write: [][]byte{warmResp}}
		case strings.HasSuffix(req.Target, "/second"):
			return h1harness.Action{Write: [][]byte{secondResp}}
		case strings.HasSuffix(req.Target, "/first"):
			mu.Lock()
			first := faults < repeat
			faults++
			mu.Unlock()
			if first && s.Kind == "keepopen" {
				return h1harness.Action{Write: [][]byte{faultBytes}} // complete response, unsolicited tail, connection stays open
			}
			if first && s.Kind == "coding" && s.K == len(sc.wire) {
				// a complete answer of a regular origin: the connection stays open unless the framing ends it
				return h1harness.Action{Write: [][]byte{sc.wire}, Close: sc.closes}
			}
			if first && s.Kind != "dial" {
				if s.Split > 0 && s.Split < len(faultBytes) {
					return h1harness.Action{Write: [][]byte{faultBytes[:s.Split], faultBytes[s.Split:]}, Close: true}
				}
				return h1harness.Action{Write: [][]byte{faultBytes}, Close: true}
			}
			// a retry (or the dial scenarios' second attempt): serve the complete response
			if sc.wire != nil {
				return h1harness.Action{Write: [][]byte{sc.wire}, Close: sc.closes}
			}
			return h1harness.Action{Write: [][]byte{genericResp}}
		}
		return h1harness.Action{Write: [][]byte{genericResp}}
	}
	if s.Dial == "accept_close" {
		origin.OnAccept = func(conn int) bool { return conn == 0 }
	}
	reqmod, resmod := stockModifier(s.Mod, rec)
	env, err := h1harness.NewEnv(h1harness.EnvOpts{Kind: kind, ResMod: resmod, ReqMod: reqmod, Dial: func(n int, addr string) error {
		if s.Kind == "dial" && s.Dial != "accept_close" && n == 0 {
			return dialError(s.Dial, addr)
		}
		if addr != originHost+":80" {
			return h1harness.Refused(addr)
		}
		return nil
	}, FailedDialConn: func(n int, addr string) net.Conn {
		switch s.DialRes {
		case "typed_nil_tls":
			var c *tls.Conn
			return c
		case "typed_nil_tcp":
			var c *net.TCPConn
			return c
		case "closed_conn":
			p := h1harness.NewPipe(0, "failed-dial", "nowhere")
			p.A.Close()
			p.B.Close()
			return p.A
		}
		return nil
	}}, origin)
	if err != nil {
		out.findings = append(out.findings, finding{"harness", "env_failed", err.Error()})
		return out
	}
	defer func() {
		out.origin = len(env.Origin.Log())
		if !env.Close() {
			out.findings = append(out.findings, finding{"teardown", "proxy_shutdown_hang", "proxy.Close() did not return within 20 s"})
		}
	}()
	cl, err := env.NewClient()
	if err != nil {
		out.findings = append(out.findings, finding{"harness", "client_dial_failed", err.Error()})
		return out
	}
	if quiet > 0 {
		cl.QuietTimeout = quiet
	}
	// classification of the fault (scenario predicate, used in signatures)
	class := ""
	headIncomplete := true
	switch s.Kind {
	case "dial":
		class = "dial_" + s.Dial
		if s.DialRes != "" {
			class += "+" + s.DialRes
		}
	case "truncate":
		headIncomplete = s.K < sc.headLen
		switch {
		case s.K == len(sc.wire):
			class = "origin_complete_then_close"
		case headIncomplete:
			class = "origin_truncated_in_head"
		default:
			class = "origin_truncated_in_body"
		}
	case "coding":
		headIncomplete = s.K < sc.headLen
		class = codingClass(s, len(sc.wire))
	case "garbage":
		headIncomplete = !h1harness.HasBlankLine(faultBytes)
		if headIncomplete {
			class = "origin_nonhttp_before_head_end"
		} else {
			class = "origin_nonhttp_after_head"
		}
	case "upload":
		class = "origin_closes_during_request_upload"
		headIncomplete = s.Upload != "early_413_close"
	case "keepopen":
		class = "origin_unsolicited_bytes_after_response"
		headIncomplete = false
	}
	if repeat > 1 {
		class += "+repeated"
	}
	if s.Mod != "" {
		class += "+modifier:" + s.Mod
	}
	report := func(sym, detail string) {
		c := class
		if strings.HasPrefix(sym, "502_") || sym == "second_request_not_served_after_502" {
			c = "upstream_failure" // the quality of the 502 does not depend on the kind of failure
		}
		out.findings = append(out.findings, finding{c, sym, detail})
	}
	if s.Reused {
		if err := cl.Send(request("GET", "/warm", s.Proto)); err != nil {
			report("warmup_failed", err.Error())
			return out
		}
		w := cl.ReadResponse("GET")
		if w.HeadErr != "" || w.Status != 200 || string(w.Body) != "warm-ok" {
			report("warmup_failed", fmt.Sprintf("warm-up exchange: head=%q status=%d body=%q", w.HeadErr, w.Status, w.Body))
			return out
		}
	}
	// several faulted requests in a row: each but the last is checked here, the last by the regular flow
	for i := 1; i < repeat; i++ {
		if err := cl.Send(request(s.Method, "/first", s.Proto)); err != nil {
			report("client_write_failed", err.Error())
			return out
		}
		r := cl.ReadResponse(s.Method)
		seen := false
		for _, w := range r.Header["Warning"] {
			if rec.sawWarningOn502(w) {
				seen = true
			}
		}
		if r.HeadErr != "" || r.Status != 502 || r.BodyEnd != h1harness.EndOK || !seen {
			report("no_502_on_incomplete_head", fmt.Sprintf("faulted request %d of %d in a row: head=%q status=%d warning-seen=%v", i, repeat, r.HeadErr, r.Status, seen))
			return out
		}
	}
	rawStart := len(cl.Raw())
	// phase A: request 1
	m2 := s.M2
	if m2 == "" {
		m2 = "GET"
	}
	req1 := request(s.Method, "/first", s.Proto)
	if s.Kind == "upload" {
		req1 = uploadRequest(s)
	}
	if s.Pipe {
		req1 = append(req1, request(m2, "/second", s.Proto)...)
	}
	if err := cl.Send(req1); err != nil {
		report("client_write_failed", err.Error())
		return out
	}
	r1 := cl.ReadResponse(s.Method)
	endA := r1.HeadErr
	if endA == "" {
		endA = r1.BodyEnd
	}
	closedAfter1 := endA == h1harness.EndEOF || endA == h1harness.EndUnexpEOF || endA == h1harness.EndReset
	if endA == h1harness.EndOK && r1.Framing == "close" {
		closedAfter1 = true // a close-delimited body was read up to EOF
	}
	// phase B: request 2 on the same connection (unless the proxy has closed it), then half-close and read to EOF
	sent2 := s.Pipe
	if !closedAfter1 && !s.Pipe {
		if err := cl.Send(request(m2, "/second", s.Proto)); err == nil {
			sent2 = true
		}
	}
	cl.CloseWrite()
	_, endB := cl.Drain()
	raw := cl.Raw()[rawStart:]
	resps, rest := h1harness.ParseStream(raw, []string{s.Method, m2}, true)
	out.outcome = fmt.Sprintf("A=%s/%d/%s sent2=%v B=%s n=%d rest=%d", short(endA), r1.Status, r1.Framing, sent2, short(endB), len(resps), len(rest))

	if endA == h1harness.EndHang || endB == h1harness.EndHang {
		report("hang", fmt.Sprintf("no progress within the hang deadline (phase A %s, phase B %s)", endA, endB))
		return out
	}
	if endB == h1harness.EndStalled {
		report("hang_conn_not_closed_after_client_eof", "the client half-closed after its last request but the proxy neither answers nor closes")
	}
	// --- response 1 ---
	if r1.HeadErr != "" {
		switch {
		case r1.HeadErr == h1harness.EndStalled:
			report("no_response", "request 1 is never answered: proxy and client both wait")
		case len(raw) == 0:
			report("closed_without_response", "the connection was closed without any response (the statement allows a 502 or an incomplete response followed by close)")
		default:
			report("resp_malformed", fmt.Sprintf("response 1 is not well-formed HTTP (%s): %q", r1.HeadErr, trunc(raw, 120)))
		}
		return out
	}
	if bytes.Contains(headAndBody(resps, 0, raw), []byte("@@MARKER")) || (len(resps) > 0 && bytes.Contains(resps[0].Body, []byte("@@MARKER"))) {
		report("later_response_bytes_in_earlier_response", fmt.Sprintf("bytes of response 2 were delivered as part of response 1: client parse of response 1 = status %d, body %q", resps[0].Status, trunc(resps[0].Body, 80)))
	}
	if endA == h1harness.EndStalled && r1.HeadErr == "" && len(resps) > 0 && len(resps[0].Body) > len(r1.Body) {
		// when the client stalled the proxy was idle, waiting for the next request: whatever it wrote after
		// request 2 was sent belongs to response 2, yet the client's framing attributes it to response 1
		report("later_response_bytes_in_earlier_response", fmt.Sprintf("response 1 was left incomplete on an open connection (%d body bytes); after request 2 was sent the client's parse of response 1 grew to %d body bytes: %q", len(r1.Body), len(resps[0].Body), trunc(resps[0].Body, 100)))
	}
	is502 := r1.Status == 502
	complete := false
	switch {
	case is502:
		// (i) a well-formed 502 carrying a Warning header that passed through the response modifier
		if r1.BodyEnd != h1harness.EndOK {
			report("502_malformed", "the 502 response is itself incomplete: "+r1.BodyEnd)
			return out
		}
		ws := r1.Header["Warning"]
		if len(ws) == 0 {
			report("502_without_warning", fmt.Sprintf("502 response without Warning header: %v", r1.Header))
		} else {
			seen := false
			for _, w := range ws {
				if rec.sawWarningOn502(w) {
					seen = true
				}
			}
			if !seen {
				report("502_warning_not_seen_by_modifier", fmt.Sprintf("Warning %q did not pass through the response modifier (modifier calls: %+v)", ws, rec.calls))
			}
		}
		if s.Kind == "truncate" && s.K == len(sc.wire) {
			report("502_for_complete_response", "the origin sent a complete response and then closed, yet the client got a 502")
		}
		// a 502 after a complete head is still a well-formed failure report: accepted (the statement makes
		// it mandatory only when the failure precedes a complete head)
		complete = true
	case isScript && r1.Status == sc.status:
		switch {
		case r1.BodyEnd == h1harness.EndOK && (bytes.Equal(r1.Body, sc.body) || (s.Method == "HEAD" && len(r1.Body) == 0)):
			// (iii) the complete response: always acceptable
			complete = true
		case sc.closeDelimited && r1.BodyEnd == h1harness.EndOK && s.K >= sc.headLen && bytes.Equal(r1.Body, sc.wire[sc.headLen:s.K]):
			// a close-delimited response cut short is, on the wire, a complete shorter response
			complete = true
		case headIncomplete:
			report("no_502_on_incomplete_head", fmt.Sprintf("origin closed inside the response head (offset %d of %d) but the client got status %d body %q", s.K, sc.headLen, r1.Status, trunc(r1.Body, 60)))
		case r1.BodyEnd == h1harness.EndOK:
			if s.Method == "HEAD" {
				complete = true
			} else {
				report("truncation_not_detectable", fmt.Sprintf("origin closed at offset %d of %d; the client parsed a complete response with body %q (origin's full body %q)", s.K, len(sc.wire), trunc(r1.Body, 60), trunc(sc.body, 60)))
			}
		case r1.BodyEnd == h1harness.EndUnexpEOF:
			// (ii) detectably incomplete followed by connection close
			if !bytes.HasPrefix(sc.body, r1.Body) {
				report("resp_body_mismatch", fmt.Sprintf("partial body %q is not a prefix of the origin's body", trunc(r1.Body, 60)))
			}
		case r1.BodyEnd == h1harness.EndStalled:
			report("incomplete_response_conn_left_open", fmt.Sprintf("origin closed at offset %d of %d (in the body); the client got the head and %d of %d body bytes and the proxy then waits for the next request on the same connection instead of closing it", s.K, len(sc.wire), len(r1.Body), len(sc.body)))
		default:
			report("resp_malformed", "response 1 body: "+r1.BodyEnd)
		}
	case headIncomplete:
		report("no_502_on_incomplete_head", fmt.Sprintf("the origin's response head was incomplete (%q) but the client got status %d", trunc(faultBytes, 60), r1.Status))
	default:
		// non-HTTP-ish answer that still has a complete head: any well-formed response is acceptable as long as
		// it is complete or detectably incomplete followed by close
		switch r1.BodyEnd {
		case h1harness.EndOK:
			complete = true
		case h1harness.EndUnexpEOF:
		case h1harness.EndStalled:
			report("incomplete_response_conn_left_open", fmt.Sprintf("origin answer %q: the client got the head and %d body bytes of an incomplete response and the proxy keeps the connection open", trunc(faultBytes, 60), len(r1.Body)))
		default:
			report("resp_malformed", "response 1 body: "+r1.BodyEnd)
		}
	}
	// --- response 2 ---
	// a complete origin response may legitimately end the connection (Connection: close, close-delimited);
	// a 502 synthesised by the proxy may not: "after a 502 the same client connection continues to serve"
	resp1ClosesConn := !is502 && (closedAfter1 || r1.Close)
	if s.Proto == "1.1close" {
		// the client asked for the connection to be closed after request 1: nothing more is owed, but the
		// connection must really end
		resp1ClosesConn = true
		if complete && endB != h1harness.EndEOF && endB != h1harness.EndReset {
			report("conn_not_closed_after_close_request", "request 1 carried Connection: close; after its response the connection ended as: "+endB)
		}
	}
	if isScript && !is502 && !sc.closes && (s.Kind == "truncate" || s.Kind == "coding") && s.K == len(sc.wire) {
		resp1ClosesConn = false // a complete keep-alive response: the connection must stay usable
	}
	if complete && !resp1ClosesConn {
		// the connection stayed open after a complete response 1 (a 502 in particular): request 2 must be served
		ok := len(resps) >= 2 && resps[1].HeadErr == "" && resps[1].Status == 200 && resps[1].Header.Get("X-Second") == "yes" && (string(resps[1].Body) == marker || (m2 == "HEAD" && len(resps[1].Body) == 0)) && resps[1].BodyEnd == h1harness.EndOK
		if !ok && len(resps) >= 2 && resps[1].HeadErr == "" && resps[1].Status == 502 && resps[1].BodyEnd == h1harness.EndOK {
			// Request 2 may itself run into an upstream failure: the origin closed the kept-alive upstream
			// connection after response 1 and the transport may pick that dead connection before it notices
			// (a non-idempotent request is then not retried). A well-formed 502 is the sanctioned outcome of an
			// upstream failure - provided the origin really never received request 2.
			reached := false
			for _, lr := range env.Origin.Log() {
				if strings.HasSuffix(lr.Target, "/second") {
					reached = true
				}
			}
			ws := resps[1].Header["Warning"]
			seen := false
			for _, w := range ws {
				if rec.sawWarningOn502(w) {
					seen = true
				}
			}
			// (keepopen: the unsolicited bytes sit on the very upstream connection request 2 may be sent on;
			// what the transport then reads in answer to request 2 is not HTTP, whether or not the origin saw it)
			if (!reached || s.Kind == "keepopen") && seen {
				ok = true
				rest = nil
				out.outcome += " second=502_upstream_failure"
			}
		}
		if !ok && s.Kind == "keepopen" && strings.HasPrefix(s.Tail, "HTTP/1.1 200 OK\r\nContent-Length: 3\r\n\r\n") && len(resps) >= 2 &&
			resps[1].HeadErr == "" && resps[1].Status == 200 && resps[1].BodyEnd == h1harness.EndOK && (string(resps[1].Body) == "BAD" || (m2 == "HEAD" && len(resps[1].Body) == 0)) {
			// The unsolicited bytes are themselves a complete, well-formed response. If the transport has already
			// written request 2 on that upstream connection when it notices them (a matter of timing between the
			// origin and the transport, not of martian), they are the answer to request 2 as far as HTTP can tell:
			// the client gets a well-formed response, nothing of it is delivered as part of response 1, and the
			// statement asks for nothing else here.
			ok = true
			rest = nil
			out.outcome += " second=stale_wellformed_response"
		}
		if !ok {
			sym := "second_request_not_served"
			if is502 {
				sym = "second_request_not_served_after_502"
			}
			d := "no second response"
			if len(resps) >= 2 {
				d = fmt.Sprintf("head=%q status=%d body=%q end=%s", resps[1].HeadErr, resps[1].Status, trunc(resps[1].Body, 60), resps[1].BodyEnd)
			}
			report(sym, fmt.Sprintf("after response 1 (status %d) the same connection did not serve the next request correctly: %s; raw stream %q", r1.Status, d, trunc(raw, 200)))
		} else if len(rest) > 0 {
			report("trailing_garbage", fmt.Sprintf("%d bytes after response 2: %q", len(rest), trunc(rest, 80)))
		}
	}
	return out
}

func headAndBody(resps []*h1harness.Response, i int, raw []byte) []byte {
	// the bytes the client attributes to response i: for i = 0 everything up to the start of response 2's
	// status line as parsed; we approximate by the parsed body plus header values
	if i >= len(resps) || resps[i].Header == nil {
		return nil
	}
	var b bytes.Buffer
	resps[i].Header.Write(&b)
	b.Write(resps[i].Body)
	return b.Bytes()
}

func short(s string) string {
	if i := strings.IndexByte(s, ':'); i >= 0 {
		return s[:i]
	}
	return s
}

func trunc(b []byte, n int) []byte {
	if len(b) > n {
		return b[:n]
	}
	return b
}

// runClientStream: arbitrary client bytes, then a well-formed request, then half-close. The statement's only
// demand here is that the proxy process survives (and, from the title, that nothing hangs); afterwards a
// fresh connection must still be served.
func runClientStream(s *Scenario, kind string, quiet time.Duration) *runOut {
	out := &runOut{}
	var stream []byte
	if s.Script == "idle" {
		stream = []byte(s.Tail)
	} else if s.K >= 0 {
		stream = lookupCorpus(cCorpus, s.Script)[:s.K]
	} else {
		base := lookupCorpus(corruptionBases(), strings.TrimPrefix(s.Script, "corrupt_"))
		stream = append([]byte(nil), base...)
		stream[s.Pos] = byte(s.Repl)
		if s.Two {
			stream[s.Pos+1] = byte(s.Repl2)
		}
	}
	class := "client_stream"
	report := func(sym, detail string) {
		out.findings = append(out.findings, finding{class, sym, detail})
	}
	origin := &h1harness.Origin{Continue100: true}
	origin.Handler = func(conn, idx int, req *h1harness.RawRequest, perr error) h1harness.Action {
		if perr != nil {
			return h1harness.Action{Write: [][]byte{[]byte("HTTP/1.1 400 Bad Request\r\nContent-Length: 0\r\nConnection: close\r\n\r\n")}, Close: true}
		}
		if strings.HasSuffix(req.Target, "/second") {
			return h1harness.Action{Write: [][]byte{secondResp}}
		}
		if req.Method == "HEAD" {
			return h1harness.Action{Write: [][]byte{[]byte("HTTP/1.1 200 OK\r\nContent-Length: 7\r\n\r\n")}}
		}
		return h1harness.Action{Write: [][]byte{genericResp}}
	}
	env, err := h1harness.NewEnv(h1harness.EnvOpts{Kind: kind, Timeout: time.Duration(s.IdleMs) * time.Millisecond, Dial: func(n int, addr string) error {
		if addr != originHost+":80" {
			return h1harness.Refused(addr)
		}
		return nil
	}}, origin)
	if err != nil {
		out.findings = append(out.findings, finding{"harness", "env_failed", err.Error()})
		return out
	}
	defer func() {
		out.origin = len(env.Origin.Log())
		if !env.Close() {
			report("proxy_shutdown_hang", "proxy.Close() did not return within 20 s")
		}
	}()
	cl, err := env.NewClient()
	if err != nil {
		out.findings = append(out.findings, finding{"harness", "client_dial_failed", err.Error()})
		return out
	}
	if quiet > 0 {
		cl.QuietTimeout = quiet
	}
	if s.IdleMs > 0 {
		// a silent client: no EOF, no further bytes. Only the proxy's own timeout can end this connection; the
		// structural stall detection is switched off (this stall is the scenario), the hang deadline judges.
		if m, ok := cl.Conn.(*h1harness.MemConn); ok {
			m.StallAware = false
		}
		cl.HangDeadline = 15 * time.Second
		cl.QuietTimeout = 15 * time.Second
		cl.Send([]byte(s.Tail))
		got, end := cl.Drain()
		out.outcome = fmt.Sprintf("idle|%d|%s", len(got), short(end))
		if end != h1harness.EndEOF && end != h1harness.EndReset {
			report("hang_idle_connection_not_timed_out", fmt.Sprintf("the client sent %q and went silent; with SetTimeout(%d ms) the proxy must give up on the connection, it ended as: %s", trunc([]byte(s.Tail), 60), s.IdleMs, end))
		}
	} else {
		werr := cl.Send(stream, request("GET", "/second", "1.1"))
		cl.CloseWrite()
		got, end := cl.Drain()
		clientStreamVerdict(stream, got, end, werr, out, report)
	}
	// the proxy must still serve a fresh connection
	c2, err := env.NewClient()
	if err != nil {
		report("proxy_dead_after_stream", "cannot connect to the proxy any more: "+err.Error())
		return out
	}
	if quiet > 0 {
		c2.QuietTimeout = quiet
	}
	c2.Send(request("GET", "/second", "1.1"))
	r := c2.ReadResponse("GET")
	if r.HeadErr != "" || r.Status != 200 || string(r.Body) != marker {
		report("proxy_dead_after_stream", fmt.Sprintf("a fresh connection is not served after the stream: head=%q status=%d body=%q", r.HeadErr, r.Status, trunc(r.Body, 40)))
	}
	return out
}

// runDownstreamConnect: the proxy is configured with a downstream proxy (SetDownstreamProxy) and the client asks
// for a CONNECT tunnel; the downstream proxy's answer to the forwarded CONNECT is cut at offset K.
func runDownstreamConnect(s *Scenario, kind string, quiet time.Duration) *runOut {
	out := &runOut{}
	rec := &recorder{}
	var ds script
	for _, d := range append(append([]script{}, downstreamScripts...), downstreamScriptsR7...) {
		if d.name == s.Script {
			ds = d
		}
	}
	headIncomplete := s.K < ds.headLen
	class := "downstream_connect_answer_complete"
	if headIncomplete {
		class = "downstream_connect_answer_truncated_in_head"
	} else if s.K < len(ds.wire) {
		class = "downstream_connect_answer_truncated_in_body"
	}
	report := func(sym, detail string) {
		c := class
		if strings.HasPrefix(sym, "502_") || sym == "second_request_not_served_after_502" {
			c = "upstream_failure"
		}
		out.findings = append(out.findings, finding{c, sym, detail})
	}
	var mu sync.Mutex
	connects := 0
	origin := &h1harness.Origin{}
	origin.Handler = func(conn, idx int, req *h1harness.RawRequest, perr error) h1harness.Action {
		if perr != nil {
			return h1harness.Action{Close: true}
		}
		if req.Method == "CONNECT" {
			mu.Lock()
			connects++
			mu.Unlock()
			return h1harness.Action{Write: [][]byte{ds.wire[:s.K]}, Close: s.K < len(ds.wire) || ds.closes}
		}
		if strings.HasSuffix(req.Target, "/second") {
			return h1harness.Action{Write: [][]byte{secondResp}}
		}
		return h1harness.Action{Write: [][]byte{genericResp}}
	}
	env, err := h1harness.NewEnv(h1harness.EnvOpts{Kind: kind, ResMod: rec, Downstream: "http://downstream.test:3128", Dial: func(n int, addr string) error {
		if addr != "downstream.test:3128" {
			return h1harness.Refused(addr) // with a downstream proxy configured nothing else may be dialled
		}
		return nil
	}}, origin)
	if err != nil {
		out.findings = append(out.findings, finding{"harness", "env_failed", err.Error()})
		return out
	}
	defer func() {
		out.origin = len(env.Origin.Log())
		if !env.Close() {
			report("proxy_shutdown_hang", "proxy.Close() did not return within 20 s")
		}
	}()
	cl, err := env.NewClient()
	if err != nil {
		out.findings = append(out.findings, finding{"harness", "client_dial_failed", err.Error()})
		return out
	}
	if quiet > 0 {
		cl.QuietTimeout = quiet
	}
	second := request("GET", "/second", "1.1")
	first := request("CONNECT", "", "1.1")
	if s.Pipe {
		first = append(first, second...)
	}
	var lines []string
	var end string
	status := ""
	var c2 *h1harness.Client
	cl.Send(first)
	if isR7Downstream(ds.name) && !headIncomplete {
		// round 7: the answer's head is complete - what the client receives is judged as a response (refusal)
		// or as the start of the tunnel (2xx followed by early tunnel bytes)
		downstreamBodyVerdict(s, ds, cl, out, report)
		goto fresh
	}
	lines, end = cl.ReadHead()
	if end == h1harness.EndOK && len(lines) > 0 {
		if f := strings.Fields(lines[0]); len(f) >= 2 {
			status = f[1]
		}
	}
	out.outcome = fmt.Sprintf("connect=%s/%s", status, short(end))
	switch {
	case end == h1harness.EndHang || end == h1harness.EndStalled:
		report("no_response", "the CONNECT is never answered: "+end)
		return out
	case headIncomplete:
		seen, has := false, false
		for _, l := range lines[1:] {
			if strings.HasPrefix(strings.ToLower(l), "warning:") {
				has = true
				if rec.sawWarningOn502(strings.TrimSpace(l[len("warning:"):])) {
					seen = true
				}
			}
		}
		switch {
		case status != "502":
			report("no_502_on_incomplete_head", fmt.Sprintf("the downstream proxy closed inside its response head (offset %d of %d) but the client got %q (%s)", s.K, ds.headLen, lines, end))
			return out
		case !has:
			report("502_without_warning", fmt.Sprintf("502 without Warning: %q", lines))
		case !seen:
			report("502_warning_not_seen_by_modifier", fmt.Sprintf("the Warning of %q did not pass through the response modifier", lines))
		}
		// after a 502 the same client connection continues to serve further requests
		if !s.Pipe {
			cl.Send(second)
		}
		r := cl.ReadResponse("GET")
		if r.HeadErr != "" || r.Status != 200 || string(r.Body) != marker {
			report("second_request_not_served_after_502", fmt.Sprintf("after the 502 for the CONNECT: head=%q status=%d body=%q", r.HeadErr, r.Status, trunc(r.Body, 40)))
		}
		out.outcome += " second=" + fmt.Sprint(r.Status)
	case status == "200" && s.K == len(ds.wire):
		// the tunnel is up: the downstream proxy (the scripted origin) serves what comes through it
		cl.Send([]byte("GET /second HTTP/1.1\r\nHost: " + originHost + "\r\n\r\n"))
		r := cl.ReadResponse("GET")
		if r.HeadErr != "" || r.Status != 200 || string(r.Body) != marker {
			report("tunnel_not_usable", fmt.Sprintf("request through the established tunnel: head=%q status=%d body=%q", r.HeadErr, r.Status, trunc(r.Body, 40)))
		}
		out.outcome += " tunnel=" + fmt.Sprint(r.Status)
	default:
		if status != fmt.Sprint(ds.status) {
			report("resp_mismatch", fmt.Sprintf("the downstream proxy answered %d, the client got %q (%s)", ds.status, lines, end))
		}
	}
	cl.CloseWrite()
	if _, e := cl.Drain(); e == h1harness.EndHang {
		report("hang", "after the client's EOF the connection is neither served nor closed within the hang deadline")
	}
fresh:
	cl.Conn.Close()
	// the proxy must still serve a fresh connection
	c2, err = env.NewClient()
	if err != nil {
		report("proxy_dead_after_stream", err.Error())
		return out
	}
	if quiet > 0 {
		c2.QuietTimeout = quiet
	}
	c2.Send(second)
	if r := c2.ReadResponse("GET"); r.HeadErr != "" || r.Status != 200 || string(r.Body) != marker {
		report("proxy_dead_after_stream", fmt.Sprintf("a fresh connection is not served: head=%q status=%d", r.HeadErr, r.Status))
	}
	return out
}

func clientStreamVerdict(stream, got []byte, end string, werr error, out *runOut, report func(sym, detail string)) {
	first := ""
	if i := bytes.IndexByte(got, '\r'); i >= 0 {
		first = string(got[:i])
	} else {
		first = string(trunc(got, 20))
	}
	if !strings.HasPrefix(first, "HTTP/") && first != "" {
		first = "non-http"
	}
	out.outcome = fmt.Sprintf("%s|%s|werr=%v", first, short(end), werr != nil)
	isConnect := bytes.HasPrefix(bytes.ToUpper(stream), []byte("CONNECT "))
	switch end {
	case h1harness.EndHang:
		report("hang", fmt.Sprintf("client stream %q + valid request + EOF: the connection is neither answered nor closed within the hang deadline", trunc(stream, 80)))
	case h1harness.EndStalled:
		if !isConnect { // an established CONNECT tunnel that ignores the client's half-close is C04's subject
			report("hang_conn_not_closed_after_client_eof", fmt.Sprintf("client stream %q + valid request + EOF: the proxy neither answers nor closes (received so far: %q)", trunc(stream, 80), trunc(got, 80)))
		}
	}
	if len(got) > 0 && !bytes.HasPrefix(got, []byte("HTTP/")) {
		report("non_http_bytes_to_client", fmt.Sprintf("the proxy sent %q", trunc(got, 80)))
	}
}

func describe(s *Scenario) string {
	b, _ := json.Marshal(s)
	return string(b)
}

func runCase(s *Scenario) *h1harness.CaseResult {
	res := &h1harness.CaseResult{C: map[string]int64{}, K: map[string][]string{}}
	o := runScenario(s, "mem", 0)
	res.C["scenarios"]++
	res.C["kind_"+s.Kind]++
	res.C["origin_requests"] += int64(o.origin)
	if s.K > 0 || s.Kind == "dial" || s.K == -1 || s.Kind == "mitm" || s.Kind == "upload" || s.Kind == "keepopen" {
		res.C["nontrivial"]++
	}
	res.K["outcomes"] = []string{s.Kind + ":" + o.outcome}
	if s.Script == "h2_relay" {
		res.C["r7_h2_relay_scenarios"]++
		res.C["r7_"+strings.TrimPrefix(h2RelayClass(s), "h2_relay+")]++
		res.K["r7_h2_outcomes"] = []string{h2Sender(s.Follow) + ": " + o.outcome}
	}
	if s.Kind == "downstream" && isR7Downstream(s.Script) {
		res.C["r7_downstream_scenarios"]++
		res.K["r7_downstream_outcomes"] = []string{o.outcome}
	}
	if s.Kind == "coding" {
		res.C["r8b_coding_scenarios"]++
		if !codingMatches(s.Script) {
			res.C["r8b_coding_body_contradicts_declared_coding"]++
		}
		res.K["r8b_coding_outcomes"] = []string{s.Mod + "|" + s.Method + "|" + s.Script[strings.LastIndexByte(s.Script, '/')+1:] + ": " + o.outcome}
	}
	var syms []string
	seen := map[string]bool{}
	for _, f := range o.findings {
		sig := f.class + ":" + f.symptom
		syms = append(syms, sig)
		if seen[sig] {
			continue
		}
		seen[sig] = true
		res.V = append(res.V, lib.Violation{Sig: sig, Desc: fmt.Sprintf("scenario %s: %s", describe(s), f.detail), Replay: s})
	}
	if len(o.findings) > 0 {
		res.C["scenarios_with_violation"]++
	}
	if s.TCP {
		quiet := 6 * time.Second
		if strings.Contains(o.outcome, "stalled") {
			quiet = 1500 * time.Millisecond
		}
		t := runScenario(s, "tcp", quiet)
		res.C["tcp_runs"]++
		var tsyms []string
		for _, f := range t.findings {
			tsyms = append(tsyms, f.class+":"+f.symptom)
			if f.class == "harness" || f.symptom == "warmup_failed" {
				tsyms[len(tsyms)-1] += "(" + f.detail + ")"
			}
		}
		sort.Strings(syms)
		sort.Strings(tsyms)
		if normOutcome(t.outcome) != normOutcome(o.outcome) || strings.Join(syms, ",") != strings.Join(tsyms, ",") {
			res.C["mem_tcp_disagreements"]++
			res.N = fmt.Sprintf("mem/tcp disagreement on %s: mem %s %v; tcp %s %v", describe(s), o.outcome, syms, t.outcome, tsyms)
		}
	}
	if s.ID%499 == 0 {
		res.S = map[string]interface{}{"scenario": s, "outcome": o.outcome}
	}
	return res
}

// normOutcome removes what legitimately differs between an in-memory pipe and a TCP socket: a write to a
// connection the peer has already closed fails at once in memory and only later (RST) over TCP.
func normOutcome(o string) string {
	o = strings.Replace(o, "werr=true", "werr=*", 1)
	o = strings.Replace(o, "werr=false", "werr=*", 1)
	o = strings.Replace(o, "reset", "eof", -1)
	o = strings.Replace(o, " second=502_upstream_failure", "", 1) // depends on a race inside the transport
	o = strings.Replace(o, "sent2=true", "sent2=*", 1)
	o = strings.Replace(o, "sent2=false", "sent2=*", 1)
	return o
}

func main() {
	tier := lib.Tier()
	_, total, fams := scenarios(tier, nil) // the parent only counts; workers materialise their own shares
	if rp := os.Getenv("VERIF_REPLAY"); rp != "" {
		replay(rp)
		return
	}
	if h1harness.IsWorker() {
		list, _, _ := scenarios(tier, h1harness.WorkerKeeps())
		h1harness.WorkerMain(4, 180*time.Second, func(idx int) *h1harness.CaseResult { return runCase(list[idx]) })
		return
	}
	rep := lib.NewReport("C03", "fault_enumeration")
	agg := h1harness.RunAll(16, total, fmt.Sprintf("%s/.build/c03/work-%d", lib.Root, os.Getpid()), func(idx int, stderr string) (string, string, interface{}) {
		one, _, _ := scenarios(tier, func(id int) bool { return id == idx })
		s := one[idx]
		cls := "origin_fault"
		if s.Kind == "dial" {
			cls = "dial_failure"
			if s.DialRes != "" {
				cls += "+" + s.DialRes
			}
		}
		if s.Kind == "client" {
			cls = "client_stream"
		}
		if s.Kind == "mitm" {
			cls = "mitm_client_stream:" + mitmClass(s)
		}
		if s.Kind == "coding" {
			cls = codingCrashClass(s)
		}
		return cls + ":crash", fmt.Sprintf("scenario %s terminates the proxy process: %s", describe(s), tail(stderr, 1500)), s
	})
	if agg.EngineErr != "" {
		fmt.Fprintln(os.Stderr, "ENGINE ERROR:", agg.EngineErr)
		os.Exit(2)
	}
	agg.Apply(rep)
	if agg.Executed != total {
		rep.Incomplete = fmt.Sprintf("%d of %d scenarios executed", agg.Executed, total)
	}
	if n := rep.Counter("mem_tcp_disagreements"); n > 0 {
		rep.Incomplete = fmt.Sprintf("%d in-memory/TCP disagreements (harness fidelity problem, see harness_notes)", n)
		for _, n := range agg.Notes {
			fmt.Fprintln(os.Stderr, "NOTE:", n)
		}
	}
	rep.Coverage["kinds"] = fams
	rep.Coverage["states"] = total
	rep.Coverage["transitions"] = rep.Counter("origin_requests") + 2*rep.Counter("scenarios")
	rep.Coverage["traces_validated_against_impl"] = rep.Counter("scenarios") + rep.Counter("tcp_runs")
	rep.Coverage["evaluations"] = rep.Counter("scenarios")
	rep.Coverage["distinct_nontrivial"] = rep.Counter("nontrivial")
	rep.Coverage["distinct_outcomes"] = len(agg.Keys["outcomes"])
	rep.Coverage["exhaustive"] = rep.Incomplete == ""
	rep.Coverage["rule"] = "modifier configurations {none, har.NewLogger(), martianlog.NewLogger(), marbl.NewModifier} as request+response modifier for the truncation family; truncate: response script x client protocol x {fresh, reused upstream connection} x {GET, POST} x every offset k in 0..len(script) (origin writes k bytes, closes); dial: first dial fails with {refused, timeout (net.Error), io.EOF, io.ErrClosedPipe, io.ErrUnexpectedEOF, generic error} on the plain-HTTP path (GET/POST, the transport dials) and on the CONNECT path (the proxy's connect() dials), or is accepted-then-closed, x second request afterwards / already pipelined; the failing dial returns next to its error {untyped nil, typed-nil *tls.Conn, typed-nil *net.TCPConn, an already closed connection}; garbage: 20 non-HTTP/malformed origin answers and 60 answers with a valid status line followed by a header line carrying one of {NUL, SOH, BEL, BS, ESC, DEL, 0x80, 0xff, bare CR, TAB} at the start/middle/end of its name or value, x every prefix (oversized header: 3 offsets); client: 35 client byte streams x every prefix (3 oversized ones: listed offsets) and every single-byte corruption (replacement set) of 3 valid requests; mitm: proxy with SetMITM, 23 CONNECT request-line/Host shapes x 9 continuations after the 200 (ClientHello with SNI / without SNI / TLS 1.2 without SNI, plaintext request, two kinds of garbage, a lone 0x16, close, close without reading) and a no-SNI ClientHello cut at every offset, each followed by a marker request on a fresh connection; every other scenario continues with a well-formed request for a marker response on the same client connection; round 7: downstream r7_*: 8 framings of the downstream proxy's answer to CONNECT (Content-Length / +Connection: close / chunked / chunked+trailer / close-delimited refusals, 2xx + early tunnel bytes) x every offset, body judged; h2_relay: MITM + h2.Config with a scripted raw-frame HTTP/2 origin and client, the header block under test at 5 positions (request HEADERS, request trailers, response HEADERS, response trailers, PUSH_PROMISE) x every sequence of <= 2 (thorough 3) HPACK atoms out of 7 x {bare, with pseudo-header fields}, x every HEADERS/CONTINUATION cut offset (quick: 4), x block sizes around 16384 and 32768 with/without priority, and the origin's h2 answer cut at every byte offset; round 8b: coding: complete well-framed origin answers whose body contradicts the declared Content-Encoding: {gzip, deflate, br, x-unknown} x body {plain text, gzip cut in half, gzip with wrong CRC-32, empty, correct gzip (control)} x framing {Content-Length, chunked, close-delimited} x configuration {none, har.NewLogger() with body logging, martianlog.NewLogger(), martianlog + SetDecode(true), marbl} x request 1 {GET, HEAD} (thorough: + POST, x {fresh, reused}, and the answer cut at every body offset). Non-trivial: the fault happens after at least one byte (k > 0), or is a dial fault or a corruption."
	rep.Coverage["bounds"] = fmt.Sprintf("tier %s: %d scenarios %v; scripts %d; one client connection (+1 fresh probe connection for client streams); loopback-TCP re-run of every 9th (quick) / 197th (thorough) scenario", tier, total, fams, len(scripts(tier)))
	rep.Assumptions = []string{
		"an origin that stalls without closing is not modelled (would need the proxy's 5-minute timeout)",
		"\"head incomplete\" is decided from the bytes the origin sent: offset < head length for the scripts, no empty line in the bytes for the non-HTTP corpus; only then is a 502 mandatory",
		"a correct complete response is always acceptable (e.g. after the transport legitimately retried an idempotent request on a fresh upstream connection)",
		"client byte streams: the statement only demands that the proxy survives; additionally checked: no hang after the client's EOF (except through an established CONNECT tunnel, which is C04's subject), only HTTP goes back to the client, a fresh connection is still served",
		"in-memory connections model TCP; every 9th scenario is re-run over loopback TCP and a different outcome is reported as a harness problem",
	}
	if rep.Incomplete != "" {
		fmt.Fprintln(os.Stderr, "INCOMPLETE:", rep.Incomplete)
	}
	rep.Finish()
}

func tail(s string, n int) string {
	if i := strings.Index(s, "panic:"); i >= 0 {
		s = s[i:]
		if len(s) > n {
			return s[:n]
		}
		return s
	}
	if len(s) > n {
		return s[len(s)-n:]
	}
	return s
}

func replay(path string) {
	b, err := os.ReadFile(path)
	if err != nil {
		fmt.Println(err)
		os.Exit(2)
	}
	var rp struct {
		First struct {
			Replay Scenario `json:"replay"`
		} `json:"first"`
	}
	if err := json.Unmarshal(b, &rp); err != nil {
		fmt.Println(err)
		os.Exit(2)
	}
	s := rp.First.Replay
	kind := "mem"
	if k := os.Getenv("C03_REPLAY_KIND"); k != "" {
		kind = k
	}
	fmt.Printf("replaying %s (%s)\n", describe(&s), kind)
	o := runScenario(&s, kind, 0)
	fmt.Printf("outcome: %s\n", o.outcome)
	for _, f := range o.findings {
		fmt.Printf("VIOLATION sig=%s:%s: %s\n", f.class, f.symptom, f.detail)
	}
	if len(o.findings) > 0 {
		os.Exit(1)
	}
}
