// C15, lifecycle family (second binary of check C15, MODE gosim; started by checks/c15/main.go through ./check).
//
// Clause: "attaching the marbl stream logger leaves the forwarded message identical to what would have been forwarded
// without it". Dimension: the life cycle of the marbl stream and the progress of its log writer *while* logged
// messages are still being logged and forwarded: Stream.Close at every point of the history, a writer that is slow
// (every Write is held until the driver lets it go), a writer that fails.
//
// A scenario is a small closed world under the controlled scheduler: the real marbl.Stream (its log loop is a thread
// of the world), a sink writer owned by the harness, one forwarder thread F (program: LogRequest/LogResponse, then
// Body.Read until the body ends, then Body.Close — what the proxy goroutine that forwards the message does; kind
// "exchange": two forwarders F and G, the request and the response of one exchange, on the same stream), one
// closer thread C (program: Stream.Close). F waits at a gate before every step of its program, C before its call, the
// writer (if gated) inside every Write. The *driver* (root thread) waits until every thread is parked
// (vrt.WaitQuiescent: a state, not a timing), computes the set of enabled actions {F: next step, W: let the pending
// Write go, C: call Close} and fires a non-empty subset of it; which subset is a free data choice, so vrt.Explore
// enumerates every history of driver decisions to the end (no action enabled any more), and on top of each history
// every schedule of the threads with at most Bound deviations from the default one (which thread runs next when
// several can, which ready case a select takes). Nothing is timed, nothing is sampled.
//
// Oracle (from the statement; the unlogged twin of a scripted body is the script itself): at the end of every
// history F has finished its program — logging a message and reading its body never wait for something that cannot
// happen any more —, the log call returned no error, and every Read returned exactly the (n, error, bytes) the body's
// script prescribes; Body.Close reached the body.
package main

import (
	"encoding/json"
	"errors"
	"fmt"
	"io"
	"net/http"
	"net/url"
	"os"
	"sort"
	"strings"
	"time"

	"github.com/google/martian/v3"
	mlog "github.com/google/martian/v3/log"
	"github.com/google/martian/v3/marbl"
	"github.com/google/martian/v3/zzverif/vrt"

	"verif/lib"
)

// nolog keeps martian's own logging (stderr; a failing sink is reported there for every frame) out of the scenarios.
type nolog struct{}

func (nolog) Infof(string, ...interface{})  {}
func (nolog) Debugf(string, ...interface{}) {}
func (nolog) Errorf(string, ...interface{}) {}

func init() { mlog.SetLogger(nolog{}) }

// ---- scenarios ---------------------------------------------------------------------------------------------------

type scenario struct {
	Kind        string // request | response | exchange (two forwarders on one stream: the request of an exchange and its response)
	Chunks      []int  // sizes of the data the body hands out, one Read each
	EOFWithData bool   // the last data Read returns io.EOF together with its bytes (else a separate (0, EOF) Read)
	BodyErr     bool   // the body ends with a connection error instead of EOF
	Writer      string // fast | fast-failing | gated | gated-failing | gated-fail-2nd | late-gated | late-gated-failing (held Writes only once every log call has returned)
	Closer      bool   // a closer thread exists (Stream.Close is an action of the driver)
	Together    bool   // the driver may fire several enabled actions at once (else one action per quiescent state)
	Bound       int    // deviations from the default schedule explored on top of every history
}

func (s scenario) String() string {
	end := "eof"
	if s.EOFWithData {
		end = "eof-with-data"
	}
	if s.BodyErr {
		end = "reset"
	}
	c := "no-close"
	if s.Closer {
		c = "close"
	}
	if s.Together {
		c += "+together"
	}
	return fmt.Sprintf("%s body%v/%s writer=%s %s bound=%d", s.Kind, s.Chunks, end, s.Writer, c, s.Bound)
}

func scenarios(tier string) []scenario {
	type body struct {
		chunks []int
		with   bool
		reset  bool
	}
	bodies := []body{{nil, false, false}, {[]int{3}, false, false}, {[]int{3}, true, false}, {[]int{3, 2}, false, false}}
	writers := []string{"fast", "fast-failing", "gated", "gated-failing"}
	bound := 1
	if tier == "thorough" {
		bodies = append(bodies, body{[]int{3, 2}, true, false}, body{[]int{1, 2, 3}, false, false}, body{[]int{3}, false, true}, body{[]int{3, 2}, false, true})
		writers = append(writers, "gated-fail-2nd")
		bound = 2
	}
	var out []scenario
	for _, closer := range []bool{true, false} {
		for _, b := range bodies {
			for _, w := range writers {
				for _, kind := range []string{"response", "request", "exchange"} {
					for _, together := range []bool{false, true} {
						if together && !closer {
							continue // without a closer the only concurrent pair is (F, W): covered by the gate-free writers
						}
						sc := scenario{Kind: kind, Chunks: b.chunks, EOFWithData: b.with, BodyErr: b.reset, Writer: w, Closer: closer, Together: together, Bound: bound}
						if together && len(b.chunks) >= 2 {
							sc.Bound = 1 // (thorough: the together-histories of the longer bodies at two deviations are 2 of the 3 million executions)
						}
						if kind == "exchange" {
							// two forwarders: the histories multiply (165 000 for a one-read body when every Write of
							// both log calls is held); one action at a time, short bodies, Writes are held from the
							// moment both log calls have returned
							if together || len(b.chunks) > 1 || b.reset || (tier != "thorough" && (b.with || w == "gated-failing")) || strings.HasSuffix(w, "-2nd") {
								continue
							}
							sc.Writer = strings.Replace(w, "gated", "late-gated", 1)
							sc.Bound = 1
						}
						out = append(out, sc)
					}
				}
			}
		}
	}
	return out
}

// ---- the world ---------------------------------------------------------------------------------------------------

// gate parks a thread until the driver has issued a permit.
type gate struct {
	permits int
	waiting int
}

func (g *gate) pass(op string) {
	g.waiting++
	vrt.Block(op, func() bool { return g.permits > 0 })
	g.waiting--
	g.permits--
}

var errReset = errors.New("read tcp: connection reset by peer")

// scriptBody is a message body that hands out a fixed script of reads.
type scriptBody struct {
	sc     *scenario
	i, off int
	closed int
}

func payload(off, n int) []byte {
	b := make([]byte, n)
	for i := range b {
		b[i] = byte('a' + (off+i)%26)
	}
	return b
}

func (b *scriptBody) Read(p []byte) (int, error) {
	if b.i >= len(b.sc.Chunks) {
		if b.sc.BodyErr {
			return 0, errReset
		}
		return 0, io.EOF
	}
	n := b.sc.Chunks[b.i]
	copy(p, payload(b.off, n))
	b.i++
	b.off += n
	if b.i == len(b.sc.Chunks) && b.sc.EOFWithData {
		return n, io.EOF
	}
	return n, nil
}

func (b *scriptBody) Close() error { b.closed++; return nil }

type readResult struct {
	N    int
	Err  string
	Data string
}

// expectedReads is the reference: what reading the body without any logger attached returns.
func expectedReads(sc *scenario) []readResult {
	var out []readResult
	off := 0
	for i, n := range sc.Chunks {
		r := readResult{N: n, Err: "<nil>", Data: string(payload(off, n))}
		off += n
		if i == len(sc.Chunks)-1 && sc.EOFWithData {
			r.Err = io.EOF.Error()
			return append(out, r)
		}
		out = append(out, r)
	}
	if sc.BodyErr {
		return append(out, readResult{Err: errReset.Error()})
	}
	return append(out, readResult{Err: io.EOF.Error()})
}

// sink is the log writer.
type sink struct {
	gated  bool
	armed  bool
	fails  func(k int) bool // does the k-th Write (from 0) fail?
	g      gate
	writes int
	bytes  int
}

func (w *sink) Write(b []byte) (int, error) {
	if w.gated && w.armed {
		w.g.pass("sink.write(held)")
	}
	k := w.writes
	w.writes++
	if w.fails != nil && w.fails(k) {
		return 0, errors.New("log sink: broken pipe")
	}
	w.bytes += len(b)
	return len(b), nil
}

func newSink(kind string) *sink {
	w := &sink{gated: strings.Contains(kind, "gated"), armed: !strings.HasPrefix(kind, "late-")}
	switch {
	case strings.HasSuffix(kind, "-failing"):
		w.fails = func(int) bool { return true }
	case strings.HasSuffix(kind, "-fail-2nd"):
		w.fails = func(k int) bool { return k >= 1 }
	}
	return w
}

// fwdObs is what one forwarder showed.
type fwdObs struct {
	Logged  bool
	Kind    string // request | response
	Phase   string // idle | log_call | body_read | body_close | done
	LogErr  string
	Reads   []readResult
	Closed  int // Body.Close calls that reached the body
	Wrapped bool
}

// observation is what one execution showed.
type observation struct {
	History []string
	F       []*fwdObs
	CPhase  string
	Writes  int
	Closes  int // Close actions fired
}

const exchangeID = "c15sched"

func world(sc *scenario, obs *observation) func() {
	return func() {
		*obs = observation{CPhase: "idle"}
		w := newSink(sc.Writer)
		s := marbl.NewStream(w)
		req := &http.Request{Method: "POST", URL: &url.URL{Scheme: "http", Host: "h.example", Path: "/p"}, Proto: "HTTP/1.1", ProtoMajor: 1, ProtoMinor: 1,
			Header: http.Header{}, Host: "h.example", ContentLength: -1, Body: http.NoBody}
		_, remove, err := martian.TestContext(req, nil, nil)
		if err != nil {
			panic("harness: martian.TestContext: " + err.Error())
		}
		defer remove()
		kinds := []string{sc.Kind}
		if sc.Kind == "exchange" {
			kinds = []string{"request", "response"}
		}
		names := []string{"F", "G"}
		gates := make([]*gate, len(kinds))
		bodies := make([]*scriptBody, len(kinds))
		for i, kind := range kinds {
			i, kind := i, kind
			fo := &fwdObs{Kind: kind, Phase: "idle", LogErr: "<nil>"}
			obs.F = append(obs.F, fo)
			fg := &gate{}
			gates[i] = fg
			body := &scriptBody{sc: sc}
			bodies[i] = body
			var res *http.Response
			if kind == "request" {
				req.Body = body
			} else {
				res = &http.Response{StatusCode: 200, Status: "200 OK", Proto: "HTTP/1.1", ProtoMajor: 1, ProtoMinor: 1, Header: http.Header{}, ContentLength: -1,
					Body: body, Request: req}
			}
			vrt.GoNamed("forwarder:"+kind, func() {
				fg.pass("forwarder.gate")
				fo.Phase = "log_call"
				var err error
				var rc io.ReadCloser
				if kind == "request" {
					err = s.LogRequest(exchangeID, req)
					rc = req.Body
				} else {
					err = s.LogResponse(exchangeID, res)
					rc = res.Body
				}
				fo.LogErr = fmt.Sprint(err)
				fo.Wrapped = rc != io.ReadCloser(body)
				fo.Logged = true
				fo.Phase = "idle"
				buf := make([]byte, 16)
				for len(fo.Reads) < len(sc.Chunks)+3 {
					fg.pass("forwarder.gate")
					fo.Phase = "body_read"
					n, err := rc.Read(buf)
					fo.Phase = "idle"
					rr := readResult{N: n, Err: fmt.Sprint(err)}
					if n >= 0 && n <= len(buf) {
						rr.Data = string(buf[:n])
					}
					fo.Reads = append(fo.Reads, rr)
					if err != nil {
						break
					}
				}
				fo.Phase = "body_close"
				rc.Close()
				fo.Phase = "done"
			})
		}
		var cg gate
		if sc.Closer {
			vrt.GoNamed("closer", func() {
				cg.pass("closer.gate")
				obs.CPhase = "closing"
				s.Close()
				obs.CPhase = "closed"
			})
		}
		// the driver
		for step := 0; step < 400; step++ {
			vrt.WaitQuiescent()
			if !w.armed {
				w.armed = true
				for _, fo := range obs.F {
					w.armed = w.armed && fo.Logged
				}
			}
			var acts []string
			for i, fg := range gates {
				if fg.waiting > 0 && fg.permits == 0 {
					acts = append(acts, names[i])
				}
			}
			if w.g.waiting > 0 && w.g.permits == 0 {
				acts = append(acts, "W")
			}
			if cg.waiting > 0 && cg.permits == 0 {
				acts = append(acts, "C")
			}
			if len(acts) == 0 {
				break
			}
			// the alternatives: every single action, then (Together) every larger subset
			var alts [][]string
			for _, a := range acts {
				alts = append(alts, []string{a})
			}
			if sc.Together {
				for m := 1; m < 1<<len(acts); m++ {
					var sub []string
					for i, a := range acts {
						if m&(1<<i) != 0 {
							sub = append(sub, a)
						}
					}
					if len(sub) > 1 {
						alts = append(alts, sub)
					}
				}
			}
			pick := alts[vrt.Choose(len(alts), "driver", true)]
			obs.History = append(obs.History, strings.Join(pick, "+"))
			for _, a := range pick {
				switch a {
				case "F":
					gates[0].permits++
				case "G":
					gates[1].permits++
				case "W":
					w.g.permits++
				case "C":
					cg.permits++
					obs.Closes++
				}
			}
		}
		obs.Writes = w.writes
		vrt.Log("history %s", strings.Join(obs.History, " "))
		for i, fo := range obs.F {
			fo.Closed = bodies[i].closed
			vrt.Log("forwarder %s phase=%s logerr=%s wrapped=%v reads=%v bodyclosed=%d", fo.Kind, fo.Phase, fo.LogErr, fo.Wrapped, fo.Reads, fo.Closed)
		}
		vrt.Log("closer phase=%s sink writes=%d", obs.CPhase, obs.Writes)
	}
}

// judge is the oracle for one execution: ("", "", "") or (message kind, symptom, detail).
func judge(sc *scenario, r *vrt.Result, obs *observation) (string, string, string) {
	kind0 := sc.Kind
	if kind0 == "exchange" {
		kind0 = "request"
	}
	switch r.Outcome {
	case "ok":
	case "panic":
		return kind0, "panic", fmt.Sprintf("thread %d panicked: %s", r.PanicTid, firstLines(r.Panic, 6))
	default:
		return kind0, r.Outcome, fmt.Sprintf("execution ended with %s; threads %+v", r.Outcome, r.Threads)
	}
	want := expectedReads(sc)
	for _, fo := range obs.F {
		if fo.Phase != "done" {
			return fo.Kind, "stalled_in_" + fo.Phase, fmt.Sprintf("nothing can happen any more (the sink holds no Write, the closer is %s) and the forwarder of the %s is still inside its %s; its reads so far %v; threads %+v",
				obs.CPhase, fo.Kind, strings.Replace(fo.Phase, "_", " ", 1), fo.Reads, r.Threads)
		}
		if fo.LogErr != "<nil>" {
			return fo.Kind, "log_error", "the log call returned " + fo.LogErr
		}
		if len(fo.Reads) != len(want) {
			return fo.Kind, "read_result_changed", fmt.Sprintf("reads %v, without the logger %v", fo.Reads, want)
		}
		for i := range want {
			if fo.Reads[i].N != want[i].N || fo.Reads[i].Err != want[i].Err {
				return fo.Kind, "read_result_changed", fmt.Sprintf("read %d returned (%d, %s), without the logger (%d, %s)", i, fo.Reads[i].N, fo.Reads[i].Err, want[i].N, want[i].Err)
			}
			if fo.Reads[i].Data != want[i].Data {
				return fo.Kind, "body_bytes_changed", fmt.Sprintf("read %d delivered %q, without the logger %q", i, fo.Reads[i].Data, want[i].Data)
			}
		}
		if fo.Closed != 1 {
			return fo.Kind, "body_close_not_forwarded", fmt.Sprintf("Body.Close reached the body %d times", fo.Closed)
		}
	}
	return "", "", ""
}

func firstLines(s string, n int) string {
	l := strings.Split(s, "\n")
	if len(l) > n {
		l = l[:n]
	}
	return strings.Join(l, " | ")
}

func sigOf(kind string, obs *observation, symptom string) string {
	cl := "stream_open"
	if obs.Closes > 0 {
		cl = "stream_closed"
	}
	return "lifecycle:marbl:" + kind + ":" + cl + ":" + symptom
}

// ---- running -----------------------------------------------------------------------------------------------------

// violation carries the index of its scenario so that the merged list is in enumeration order (simplest first).
type violation struct {
	lib.Violation
	Index int
}

type shardOut struct {
	Counters   map[string]int64
	Violations []violation
	Samples    []interface{}
	Incomplete string
}

type replayCase struct {
	Part     string   `json:"part"`
	Scenario scenario `json:"scenario"`
	Schedule []int    `json:"schedule"`
}

func explore(out *shardOut, index int, sc scenario, deadline time.Time) {
	var obs observation
	body := world(&sc, &obs)
	hist := map[string]bool{}
	closePos := map[string]bool{}
	perSig := map[string]int{}
	cfg := vrt.Config{MaxPoints: 20000}
	st := vrt.Explore(vrt.ExploreConfig{Bound: sc.Bound, Deadline: deadline, Config: cfg}, body, func(prefix []int, r *vrt.Result) bool {
		h := strings.Join(obs.History, " ")
		if !hist[h] {
			hist[h] = true
			if i := strings.Index(h, "C"); i >= 0 {
				closePos[h[:i+1]] = true
			}
		}
		kind, sym, detail := judge(&sc, r, &obs)
		if sym == "" {
			return true
		}
		sig := sigOf(kind, &obs, sym)
		perSig[sig]++
		if perSig[sig] > 2 {
			out.Counters["violating_executions"]++
			return true
		}
		history := strings.Join(obs.History, " ")
		if err := vrt.Confirm(cfg, r, body, 3); err != nil {
			fmt.Fprintln(os.Stderr, "ENGINE ERROR:", err)
			os.Exit(2)
		}
		out.Counters["violating_executions"]++
		out.Violations = append(out.Violations, violation{Index: index, Violation: lib.Violation{Sig: sig,
			Desc:   fmt.Sprintf("marbl stream, %s; driver history [%s] (F [G] = next step of the [second] forwarder: log call, then one Body.Read each; W = the sink lets its pending Write go; C = Stream.Close is called), schedule %v: %s", sc, history, r.ChoiceSeq(), detail),
			Replay: replayCase{Part: "lifecycle", Scenario: sc, Schedule: r.ChoiceSeq()}}})
		return true
	})
	if st.EngineError != "" {
		fmt.Fprintln(os.Stderr, "ENGINE ERROR:", st.EngineError)
		os.Exit(2)
	}
	if os.Getenv("C15SCHED_STATS") != "" {
		fmt.Fprintf(os.Stderr, "STAT %-70s histories %5d executions %8d\n", sc.String(), len(hist), st.Execs)
	}
	out.Counters["scenarios"]++
	out.Counters["executions"] += int64(st.Execs)
	out.Counters["points"] += st.Points
	out.Counters["histories"] += int64(len(hist))
	out.Counters["close_positions"] += int64(len(closePos))
	out.Counters["distinct_observations"] += int64(st.DistinctLogs)
	if sc.Closer && (sc.Writer != "fast" || len(sc.Chunks) > 0) {
		out.Counters["nontrivial_histories"] += int64(len(hist))
	}
	if !st.Exhaustive {
		out.Incomplete = fmt.Sprintf("lifecycle family: scenario %q not completed (bound completed %d of %d after %d executions)", sc.String(), st.BoundCompleted, sc.Bound, st.Execs)
	}
	if len(out.Samples) < 2 && len(hist) > 3 {
		out.Samples = append(out.Samples, map[string]interface{}{"scenario": sc.String(), "histories": len(hist), "executions": st.Execs, "last_history": strings.Join(obs.History, " ")})
	}
}

func main() {
	tier := lib.Tier()
	scen := scenarios(tier)
	if f := os.Getenv("VERIF_REPLAY"); f != "" {
		replay(f)
		return
	}
	if i, n := lib.ShardEnv(); n > 0 {
		out := &shardOut{Counters: map[string]int64{}}
		dl := time.Now().Add(8 * time.Minute)
		if tier == "thorough" {
			dl = time.Now().Add(25 * time.Minute)
		}
		for si, sc := range scen {
			if si%n != i {
				continue
			}
			explore(out, si, sc, dl)
		}
		b, _ := json.Marshal(out)
		os.WriteFile(os.Getenv("VERIF_SHARD_OUT"), b, 0o644)
		return
	}
	nshards := 8
	if tier == "thorough" {
		nshards = 16
	}
	total := &shardOut{Counters: map[string]int64{}}
	files, errs, outs := lib.RunShards(nshards, lib.BuildDir("c15sched")+"/shards")
	for i, f := range files {
		if errs[i] != nil {
			fmt.Fprintf(os.Stderr, "c15sched: shard %d failed: %v\n%s\n", i, errs[i], outs[i])
			os.Exit(2)
		}
		if os.Getenv("C15SCHED_STATS") != "" {
			fmt.Fprint(os.Stderr, outs[i])
		}
		var so shardOut
		b, _ := os.ReadFile(f)
		if err := json.Unmarshal(b, &so); err != nil {
			fmt.Fprintf(os.Stderr, "c15sched: shard %d: bad output: %v\n", i, err)
			os.Exit(2)
		}
		for k, v := range so.Counters {
			total.Counters[k] += v
		}
		total.Samples = append(total.Samples, so.Samples...)
		if so.Incomplete != "" {
			total.Incomplete = so.Incomplete
		}
		total.Violations = append(total.Violations, so.Violations...)
	}
	sort.SliceStable(total.Violations, func(a, b int) bool { return total.Violations[a].Index < total.Violations[b].Index })
	total.Counters["scenarios_defined"] = int64(len(scen))
	b, _ := json.Marshal(total)
	if p := os.Getenv("C15SCHED_OUT"); p != "" {
		if err := os.WriteFile(p, b, 0o644); err != nil {
			fmt.Fprintln(os.Stderr, "c15sched:", err)
			os.Exit(2)
		}
	} else {
		fmt.Println(string(b))
	}
}

func replay(path string) {
	b, err := os.ReadFile(path)
	if err != nil {
		fmt.Println(err)
		os.Exit(2)
	}
	var doc struct {
		First struct {
			Replay replayCase `json:"replay"`
		} `json:"first"`
	}
	if err := json.Unmarshal(b, &doc); err != nil {
		fmt.Println("bad replay file:", err)
		os.Exit(2)
	}
	rc := doc.First.Replay
	var obs observation
	body := world(&rc.Scenario, &obs)
	r := vrt.Run(vrt.Config{MaxPoints: 20000, Trace: true}, rc.Schedule, body)
	for _, l := range r.Log {
		fmt.Println("  ", l)
	}
	kind, sym, detail := judge(&rc.Scenario, r, &obs)
	if r.Outcome == "divergence" {
		// the recorded schedule cannot be followed on this tree (the code has changed): explore the scenario again
		fmt.Println("replay: the recorded schedule does not fit this tree (" + firstLines(r.Panic, 1) + "); exploring the whole scenario again")
		out := &shardOut{Counters: map[string]int64{}}
		explore(out, 0, rc.Scenario, time.Now().Add(10*time.Minute))
		for _, v := range out.Violations {
			fmt.Printf("VIOLATION reproduced: sig=%s\n  %s\n", v.Sig, v.Desc)
		}
		fmt.Printf("replay: %d executions, %d violating\n", out.Counters["executions"], out.Counters["violating_executions"])
		if len(out.Violations) > 0 {
			os.Exit(1)
		}
		os.Exit(0)
	}
	if sym == "" {
		fmt.Println("replay: the schedule no longer violates the property")
		os.Exit(0)
	}
	fmt.Printf("VIOLATION reproduced: sig=%s\n  %s\n", sigOf(kind, &obs, sym), detail)
	for _, t := range r.Trace {
		fmt.Println("    ", t)
	}
	os.Exit(1)
}
