// racebodies is the auxiliary free-running race pass for C06 and C17 (and C19): the thread bodies of their
// concurrent scenarios run on the unrewritten martian tree under the race detector. It is built with -race and
// started by those checks (lib.RacePass); it prints "RACE scenario <name>" before each scenario on stderr and a
// JSON summary on stdout. Usage: racebodies <set> <iterations>
package main

import (
	"crypto/tls"
	"encoding/json"
	"fmt"
	"io"
	"net/http"
	"os"
	"strconv"
	"strings"
	"sync"
	"time"

	martian "github.com/google/martian/v3"
	"github.com/google/martian/v3/har"
	mlog "github.com/google/martian/v3/log"
	"github.com/google/martian/v3/marbl"
	"github.com/google/martian/v3/mitm"
)

type scenario struct {
	name string
	run  func()
}

func parallel(fs ...func()) {
	var wg sync.WaitGroup
	start := make(chan struct{})
	for _, f := range fs {
		f := f
		wg.Add(1)
		go func() { defer wg.Done(); <-start; f() }()
	}
	close(start)
	wg.Wait()
}

func c06() []scenario {
	ca, priv, err := mitm.NewAuthority("verif", "verif", time.Hour)
	if err != nil {
		panic(err)
	}
	newCfg := func() *mitm.Config {
		c, err := mitm.NewConfig(ca, priv)
		if err != nil {
			panic(err)
		}
		return c
	}
	get := func(c *mitm.Config, host, sni string) func() {
		return func() {
			tc := c.TLSForHost(host)
			tc.GetCertificate(&tls.ClientHelloInfo{ServerName: sni})
		}
	}
	return []scenario{
		{"c06: distinct uncached hosts", func() { c := newCfg(); parallel(get(c, "a.test:443", ""), get(c, "b.test:443", ""), get(c, "10.0.0.1:443", ""), get(c, "", "c.test")) }},
		{"c06: same uncached host", func() { c := newCfg(); parallel(get(c, "a.test:443", ""), get(c, "a.test", ""), get(c, "", "a.test")) }},
		{"c06: cached and uncached", func() {
			c := newCfg()
			get(c, "a.test:443", "")()
			parallel(get(c, "a.test:443", ""), get(c, "b.test:443", ""), get(c, "a.test:443", "b.test"))
		}},
		{"c06: TLS() entry point", func() {
			c := newCfg()
			parallel(func() { c.TLS().GetCertificate(&tls.ClientHelloInfo{ServerName: "x.test"}) }, func() { c.TLS().GetCertificate(&tls.ClientHelloInfo{ServerName: "y.test"}) }, get(c, "x.test", ""))
		}},
	}
}

func c17() []scenario {
	req := func(i int) *http.Request {
		r, _ := http.NewRequest("POST", fmt.Sprintf("http://example.com/r%d", i), strings.NewReader("body"))
		return r
	}
	res := func(i int) *http.Response {
		return &http.Response{StatusCode: 200 + i, Proto: "HTTP/1.1", ProtoMajor: 1, ProtoMinor: 1, Header: http.Header{}, Body: io.NopCloser(strings.NewReader("resp")), ContentLength: 4}
	}
	return []scenario{
		{"c17: record vs export", func() {
			l := har.NewLogger()
			parallel(func() { l.RecordRequest("a", req(1)); l.RecordResponse("a", res(1)) }, func() { l.RecordRequest("b", req(2)); l.RecordResponse("b", res(2)) }, func() { l.Export(); l.ExportAndReset() })
		}},
		{"c17: same id", func() {
			l := har.NewLogger()
			parallel(func() { l.RecordRequest("a", req(1)) }, func() { l.RecordRequest("a", req(2)) }, func() { l.RecordResponse("a", res(1)) }, func() { l.Export() })
		}},
		{"c17: reset vs traffic", func() {
			l := har.NewLogger()
			l.RecordRequest("a", req(1))
			parallel(func() { l.Reset() }, func() { l.RecordResponse("a", res(1)) }, func() { l.RecordRequest("b", req(2)) }, func() { l.ExportAndReset() })
		}},
		{"c17: export json vs response", func() {
			l := har.NewLogger()
			l.RecordRequest("a", req(1))
			parallel(func() { h := l.ExportAndReset(); json.Marshal(h) }, func() { l.RecordResponse("a", res(1)) }, func() { l.RecordRequest("c", req(3)); l.RecordResponse("c", res(3)) })
		}},
	}
}

type sink struct {
	mu sync.Mutex
	n  int
}

func (s *sink) Write(p []byte) (int, error) { s.mu.Lock(); s.n += len(p); s.mu.Unlock(); return len(p), nil }

func c19() []scenario {
	return []scenario{
		{"c19: concurrent loggers", func() {
			s := marbl.NewStream(&sink{})
			log := func(id string, n int) func() {
				return func() {
					r, _ := http.NewRequest("POST", "http://example.com/"+id, strings.NewReader(strings.Repeat("x", n)))
					_, remove, err := martian.TestContext(r, nil, nil)
					if err != nil {
						panic(err)
					}
					defer remove()
					s.LogRequest(id+"0000000", r)
					io.Copy(io.Discard, r.Body)
				}
			}
			parallel(log("a", 10), log("b", 5000), log("c", 1))
			s.Close()
		}},
	}
}

func main() {
	mlog.SetLevel(mlog.Silent)
	set := "all"
	iters := 30
	if len(os.Args) > 1 {
		set = os.Args[1]
	}
	if len(os.Args) > 2 {
		iters, _ = strconv.Atoi(os.Args[2])
	}
	var scen []scenario
	if set == "c06" || set == "all" {
		scen = append(scen, c06()...)
	}
	if set == "c17" || set == "all" {
		scen = append(scen, c17()...)
	}
	if set == "c19" || set == "all" {
		scen = append(scen, c19()...)
	}
	var n int64
	for _, s := range scen {
		fmt.Fprintln(os.Stderr, "RACE scenario "+s.name)
		for i := 0; i < iters; i++ {
			s.run()
			n++
		}
	}
	b, _ := json.Marshal(map[string]int64{"Scenarios": int64(len(scen)), "Iterations": n})
	fmt.Println(string(b))
}
