// racebodies is the auxiliary free-running race pass for C06 and C17 (and C19): the thread bodies of their
// concurrent scenarios run on the unrewritten martian tree under the race detector. It is built with -race and
// started by those checks (lib.RacePass); it prints "RACE scenario <name>" before each scenario on stderr and a
// JSON summary on stdout. Usage: racebodies <set> <iterations>
package main

import (
	"bufio"
	"crypto/tls"
	"encoding/json"
	"fmt"
	"io"
	"net"
	"net/http"
	"os"
	"strconv"
	"strings"
	"sync"
	"time"

	martian "github.com/google/martian/v3"
	"github.com/google/martian/v3/har"
	"github.com/google/martian/v3/httpspec"
	mlog "github.com/google/martian/v3/log"
	"github.com/google/martian/v3/marbl"
	"github.com/google/martian/v3/mitm"
)

type scenario struct {
	name string
	run  func()
}

func parallel(fs ...func()) {
	var wg sync.WaitGroup
	start := make(chan struct{})
	for _, f := range fs {
		f := f
		wg.Add(1)
		go func() { defer wg.Done(); <-start; f() }()
	}
	close(start)
	wg.Wait()
}

func c06() []scenario {
	ca, priv, err := mitm.NewAuthority("verif", "verif", time.Hour)
	if err != nil {
		panic(err)
	}
	newCfg := func() *mitm.Config {
		c, err := mitm.NewConfig(ca, priv)
		if err != nil {
			panic(err)
		}
		return c
	}
	get := func(c *mitm.Config, host, sni string) func() {
		return func() {
			tc := c.TLSForHost(host)
			tc.GetCertificate(&tls.ClientHelloInfo{ServerName: sni})
		}
	}
	// Scenarios that need a Config nobody has used yet build one per iteration (an RSA key generation each); the
	// others share one Config and get their cold cache from host names never used before.
	shared := newCfg()
	expiring := newCfg()
	// +-1ns around the issuance instant, DER times are whole seconds: NotAfter is the start of the current second, so
	// every cached certificate has already expired when it is looked up again and the replacement path runs every time
	expiring.SetValidity(time.Nanosecond)
	seq := 0
	fresh := func(label string) string { seq++; return fmt.Sprintf("%s%d.test", label, seq) }
	violation := func(sig, format string, a ...interface{}) {
		fmt.Fprintf(os.Stderr, "RACEBODY VIOLATION "+sig+" "+format+"\n", a...)
	}
	// use does what a handshake does with the object GetCertificate returned, for as long as the handshake lasts:
	// it reads every field, and checks that the certificate names the host that was asked for
	use := func(c *mitm.Config, host, sni, name string) func() {
		return func() {
			for k := 0; k < 3; k++ {
				crt, err := c.TLSForHost(host).GetCertificate(&tls.ClientHelloInfo{ServerName: sni})
				if err != nil || crt == nil {
					violation("parallel_use:error", "GetCertificate(%q, sni %q): %v", host, sni, err)
					return
				}
				for r := 0; r < 3; r++ {
					n := 0
					for _, der := range crt.Certificate {
						for _, b := range der {
							n += int(b)
						}
					}
					leaf := crt.Leaf
					if leaf == nil || crt.PrivateKey == nil || len(crt.Certificate) != 2 || n == 0 || len(crt.Certificate[0]) != len(leaf.Raw) {
						violation("parallel_use:certificate_changed_while_in_use", "the certificate returned for %q lost or changed fields while its requester was still using it", name)
						return
					}
					if err := leaf.VerifyHostname(name); err != nil {
						violation("parallel_use:certificate_for_other_name", "requester of %q holds a certificate with CN %q DNS %q IP %v: %v", name, leaf.Subject.CommonName, leaf.DNSNames, leaf.IPAddresses, err)
						return
					}
					if err := leaf.CheckSignatureFrom(ca); err != nil {
						violation("parallel_use:not_signed_by_ca", "certificate for %q: %v", name, err)
						return
					}
				}
			}
		}
	}
	// shake performs a complete TLS handshake over an in-memory pipe; the client verifies the presented leaf for the
	// name it asked for (signature by the CA, host name, and - except on the Config whose certificates expire at once
	// by construction - validity now)
	shake := func(c *mitm.Config, host, sni, name string) func() {
		checkTime := c != expiring
		return func() {
			cc, sc := net.Pipe()
			defer cc.Close()
			defer sc.Close()
			dl := time.Now().Add(60 * time.Second) // hang guard only
			cc.SetDeadline(dl)
			sc.SetDeadline(dl)
			done := make(chan error, 1)
			go func() {
				s := tls.Server(sc, c.TLSForHost(host))
				err := s.Handshake()
				if err == nil {
					_, err = s.Write([]byte("k"))
				}
				if err != nil {
					sc.Close()
				}
				done <- err
			}()
			ccfg := &tls.Config{ServerName: sni, InsecureSkipVerify: true, VerifyConnection: func(cs tls.ConnectionState) error {
				if len(cs.PeerCertificates) == 0 {
					return fmt.Errorf("no peer certificate")
				}
				leaf := cs.PeerCertificates[0]
				if err := leaf.CheckSignatureFrom(ca); err != nil {
					return err
				}
				if now := time.Now(); checkTime && (now.Before(leaf.NotBefore) || now.After(leaf.NotAfter)) {
					return fmt.Errorf("not valid now: %s .. %s", leaf.NotBefore, leaf.NotAfter)
				}
				return leaf.VerifyHostname(name)
			}}
			cl := tls.Client(cc, ccfg)
			cerr := cl.Handshake()
			if cerr == nil {
				b := make([]byte, 1)
				_, cerr = cl.Read(b)
			}
			if cerr != nil {
				cc.Close()
			}
			if serr := <-done; cerr != nil || serr != nil {
				violation("parallel_handshake:failed", "handshake for %q (CONNECT %q, SNI %q) among concurrent handshakes: client %v, server %v", name, host, sni, cerr, serr)
			}
		}
	}
	return []scenario{
		{"c06: distinct uncached hosts", func() {
			c := newCfg()
			parallel(get(c, "a.test:443", ""), get(c, "b.test:443", ""), get(c, "10.0.0.1:443", ""), get(c, "", "c.test"))
		}},
		{"c06: same uncached host", func() { c := newCfg(); parallel(get(c, "a.test:443", ""), get(c, "a.test", ""), get(c, "", "a.test")) }},
		{"c06: cached and uncached", func() {
			c, a, b := shared, fresh("a"), fresh("b")
			get(c, a+":443", "")()
			parallel(get(c, a+":443", ""), get(c, b+":443", ""), get(c, a+":443", b))
		}},
		{"c06: TLS() entry point", func() {
			c, x, y := shared, fresh("x"), fresh("y")
			parallel(func() { c.TLS().GetCertificate(&tls.ClientHelloInfo{ServerName: x}) }, func() { c.TLS().GetCertificate(&tls.ClientHelloInfo{ServerName: y}) }, get(c, x, ""))
		}},
		{"c06: expired entries replaced while their holders still use them", func() {
			c, a, b := expiring, fresh("ea"), fresh("eb")
			ip := fmt.Sprintf("10.%d.%d.%d", seq>>16&255, seq>>8&255, seq&255)
			use(c, a, "", a)() // cached and, one instant later, expired
			use(c, ip, "", ip)()
			parallel(use(c, a, "", a), use(c, a+":443", "", a), use(c, "other.test:443", a, a), use(c, b, "", b), use(c, ip+":8443", "", ip), use(c, ip, "", ip))
		}},
		{"c06: cached entries used while others are issued", func() {
			c, a, b, d := shared, fresh("ua"), fresh("ub"), fresh("ud")
			use(c, a, "", a)()
			parallel(use(c, a, "", a), use(c, a+":443", "", a), use(c, b, "", b), use(c, "[2001:db8::1]:443", d, d), use(c, "[2001:db8::2]:443", "", "2001:db8::2"))
		}},
		{"c06: one TLS() config shared by concurrent hellos (listener use)", func() {
			// tls.NewListener(l, cfg.TLS()): every connection's ClientHello is answered by the same tls.Config.
			// The constructors are called through a table indexed at run time: inlined into this function their
			// closures would carry a main.* name and a race inside them would not be attributed to martian.
			mk := []func(*mitm.Config) *tls.Config{(*mitm.Config).TLS, func(c *mitm.Config) *tls.Config { return c.TLSForHost("listener.test:443") }}
			tc := mk[seq%2](shared)
			hello := func(name string) func() {
				return func() {
					for k := 0; k < 4; k++ {
						crt, err := tc.GetCertificate(&tls.ClientHelloInfo{ServerName: name})
						if err != nil || crt == nil || crt.Leaf == nil {
							violation("parallel_shared_config:error", "GetCertificate(sni %q) on a shared TLS() config: %v", name, err)
							return
						}
						if err := crt.Leaf.VerifyHostname(name); err != nil {
							violation("parallel_shared_config:certificate_for_other_name", "hello for %q on a shared TLS() config got CN %q DNS %q IP %v", name, crt.Leaf.Subject.CommonName, crt.Leaf.DNSNames, crt.Leaf.IPAddresses)
							return
						}
					}
				}
			}
			a, b, d := fresh("la"), fresh("lb"), fresh("ld")
			hello(a)() // a is cached, b and d are not
			parallel(hello(a), hello(b), hello(a), hello(d), hello(b))
		}},
		{"c06: concurrent real handshakes", func() {
			c, a, b := shared, fresh("ha"), fresh("hb")
			ip := fmt.Sprintf("11.%d.%d.%d", seq>>16&255, seq>>8&255, seq&255)
			parallel(shake(c, a+":443", a, a), shake(c, a+":443", "", a), shake(c, b+":443", b, b), shake(c, a+":443", b, b), shake(c, ip+":443", "", ip))
			parallel(shake(expiring, a+":443", a, a), shake(expiring, a+":443", a, a), shake(expiring, ip+":443", "", ip))
		}},
	}
}

func c17() []scenario {
	req := func(i int) *http.Request {
		r, _ := http.NewRequest("POST", fmt.Sprintf("http://example.com/r%d", i), strings.NewReader("body"))
		return r
	}
	res := func(i int) *http.Response {
		return &http.Response{StatusCode: 200 + i, Proto: "HTTP/1.1", ProtoMajor: 1, ProtoMinor: 1, Header: http.Header{}, Body: io.NopCloser(strings.NewReader("resp")), ContentLength: 4}
	}
	return []scenario{
		{"c17: record vs export", func() {
			l := har.NewLogger()
			parallel(func() { l.RecordRequest("a", req(1)); l.RecordResponse("a", res(1)) }, func() { l.RecordRequest("b", req(2)); l.RecordResponse("b", res(2)) }, func() { l.Export(); l.ExportAndReset() })
		}},
		{"c17: same id", func() {
			l := har.NewLogger()
			parallel(func() { l.RecordRequest("a", req(1)) }, func() { l.RecordRequest("a", req(2)) }, func() { l.RecordResponse("a", res(1)) }, func() { l.Export() })
		}},
		{"c17: reset vs traffic", func() {
			l := har.NewLogger()
			l.RecordRequest("a", req(1))
			parallel(func() { l.Reset() }, func() { l.RecordResponse("a", res(1)) }, func() { l.RecordRequest("b", req(2)) }, func() { l.ExportAndReset() })
		}},
		{"c17: export during recording", func() {
			// one goroutine records requests with increasing ids, another exports all the while: every export is a
			// prefix of the arrival order (asserted directly; the unsynchronised accesses are the race detector's)
			l := har.NewLogger()
			const n = 300
			done := make(chan struct{})
			parallel(func() {
				for i := 0; i < n; i++ {
					l.RecordRequest(fmt.Sprintf("id%04d", i), req(i))
				}
				close(done)
			}, func() {
				for {
					h := l.Export()
					for k, e := range h.Log.Entries {
						if e == nil || e.ID != fmt.Sprintf("id%04d", k) {
							fmt.Fprintf(os.Stderr, "RACEBODY VIOLATION harlog:export_not_a_prefix_of_arrival_order entry %d of %d\n", k, len(h.Log.Entries))
							break
						}
					}
					select {
					case <-done:
						return
					default:
					}
				}
			})
		}},
		{"c17: exported log serialised while pending entries complete", func() {
			// what the export handler does: Export, then serialise outside the logger's lock, while responses for
			// entries that were pending at the time of the export are being recorded
			for k := 0; k < 25; k++ {
				l := har.NewLogger()
				for i := 0; i < 4; i++ {
					l.RecordRequest(fmt.Sprintf("p%d", i), req(i))
				}
				parallel(func() { h := l.Export(); json.Marshal(h) }, func() {
					for i := 0; i < 4; i++ {
						l.RecordResponse(fmt.Sprintf("p%d", i), res(i))
					}
				})
			}
		}},
		{"c17: export json vs response", func() {
			l := har.NewLogger()
			l.RecordRequest("a", req(1))
			parallel(func() { h := l.ExportAndReset(); json.Marshal(h) }, func() { l.RecordResponse("a", res(1)) }, func() { l.RecordRequest("c", req(3)); l.RecordResponse("c", res(3)) })
		}},
	}
}

func c02() []scenario {
	// contexts and sessions are created per exchange on every connection concurrently; the request->context
	// table is global
	mk := func(i int) func() {
		return func() {
			for k := 0; k < 20; k++ {
				r, _ := http.NewRequest("GET", fmt.Sprintf("http://example.com/%d/%d", i, k), nil)
				ctx, remove, err := martian.TestContext(r, nil, nil)
				if err != nil {
					panic(err)
				}
				_ = ctx.ID() + ctx.Session().ID()
				if martian.NewContext(r) != ctx {
					panic("context table lost an entry")
				}
				ctx.Set("k", k)
				ctx.Session().Set("s", k)
				remove()
			}
		}
	}
	// ids generated concurrently must be pairwise distinct (the race detector cannot see writes made by the
	// getrandom system call, so this is asserted directly)
	// ids generated concurrently by real connection handlers must be pairwise distinct (the race detector cannot
	// see writes made by the getrandom system call, so this is asserted directly): a real proxy on loopback TCP,
	// many keep-alive connections, a request modifier that records the ids and skips the round trip
	uniq := func() {
		const conns, per = 16, 150
		var mu sync.Mutex
		ids := map[string]int{}
		total := 0
		p := martian.NewProxy()
		p.SetRequestModifier(martian.RequestModifierFunc(func(req *http.Request) error {
			ctx := martian.NewContext(req)
			ctx.SkipRoundTrip()
			mu.Lock()
			ids["ctx:"+ctx.ID()]++
			total++
			mu.Unlock()
			return nil
		}))
		sess := map[string]bool{}
		p.SetResponseModifier(martian.ResponseModifierFunc(func(res *http.Response) error {
			ctx := martian.NewContext(res.Request)
			mu.Lock()
			sess[ctx.Session().ID()] = true
			mu.Unlock()
			return nil
		}))
		l, err := net.Listen("tcp", "127.0.0.1:0")
		if err != nil {
			return
		}
		go p.Serve(l)
		var fs []func()
		for c := 0; c < conns; c++ {
			fs = append(fs, func() {
				conn, err := net.Dial("tcp", l.Addr().String())
				if err != nil {
					return
				}
				defer conn.Close()
				br := bufio.NewReader(conn)
				for k := 0; k < per; k++ {
					fmt.Fprintf(conn, "GET http://example.com/ HTTP/1.1\r\nHost: example.com\r\n\r\n")
					res, err := http.ReadResponse(br, nil)
					if err != nil {
						return
					}
					io.Copy(io.Discard, res.Body)
					res.Body.Close()
				}
			})
		}
		parallel(fs...)
		p.Close()
		dups := 0
		for _, n := range ids {
			if n > 1 {
				dups += n - 1
			}
		}
		if dups > 0 {
			fmt.Fprintf(os.Stderr, "RACEBODY VIOLATION ids:duplicate_context_id %d of %d exchanges on %d concurrent connections share a context id\n", dups, total, conns)
		}
		if len(sess) < conns && total == conns*per {
			fmt.Fprintf(os.Stderr, "RACEBODY VIOLATION ids:duplicate_session_id %d connections but only %d distinct session ids\n", conns, len(sess))
		}
	}
	return []scenario{
		{"c02: concurrent context creation, lookup and removal", func() { parallel(mk(0), mk(1), mk(2), mk(3)) }},
		{"c02: ids generated concurrently are distinct", uniq},
	}
}

func c14() []scenario {
	// the spec stack's modifiers are shared by all connections: messages with different Connection lists pass
	// through concurrently; each must lose exactly its own listed headers and keep the others
	run := func() {
		outer, _ := httpspec.NewStack("racebody")
		worker := func(w int) func() {
			return func() {
				for k := 0; k < 300; k++ {
					listed := fmt.Sprintf("X-Listed-%d", w)
					kept := fmt.Sprintf("X-Listed-%d", (w+1)%4)
					req, _ := http.NewRequest("GET", "http://example.com/", nil)
					req.Header.Set("Connection", listed+", close")
					req.Header.Set(listed, "1")
					req.Header.Set(kept, "2")
					req.Header.Set("Keep-Alive", "timeout=5")
					_, remove, err := martian.TestContext(req, nil, nil)
					if err != nil {
						panic(err)
					}
					outer.ModifyRequest(req)
					remove()
					if req.Header.Get(listed) != "" || req.Header.Get("Keep-Alive") != "" {
						fmt.Fprintf(os.Stderr, "RACEBODY VIOLATION hopbyhop:listed_header_survives a header named in this message's Connection header survived under concurrency\n")
					}
					if req.Header.Get(kept) != "2" {
						fmt.Fprintf(os.Stderr, "RACEBODY VIOLATION hopbyhop:unlisted_header_removed an end-to-end header was removed because another concurrent message listed it\n")
					}
					if len(req.Header["Via"]) != 1 {
						fmt.Fprintf(os.Stderr, "RACEBODY VIOLATION via:not_exactly_one_entry Via has %d lines under concurrency\n", len(req.Header["Via"]))
					}
				}
			}
		}
		parallel(worker(0), worker(1), worker(2), worker(3))
	}
	// requests AND responses share the hop-by-hop modifier; the number of Connection tokens varies from message
	// to message (1..9: below, at and above the length of the fixed hop-by-hop list)
	mixed := func() {
		outer, _ := httpspec.NewStack("racebody")
		const workers = 6
		worker := func(w int) func() {
			return func() {
				for k := 0; k < 150; k++ {
					n := 1 + (w*3+k)%9
					h := http.Header{}
					var toks []string
					for j := 0; j < n; j++ {
						t := fmt.Sprintf("X-W%d-%d", w, j)
						toks = append(toks, t)
						h.Set(t, "1")
					}
					h.Set("Connection", strings.Join(toks, ", "))
					var kept []string
					for j := 0; j < 9; j++ { // the names the next worker lists are end-to-end here
						t := fmt.Sprintf("X-W%d-%d", (w+1)%workers, j)
						kept = append(kept, t)
						h.Set(t, "2")
					}
					h.Set("Upgrade", "websocket")
					req, _ := http.NewRequest("GET", "http://example.com/", nil)
					_, remove, err := martian.TestContext(req, nil, nil)
					if err != nil {
						panic(err)
					}
					if w%2 == 0 {
						req.Header = h
						outer.ModifyRequest(req)
					} else {
						res := &http.Response{StatusCode: 200, Proto: "HTTP/1.1", ProtoMajor: 1, ProtoMinor: 1, Header: h, Body: http.NoBody, Request: req}
						outer.ModifyResponse(res)
						if res.StatusCode != 200 {
							fmt.Fprintf(os.Stderr, "RACEBODY VIOLATION via:status_changed a response to a request without a loop got status %d under concurrency\n", res.StatusCode)
						}
					}
					remove()
					for _, t := range toks {
						if _, ok := h[t]; ok {
							fmt.Fprintf(os.Stderr, "RACEBODY VIOLATION hopbyhop:listed_header_survives a header named in this message's Connection header (%d tokens) survived under concurrency\n", n)
							break
						}
					}
					if _, ok := h["Upgrade"]; ok || h.Get("Connection") != "" {
						fmt.Fprintf(os.Stderr, "RACEBODY VIOLATION hopbyhop:fixed_header_survives Connection / Upgrade survived under concurrency\n")
					}
					for _, t := range kept {
						if h.Get(t) != "2" {
							fmt.Fprintf(os.Stderr, "RACEBODY VIOLATION hopbyhop:unlisted_header_removed an end-to-end header was removed because another concurrent message listed it\n")
							break
						}
					}
				}
			}
		}
		var fs []func()
		for w := 0; w < workers; w++ {
			fs = append(fs, worker(w))
		}
		parallel(fs...)
	}
	// looping and forwarded exchanges at the same time: what the Via modifier decides for one request must
	// not show on another exchange's request or response
	loops := func() {
		outer, _ := httpspec.NewStack("racebody")
		probe, _ := http.NewRequest("GET", "http://example.com/", nil)
		_, remove, err := martian.TestContext(probe, nil, nil)
		if err != nil {
			panic(err)
		}
		outer.ModifyRequest(probe)
		remove()
		f := strings.Fields(probe.Header.Get("Via"))
		if len(f) != 2 {
			fmt.Fprintf(os.Stderr, "RACEBODY VIOLATION via:not_exactly_one_entry probe request got Via %q\n", probe.Header.Get("Via"))
			return
		}
		self := f[1]
		worker := func(w int) func() {
			return func() {
				for k := 0; k < 200; k++ {
					req, _ := http.NewRequest("GET", "http://example.com/", nil)
					looping := w%2 == 0
					switch {
					case looping && w%4 == 0:
						req.Header["Via"] = []string{"1.0 fred, 1.1 " + self}
					case looping:
						req.Header["Via"] = []string{"1.0 fred", "1.1\t" + self + " (x)"}
					default:
						req.Header["Via"] = []string{"1.0 fred", "1.1 other-" + fmt.Sprint(w)}
					}
					ctx, remove, err := martian.TestContext(req, nil, nil)
					if err != nil {
						panic(err)
					}
					rerr := outer.ModifyRequest(req)
					skipped := ctx.SkippingRoundTrip()
					res := &http.Response{StatusCode: 200, Proto: "HTTP/1.1", ProtoMajor: 1, ProtoMinor: 1, Header: http.Header{}, Body: http.NoBody, Request: req}
					outer.ModifyResponse(res)
					remove()
					if looping && (!skipped || rerr == nil || res.StatusCode != 400) {
						fmt.Fprintf(os.Stderr, "RACEBODY VIOLATION via:loop_not_refused a request whose Via names this instance: skipped=%v err=%v status=%d under concurrency\n", skipped, rerr, res.StatusCode)
					}
					if !looping {
						own := 0
						vs := strings.Split(strings.Join(req.Header["Via"], ","), ",")
						for _, e := range vs {
							if g := strings.Fields(e); len(g) > 1 && g[1] == self {
								own++
							}
						}
						if skipped || rerr != nil || res.StatusCode != 200 || own != 1 || len(vs) != 3 {
							fmt.Fprintf(os.Stderr, "RACEBODY VIOLATION via:forwarded_request_disturbed a request without a loop: skipped=%v err=%v status=%d Via=%q under concurrency\n", skipped, rerr, res.StatusCode, req.Header["Via"])
						}
					}
				}
			}
		}
		parallel(worker(0), worker(1), worker(2), worker(3))
	}
	return []scenario{{"c14: concurrent messages through one spec stack", run},
		{"c14: concurrent requests and responses with 1..9 Connection tokens", mixed},
		{"c14: concurrent looping and forwarded exchanges", loops}}
}

type sink struct {
	mu sync.Mutex
	n  int
}

func (s *sink) Write(p []byte) (int, error) {
	s.mu.Lock()
	s.n += len(p)
	s.mu.Unlock()
	return len(p), nil
}

func c19() []scenario {
	violation := func(sig, format string, a ...interface{}) {
		fmt.Fprintf(os.Stderr, "RACEBODY VIOLATION "+sig+" "+format+"\n", a...)
	}
	pattern := func(n int, salt byte) string {
		b := make([]byte, n)
		for i := range b {
			b[i] = byte(i*7) ^ salt
		}
		return string(b)
	}
	// exchange logs a request whose body is read in small pieces and then its response (http.NoBody, or a body
	// copied with io.Copy's 32 KiB buffer) under one id; it returns what the decoded log must contain.
	type want struct {
		id       string
		req, res string
	}
	exchange := func(s *marbl.Stream, id string, reqLen, resLen int, out *want) func() {
		return func() {
			*out = want{id: id[:8], req: pattern(reqLen, id[0]), res: pattern(resLen, id[1])}
			r, _ := http.NewRequest("POST", "http://example.com/"+id, strings.NewReader(out.req))
			_, remove, err := martian.TestContext(r, nil, nil)
			if err != nil {
				panic(err)
			}
			defer remove()
			s.LogRequest(id, r)
			buf := make([]byte, 13)
			for {
				if _, err := r.Body.Read(buf); err != nil {
					break
				}
			}
			r.Body.Close()
			res := &http.Response{StatusCode: 200, Status: "200 OK", Proto: "HTTP/1.1", ProtoMajor: 1, ProtoMinor: 1, Header: http.Header{"X-Id": {id}}, Request: r, Body: http.NoBody}
			if resLen > 0 {
				res.Body = io.NopCloser(strings.NewReader(out.res))
			}
			s.LogResponse(id, res)
			io.Copy(io.Discard, res.Body)
			res.Body.Close()
		}
	}
	// decode checks a marbl byte stream: whole frames only, and per id and type contiguous data indices whose
	// concatenation is the body, the last one terminal.
	decode := func(where string, stream string, wants []want, complete bool) {
		type key struct {
			id string
			mt marbl.MessageType
		}
		bodies := map[key]*strings.Builder{}
		next := map[key]uint32{}
		term := map[key]bool{}
		rd := marbl.NewReader(strings.NewReader(stream))
		for {
			f, err := rd.ReadFrame()
			if err == io.EOF {
				break
			}
			if err != nil {
				violation("c19_stream_torn", "%s: the stream does not decode: %v", where, err)
				return
			}
			if d, ok := f.(marbl.Data); ok && d.ID != "probe000" {
				k := key{d.ID, d.MessageType}
				if bodies[k] == nil {
					bodies[k] = &strings.Builder{}
				}
				if d.Index != next[k] || term[k] {
					violation("c19_data_index", "%s: id %s type %d: data frame index %d after %d (terminal seen: %v)", where, d.ID, d.MessageType, d.Index, next[k], term[k])
					return
				}
				next[k]++
				term[k] = d.Terminal
				bodies[k].Write(d.Data)
			}
		}
		if !complete {
			return
		}
		for _, w := range wants {
			for mt, body := range map[marbl.MessageType]string{marbl.Request: w.req, marbl.Response: w.res} {
				k := key{w.id, mt}
				if bodies[k] == nil || bodies[k].String() != body || !term[k] {
					got := -1
					if bodies[k] != nil {
						got = bodies[k].Len()
					}
					violation("c19_body_mismatch", "%s: id %s type %d: logged body has %d bytes (terminal %v), the consumer read %d", where, w.id, mt, got, term[k], len(body))
					return
				}
			}
		}
	}
	return []scenario{
		{"c19: concurrent loggers", func() {
			s := marbl.NewStream(&sink{})
			log := func(id string, n int) func() {
				return func() {
					r, _ := http.NewRequest("POST", "http://example.com/"+id, strings.NewReader(strings.Repeat("x", n)))
					_, remove, err := martian.TestContext(r, nil, nil)
					if err != nil {
						panic(err)
					}
					defer remove()
					s.LogRequest(id+"0000000", r)
					io.Copy(io.Discard, r.Body)
				}
			}
			parallel(log("a", 10), log("b", 5000), log("c", 1))
			s.Close()
		}},
		{"c19: concurrent exchanges (request body in small reads, response http.NoBody or a 32 KiB-buffer copy), stream decoded", func() {
			var stream strings.Builder
			pr, pw := io.Pipe()
			copied := make(chan struct{})
			go func() { io.Copy(&stream, pr); close(copied) }()
			s := marbl.NewStream(pw)
			wants := make([]want, 4)
			parallel(exchange(s, "ab-00001", 100, 0, &wants[0]), exchange(s, "cd-00002", 1, 70000, &wants[1]),
				exchange(s, "ef-00003", 3000, 40000, &wants[2]), exchange(s, "gh-00004", 0, 5, &wants[3]))
			s.Close()
			pw.Close()
			<-copied
			decode("writer", stream.String(), wants, true)
		}},
		{"c19: stream into a handler while websocket viewers connect, read and leave", func() {
			l, err := net.Listen("tcp", "127.0.0.1:0")
			if err != nil {
				panic(err)
			}
			h := marbl.NewHandler()
			go http.Serve(l, h)
			s := marbl.NewStream(h)
			deadline := time.Now().Add(20 * time.Second)
			// viewer dials, upgrades and reads websocket messages (server frames are unmasked) until onMsg says stop
			var cmu sync.Mutex
			var conns []net.Conn
			hangUp := false
			viewer := func(name string, onMsg func(payload []byte, f marbl.Frame) bool) func() {
				return func() {
					c, err := net.Dial("tcp", l.Addr().String())
					if err != nil {
						panic(err)
					}
					defer c.Close()
					cmu.Lock()
					conns = append(conns, c)
					if hangUp {
						c.Close()
					}
					cmu.Unlock()
					fmt.Fprintf(c, "GET /logs HTTP/1.1\r\nHost: martian.proxy\r\nUpgrade: websocket\r\nConnection: Upgrade\r\nSec-WebSocket-Key: MDEyMzQ1Njc4OWFiY2RlZg==\r\nSec-WebSocket-Version: 13\r\nOrigin: http://martian.proxy\r\n\r\n")
					br := bufio.NewReader(c)
					c.SetReadDeadline(deadline)
					res, err := http.ReadResponse(br, nil)
					if err != nil || res.StatusCode != 101 {
						cmu.Lock()
						hungUp := hangUp
						cmu.Unlock()
						if !hungUp {
							violation("c19_viewer_handshake", "%s: websocket upgrade failed: %v %v", name, res, err)
						}
						return
					}
					for got := 0; ; got++ {
						hd, err := br.Peek(2)
						if err != nil {
							return
						}
						n, hl := int(hd[1]&0x7f), 2
						if n == 126 {
							x, err := br.Peek(4)
							if err != nil {
								return
							}
							n, hl = int(x[2])<<8|int(x[3]), 4
						} else if n == 127 {
							x, err := br.Peek(10)
							if err != nil {
								return
							}
							n, hl = int(x[6])<<24|int(x[7])<<16|int(x[8])<<8|int(x[9]), 10
						}
						op := hd[0] & 0x0f
						br.Discard(hl)
						payload := make([]byte, n)
						if _, err := io.ReadFull(br, payload); err != nil || op == 8 {
							return
						}
						// every websocket message is one whole marbl frame
						rd := marbl.NewReader(strings.NewReader(string(payload)))
						f, err := rd.ReadFrame()
						if err != nil {
							violation("c19_viewer_message_not_a_frame", "%s: message %d (%d bytes) does not decode: %v", name, got, n, err)
							return
						}
						if _, err := rd.ReadFrame(); err != io.EOF {
							violation("c19_viewer_message_not_a_frame", "%s: message %d (%d bytes) holds more than one frame (%v)", name, got, n, err)
							return
						}
						if onMsg(payload, f) {
							return
						}
					}
				}
			}
			var wg, stays sync.WaitGroup
			start := func(f func()) {
				wg.Add(1)
				go func() { defer wg.Done(); f() }()
			}
			// the viewer that stays keeps everything it receives and leaves when it has seen the terminal data frame of
			// all six messages
			var all strings.Builder
			subscribed := make(chan struct{})
			terminals, first := 0, true
			stays.Add(1)
			start(viewer("stays", func(payload []byte, f marbl.Frame) bool {
				defer func() {
					if terminals >= 6 {
						stays.Done()
					}
				}()
				if first {
					first = false
					close(subscribed)
				}
				all.Write(payload)
				if d, ok := f.(marbl.Data); ok && d.Terminal && d.ID != "probe000" {
					terminals++
				}
				return terminals >= 6
			}))
			// it must be subscribed before logging starts (a frame it misses would be a false alarm); the handler
			// gives no signal, so send probe frames until one comes back
			probe := []byte{byte(marbl.DataFrame), 0, 'p', 'r', 'o', 'b', 'e', '0', '0', '0', 0, 0, 0, 0, 0, 0, 0, 0, 0}
		probing:
			for i := 0; i < 5000; i++ {
				h.Write(probe)
				select {
				case <-subscribed:
					break probing
				case <-time.After(2 * time.Millisecond):
				}
			}
			seen := 0
			start(viewer("leaves", func([]byte, marbl.Frame) bool { seen++; return seen >= 3 }))
			late := 0
			start(viewer("late", func([]byte, marbl.Frame) bool { late++; return late >= 40 }))
			wants := make([]want, 3)
			parallel(exchange(s, "ab-00001", 100, 0, &wants[0]), exchange(s, "cd-00002", 1, 70000, &wants[1]), exchange(s, "ef-00003", 300, 4000, &wants[2]))
			s.Close()
			// everything has been written: the viewer that stays gets it all (or its connection ends), then the
			// other viewers are hung up on
			waited := make(chan struct{})
			go func() { stays.Wait(); close(waited) }()
			select {
			case <-waited:
			case <-time.After(time.Until(deadline)):
			}
			cmu.Lock()
			hangUp = true
			for _, c := range conns {
				c.Close()
			}
			cmu.Unlock()
			wg.Wait()
			l.Close()
			if terminals < 6 {
				violation("c19_viewer_missed_frames", "the viewer that stayed saw %d of 6 terminal data frames (%d bytes) before its connection ended", terminals, all.Len())
			} else {
				decode("viewer that stayed", all.String(), wants, true)
			}
		}},
	}
}

func main() {
	mlog.SetLevel(mlog.Silent)
	set := "all"
	iters := 30
	if len(os.Args) > 1 {
		set = os.Args[1]
	}
	if len(os.Args) > 2 {
		iters, _ = strconv.Atoi(os.Args[2])
	}
	var scen []scenario
	if set == "c02" || set == "all" {
		scen = append(scen, c02()...)
	}
	if set == "c06" || set == "all" {
		scen = append(scen, c06()...)
	}
	if set == "c14" || set == "all" {
		scen = append(scen, c14()...)
	}
	if set == "c17" || set == "all" {
		scen = append(scen, c17()...)
	}
	if set == "c19" || set == "all" {
		scen = append(scen, c19()...)
	}
	var n int64
	for _, s := range scen {
		fmt.Fprintln(os.Stderr, "RACE scenario "+s.name)
		for i := 0; i < iters; i++ {
			s.run()
			n++
		}
	}
	b, _ := json.Marshal(map[string]int64{"Scenarios": int64(len(scen)), "Iterations": n})
	fmt.Println(string(b))
}
