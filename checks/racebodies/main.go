// racebodies is the auxiliary free-running race pass for C06 and C17 (and C19): the thread bodies of their
// concurrent scenarios run on the unrewritten martian tree under the race detector. It is built with -race and
// started by those checks (lib.RacePass); it prints "RACE scenario <name>" before each scenario on stderr and a
// JSON summary on stdout. Usage: racebodies <set> <iterations>
package main

import (
	"bufio"
	"crypto/tls"
	"encoding/json"
	"fmt"
	"io"
	"net"
	"net/http"
	"os"
	"strconv"
	"strings"
	"sync"
	"time"

	martian "github.com/google/martian/v3"
	"github.com/google/martian/v3/har"
	"github.com/google/martian/v3/httpspec"
	mlog "github.com/google/martian/v3/log"
	"github.com/google/martian/v3/marbl"
	"github.com/google/martian/v3/mitm"
)

type scenario struct {
	name string
	run  func()
}

func parallel(fs ...func()) {
	var wg sync.WaitGroup
	start := make(chan struct{})
	for _, f := range fs {
		f := f
		wg.Add(1)
		go func() { defer wg.Done(); <-start; f() }()
	}
	close(start)
	wg.Wait()
}

func c06() []scenario {
	ca, priv, err := mitm.NewAuthority("verif", "verif", time.Hour)
	if err != nil {
		panic(err)
	}
	newCfg := func() *mitm.Config {
		c, err := mitm.NewConfig(ca, priv)
		if err != nil {
			panic(err)
		}
		return c
	}
	get := func(c *mitm.Config, host, sni string) func() {
		return func() {
			tc := c.TLSForHost(host)
			tc.GetCertificate(&tls.ClientHelloInfo{ServerName: sni})
		}
	}
	return []scenario{
		{"c06: distinct uncached hosts", func() {
			c := newCfg()
			parallel(get(c, "a.test:443", ""), get(c, "b.test:443", ""), get(c, "10.0.0.1:443", ""), get(c, "", "c.test"))
		}},
		{"c06: same uncached host", func() { c := newCfg(); parallel(get(c, "a.test:443", ""), get(c, "a.test", ""), get(c, "", "a.test")) }},
		{"c06: cached and uncached", func() {
			c := newCfg()
			get(c, "a.test:443", "")()
			parallel(get(c, "a.test:443", ""), get(c, "b.test:443", ""), get(c, "a.test:443", "b.test"))
		}},
		{"c06: TLS() entry point", func() {
			c := newCfg()
			parallel(func() { c.TLS().GetCertificate(&tls.ClientHelloInfo{ServerName: "x.test"}) }, func() { c.TLS().GetCertificate(&tls.ClientHelloInfo{ServerName: "y.test"}) }, get(c, "x.test", ""))
		}},
	}
}

func c17() []scenario {
	req := func(i int) *http.Request {
		r, _ := http.NewRequest("POST", fmt.Sprintf("http://example.com/r%d", i), strings.NewReader("body"))
		return r
	}
	res := func(i int) *http.Response {
		return &http.Response{StatusCode: 200 + i, Proto: "HTTP/1.1", ProtoMajor: 1, ProtoMinor: 1, Header: http.Header{}, Body: io.NopCloser(strings.NewReader("resp")), ContentLength: 4}
	}
	return []scenario{
		{"c17: record vs export", func() {
			l := har.NewLogger()
			parallel(func() { l.RecordRequest("a", req(1)); l.RecordResponse("a", res(1)) }, func() { l.RecordRequest("b", req(2)); l.RecordResponse("b", res(2)) }, func() { l.Export(); l.ExportAndReset() })
		}},
		{"c17: same id", func() {
			l := har.NewLogger()
			parallel(func() { l.RecordRequest("a", req(1)) }, func() { l.RecordRequest("a", req(2)) }, func() { l.RecordResponse("a", res(1)) }, func() { l.Export() })
		}},
		{"c17: reset vs traffic", func() {
			l := har.NewLogger()
			l.RecordRequest("a", req(1))
			parallel(func() { l.Reset() }, func() { l.RecordResponse("a", res(1)) }, func() { l.RecordRequest("b", req(2)) }, func() { l.ExportAndReset() })
		}},
		{"c17: export json vs response", func() {
			l := har.NewLogger()
			l.RecordRequest("a", req(1))
			parallel(func() { h := l.ExportAndReset(); json.Marshal(h) }, func() { l.RecordResponse("a", res(1)) }, func() { l.RecordRequest("c", req(3)); l.RecordResponse("c", res(3)) })
		}},
	}
}

func c02() []scenario {
	// contexts and sessions are created per exchange on every connection concurrently; the request->context
	// table is global
	mk := func(i int) func() {
		return func() {
			for k := 0; k < 20; k++ {
				r, _ := http.NewRequest("GET", fmt.Sprintf("http://example.com/%d/%d", i, k), nil)
				ctx, remove, err := martian.TestContext(r, nil, nil)
				if err != nil {
					panic(err)
				}
				_ = ctx.ID() + ctx.Session().ID()
				if martian.NewContext(r) != ctx {
					panic("context table lost an entry")
				}
				ctx.Set("k", k)
				ctx.Session().Set("s", k)
				remove()
			}
		}
	}
	// ids generated concurrently must be pairwise distinct (the race detector cannot see writes made by the
	// getrandom system call, so this is asserted directly)
	// ids generated concurrently by real connection handlers must be pairwise distinct (the race detector cannot
	// see writes made by the getrandom system call, so this is asserted directly): a real proxy on loopback TCP,
	// many keep-alive connections, a request modifier that records the ids and skips the round trip
	uniq := func() {
		const conns, per = 16, 150
		var mu sync.Mutex
		ids := map[string]int{}
		total := 0
		p := martian.NewProxy()
		p.SetRequestModifier(martian.RequestModifierFunc(func(req *http.Request) error {
			ctx := martian.NewContext(req)
			ctx.SkipRoundTrip()
			mu.Lock()
			ids["ctx:"+ctx.ID()]++
			total++
			mu.Unlock()
			return nil
		}))
		sess := map[string]bool{}
		p.SetResponseModifier(martian.ResponseModifierFunc(func(res *http.Response) error {
			ctx := martian.NewContext(res.Request)
			mu.Lock()
			sess[ctx.Session().ID()] = true
			mu.Unlock()
			return nil
		}))
		l, err := net.Listen("tcp", "127.0.0.1:0")
		if err != nil {
			return
		}
		go p.Serve(l)
		var fs []func()
		for c := 0; c < conns; c++ {
			fs = append(fs, func() {
				conn, err := net.Dial("tcp", l.Addr().String())
				if err != nil {
					return
				}
				defer conn.Close()
				br := bufio.NewReader(conn)
				for k := 0; k < per; k++ {
					fmt.Fprintf(conn, "GET http://example.com/ HTTP/1.1\r\nHost: example.com\r\n\r\n")
					res, err := http.ReadResponse(br, nil)
					if err != nil {
						return
					}
					io.Copy(io.Discard, res.Body)
					res.Body.Close()
				}
			})
		}
		parallel(fs...)
		p.Close()
		dups := 0
		for _, n := range ids {
			if n > 1 {
				dups += n - 1
			}
		}
		if dups > 0 {
			fmt.Fprintf(os.Stderr, "RACEBODY VIOLATION ids:duplicate_context_id %d of %d exchanges on %d concurrent connections share a context id\n", dups, total, conns)
		}
		if len(sess) < conns && total == conns*per {
			fmt.Fprintf(os.Stderr, "RACEBODY VIOLATION ids:duplicate_session_id %d connections but only %d distinct session ids\n", conns, len(sess))
		}
	}
	return []scenario{
		{"c02: concurrent context creation, lookup and removal", func() { parallel(mk(0), mk(1), mk(2), mk(3)) }},
		{"c02: ids generated concurrently are distinct", uniq},
	}
}

func c14() []scenario {
	// the spec stack's modifiers are shared by all connections: messages with different Connection lists pass
	// through concurrently; each must lose exactly its own listed headers and keep the others
	run := func() {
		outer, _ := httpspec.NewStack("racebody")
		worker := func(w int) func() {
			return func() {
				for k := 0; k < 300; k++ {
					listed := fmt.Sprintf("X-Listed-%d", w)
					kept := fmt.Sprintf("X-Listed-%d", (w+1)%4)
					req, _ := http.NewRequest("GET", "http://example.com/", nil)
					req.Header.Set("Connection", listed+", close")
					req.Header.Set(listed, "1")
					req.Header.Set(kept, "2")
					req.Header.Set("Keep-Alive", "timeout=5")
					_, remove, err := martian.TestContext(req, nil, nil)
					if err != nil {
						panic(err)
					}
					outer.ModifyRequest(req)
					remove()
					if req.Header.Get(listed) != "" || req.Header.Get("Keep-Alive") != "" {
						fmt.Fprintf(os.Stderr, "RACEBODY VIOLATION hopbyhop:listed_header_survives a header named in this message's Connection header survived under concurrency\n")
					}
					if req.Header.Get(kept) != "2" {
						fmt.Fprintf(os.Stderr, "RACEBODY VIOLATION hopbyhop:unlisted_header_removed an end-to-end header was removed because another concurrent message listed it\n")
					}
					if len(req.Header["Via"]) != 1 {
						fmt.Fprintf(os.Stderr, "RACEBODY VIOLATION via:not_exactly_one_entry Via has %d lines under concurrency\n", len(req.Header["Via"]))
					}
				}
			}
		}
		parallel(worker(0), worker(1), worker(2), worker(3))
	}
	return []scenario{{"c14: concurrent messages through one spec stack", run}}
}

type sink struct {
	mu sync.Mutex
	n  int
}

func (s *sink) Write(p []byte) (int, error) {
	s.mu.Lock()
	s.n += len(p)
	s.mu.Unlock()
	return len(p), nil
}

func c19() []scenario {
	return []scenario{
		{"c19: concurrent loggers", func() {
			s := marbl.NewStream(&sink{})
			log := func(id string, n int) func() {
				return func() {
					r, _ := http.NewRequest("POST", "http://example.com/"+id, strings.NewReader(strings.Repeat("x", n)))
					_, remove, err := martian.TestContext(r, nil, nil)
					if err != nil {
						panic(err)
					}
					defer remove()
					s.LogRequest(id+"0000000", r)
					io.Copy(io.Discard, r.Body)
				}
			}
			parallel(log("a", 10), log("b", 5000), log("c", 1))
			s.Close()
		}},
	}
}

func main() {
	mlog.SetLevel(mlog.Silent)
	set := "all"
	iters := 30
	if len(os.Args) > 1 {
		set = os.Args[1]
	}
	if len(os.Args) > 2 {
		iters, _ = strconv.Atoi(os.Args[2])
	}
	var scen []scenario
	if set == "c02" || set == "all" {
		scen = append(scen, c02()...)
	}
	if set == "c06" || set == "all" {
		scen = append(scen, c06()...)
	}
	if set == "c14" || set == "all" {
		scen = append(scen, c14()...)
	}
	if set == "c17" || set == "all" {
		scen = append(scen, c17()...)
	}
	if set == "c19" || set == "all" {
		scen = append(scen, c19()...)
	}
	var n int64
	for _, s := range scen {
		fmt.Fprintln(os.Stderr, "RACE scenario "+s.name)
		for i := 0; i < iters; i++ {
			s.run()
			n++
		}
	}
	b, _ := json.Marshal(map[string]int64{"Scenarios": int64(len(scen)), "Iterations": n})
	fmt.Println(string(b))
}
