// C07 — shutdown completes in-flight exchanges, refuses new ones and closes everything.
//
// The real martian.Proxy serves a simnet listener under the gosim scheduler. 1..3 client connections are
// parked at one of six progress points, Close() is called from its own thread, the parked exchanges are
// released in every order, optionally a late connection is dialled (racing with Close or after it
// returned). Every schedule within the deviation bound is executed and the statement's clauses are
// evaluated on the recorded event order.
//
// Beyond the plain matrix (see AUDIT.md): exchange flavours (second exchange of a keep-alive connection, POST
// parked mid request body, chunked / close-marked origin responses, failing modifiers, skipped round trips,
// CONNECT that fails, CONNECT tunnels, exchanges inside a MITM'd CONNECT), two accept loops on one proxy (what
// cmd/proxy does with -tls-address) with a late connection at each listener, and a traffic-shaped listener.
package main

import (
	"bufio"
	"crypto/x509"
	"encoding/json"
	"errors"
	"fmt"
	"io"
	"net"
	"net/http"
	"os"
	"sort"
	"strings"
	"time"

	martian "github.com/google/martian/v3"
	"github.com/google/martian/v3/mitm"
	"github.com/google/martian/v3/trafficshape"
	"github.com/google/martian/v3/zzverif/simnet"
	"github.com/google/martian/v3/zzverif/vrt"

	"verif/checks/pworld"
	"verif/lib"
)

// Stages 0-5 are the six progress points of the statement on a fresh connection. Stages 6-9 are the same
// "idle" and "mid request head" points reached differently: on a connection that has already served one
// exchange (keep-alive), with the partial head having arrived in the same segment as the previous request,
// and with a client that never completes the head it started (it only waits for the proxy to close).
// Stages 10-14 exist only for some flavours: mid request body (post), an established CONNECT tunnel (tunnel),
// and for a MITM'd CONNECT: idle right after the 200 (client silent), and the CONNECT itself parked in the
// request / response modifier (client silent after the 200).
//
// "writing" (5): the response is larger than the proxy's write buffer and the client's receive window takes one
// segment, so the handler is parked inside the second write to the connection. "written_unread" (15): a small
// response has been handed to the network completely, the client has not read it yet and the handler is already
// waiting for the next request (this is what stage 5 amounted to before the audit).
// "mitm_tls_hello_stalled" (16): inside a MITM'd CONNECT the client has sent the first bytes of a TLS ClientHello and
// stalls: the TLS counterpart of "midhead_stalled".
// "writing_pipelined" (17) / "roundtrip_pipelined" (18): like 5 / 3, and a complete second request (X-Conn "<i>q")
// arrived in the same segment as the first: it sits in the connection's bufio.Reader when shutdown is requested.
var stageName = []string{"idle", "midhead", "reqmod", "roundtrip", "resmod", "writing", "idle_keepalive", "midhead_pipelined", "midhead_stalled", "midhead_pipelined_stalled",
	"midbody", "tunnel_open", "mitm_idle", "connect_reqmod", "connect_resmod", "written_unread", "mitm_tls_hello_stalled", "writing_pipelined", "roundtrip_pipelined"}

const (
	stMidBody       = 10
	stTunnelOpen    = 11
	stMitmIdle      = 12
	stConnectReqmod = 13
	stConnectResmod = 14
	stWrittenUnread = 15
	stMitmTLSStall  = 16
	stWritingPiped  = 17
	stRTPiped       = 18
)

// bigBodyLen exceeds bufio's 4096-byte default buffer twice over: the response goes out in at least two writes.
const bigBodyLen = 9000

type scenario struct {
	Place  []int  // stage per connection
	Order  []int  // release order (indices into Place)
	Late   string // "", "racing", "after"
	RTErr  bool   // the upstream round trip of every exchange fails (the complete response is then the proxy's 502)
	Shaped bool   // the proxy serves a trafficshape.Listener (closing that listener has side effects on the connections it accepted)

	// Flavor of the parked exchanges: "" plain proxied GET; "prior" the parked exchange is the second one of a
	// keep-alive connection; "post" request with a body that the round trip reads; "chunked" origin response of
	// unknown length; "origclose" origin response already marked close; "moderr" both modifiers return errors;
	// "skiprt" the request modifier skips the round trip; "connect502" CONNECT whose dial fails; "tunnel" CONNECT
	// tunnel to an echoing origin; "mitm" CONNECT answered by the proxy itself (SetMITM), the parked exchange is a
	// plain-text request inside that tunnel.
	Flavor string `json:",omitempty"`
	// Listeners = 2: the one proxy runs two accept loops (connection i dials listener i%2).
	Listeners int `json:",omitempty"`
	// Late2: a second late connection, dialled at the last listener (the first late one dials listener 0).
	Late2 bool `json:",omitempty"`
	// TempErr: the listener is one whose Accept fails with a temporary error for a connection that was reset before
	// it could be accepted ("before": that happens, and the accept loop is backing off, when Close() is called;
	// "racing": it happens while Close() is being called).
	TempErr string `json:",omitempty"`
	// Hold: the parked exchanges are released only 6 minutes (of virtual time) after Close() was called - longer
	// than the proxy's timeout. Whatever becomes of those exchanges (their connection deadlines have passed), Close()
	// must not have returned while their handlers were still running. Only that clause is judged.
	Hold bool `json:",omitempty"`
	// Fam names the family of the scenario in the evidence (no influence on the run).
	Fam string `json:",omitempty"`
}

func (s scenario) String() string {
	var p []string
	for _, x := range s.Place {
		p = append(p, stageName[x])
	}
	out := fmt.Sprintf("place=%v order=%v late=%q rterr=%v shaped=%v", p, s.Order, s.Late, s.RTErr, s.Shaped)
	if s.Flavor != "" {
		out += " flavor=" + s.Flavor
	}
	if s.Listeners > 1 {
		out += fmt.Sprintf(" listeners=%d", s.Listeners)
	}
	if s.Late2 {
		out += " late2=true"
	}
	if s.TempErr != "" {
		out += " temperr=" + s.TempErr
	}
	if s.Hold {
		out += " hold=true"
	}
	return out
}

// class distinguishes the scenario-wide signatures (outcome, close_returned_early, late_conn_*, ...) of the added
// scenario classes from those of the plain matrix: "two_listeners", or "connect" for the flavours that run through
// handleConnectRequest. The other flavours take the same path through the proxy as the plain matrix and share its
// scenario-wide signatures; per-connection signatures always name the flavour (<symptom>:<stage>@<flavour>).
func (s scenario) class() string {
	if s.Hold {
		return "held_past_timeout"
	}
	if s.Listeners > 1 {
		return "two_listeners"
	}
	if s.TempErr != "" {
		return "temperr"
	}
	switch s.Flavor {
	case "connect502", "tunnel", "mitm":
		return "connect"
	}
	return ""
}

type finding struct {
	Sig  string
	Desc string
}

var (
	mitmCA  *x509.Certificate
	mitmCfg *mitm.Config
)

func initMITM() {
	if mitmCfg != nil {
		return
	}
	c, priv, err := mitm.NewAuthority("verif", "verif", 24*time.Hour)
	if err != nil {
		panic(err)
	}
	mitmCA = c
	mitmCfg, err = mitm.NewConfig(c, priv)
	if err != nil {
		panic(err)
	}
}

const postBody = "0123456789abcdefghijABCDEFGHIJ0123456789"

func postRequest(conn string) (head, body string) {
	return fmt.Sprintf("POST http://origin.test/up HTTP/1.1\r\nHost: origin.test\r\nX-Conn: %s\r\nContent-Length: %d\r\n\r\n", conn, len(postBody)), postBody
}

func connectRequest(conn string) string {
	return "CONNECT origin-" + conn + ".test:443 HTTP/1.1\r\nHost: origin-" + conn + ".test:443\r\nX-Conn: " + conn + "\r\n\r\n"
}

func innerRequest(conn string) string {
	return "GET /big HTTP/1.1\r\nHost: origin.test\r\nX-Conn: " + conn + "\r\n\r\n"
}

// flakyListener models accept(2) failing with ECONNABORTED: a connection whose client name starts with "abort" was
// reset before it could be accepted; Accept reports a temporary error for it.
type flakyListener struct{ net.Listener }

type tempAcceptError struct{}

func (tempAcceptError) Error() string   { return "accept: software caused connection abort" }
func (tempAcceptError) Timeout() bool   { return false }
func (tempAcceptError) Temporary() bool { return true }

func (f flakyListener) Accept() (net.Conn, error) {
	c, err := f.Listener.Accept()
	if sc, ok := c.(*simnet.Conn); err == nil && ok && strings.HasPrefix(sc.Peer().Name, "abort") {
		sc.Close()
		return nil, &net.OpError{Op: "accept", Net: "tcp", Err: tempAcceptError{}}
	}
	return c, err
}

type lateObs struct {
	name          string
	lis           int
	cl            *pworld.Client
	done          bool
	afterShutdown bool
}

func run(sc scenario) (body func(), check func(r *vrt.Result) []finding) {
	var w *pworld.World
	var clients []*pworld.Client
	var echoes []string
	var lates []*lateObs
	var clientDone []bool
	var closeRet bool
	var retProblems []string
	var timeAdvanced bool
	var pendingAtAdvance string
	if sc.Flavor == "mitm" {
		initMITM()
	}
	nLis := 1
	if sc.Listeners > 1 {
		nLis = sc.Listeners
	}
	// namesOf lists the X-Conn values of the requests client i sends, in the order it sends them
	namesOf := func(name string) []string {
		for i, st := range sc.Place {
			if name == fmt.Sprint(i) && (st == stWritingPiped || st == stRTPiped) {
				return []string{name, name + "q"}
			}
		}
		switch sc.Flavor {
		case "prior":
			return []string{name + "p", name}
		case "mitm":
			return []string{name + "c", name}
		}
		return []string{name}
	}
	// bodyFor is the body the origin sends on the exchange with X-Conn value conn: a large one for a connection
	// parked in "writing"
	bodyFor := func(conn string) string {
		small := "hello from origin " + conn
		for i, st := range sc.Place {
			if (st == 5 || st == stWritingPiped) && conn == fmt.Sprint(i) {
				return strings.Repeat(small+"\n", bigBodyLen/(len(small)+1)+1)[:bigBodyLen]
			}
		}
		return small
	}
	body = func() {
		w = pworld.NewWorld()
		clients = make([]*pworld.Client, len(sc.Place))
		echoes = make([]string, len(sc.Place))
		clientDone = make([]bool, len(sc.Place))
		lates, closeRet, retProblems, timeAdvanced, pendingAtAdvance = nil, false, nil, false, ""
		w.Respond = func(req *http.Request) (*http.Response, error) {
			return pworld.SimpleResponse(req, 200, bodyFor(req.Header.Get("X-Conn"))), nil
		}
		if sc.RTErr {
			w.Respond = func(req *http.Request) (*http.Response, error) {
				return nil, errors.New("simulated upstream failure")
			}
		}
		switch sc.Flavor {
		case "post":
			w.Respond = func(req *http.Request) (*http.Response, error) {
				b, err := io.ReadAll(req.Body)
				if err != nil {
					return nil, err
				}
				return pworld.SimpleResponse(req, 200, fmt.Sprintf("got %d bytes;", len(b))+bodyFor(req.Header.Get("X-Conn"))), nil
			}
		case "chunked":
			w.Respond = func(req *http.Request) (*http.Response, error) {
				res := pworld.SimpleResponse(req, 200, bodyFor(req.Header.Get("X-Conn")))
				res.ContentLength = -1
				res.TransferEncoding = []string{"chunked"}
				return res, nil
			}
		case "origclose":
			w.Respond = func(req *http.Request) (*http.Response, error) {
				res := pworld.SimpleResponse(req, 200, bodyFor(req.Header.Get("X-Conn")))
				res.Close = true
				return res, nil
			}
		case "moderr":
			w.OnRequest = func(req *http.Request) error { return errors.New("request modifier failed") }
			w.OnResponse = func(res *http.Response) error { return errors.New("response modifier failed") }
		case "skiprt":
			w.OnRequest = func(req *http.Request) error {
				if ctx := martian.NewContext(req); ctx != nil {
					ctx.SkipRoundTrip()
				}
				return nil
			}
		case "connect502", "tunnel":
			w.Proxy.SetDial(func(network, addr string) (net.Conn, error) {
				name := strings.TrimSuffix(strings.TrimPrefix(addr, "origin-"), ".test:443")
				w.Ev("rt-start", name, "dial "+addr)
				if g, ok := w.Gates["rt:"+name]; ok {
					g.Wait()
				}
				w.Ev("rt-end", name, "")
				if sc.Flavor == "connect502" {
					return nil, errors.New("simulated dial failure")
				}
				pc, oc := simnet.Pipe("up"+name, "origin"+name)
				vrt.GoNamed("origin"+name, func() {
					br := bufio.NewReader(oc)
					for {
						line, err := br.ReadString('\n')
						if line != "" {
							oc.Write([]byte("echo:" + line))
						}
						if err != nil {
							break
						}
					}
					oc.Close()
				})
				return pc, nil
			})
		case "mitm":
			w.Proxy.SetMITM(mitmCfg)
		}
		wrap := func(l net.Listener) net.Listener {
			if sc.TempErr != "" {
				l = flakyListener{l}
			}
			if sc.Shaped {
				l = trafficshape.NewListener(l)
			}
			return l
		}
		w.Wrap = wrap
		listeners := []*simnet.Listener{w.L}
		w.Start()
		for k := 1; k < nLis; k++ {
			l := simnet.Listen(fmt.Sprintf("10.0.0.2:%d", 8443+k))
			listeners = append(listeners, l)
			wl := wrap(l)
			vrt.GoNamed(fmt.Sprintf("serve%d", k+1), func() { w.Proxy.Serve(wl) })
		}
		dialOn := func(k int, name string) (*pworld.Client, error) {
			if k == 0 {
				return w.Dial(name)
			}
			c, err := listeners[k].Dial(name)
			if err != nil {
				return nil, err
			}
			cl := &pworld.Client{Name: name, C: c}
			cl.BR = bufio.NewReader(io.TeeReader(c, &cl.Raw))
			return cl, nil
		}
		for i, st := range sc.Place {
			i, st := i, st
			name := fmt.Sprint(i)
			switch st {
			case 2:
				w.Gate("reqmod:" + name)
			case 3, stRTPiped:
				w.Gate("rt:" + name)
			case 4:
				w.Gate("resmod:" + name)
			case stConnectReqmod:
				w.Gate("reqmod:" + name + "c")
			case stConnectResmod:
				w.Gate("resmod:" + name + "c")
			}
			cg := w.Gate("client:" + name)
			// plain drives the stages of an ordinary exchange (request text req)
			plain := func(cl *pworld.Client, req string) {
				switch st {
				case 0:
					cg.Wait()
					cl.Send(req)
				case 1:
					cl.Send(req[:20])
					cg.Wait()
					cl.Send(req[20:])
				case 5, stWrittenUnread:
					cl.C.Peer().SetCapacity(16)
					cl.Send(req)
					cg.Wait()
				case 6:
					cl.Send(req)
					cg.Wait()
				case 7:
					cl.Send(req + req[:20])
					cg.Wait()
					cl.Send(req[20:])
				case 8:
					cl.Send(req[:20])
					cg.Wait()
				case 9:
					cl.Send(req + req[:20])
					cg.Wait()
				case stWritingPiped:
					cl.C.Peer().SetCapacity(16)
					cl.Send(req + pworld.GetRequest(name+"q", "/second"))
					cg.Wait()
				case stRTPiped:
					cl.Send(req + pworld.GetRequest(name+"q", "/second"))
				default:
					cl.Send(req)
				}
			}
			vrt.GoNamed("client"+name, func() {
				cl, err := dialOn(i%nLis, "c"+name)
				if err != nil {
					clientDone[i] = true
					return
				}
				clients[i] = cl
				switch sc.Flavor {
				case "prior":
					cl.Send(pworld.GetRequest(name+"p", "/prior"))
					if cl.ReadResponse("GET") != nil && !cl.EOF && cl.Err == nil {
						plain(cl, pworld.GetRequest(name, "/big"))
					}
				case "post":
					head, bod := postRequest(name)
					switch st {
					case 1:
						cl.Send(head[:20])
						cg.Wait()
						cl.Send(head[20:] + bod)
					case stMidBody:
						cl.Send(head + bod[:15])
						cg.Wait()
						cl.Send(bod[15:])
					case 5:
						cl.C.Peer().SetCapacity(16)
						cl.Send(head + bod)
						cg.Wait()
					default:
						cl.Send(head + bod)
					}
				case "connect502":
					if st == stWrittenUnread {
						cl.C.Peer().SetCapacity(16)
					}
					cl.Send(connectRequest(name))
					if st == stWrittenUnread {
						cg.Wait()
					}
					// parsed like the answer to a HEAD: whatever the framing headers say, nothing after the head belongs to it
					cl.ReadResponse("HEAD")
				case "tunnel":
					cl.Send(connectRequest(name))
					if r := cl.ReadResponse("HEAD"); r != nil && r.Status == 200 {
						if st == stTunnelOpen {
							cg.Wait()
						}
						cl.Send("ping\n")
						line, _ := cl.BR.ReadString('\n')
						echoes[i] = line
						cl.C.CloseWrite()
					}
				case "mitm":
					cl.Send(connectRequest(name + "c"))
					if r := cl.ReadResponse("HEAD"); r != nil && r.Status == 200 && !cl.EOF && cl.Err == nil {
						switch st {
						case stMitmIdle:
							cg.Wait()
						case stMitmTLSStall:
							cl.Send("\x16\x03\x01\x00\xc8\x01\x00")
							cg.Wait()
						case stConnectReqmod, stConnectResmod:
							// silent: the tunnel the proxy terminates itself stays idle
						default:
							plain(cl, innerRequest(name))
						}
					}
				default:
					plain(cl, pworld.GetRequest(name, "/big"))
				}
				if !cl.EOF && cl.Err == nil {
					cl.ReadAllResponses("GET")
				}
				clientDone[i] = true
			})
		}
		vrt.WaitQuiescent()
		if sc.TempErr != "" {
			vrt.GoNamed("aborter", func() {
				if c, err := w.L.Dial("abort"); err == nil {
					c.Abort()
				}
			})
			if sc.TempErr == "before" {
				vrt.WaitQuiescent() // the accept loop is now sleeping out its back-off
			}
		}
		vrt.GoNamed("closer", func() {
			// "accepted" = the accept loop has handed the connection to a handler (go handleLoop executed)
			// before Close() was called; a connection still between Accept() returning and that hand-over
			// is indistinguishable from one still in the kernel backlog.
			handlersAtCall := 0
			for _, ti := range vrt.Snapshot() {
				if strings.Contains(ti.Label, "(*Proxy).Serve") {
					handlersAtCall++
				}
			}
			// the connections certainly handed over: all accepted ones if every one of them has its handler,
			// otherwise all but the most recently accepted one of each listener (that one may be in the window)
			var accepted []*simnet.Conn
			total := 0
			for _, l := range listeners {
				total += len(l.Accepted)
			}
			for _, l := range listeners {
				n := len(l.Accepted)
				if total != handlersAtCall && n > 0 {
					n--
				}
				accepted = append(accepted, l.Accepted[:n]...)
			}
			w.Ev("close-call", "", "")
			w.Proxy.Close()
			w.Ev("close-ret", "", "")
			closeRet = true
			// clause (c): evaluated at the very moment Close returns (no scheduling point in between)
			for k, c := range accepted {
				if !c.Closed() {
					retProblems = append(retProblems, fmt.Sprintf("conn#%d (%s) still open", k, c.Name))
				}
			}
			hk := 0
			for _, ti := range vrt.Snapshot() {
				if strings.Contains(ti.Label, "(*Proxy).Serve") {
					if hk < handlersAtCall && !ti.Done {
						retProblems = append(retProblems, fmt.Sprintf("handler#%d not finished (%s)", hk, ti.Blocked))
					}
					hk++
				}
			}
			if hk < handlersAtCall {
				retProblems = append(retProblems, fmt.Sprintf("only %d handlers spawned for %d accepted connections", hk, handlersAtCall))
			}
		})
		lateBody := func(lo *lateObs) func() {
			return func() {
				// "accepted after shutdown began" is decided by the proxy's own public state at the moment the client
				// dials: a connection dialled while Closing() is already true is certainly accepted after shutdown
				// began (one dialled in the window between the call of Close and its first effect is not)
				lo.afterShutdown = w.Proxy.Closing()
				cl, err := dialOn(lo.lis, lo.name)
				if err != nil {
					lo.done = true
					return
				}
				lo.cl = cl
				cl.Send(pworld.GetRequest(lo.name, "/late"))
				cl.ReadAllResponses("GET")
				lo.done = true
			}
		}
		if sc.Late != "" {
			lates = append(lates, &lateObs{name: "late", lis: 0})
			if sc.Late2 {
				lates = append(lates, &lateObs{name: "late2", lis: nLis - 1})
			}
		}
		if sc.Late == "racing" {
			for _, lo := range lates {
				vrt.GoNamed(lo.name, lateBody(lo))
			}
		}
		vrt.WaitQuiescent()
		if sc.Hold {
			vrt.Sleep(6 * time.Minute)
			vrt.WaitQuiescent()
		}
		for _, idx := range sc.Order {
			name := fmt.Sprint(idx)
			for _, k := range []string{"reqmod:", "rt:", "resmod:", "client:"} {
				for _, n := range []string{name, name + "c"} {
					if g, ok := w.Gates[k+n]; ok {
						g.Open()
					}
				}
			}
			vrt.WaitQuiescent()
		}
		lateStarted := sc.Late == "racing"
		if sc.Late == "after" && closeRet {
			lateStarted = true
			for _, lo := range lates {
				vrt.GoNamed(lo.name, lateBody(lo))
			}
			vrt.WaitQuiescent()
		}
		allDone := func() bool {
			for _, d := range clientDone {
				if !d {
					return false
				}
			}
			if !closeRet {
				return false
			}
			if lateStarted {
				for _, lo := range lates {
					if !lo.done {
						return false
					}
				}
			}
			return true
		}
		if !allDone() && sc.TempErr != "" {
			// the accept loop's back-off (at most one second) may have to run out before it looks at the backlog again
			vrt.Sleep(2 * time.Second)
			vrt.WaitQuiescent()
		}
		if !allDone() {
			timeAdvanced = true
			var pend []string
			for i, d := range clientDone {
				if !d {
					st := sc.Place[i]
					if st == stConnectReqmod || st == stConnectResmod {
						st = stMitmIdle // after the 200 all three are the same idle tunnel
					}
					pend = append(pend, stageName[st])
				}
			}
			if len(pend) == 0 {
				pend = append(pend, "close_or_late")
			}
			sort.Strings(pend)
			pendingAtAdvance = strings.Join(pend, "+")
			vrt.Sleep(11 * time.Minute)
			vrt.WaitQuiescent()
		}
		// observation log (determinism fingerprint)
		for _, e := range w.Events {
			vrt.Log("ev %s %s", e.Kind, e.Conn)
		}
		for i, c := range clients {
			if c == nil {
				vrt.Log("client %d: no conn", i)
				continue
			}
			vrt.Log("client %d: done=%v responses=%d eof=%v err=%v raw=%d", i, clientDone[i], len(c.Responses), c.EOF, c.Err, c.Raw.Len())
		}
		vrt.Log("closeRet=%v retProblems=%v timeAdvanced=%v", closeRet, retProblems, timeAdvanced)
	}
	check = func(r *vrt.Result) []finding {
		var out []finding
		add := func(sig, format string, a ...interface{}) {
			out = append(out, finding{sig, fmt.Sprintf(format, a...)})
		}
		// signatures of the plain matrix are unchanged; the added scenario classes get their own
		cls := sc.class()
		g := func(sig string) string { // scenario-wide symptoms
			if cls != "" {
				return sig + ":" + cls
			}
			return sig
		}
		stg := func(stage string) string { // per-connection symptoms of the parked connections
			if sc.Flavor != "" {
				return stage + "@" + sc.Flavor
			}
			return stage
		}
		if r.Outcome != "ok" {
			p := r.Panic
			if i := strings.IndexByte(p, '\n'); i > 0 {
				p = p[:i]
			}
			kind := r.Outcome
			if r.Outcome == "panic" && strings.Contains(p, "WaitGroup") {
				kind = "panic_waitgroup"
			}
			add(g("outcome:"+kind), "execution ended with %s: %s", r.Outcome, p)
			return out
		}
		if !closeRet {
			add(g("close:never_returned"), "Close() had not returned even after the idle timeout elapsed")
			return out
		}
		callTick, retTick := 0, 0
		for _, e := range w.Events {
			if e.Kind == "close-call" {
				callTick = e.Tick
			}
			if e.Kind == "close-ret" {
				retTick = e.Tick
			}
		}
		if len(retProblems) > 0 {
			kinds := map[string]bool{}
			for _, p := range retProblems {
				if strings.Contains(p, "still open") {
					kinds["conn_open"] = true
				} else {
					kinds["handler_running"] = true
				}
			}
			var ks []string
			for k := range kinds {
				ks = append(ks, k)
			}
			sort.Strings(ks)
			add(g("close_returned_early:"+strings.Join(ks, "+")), "when Close() returned: %v", retProblems)
		}
		for _, e := range w.Events {
			if e.Kind == "reqmod-start" && e.Tick > retTick {
				add(g("reqmod_after_close_returned"), "request modifier started for conn %s after Close() returned", e.Conn)
			}
		}
		if sc.Hold {
			return out // the exchanges outlived their connection deadlines: what the clients got is not judged
		}
		if timeAdvanced {
			sig := g("needed_idle_timeout")
			if sc.Flavor != "" && pendingAtAdvance != "close_or_late" {
				// a stalled connection of one of the added flavours: name it, two different stalls must not share a signature
				sig = "needed_idle_timeout:" + sc.Flavor + ":" + pendingAtAdvance
			}
			add(sig, "clients/Close only finished after virtual time advanced past the idle timeout (waiting for: %s)", pendingAtAdvance)
		}
		evs := func(kind string, names []string) []pworld.Event {
			var out []pworld.Event
			for _, e := range w.Events {
				if e.Kind != kind {
					continue
				}
				for _, n := range names {
					if e.Conn == n {
						out = append(out, e)
					}
				}
			}
			return out
		}
		checkClient := func(names []string, c *pworld.Client, done bool, stage string, echo string) {
			if c == nil {
				return
			}
			name := names[len(names)-1]
			starts := evs("reqmod-start", names)
			ends := evs("resmod-end", names)
			if !done {
				add("client_not_closed:"+stage, "client %s (%s) never saw EOF: connection left open", name, stage)
				return
			}
			if c.Err != nil {
				add("client_error:"+stage, "client %s (%s): %v", name, stage, c.Err)
			}
			if len(c.Responses) != len(starts) {
				add("response_count:"+stage, "client %s (%s): request modifier started %d times but client received %d responses", name, stage, len(starts), len(c.Responses))
				return
			}
			for k, res := range c.Responses {
				isConnect := strings.HasPrefix(starts[k].Info, "CONNECT ")
				wantStatus, wantBody := 200, bodyFor(starts[k].Conn)
				switch {
				case isConnect:
					wantBody = ""
					if sc.Flavor == "connect502" {
						wantStatus = 502
					}
				case sc.RTErr:
					wantStatus, wantBody = 502, ""
				case sc.Flavor == "skiprt":
					wantBody = ""
				case sc.Flavor == "post":
					n := 0
					if strings.HasPrefix(starts[k].Info, "POST ") {
						n = len(postBody)
					}
					wantBody = fmt.Sprintf("got %d bytes;", n) + bodyFor(starts[k].Conn)
				}
				if !res.Complete || res.Status != wantStatus {
					add("incomplete_response:"+stage, "client %s (%s): response %d incomplete (status %d, want %d; %d body bytes)", name, stage, k, res.Status, wantStatus, len(res.Body))
				} else if string(res.Body) != wantBody {
					add("wrong_body:"+stage, "client %s (%s): response %d carries a body of %d bytes (%.40q...), the origin sent %d bytes (%.40q...)", name, stage, k, len(res.Body), res.Body, len(wantBody), wantBody)
				}
				// A 2xx answer to CONNECT turns the connection into a tunnel: there is no HTTP connection left that
				// the mark could refer to, so it is not judged there (interpretation, see AUDIT.md).
				tunnelled := isConnect && wantStatus == 200
				mustClose := !tunnelled && k < len(ends) && callTick != 0 && callTick < ends[k].Tick
				if mustClose && !res.Close {
					add("not_marked_close:"+stage, "client %s (%s): Close() was entered before the response modifier returned but the response lacks Connection: close", name, stage)
				}
			}
			if sc.Flavor == "tunnel" && len(starts) > 0 && strings.HasPrefix(starts[0].Info, "CONNECT ") && len(c.Responses) > 0 && c.Responses[0].Status == 200 && echo != "echo:ping\n" {
				add("tunnel_broken:"+stage, "client %s (%s): the tunnel answered %q to \"ping\", want \"echo:ping\"", name, stage, echo)
			}
			if !c.EOF {
				add("no_eof:"+stage, "client %s (%s): no EOF after the responses", name, stage)
			}
		}
		for i, c := range clients {
			checkClient(namesOf(fmt.Sprint(i)), c, clientDone[i], stg(stageName[sc.Place[i]]), echoes[i])
		}
		for _, lo := range lates {
			if lo.cl == nil {
				continue
			}
			// Served only legitimately if accepted before shutdown began.
			if lo.afterShutdown {
				if n := len(w.Find("reqmod-start", lo.name)); n > 0 {
					add(g("late_conn_served"), "a connection accepted after shutdown began was served (%d request modifier calls)", n)
				}
				if !lo.done {
					add(g("late_conn_not_closed"), "a connection accepted after shutdown began was never closed")
				}
			} else {
				checkClient([]string{lo.name}, lo.cl, lo.done, "late-before-close", "")
			}
		}
		return out
	}
	return
}

func perms(n int) [][]int {
	var res [][]int
	var rec func(cur []int, used []bool)
	rec = func(cur []int, used []bool) {
		if len(cur) == n {
			res = append(res, append([]int(nil), cur...))
			return
		}
		for i := 0; i < n; i++ {
			if !used[i] {
				used[i] = true
				rec(append(cur, i), used)
				used[i] = false
			}
		}
	}
	rec(nil, make([]bool, n))
	return res
}

// flavourStages lists, per flavour, the progress points at which an exchange of that flavour can be parked.
var flavourStages = map[string][]int{
	"prior":      {2, 3, 4, 5},
	"post":       {1, stMidBody, 2, 3, 4, 5},
	"chunked":    {2, 3, 4, 5},
	"origclose":  {2, 3, 4, 5},
	"moderr":     {2, 3, 4, 5},
	"skiprt":     {2, 4, stWrittenUnread},
	"connect502": {2, 3, 4, stWrittenUnread},
	"tunnel":     {2, 3, 4, stTunnelOpen},
	"mitm":       {stMitmIdle, stConnectReqmod, stConnectResmod, stMitmTLSStall, 1, 8, 2, 3, 4, 5},
}

var flavourOrder = []string{"prior", "post", "chunked", "origclose", "moderr", "skiprt", "connect502", "tunnel", "mitm"}

func scenarios(tier string) []scenario {
	var out []scenario
	thorough := tier == "thorough"
	emit := func(fam string, sc scenario) {
		sc.Fam = fam
		out = append(out, sc)
	}
	maxN := 3
	for n := 1; n <= maxN; n++ {
		dims := make([]int, n)
		for i := range dims {
			dims[i] = 10
			if n == 3 {
				dims[i] = 6
			}
		}
		lib.Product(dims, func(idx []int) {
			// symmetric placements (sorted) suffice for identical clients, but release order then matters: keep all orders
			sorted := sort.IntsAreSorted(idx)
			if !sorted {
				return
			}
			if n == 2 && !thorough && idx[1] > 5 && idx[0] != 3 {
				// quick: the four variants of idle / mid-head are paired with a connection parked in the round trip
				// only (thorough pairs them with every point and with each other)
				return
			}
			for _, o := range perms(n) {
				lates := []string{""}
				if n == 1 {
					lates = []string{"", "racing", "after"}
				} else if n == 2 {
					lates = []string{"", "racing"}
				}
				for _, l := range lates {
					emit(fmt.Sprintf("plain/n%d", n), scenario{Place: append([]int(nil), idx...), Order: o, Late: l})
				}
			}
		})
	}
	// the response handed over completely but not yet read by the client (stage 5 before it was made to block)
	for _, l := range []string{"", "racing", "after"} {
		emit("plain/n1", scenario{Place: []int{stWrittenUnread}, Order: []int{0}, Late: l})
	}
	for _, other := range []int{3, 5} {
		for _, o := range perms(2) {
			emit("plain/n2", scenario{Place: []int{other, stWrittenUnread}, Order: o})
		}
	}
	// the round trip fails (after shutdown began for the parked ones): the response owed is the 502
	for st := 2; st <= 5; st++ {
		for _, l := range []string{"", "racing"} {
			emit("rterr", scenario{Place: []int{st}, Order: []int{0}, Late: l, RTErr: true})
		}
		emit("rterr", scenario{Place: []int{3, st}, Order: []int{1, 0}, RTErr: true})
	}
	// a traffic-shaped listener: what the accept loop does to the listener during the drain must not disturb the
	// exchanges in flight
	for st := 0; st <= 5; st++ {
		for _, l := range []string{"", "racing"} {
			emit("shaped", scenario{Place: []int{st}, Order: []int{0}, Late: l, Shaped: true})
		}
	}
	emit("shaped", scenario{Place: []int{3, 4}, Order: []int{0, 1}, Late: "racing", Shaped: true})
	emit("shaped", scenario{Place: []int{2, 5}, Order: []int{1, 0}, Late: "racing", Shaped: true})
	// zero parked connections: Close racing with a fresh connection only
	emit("plain/n0", scenario{Late: "racing"})
	emit("plain/n0", scenario{Late: "after"})
	// two late connections at the one listener (the accept loop leaves after the first one: the second is refused
	// or reset with the backlog)
	emit("plain/late2", scenario{Late: "racing", Late2: true})
	emit("plain/late2", scenario{Late: "after", Late2: true})
	emit("plain/late2", scenario{Place: []int{3}, Order: []int{0}, Late: "racing", Late2: true})
	emit("plain/late2", scenario{Place: []int{3}, Order: []int{0}, Late: "after", Late2: true})

	// ---- a complete second request pipelined behind the parked one (it is in the connection's read buffer when the
	// handler next looks for a request - or never does)
	for _, st := range []int{stWritingPiped, stRTPiped} {
		for _, l := range []string{"", "racing"} {
			emit("pipelined", scenario{Place: []int{st}, Order: []int{0}, Late: l})
		}
	}
	for _, pl := range [][]int{{3, stWritingPiped}, {stWritingPiped, stWritingPiped}, {stWritingPiped, stRTPiped}} {
		for _, o := range perms(2) {
			if !thorough && o[0] != 1 {
				continue
			}
			emit("pipelined", scenario{Place: pl, Order: o})
		}
	}
	emit("pipelined", scenario{Place: []int{stWritingPiped}, Order: []int{0}, Late: "racing", Shaped: true})

	// ---- a listener whose Accept fails temporarily around the moment of shutdown (the accept loop backs off),
	// plain and traffic-shaped
	for _, sh := range []bool{false, true} {
		for _, mode := range []string{"before", "racing"} {
			for st := 2; st <= 5; st++ {
				emit("temperr", scenario{Place: []int{st}, Order: []int{0}, TempErr: mode, Shaped: sh})
			}
			emit("temperr", scenario{Place: []int{0}, Order: []int{0}, TempErr: mode, Shaped: sh, Late: "racing"})
		}
		emit("temperr", scenario{TempErr: "before", Shaped: sh, Late: "racing"})
		emit("temperr", scenario{Place: []int{3, 4}, Order: []int{1, 0}, TempErr: "before", Shaped: sh})
	}

	// ---- exchange flavours: one connection at every point the flavour has, alone and with a late connection
	for _, fl := range flavourOrder {
		for _, st := range flavourStages[fl] {
			for _, l := range []string{"", "racing"} {
				emit("flavour/"+fl, scenario{Place: []int{st}, Order: []int{0}, Late: l, Flavor: fl})
			}
		}
	}
	// two connections of one flavour at different points, both release orders (the second connection's shutdown
	// path runs while the first one is still parked)
	pairs := map[string][][]int{
		"post":       {{stMidBody, 3}, {stMidBody, stMidBody}},
		"connect502": {{3, 4}},
		"tunnel":     {{3, stTunnelOpen}, {stTunnelOpen, stTunnelOpen}},
		"mitm":       {{stMitmIdle, 3}, {stConnectReqmod, 4}, {1, 5}},
		"prior":      {{3, 5}},
		"chunked":    {{4, 5}},
	}
	for _, fl := range flavourOrder {
		for _, pl := range pairs[fl] {
			for _, o := range perms(2) {
				if !thorough && o[0] != 1 {
					continue // quick: the later-parked one is released first
				}
				emit("flavour2/"+fl, scenario{Place: pl, Order: o, Flavor: fl})
			}
		}
	}

	// ---- two accept loops on the one proxy (cmd/proxy -tls-address): connection i dials listener i%2, one late
	// connection per listener
	for _, l := range []string{"racing", "after"} {
		emit("two_listeners", scenario{Late: l, Late2: true, Listeners: 2})
	}
	for st := 0; st <= 5; st++ {
		emit("two_listeners", scenario{Place: []int{st}, Order: []int{0}, Late: "racing", Late2: true, Listeners: 2})
		if thorough || st == 3 {
			emit("two_listeners", scenario{Place: []int{st}, Order: []int{0}, Late: "after", Late2: true, Listeners: 2})
			emit("two_listeners", scenario{Place: []int{st}, Order: []int{0}, Late: "racing", Listeners: 2})
		}
	}
	two := [][]int{{3, 3}, {2, 5}, {0, 4}}
	if thorough {
		two = nil
		for a := 0; a <= 5; a++ {
			for b := 0; b <= 5; b++ {
				two = append(two, []int{a, b}) // not symmetric: the connections are at different listeners
			}
		}
	}
	for _, pl := range two {
		for _, o := range perms(2) {
			if !thorough && o[0] != 1 {
				continue
			}
			emit("two_listeners", scenario{Place: pl, Order: o, Listeners: 2})
			if thorough && pl[0] == pl[1] {
				emit("two_listeners", scenario{Place: pl, Order: o, Late: "racing", Late2: true, Listeners: 2})
			}
		}
	}
	emit("two_listeners", scenario{Place: []int{3}, Order: []int{0}, Late: "racing", Late2: true, Listeners: 2, Shaped: true})
	emit("two_listeners", scenario{Place: []int{4, 2}, Order: []int{0, 1}, Late: "racing", Listeners: 2, Shaped: true})

	if thorough {
		// more participants: two parked connections and a late one after Close returned; three parked connections and
		// a late one; shaped listener with every flavour
		for a := 0; a <= 5; a++ {
			for b := a; b <= 5; b++ {
				emit("plain/n2after", scenario{Place: []int{a, b}, Order: []int{1, 0}, Late: "after"})
			}
		}
		for _, pl := range [][]int{{0, 3, 5}, {2, 3, 4}, {1, 2, 5}, {3, 3, 3}} {
			emit("plain/n3late", scenario{Place: pl, Order: []int{2, 0, 1}, Late: "racing"})
		}
		for _, fl := range flavourOrder {
			for _, st := range flavourStages[fl] {
				emit("shaped/"+fl, scenario{Place: []int{st}, Order: []int{0}, Late: "racing", Flavor: fl, Shaped: true})
			}
		}
		for st := 2; st <= 5; st++ {
			emit("shaped/rterr", scenario{Place: []int{st}, Order: []int{0}, Late: "racing", RTErr: true, Shaped: true})
		}
	}
	// exchanges parked for longer than the proxy's timeout after Close() was called
	for st := 2; st <= 4; st++ {
		emit("hold", scenario{Place: []int{st}, Order: []int{0}, Hold: true})
		emit("hold", scenario{Place: []int{st}, Order: []int{0}, Hold: true, Late: "after"})
	}
	emit("hold", scenario{Place: []int{2, 3}, Order: []int{1, 0}, Hold: true})
	return out
}

type famStat struct {
	Scenarios int
	Execs     int64
	Millis    int64
}

type shardOut struct {
	Counters   map[string]int64
	Violations []lib.Violation
	Samples    []interface{}
	Incomplete string
	MinBound   int
	Fams       map[string]*famStat
}

// boundFor is the deviation bound of a scenario: quick 2 (1 with three parked connections); thorough 3 (2 with three
// parked connections), except where the space grows too fast for the thorough budget (measured: > 60k executions
// per scenario at 3). Those stay at 2 in thorough: two parked connections when one of them is at a variant stage
// (6-9, 15) or, with a racing late connection, inside the blocked write; two parked connections plus a late one
// after Close returned; flavour pairs; anything behind a traffic-shaped listener with two parked connections, two
// listeners or a flavour; two parked connections at two listeners. Their one-connection versions get 3.
func boundFor(sc scenario, tier string) int {
	bound := 2
	if tier == "thorough" {
		bound = 3
		two := len(sc.Place) == 2
		has := func(st int) bool {
			for _, x := range sc.Place {
				if x == st {
					return true
				}
			}
			return false
		}
		switch {
		case sc.Listeners > 1 && (two || sc.Shaped),
			strings.HasPrefix(sc.Fam, "flavour2/"),
			strings.HasPrefix(sc.Fam, "shaped/"),
			sc.Shaped && two,
			sc.Fam == "plain/n2after",
			sc.Fam == "plain/n2" && (sc.Place[0] > 5 || sc.Place[1] > 5),
			sc.Fam == "plain/n2" && sc.Late == "racing" && has(5):
			return 2
		}
	}
	if len(sc.Place) == 3 {
		return bound - 1
	}
	return bound
}

func main() {
	tier := lib.Tier()
	scen := scenarios(tier)
	if rp := os.Getenv("VERIF_REPLAY"); rp != "" {
		var doc struct {
			First struct {
				Replay struct {
					Scenario scenario
					Schedule []int
				}
			}
		}
		b, err := os.ReadFile(rp)
		if err != nil || json.Unmarshal(b, &doc) != nil {
			fmt.Fprintln(os.Stderr, "cannot read replay", rp, err)
			os.Exit(2)
		}
		body, check := run(doc.First.Replay.Scenario)
		r := vrt.Run(vrt.Config{Trace: os.Getenv("VERIF_TRACE") != "", MaxPoints: 20000}, doc.First.Replay.Schedule, body)
		for _, l := range r.Trace {
			fmt.Println("  ", l)
		}
		fmt.Println("outcome:", r.Outcome, r.Panic)
		for _, l := range r.Log {
			fmt.Println("log:", l)
		}
		fs := check(r)
		for _, f := range fs {
			fmt.Printf("VIOLATION property=C07 replay=%s\n  %s: %s\n", rp, f.Sig, f.Desc)
		}
		if len(fs) > 0 {
			os.Exit(1)
		}
		return
	}
	if i, n := lib.ShardEnv(); n > 0 {
		out := &shardOut{Counters: map[string]int64{}, MinBound: 99, Fams: map[string]*famStat{}}
		// the caps exist for runaway spaces, not for a loaded machine: the largest quick scenario takes ~3 s of CPU
		perScenario := 40 * time.Second
		if tier == "thorough" {
			perScenario = 240 * time.Second
		}
		only := os.Getenv("C07_ONLY") // development aid: run only the families whose name contains this
		for si, sc := range scen {
			if si%n != i {
				continue
			}
			if only != "" && !strings.Contains(sc.Fam, only) {
				continue
			}
			b := boundFor(sc, tier)
			body, check := run(sc)
			seen := map[string]bool{}
			t0 := time.Now()
			var judged, nontrivial int64
			st := vrt.Explore(vrt.ExploreConfig{Bound: b, Deadline: time.Now().Add(perScenario), Config: vrt.Config{MaxPoints: 20000}}, body, func(prefix []int, r *vrt.Result) bool {
				judged++
				if len(prefix) > 0 {
					nontrivial++
				}
				for _, f := range check(r) {
					if !seen[f.Sig] {
						seen[f.Sig] = true
						if err := vrt.Confirm(vrt.Config{MaxPoints: 20000, MaxVTime: 3 * time.Hour}, r, body, 3); err != nil {
							fmt.Fprintln(os.Stderr, "ENGINE ERROR:", err)
							os.Exit(2)
						}
						out.Violations = append(out.Violations, lib.Violation{Sig: f.Sig, Desc: fmt.Sprintf("scenario {%s} schedule %v: %s", sc, r.ChoiceSeq(), f.Desc),
							Replay: map[string]interface{}{"scenario": sc, "schedule": r.ChoiceSeq(), "log": r.Log}})
					}
				}
				return true
			})
			if st.EngineError != "" {
				fmt.Fprintln(os.Stderr, "ENGINE ERROR:", st.EngineError)
				os.Exit(2)
			}
			fs := out.Fams[sc.Fam]
			if fs == nil {
				fs = &famStat{}
				out.Fams[sc.Fam] = fs
			}
			fs.Scenarios++
			fs.Execs += int64(st.Execs)
			fs.Millis += time.Since(t0).Milliseconds()
			if sf := os.Getenv("C07_STATS"); sf != "" { // development aid: one line per scenario
				if f, err := os.OpenFile(sf, os.O_APPEND|os.O_CREATE|os.O_WRONLY, 0o644); err == nil {
					fmt.Fprintf(f, "%s\t%d\t%d\t%d\t%s\n", sc.Fam, st.Execs, time.Since(t0).Milliseconds(), st.BoundCompleted, sc)
					f.Close()
				}
			}
			out.Counters["scenarios"]++
			out.Counters["executions"] += int64(st.Execs)
			out.Counters["evaluations"] += judged
			out.Counters["nondefault_schedules"] += nontrivial
			out.Counters["points"] += st.Points
			out.Counters["distinct_outcomes"] += int64(st.DistinctLogs)
			out.Counters["horizon_hits"] += int64(st.HorizonHits)
			if st.DistinctLogs > 1 {
				out.Counters["scenarios_with_multiple_outcomes"]++
			}
			if int64(st.MaxPoints) > out.Counters["max_points"] {
				out.Counters["max_points"] = int64(st.MaxPoints)
			}
			if !st.Exhaustive {
				out.Incomplete = fmt.Sprintf("scenario {%s}: cap hit, bound completed %d", sc, st.BoundCompleted)
			}
			if st.BoundCompleted < out.MinBound {
				out.MinBound = st.BoundCompleted
			}
			if len(out.Samples) < 2 {
				out.Samples = append(out.Samples, map[string]interface{}{"scenario": sc.String(), "executions": st.Execs, "distinct_outcomes": st.DistinctLogs, "bound": b})
			}
		}
		b, _ := json.Marshal(out)
		os.WriteFile(os.Getenv("VERIF_SHARD_OUT"), b, 0o644)
		return
	}
	rep := lib.NewReport("C07", "model_checking")
	files, errs, outs := lib.RunShards(16, lib.Root+"/.build/c07/shards")
	minBound := 99
	fams := map[string]*famStat{}
	for i, f := range files {
		if errs[i] != nil {
			fmt.Fprintf(os.Stderr, "shard %d failed: %v\n%s\n", i, errs[i], outs[i])
			os.Exit(2)
		}
		var so shardOut
		b, _ := os.ReadFile(f)
		if err := json.Unmarshal(b, &so); err != nil {
			fmt.Fprintf(os.Stderr, "shard %d: bad output: %v\n", i, err)
			os.Exit(2)
		}
		for k, v := range so.Counters {
			if k == "max_points" {
				if v > rep.Counter(k) {
					rep.Count(k, v-rep.Counter(k))
				}
				continue
			}
			rep.Count(k, v)
		}
		for k, v := range so.Fams {
			fs := fams[k]
			if fs == nil {
				fs = &famStat{}
				fams[k] = fs
			}
			fs.Scenarios += v.Scenarios
			fs.Execs += v.Execs
			fs.Millis += v.Millis
		}
		for _, v := range so.Violations {
			rep.Violate(v.Sig, v.Desc, v.Replay)
		}
		for _, s := range so.Samples {
			rep.Sample(8, s)
		}
		if so.Incomplete != "" {
			rep.Incomplete = so.Incomplete
		}
		if so.MinBound < minBound {
			minBound = so.MinBound
		}
	}
	bound := boundFor(scenario{}, tier)
	rep.Coverage["families"] = fams
	rep.Coverage["states"] = rep.Counter("distinct_outcomes")
	rep.Coverage["transitions"] = rep.Counter("points")
	rep.Coverage["traces_validated_against_impl"] = rep.Counter("executions")
	rep.Coverage["distinct_nontrivial"] = rep.Counter("nondefault_schedules")
	rep.Coverage["rule"] = "every scenario of the listed families x every schedule within the deviation bound, enumerated level by level by vrt.Explore; an execution is non-trivial when its schedule deviates from the default schedule at least once (a preemption, a non-default select case or partner)"
	rep.Coverage["bound_completed"] = minBound
	rep.Coverage["exhaustive"] = rep.Incomplete == ""
	rep.Coverage["bounds"] = fmt.Sprintf("%d scenarios: plain matrix (1..%d connections x 6 progress points + 4 variants of idle/mid-head (keep-alive, pipelined partial head, client that never completes the head; 3-connection scenarios use the 6 basic points) (sorted placements) x all release orders, late connection racing/after); failing round trips; traffic-shaped listener; 9 exchange flavours (second exchange of a keep-alive connection, POST parked mid body, chunked and close-marked origin responses, failing modifiers, skipped round trip, failing CONNECT, CONNECT tunnel, exchange inside a MITM'd CONNECT) at every point they have; two accept loops with one late connection each; every schedule with <= %d deviations (preemptions, select cases, partner choices; one less for 3-connection scenarios; thorough keeps 2 for the scenario classes listed at boundFor: pairs with a variant stage, pairs with a blocked write and a racing late connection, flavour pairs, two-connection / two-listener / flavour scenarios behind a traffic-shaped listener, two connections at two listeners, two connections with a late one after Close returned)", len(scen), 3, bound)
	rep.Coverage["explanation"] = "each execution runs the real proxy.go (rewritten so that sync/chan/select/go/time are scheduler operations) over simnet; states = distinct observation logs summed over scenarios"
	rep.Assumptions = []string{"round trips are performed by a synchronous harness RoundTripper (http.Transport is not explored)", "simnet models TCP close/EOF/deadline semantics", "inside a MITM'd CONNECT the client speaks plain text (the TLS branch of the same code path is not explored)"}
	rep.Finish()
}
