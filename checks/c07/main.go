// C07 — shutdown completes in-flight exchanges, refuses new ones and closes everything.
//
// The real martian.Proxy serves a simnet listener under the gosim scheduler. 1..3 client connections are
// parked at one of six progress points, Close() is called from its own thread, the parked exchanges are
// released in every order, optionally a late connection is dialled (racing with Close or after it
// returned). Every schedule within the deviation bound is executed and the statement's clauses are
// evaluated on the recorded event order.
package main

import (
	"errors"
	"net"
	"encoding/json"
	"net/http"
	"fmt"
	"os"
	"sort"
	"strings"
	"time"

	"github.com/google/martian/v3/trafficshape"
	"github.com/google/martian/v3/zzverif/vrt"

	"verif/checks/pworld"
	"verif/lib"
)

// Stages 0-5 are the six progress points of the statement on a fresh connection. Stages 6-9 are the same
// "idle" and "mid request head" points reached differently: on a connection that has already served one
// exchange (keep-alive), with the partial head having arrived in the same segment as the previous request,
// and with a client that never completes the head it started (it only waits for the proxy to close).
var stageName = []string{"idle", "midhead", "reqmod", "roundtrip", "resmod", "writing", "idle_keepalive", "midhead_pipelined", "midhead_stalled", "midhead_pipelined_stalled"}

type scenario struct {
	Place []int  // stage per connection
	Order []int  // release order (indices into Place)
	Late  string // "", "racing", "after"
	RTErr bool   // the upstream round trip of every exchange fails (the complete response is then the proxy's 502)
	Shaped bool  // the proxy serves a trafficshape.Listener (closing that listener has side effects on the connections it accepted)
}

func (s scenario) String() string {
	var p []string
	for _, x := range s.Place {
		p = append(p, stageName[x])
	}
	return fmt.Sprintf("place=%v order=%v late=%q rterr=%v shaped=%v", p, s.Order, s.Late, s.RTErr, s.Shaped)
}

type finding struct {
	Sig  string
	Desc string
}

const bigBody = 600

func run(sc scenario) (body func(), check func(r *vrt.Result) []finding) {
	var w *pworld.World
	var clients []*pworld.Client
	var late *pworld.Client
	var clientDone []bool
	var lateDone bool
	var closeRet bool
	var retProblems []string
	var acceptedAtCall int
	var timeAdvanced bool
	var lateAfterShutdown bool
	body = func() {
		w = pworld.NewWorld()
		clients = make([]*pworld.Client, len(sc.Place))
		clientDone = make([]bool, len(sc.Place))
		late, lateDone, closeRet, retProblems, timeAdvanced, lateAfterShutdown = nil, false, false, nil, false, false
		w.Respond = nil
		if sc.RTErr {
			w.Respond = func(req *http.Request) (*http.Response, error) {
				return nil, errors.New("simulated upstream failure")
			}
		}
		if sc.Shaped {
			w.Wrap = func(l net.Listener) net.Listener { return trafficshape.NewListener(l) }
		}
		w.Start()
		for i, st := range sc.Place {
			i, st := i, st
			name := fmt.Sprint(i)
			switch st {
			case 2:
				w.Gate("reqmod:" + name)
			case 3:
				w.Gate("rt:" + name)
			case 4:
				w.Gate("resmod:" + name)
			}
			cg := w.Gate("client:" + name)
			vrt.GoNamed("client"+name, func() {
				cl, err := w.Dial("c" + name)
				if err != nil {
					clientDone[i] = true
					return
				}
				clients[i] = cl
				req := pworld.GetRequest(name, "/big")
				switch st {
				case 0:
					cg.Wait()
					cl.Send(req)
				case 1:
					cl.Send(req[:20])
					cg.Wait()
					cl.Send(req[20:])
				case 5:
					cl.C.Peer().SetCapacity(16)
					cl.Send(req)
					cg.Wait()
				case 6:
					cl.Send(req)
					cg.Wait()
				case 7:
					cl.Send(req + req[:20])
					cg.Wait()
					cl.Send(req[20:])
				case 8:
					cl.Send(req[:20])
					cg.Wait()
				case 9:
					cl.Send(req + req[:20])
					cg.Wait()
				default:
					cl.Send(req)
				}
				cl.ReadAllResponses("GET")
				clientDone[i] = true
			})
		}
		vrt.WaitQuiescent()
		vrt.GoNamed("closer", func() {
			// "accepted" = the accept loop has handed the connection to a handler (go handleLoop executed)
			// before Close() was called; a connection still between Accept() returning and that hand-over
			// is indistinguishable from one still in the kernel backlog.
			acceptedAtCall = 0
			for _, ti := range vrt.Snapshot() {
				if strings.Contains(ti.Label, "(*Proxy).Serve") {
					acceptedAtCall++
				}
			}
			w.Ev("close-call", "", "")
			w.Proxy.Close()
			w.Ev("close-ret", "", "")
			closeRet = true
			// clause (c): evaluated at the very moment Close returns (no scheduling point in between)
			for k := 0; k < acceptedAtCall; k++ {
				if !w.L.Accepted[k].Closed() {
					retProblems = append(retProblems, fmt.Sprintf("conn#%d still open", k))
				}
			}
			hk := 0
			for _, ti := range vrt.Snapshot() {
				if strings.Contains(ti.Label, "(*Proxy).Serve") {
					if hk < acceptedAtCall && !ti.Done {
						retProblems = append(retProblems, fmt.Sprintf("handler#%d not finished (%s)", hk, ti.Blocked))
					}
					hk++
				}
			}
			if hk < acceptedAtCall {
				retProblems = append(retProblems, fmt.Sprintf("only %d handlers spawned for %d accepted connections", hk, acceptedAtCall))
			}
		})
		lateBody := func() {
			// "accepted after shutdown began" is decided by the proxy's own public state at the moment the client
			// dials: a connection dialled while Closing() is already true is certainly accepted after shutdown
			// began (one dialled in the window between the call of Close and its first effect is not)
			lateAfterShutdown = w.Proxy.Closing()
			cl, err := w.Dial("late")
			if err != nil {
				lateDone = true
				return
			}
			late = cl
			cl.Send(pworld.GetRequest("late", "/late"))
			cl.ReadAllResponses("GET")
			lateDone = true
		}
		if sc.Late == "racing" {
			vrt.GoNamed("late", lateBody)
		}
		vrt.WaitQuiescent()
		for _, idx := range sc.Order {
			name := fmt.Sprint(idx)
			for _, k := range []string{"reqmod:", "rt:", "resmod:", "client:"} {
				if g, ok := w.Gates[k+name]; ok {
					g.Open()
				}
			}
			vrt.WaitQuiescent()
		}
		if sc.Late == "after" && closeRet {
			vrt.GoNamed("late", lateBody)
			vrt.WaitQuiescent()
		}
		allDone := func() bool {
			for _, d := range clientDone {
				if !d {
					return false
				}
			}
			return closeRet && (sc.Late == "" || lateDone || (sc.Late == "after" && late == nil))
		}
		if !allDone() {
			timeAdvanced = true
			vrt.Sleep(11 * time.Minute)
			vrt.WaitQuiescent()
		}
		// observation log (determinism fingerprint)
		for _, e := range w.Events {
			vrt.Log("ev %s %s", e.Kind, e.Conn)
		}
		for i, c := range clients {
			if c == nil {
				vrt.Log("client %d: no conn", i)
				continue
			}
			vrt.Log("client %d: done=%v responses=%d eof=%v err=%v raw=%d", i, clientDone[i], len(c.Responses), c.EOF, c.Err, c.Raw.Len())
		}
		vrt.Log("closeRet=%v retProblems=%v timeAdvanced=%v", closeRet, retProblems, timeAdvanced)
	}
	check = func(r *vrt.Result) []finding {
		var out []finding
		add := func(sig, format string, a ...interface{}) {
			out = append(out, finding{sig, fmt.Sprintf(format, a...)})
		}
		if r.Outcome != "ok" {
			p := r.Panic
			if i := strings.IndexByte(p, '\n'); i > 0 {
				p = p[:i]
			}
			kind := r.Outcome
			if r.Outcome == "panic" && strings.Contains(p, "WaitGroup") {
				kind = "panic_waitgroup"
			}
			add("outcome:"+kind, "execution ended with %s: %s", r.Outcome, p)
			return out
		}
		if !closeRet {
			add("close:never_returned", "Close() had not returned even after the idle timeout elapsed")
			return out
		}
		callTick, retTick := 0, 0
		for _, e := range w.Events {
			if e.Kind == "close-call" {
				callTick = e.Tick
			}
			if e.Kind == "close-ret" {
				retTick = e.Tick
			}
		}
		if len(retProblems) > 0 {
			kinds := map[string]bool{}
			for _, p := range retProblems {
				if strings.Contains(p, "still open") {
					kinds["conn_open"] = true
				} else {
					kinds["handler_running"] = true
				}
			}
			var ks []string
			for k := range kinds {
				ks = append(ks, k)
			}
			sort.Strings(ks)
			add("close_returned_early:"+strings.Join(ks, "+"), "when Close() returned: %v", retProblems)
		}
		for _, e := range w.Events {
			if e.Kind == "reqmod-start" && e.Tick > retTick {
				add("reqmod_after_close_returned", "request modifier started for conn %s after Close() returned", e.Conn)
			}
		}
		if timeAdvanced {
			add("needed_idle_timeout", "clients/Close only finished after virtual time advanced past the idle timeout")
		}
		checkClient := func(name string, c *pworld.Client, done bool, stage string) {
			if c == nil {
				return
			}
			starts := w.Find("reqmod-start", name)
			ends := w.Find("resmod-end", name)
			if !done {
				add("client_not_closed:"+stage, "client %s (%s) never saw EOF: connection left open", name, stage)
				return
			}
			if c.Err != nil {
				add("client_error:"+stage, "client %s (%s): %v", name, stage, c.Err)
			}
			if len(c.Responses) != len(starts) {
				add("response_count:"+stage, "client %s (%s): request modifier started %d times but client received %d responses", name, stage, len(starts), len(c.Responses))
				return
			}
			for k, res := range c.Responses {
				wantStatus := 200
				if sc.RTErr {
					wantStatus = 502
				}
				if !res.Complete || res.Status != wantStatus || (len(res.Body) == 0 && !sc.RTErr) {
					add("incomplete_response:"+stage, "client %s (%s): response %d incomplete (status %d, %d body bytes)", name, stage, k, res.Status, len(res.Body))
				}
				mustClose := k < len(ends) && callTick != 0 && callTick < ends[k].Tick
				if mustClose && !res.Close {
					add("not_marked_close:"+stage, "client %s (%s): Close() was entered before the response modifier returned but the response lacks Connection: close", name, stage)
				}
			}
			if !c.EOF {
				add("no_eof:"+stage, "client %s (%s): no EOF after the responses", name, stage)
			}
		}
		for i, c := range clients {
			checkClient(fmt.Sprint(i), c, clientDone[i], stageName[sc.Place[i]])
		}
		if late != nil {
			// which accepted conn is it? the last one. Served only legitimately if accepted before Close was called.
			if lateAfterShutdown {
				if n := len(w.Find("reqmod-start", "late")); n > 0 {
					add("late_conn_served", "a connection accepted after shutdown began was served (%d request modifier calls)", n)
				}
				if !lateDone {
					add("late_conn_not_closed", "a connection accepted after shutdown began was never closed")
				}
			} else {
				checkClient("late", late, lateDone, "late-before-close")
			}
		}
		return out
	}
	return
}

func scenarios(tier string) []scenario {
	var out []scenario
	perms := func(n int) [][]int {
		var res [][]int
		var rec func(cur []int, used []bool)
		rec = func(cur []int, used []bool) {
			if len(cur) == n {
				res = append(res, append([]int(nil), cur...))
				return
			}
			for i := 0; i < n; i++ {
				if !used[i] {
					used[i] = true
					rec(append(cur, i), used)
					used[i] = false
				}
			}
		}
		rec(nil, make([]bool, n))
		return res
	}
	maxN := 3
	for n := 1; n <= maxN; n++ {
		dims := make([]int, n)
		for i := range dims {
			dims[i] = len(stageName)
			if n == 3 {
				dims[i] = 6
			}
		}
		lib.Product(dims, func(idx []int) {
			// symmetric placements (sorted) suffice for identical clients, but release order then matters: keep all orders
			sorted := sort.IntsAreSorted(idx)
			if !sorted {
				return
			}
			for _, o := range perms(n) {
				lates := []string{""}
				if n == 1 {
					lates = []string{"", "racing", "after"}
				} else if n == 2 {
					lates = []string{"", "racing"}
				}
				for _, l := range lates {
					out = append(out, scenario{Place: append([]int(nil), idx...), Order: o, Late: l})
				}
			}
		})
	}
	// the round trip fails (after shutdown began for the parked ones): the response owed is the 502
	for st := 2; st <= 5; st++ {
		for _, l := range []string{"", "racing"} {
			out = append(out, scenario{Place: []int{st}, Order: []int{0}, Late: l, RTErr: true})
		}
		out = append(out, scenario{Place: []int{3, st}, Order: []int{1, 0}, RTErr: true})
	}
	// a traffic-shaped listener: what the accept loop does to the listener during the drain must not disturb the
	// exchanges in flight
	for st := 0; st <= 5; st++ {
		for _, l := range []string{"", "racing"} {
			out = append(out, scenario{Place: []int{st}, Order: []int{0}, Late: l, Shaped: true})
		}
	}
	out = append(out, scenario{Place: []int{3, 4}, Order: []int{0, 1}, Late: "racing", Shaped: true}, scenario{Place: []int{2, 5}, Order: []int{1, 0}, Late: "racing", Shaped: true})
	// zero parked connections: Close racing with a fresh connection only
	out = append(out, scenario{Late: "racing"}, scenario{Late: "after"})
	return out
}

type shardOut struct {
	Counters   map[string]int64
	Violations []lib.Violation
	Samples    []interface{}
	Incomplete string
	MinBound   int
}

func main() {
	tier := lib.Tier()
	scen := scenarios(tier)
	bound := 2
	if tier == "thorough" {
		bound = 3
	}
	if rp := os.Getenv("VERIF_REPLAY"); rp != "" {
		var doc struct {
			First struct {
				Replay struct {
					Scenario scenario
					Schedule []int
				}
			}
		}
		b, err := os.ReadFile(rp)
		if err != nil || json.Unmarshal(b, &doc) != nil {
			fmt.Fprintln(os.Stderr, "cannot read replay", rp, err)
			os.Exit(2)
		}
		body, check := run(doc.First.Replay.Scenario)
		r := vrt.Run(vrt.Config{Trace: os.Getenv("VERIF_TRACE") != "", MaxPoints: 20000}, doc.First.Replay.Schedule, body)
		for _, l := range r.Trace {
			fmt.Println("  ", l)
		}
		fmt.Println("outcome:", r.Outcome, r.Panic)
		for _, l := range r.Log {
			fmt.Println("log:", l)
		}
		fs := check(r)
		for _, f := range fs {
			fmt.Printf("VIOLATION property=C07 replay=%s\n  %s: %s\n", rp, f.Sig, f.Desc)
		}
		if len(fs) > 0 {
			os.Exit(1)
		}
		return
	}
	if i, n := lib.ShardEnv(); n > 0 {
		out := &shardOut{Counters: map[string]int64{}, MinBound: 99}
		perScenario := 20 * time.Second
		if tier == "thorough" {
			perScenario = 150 * time.Second
		}
		for si, sc := range scen {
			if si%n != i {
				continue
			}
			b := bound
			if len(sc.Place) == 3 {
				b = bound - 1
			}
			body, check := run(sc)
			seen := map[string]bool{}
			st := vrt.Explore(vrt.ExploreConfig{Bound: b, Deadline: time.Now().Add(perScenario), Config: vrt.Config{MaxPoints: 20000}}, body, func(prefix []int, r *vrt.Result) bool {
				for _, f := range check(r) {
					if !seen[f.Sig] {
						seen[f.Sig] = true
						if err := vrt.Confirm(vrt.Config{MaxPoints: 20000, MaxVTime: 3 * time.Hour}, r, body, 3); err != nil {
							fmt.Fprintln(os.Stderr, "ENGINE ERROR:", err)
							os.Exit(2)
						}
						out.Violations = append(out.Violations, lib.Violation{Sig: f.Sig, Desc: fmt.Sprintf("scenario {%s} schedule %v: %s", sc, r.ChoiceSeq(), f.Desc),
							Replay: map[string]interface{}{"scenario": sc, "schedule": r.ChoiceSeq(), "log": r.Log}})
					}
				}
				return true
			})
			if st.EngineError != "" {
				fmt.Fprintln(os.Stderr, "ENGINE ERROR:", st.EngineError)
				os.Exit(2)
			}
			out.Counters["scenarios"]++
			out.Counters["executions"] += int64(st.Execs)
			out.Counters["points"] += st.Points
			out.Counters["distinct_outcomes"] += int64(st.DistinctLogs)
			out.Counters["horizon_hits"] += int64(st.HorizonHits)
			if st.DistinctLogs > 1 {
				out.Counters["scenarios_with_multiple_outcomes"]++
			}
			if int64(st.MaxPoints) > out.Counters["max_points"] {
				out.Counters["max_points"] = int64(st.MaxPoints)
			}
			if !st.Exhaustive {
				out.Incomplete = fmt.Sprintf("scenario {%s}: cap hit, bound completed %d", sc, st.BoundCompleted)
			}
			if st.BoundCompleted < out.MinBound {
				out.MinBound = st.BoundCompleted
			}
			if len(out.Samples) < 2 {
				out.Samples = append(out.Samples, map[string]interface{}{"scenario": sc.String(), "executions": st.Execs, "distinct_outcomes": st.DistinctLogs, "bound": b})
			}
		}
		b, _ := json.Marshal(out)
		os.WriteFile(os.Getenv("VERIF_SHARD_OUT"), b, 0o644)
		return
	}
	rep := lib.NewReport("C07", "model_checking")
	files, errs, outs := lib.RunShards(16, lib.Root+"/.build/c07/shards")
	minBound := 99
	for i, f := range files {
		if errs[i] != nil {
			fmt.Fprintf(os.Stderr, "shard %d failed: %v\n%s\n", i, errs[i], outs[i])
			os.Exit(2)
		}
		var so shardOut
		b, _ := os.ReadFile(f)
		if err := json.Unmarshal(b, &so); err != nil {
			fmt.Fprintf(os.Stderr, "shard %d: bad output: %v\n", i, err)
			os.Exit(2)
		}
		for k, v := range so.Counters {
			if k == "max_points" {
				if v > rep.Counter(k) {
					rep.Count(k, v-rep.Counter(k))
				}
				continue
			}
			rep.Count(k, v)
		}
		for _, v := range so.Violations {
			rep.Violate(v.Sig, v.Desc, v.Replay)
		}
		for _, s := range so.Samples {
			rep.Sample(8, s)
		}
		if so.Incomplete != "" {
			rep.Incomplete = so.Incomplete
		}
		if so.MinBound < minBound {
			minBound = so.MinBound
		}
	}
	rep.Coverage["states"] = rep.Counter("distinct_outcomes")
	rep.Coverage["transitions"] = rep.Counter("points")
	rep.Coverage["traces_validated_against_impl"] = rep.Counter("executions")
	rep.Coverage["bound_completed"] = minBound
	rep.Coverage["exhaustive"] = rep.Incomplete == ""
	rep.Coverage["bounds"] = fmt.Sprintf("%d scenarios (1..%d connections x 6 progress points + 4 variants of idle/mid-head (keep-alive, pipelined partial head, client that never completes the head; 3-connection scenarios use the 6 basic points) (sorted placements) x all release orders, late connection racing/after); every schedule with <= %d deviations (preemptions, select cases, partner choices; one less for 3-connection scenarios)", len(scen), 3, bound)
	rep.Coverage["explanation"] = "each execution runs the real proxy.go (rewritten so that sync/chan/select/go/time are scheduler operations) over simnet; states = distinct observation logs summed over scenarios"
	rep.Assumptions = []string{"round trips are performed by a synchronous harness RoundTripper (http.Transport is not explored)", "simnet models TCP close/EOF/deadline semantics"}
	rep.Finish()
}
