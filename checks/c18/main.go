// C18 — traffic shaping delays or cuts a response but never alters its bytes.
//
// The real proxy serves a trafficshape.Listener over simnet under the gosim scheduler with virtual time (the
// buckets' spin-wait loops are parked by the engine until a drain tick). Shape sets (throttles, halts, close
// actions with counts, bandwidths, latency) x response sizes x Range starts x body read chunkings x
// matching / non-matching URL x one or two connections x reconfiguration timing are enumerated; every
// scenario is checked against a reference model of bytes delivered, cut position, minimum delay, count
// consumption and resource release. Invalid configurations are enumerated from a small grammar.
package main

import (
	"bufio"
	"bytes"
	"crypto/tls"
	"crypto/x509"
	"encoding/json"
	"errors"
	"fmt"
	"io"
	"net"
	"net/http"
	"net/http/httptest"
	"os"
	"sort"
	"strings"
	"time"

	"github.com/google/martian/v3/mitm"
	"github.com/google/martian/v3/trafficshape"
	"github.com/google/martian/v3/zzverif/vrt"

	"verif/checks/pworld"
	"verif/lib"
)

type throttle struct {
	Bytes string `json:"bytes"`
	BW    int64  `json:"bandwidth"`
}
type halt struct {
	Byte  int64 `json:"byte"`
	Dur   int64 `json:"duration"`
	Count int64 `json:"count"`
}
type closeAct struct {
	Byte  int64 `json:"byte"`
	Count int64 `json:"count"`
}
type shape struct {
	Regex     string     `json:"url_regex"`
	MaxBW     int64      `json:"max_global_bandwidth,omitempty"`
	Throttles []throttle `json:"throttles,omitempty"`
	Halts     []halt     `json:"halts,omitempty"`
	Closes    []closeAct `json:"close_connections,omitempty"`
}

type scenario struct {
	Name        string  `json:"name"`
	Shapes      []shape `json:"shapes"`
	N           int     `json:"n"`     // response body size
	R           int     `json:"r"`     // range start (0 = full 200)
	Chunk       int     `json:"chunk"` // body reader chunk size (0 = whole)
	Match       bool    `json:"match"`
	Conns       int     `json:"conns"` // connections, run one after the other unless Concurrent
	Conc        bool    `json:"conc,omitempty"`
	Barrier     bool    `json:"barrier,omitempty"` // concurrent connections: the origin answers only once every connection's request has arrived, so that all handlers start writing their shaped responses from the same instant
	Reconf      string  `json:"reconf,omitempty"`  // "", rejected-before, accepted-after-accept, accepted-in-flight
	Reconf2     string  `json:"reconf_cfg,omitempty"`
	Latency     int64   `json:"latency,omitempty"`
	Bound       int     `json:"bound,omitempty"`
	TBound      int     `json:"tbound,omitempty"` // thorough bound when it is not Bound+1
	MatchIdx    int     `json:"matchidx,omitempty"`
	SeqFail     []bool  `json:"seqfail,omitempty"`      // keep-alive: SeqFail[k] = the round trip of request k fails (the proxy answers 502 itself)
	Seq         []bool  `json:"seq,omitempty"`          // keep-alive: the requests one client connection sends in turn (true = the URL the shape names, false = another URL)
	ReqClose    bool    `json:"reqclose,omitempty"`     // the request carries "Connection: close" (the proxy then marks the response accordingly, after the modifiers)
	Teardown    string  `json:"teardown,omitempty"`     // "wrapped-first": after the exchange the wrapped (inner) connection is closed before the shaped one, so closing the shaped connection reports an error
	Via         string  `json:"via,omitempty"`          // "": the request is sent to the proxy directly; "connect-plain": through a CONNECT tunnel the proxy intercepts, in clear; "mitm-tls": through an intercepted CONNECT tunnel, inside TLS (the proxy wraps the decrypted side in a second shaped connection)
	Chunked     bool    `json:"chunked,omitempty"`      // the response has no Content-Length (chunked framing on the wire): offsets count the bytes after the head as they are on the wire
	DefUp       int64   `json:"defup,omitempty"`        // default.bandwidth.up of the (valid) configuration
	DefDown     int64   `json:"defdown,omitempty"`      // default.bandwidth.down
	Abort       int     `json:"abort,omitempty"`        // the client goes away after this many body bytes (+1: 1 = right after the head)
	PClose      bool    `json:"pclose,omitempty"`       // Proxy.Close() is called while the shaped response is in flight
	PCloseEarly bool    `json:"pclose_early,omitempty"` // ... while the round trip is still under way (the proxy then marks the response "Connection: close" itself)
	Up          int     `json:"up,omitempty"`           // tunnel scenarios: bytes the client sends to the tunnel's target
	Cls         string  `json:"cls,omitempty"`          // round 7: the scenario class the signatures of this scenario carry instead of the size / range-start class
	HeadPad     int     `json:"headpad,omitempty"`      // the response head carries an X-Pad header of this many bytes (heads larger than the proxy's 4096-byte write buffer reach the shaped connection in several writes) // index of the shape whose url_regex matches the requested URL (the others name other URLs)
}

type finding struct{ Sig, Desc string }

const matchURL = "http://example/example"
const otherURL = "http://other/else"

func pattern(n int) []byte {
	b := make([]byte, n)
	for i := range b {
		b[i] = 'A' + byte(i%53%26) + byte((i/53)%2)*32
	}
	return b
}

// stallReader delivers the first half of data, then waits for the gate, then the rest (a slow configuration upload).
type stallReader struct {
	data []byte
	gate *vrt.Gate
	off  int
}

func (r *stallReader) Read(p []byte) (int, error) {
	half := len(r.data) / 2
	if r.off == half {
		r.gate.Wait()
	}
	if r.off >= len(r.data) {
		return 0, io.EOF
	}
	end := len(r.data)
	if r.off < half {
		end = half
	}
	n := copy(p, r.data[r.off:end])
	r.off += n
	return n, nil
}

// cntReader counts what a client has taken off its connection.
type cntReader struct {
	r io.Reader
	n int
}

func (c *cntReader) Read(p []byte) (int, error) {
	n, err := c.r.Read(p)
	c.n += n
	return n, err
}

// bufConn lets a TLS client read through the bufio.Reader that consumed the CONNECT response.
type bufConn struct {
	net.Conn
	r *bufio.Reader
}

func (b *bufConn) Read(p []byte) (int, error) { return b.r.Read(p) }

var (
	ca      *x509.Certificate
	mitmCfg *mitm.Config
)

func initMITM() {
	if mitmCfg != nil {
		return
	}
	c, priv, err := mitm.NewAuthority("verif", "verif", 24*time.Hour)
	if err != nil {
		panic(err)
	}
	ca = c
	if mitmCfg, err = mitm.NewConfig(c, priv); err != nil {
		panic(err)
	}
}

type chunkReader struct {
	b     []byte
	chunk int
}

func (c *chunkReader) Read(p []byte) (int, error) {
	if len(c.b) == 0 {
		return 0, io.EOF
	}
	n := len(c.b)
	if c.chunk > 0 && n > c.chunk {
		n = c.chunk
	}
	if n > len(p) {
		n = len(p)
	}
	copy(p, c.b[:n])
	c.b = c.b[n:]
	return n, nil
}

func configJSON(shapes []shape, latency int64) string {
	m := map[string]interface{}{"trafficshape": map[string]interface{}{"shapes": shapes}}
	if latency > 0 {
		m["trafficshape"].(map[string]interface{})["default"] = map[string]interface{}{"latency": latency}
	}
	b, _ := json.Marshal(m)
	return string(b)
}

// configOf renders the (valid) configuration of a scenario, default section included.
func configOf(sc scenario) string {
	if sc.DefUp == 0 && sc.DefDown == 0 {
		return configJSON(sc.Shapes, sc.Latency)
	}
	def := map[string]interface{}{"bandwidth": map[string]int64{"up": sc.DefUp, "down": sc.DefDown}}
	if sc.Latency > 0 {
		def["latency"] = sc.Latency
	}
	b, _ := json.Marshal(map[string]interface{}{"trafficshape": map[string]interface{}{"shapes": sc.Shapes, "default": def}})
	return string(b)
}

type seqResp struct {
	status   int
	body     int
	prefix   bool // the body received is a prefix of what the proxy wrote
	complete bool
	err      string
	elapsed  time.Duration
}

type connObs struct {
	seq      []seqResp
	status   int
	head     http.Header
	body     []byte
	complete bool
	eof      bool
	err      string
	start    time.Duration
	end      time.Duration
	done     bool
	headLen  int // bytes of the response head as received
	wire     int // bytes received after the head, as they were on the wire (chunk framing included)
	tunnel   string
}

// expectation for one connection according to the reference model
type expect struct {
	bodyLen  int           // bytes of body delivered
	cut      bool          // connection closed by a close action
	minDelay time.Duration // sum of the halts that apply
	thrDelay time.Duration // sum over throttled intervals of (bytes/bandwidth - one drain interval)
	maxDelay time.Duration // the most the configuration explains: halts that applied (or may have, at the very end of the body) + per throttled interval bytes/bandwidth + two drain intervals + the same for the global bandwidth
}

// model evaluates the shapes for a response of n bytes starting at range start r; counts is the mutable count state.
func model(sh *shape, counts map[string]int64, n, r int) expect {
	e := expect{bodyLen: n}
	if sh == nil {
		return e
	}
	end := int64(r + n)
	type act struct {
		b    int64
		kind string
		idx  int
	}
	var acts []act
	for i, h := range sh.Halts {
		acts = append(acts, act{h.Byte, "halt", i})
	}
	for i, c := range sh.Closes {
		acts = append(acts, act{c.Byte, "close", i})
	}
	// stable by byte (halts listed before closes at equal byte, like the implementation's stable sort of its action list)
	for i := 1; i < len(acts); i++ {
		for j := i; j > 0 && acts[j].b < acts[j-1].b; j-- {
			acts[j], acts[j-1] = acts[j-1], acts[j]
		}
	}
	haltsAt := map[int64]time.Duration{} // required delay of the halts that applied, per offset
	for _, a := range acts {
		if a.b < int64(r) || a.b > end {
			continue
		}
		key := fmt.Sprintf("%s%d", a.kind, a.idx)
		if counts[key] == 0 {
			continue
		}
		if a.kind == "halt" && a.b == end {
			// a halt after the last body byte delays nothing a client can see: allowed, not required (its count is
			// left alone: scenarios do not reuse such a shape for a second response)
			e.maxDelay += time.Duration(sh.Halts[a.idx].Dur) * time.Millisecond
			continue
		}
		if counts[key] > 0 {
			counts[key]--
		}
		if a.kind == "halt" {
			d := time.Duration(sh.Halts[a.idx].Dur) * time.Millisecond
			e.minDelay += d
			e.maxDelay += d
			haltsAt[a.b] += d
			continue
		}
		e.cut = true
		e.bodyLen = int(a.b) - r
		// halts at the very offset of the close: the statement does not order the two, the pause is allowed, not required
		e.minDelay -= haltsAt[a.b]
		break
	}
	delivered := int64(r + e.bodyLen)
	// throttle bounds: bytes inside a throttled interval / bandwidth - one drain interval at least, + two at most
	for _, t := range sh.Throttles {
		var a, b int64 = 0, -1
		parts := strings.Split(t.Bytes, "-")
		fmt.Sscanf(parts[0], "%d", &a)
		if parts[1] != "" {
			fmt.Sscanf(parts[1], "%d", &b)
		}
		lo, hi := a, b
		if lo < int64(r) {
			lo = int64(r)
		}
		if hi < 0 || hi > delivered {
			hi = delivered
		}
		if hi > lo && t.BW > 0 {
			secs := float64(hi-lo)/float64(t.BW) - 1
			if secs > 0 {
				e.thrDelay += time.Duration(secs * float64(time.Second))
			}
			e.maxDelay += time.Duration((float64(hi-lo)/float64(t.BW) + 2) * float64(time.Second))
		}
	}
	if sh.MaxBW > 0 {
		e.maxDelay += time.Duration((float64(delivered-int64(r))/float64(sh.MaxBW) + 2) * float64(time.Second))
	}
	return e
}

func run(sc scenario) (body func(), check func(r *vrt.Result) []finding) {
	if sc.Name == "tunnel" {
		return runTunnel(sc)
	}
	if sc.Via != "" {
		initMITM()
	}
	var obs []*connObs
	var cfgStatus, reconfStatus int
	var bucketsBefore, bucketsAfterCfg, bucketsAfterClose int
	countBuckets := func() int {
		n := 0
		for _, t := range vrt.Snapshot() {
			if !t.Done && strings.Contains(t.Label, "trafficshape.NewBucket") {
				n++
			}
		}
		return n
	}
	body = func() {
		obs = nil
		w := pworld.NewWorld()
		if sc.Via != "" {
			w.Proxy.SetMITM(mitmCfg)
		}
		var tsl *trafficshape.Listener
		w.Wrap = func(l net.Listener) net.Listener {
			tsl = trafficshape.NewListener(l)
			return tsl
		}
		full := pattern(sc.R + sc.N)
		arrived := 0
		reqNo := map[string]int{}
		w.Respond = func(req *http.Request) (*http.Response, error) {
			k := reqNo[req.Header.Get("X-Conn")]
			reqNo[req.Header.Get("X-Conn")]++
			if k < len(sc.SeqFail) && sc.SeqFail[k] {
				return nil, errors.New("dial tcp 192.0.2.1:80: connect: connection refused")
			}
			if sc.Barrier {
				arrived++
				vrt.Bump()
				vrt.WaitUntil("all-requests-arrived", func() bool { return arrived >= sc.Conns })
			}
			res := &http.Response{StatusCode: 200, Proto: "HTTP/1.1", ProtoMajor: 1, ProtoMinor: 1, Header: http.Header{"Content-Type": {"application/octet-stream"}}, Request: req}
			if sc.HeadPad > 0 {
				res.Header.Set("X-Pad", strings.Repeat("p", sc.HeadPad))
			}
			res.Body = io.NopCloser(&chunkReader{b: full[sc.R:], chunk: sc.Chunk})
			res.ContentLength = int64(sc.N)
			if sc.Chunked {
				res.ContentLength = -1
				res.TransferEncoding = []string{"chunked"}
			}
			if sc.R > 0 {
				res.StatusCode = 206
				res.Header.Set("Content-Range", fmt.Sprintf("bytes %d-%d/%d", sc.R, sc.R+sc.N-1, sc.R+sc.N))
			}
			return res, nil
		}
		w.Start()
		vrt.WaitQuiescent()
		bucketsBefore = countBuckets()
		h := trafficshape.NewHandler(tsl)
		post := func(js string) int {
			rec := httptest.NewRecorder()
			req := httptest.NewRequest("POST", "http://martian.proxy/shape-traffic", strings.NewReader(js))
			h.ServeHTTP(rec, req)
			return rec.Code
		}
		cfgStatus = post(configOf(sc))
		if sc.Reconf == "rejected-before" {
			reconfStatus = post(sc.Reconf2)
		}
		// a configuration applies to connections accepted strictly later (timestamps are compared with Before):
		// let a little virtual time pass, as it always does in reality
		vrt.Sleep(10 * time.Millisecond)
		bucketsAfterCfg = countBuckets()
		// the request as the client writes it: absolute-form to the proxy, origin-form inside a tunnel
		reqFor := func(match bool, i int, extra string) string {
			host, path := "example", "/example"
			if !match {
				host, path = "other", "/else"
			}
			tgt := "http://" + host + path
			if sc.Via != "" {
				tgt = path
			}
			return "GET " + tgt + " HTTP/1.1\r\nHost: " + host + "\r\nX-Conn: " + fmt.Sprint(i) + "\r\n" + extra + "\r\n"
		}
		client := func(i int, gate *vrt.Gate) {
			o := &connObs{}
			obs = append(obs, o)
			defer func() { o.done = true; vrt.Bump() }()
			cl, err := w.Dial(fmt.Sprint("c", i))
			if err != nil {
				o.err = err.Error()
				return
			}
			defer cl.C.Close()
			var rw io.Writer = cl.C
			cr := &cntReader{r: cl.C}
			br := bufio.NewReader(cr)
			consumed := func() int { return cr.n - br.Buffered() }
			if gate != nil {
				gate.Wait()
			}
			if sc.Via != "" {
				fmt.Fprintf(rw, "CONNECT example:443 HTTP/1.1\r\nHost: example:443\r\nX-Conn: %d\r\n\r\n", i)
				res, err := http.ReadResponse(br, &http.Request{Method: "CONNECT"})
				if err != nil {
					o.tunnel = "connect: " + err.Error()
					return
				}
				if res.StatusCode != 200 {
					o.tunnel = fmt.Sprint("connect: status ", res.StatusCode)
					return
				}
				if sc.Via == "mitm-tls" {
					roots := x509.NewCertPool()
					roots.AddCert(ca)
					tc := tls.Client(&bufConn{Conn: cl.C, r: br}, &tls.Config{ServerName: "example", RootCAs: roots})
					if err := tc.Handshake(); err != nil {
						o.tunnel = "tls: " + err.Error()
						return
					}
					rw = tc
					cr = &cntReader{r: tc}
					br = bufio.NewReader(cr)
				}
			}
			if len(sc.Seq) > 0 {
				o.start = vrt.Now()
				for k, match := range sc.Seq {
					if k == 1 && sc.Reconf == "accepted-between-requests" {
						// a new configuration is accepted while this connection is idle between two requests
						reconfStatus = post(sc.Reconf2)
						vrt.Sleep(10 * time.Millisecond)
					}
					t0 := vrt.Now()
					io.WriteString(rw, reqFor(match, i, ""))
					res, err := http.ReadResponse(br, &http.Request{Method: "GET"})
					if err != nil {
						o.seq = append(o.seq, seqResp{err: "head: " + err.Error(), elapsed: vrt.Now() - t0})
						break
					}
					b, err := io.ReadAll(res.Body)
					sr := seqResp{status: res.StatusCode, body: len(b), prefix: bytes.HasPrefix(full[sc.R:], b), complete: err == nil, elapsed: vrt.Now() - t0}
					if err != nil {
						sr.err = err.Error()
					}
					o.seq = append(o.seq, sr)
					if err != nil {
						break
					}
				}
				o.end = vrt.Now()
				return
			}
			o.start = vrt.Now()
			extra := ""
			if sc.ReqClose {
				extra = "Connection: close\r\n"
			}
			if sc.R > 0 {
				extra += fmt.Sprintf("Range: bytes=%d-\r\n", sc.R)
			}
			io.WriteString(rw, reqFor(sc.Match, i, extra))
			c0 := consumed()
			res, err := http.ReadResponse(br, &http.Request{Method: "GET"})
			if err != nil {
				o.err = "head: " + err.Error()
				o.end = vrt.Now()
				return
			}
			o.status, o.head = res.StatusCode, res.Header
			o.headLen = consumed() - c0
			if sc.Abort > 0 {
				// the client loses interest: it reads a part of the body and goes away
				io.ReadFull(res.Body, make([]byte, sc.Abort-1))
				o.end = vrt.Now()
				return
			}
			b, err := io.ReadAll(res.Body)
			o.body = b
			o.wire = consumed() - c0 - o.headLen
			o.complete = err == nil
			if err != nil && err != io.ErrUnexpectedEOF {
				o.err = "body: " + err.Error()
			}
			o.end = vrt.Now()
			if err != nil {
				o.eof = true
			}
			if sc.Teardown == "wrapped-first" {
				// somebody (a hijacker, the TLS layer on top, the OS) tears the inner connection down first: the
				// proxy's handler then fails to read and closes the shaped connection, whose own close now
				// reports an error - the resources created for the shaped connection must be released all the same
				if i < len(w.L.Accepted) {
					w.L.Accepted[i].Close()
				}
			}
		}
		var ths []*vrt.Thread
		switch {
		case sc.Reconf == "accepted-during-upload":
			// the second configuration's POST body stalls half way; connection 0 is accepted during the stall, then the
			// upload completes and is accepted: connection 0 was accepted BEFORE the new configuration was and must
			// not get its actions; connection 1 (accepted afterwards) must
			up := &vrt.Gate{}
			ths = append(ths, vrt.GoNamed("reconf", func() {
				rec := httptest.NewRecorder()
				req := httptest.NewRequest("POST", "http://martian.proxy/shape-traffic", &stallReader{data: []byte(sc.Reconf2), gate: up})
				h.ServeHTTP(rec, req)
				reconfStatus = rec.Code
			}))
			vrt.WaitQuiescent()
			vrt.Sleep(10 * time.Millisecond)
			g := &vrt.Gate{}
			ths = append(ths, vrt.GoNamed("client0", func() { client(0, g) }))
			vrt.WaitQuiescent()
			vrt.Sleep(10 * time.Millisecond)
			up.Open()
			vrt.WaitQuiescent()
			vrt.Sleep(10 * time.Millisecond)
			g.Open()
			for dl := vrt.Now() + 30*time.Minute; !allDone(obs) && vrt.Now() < dl; {
				vrt.Sleep(time.Second)
			}
			ths = append(ths, vrt.GoNamed("client1", func() { client(1, nil) }))
		case sc.Reconf == "rejected-after-accept" || sc.Reconf == "rejected-in-flight":
			// the invalid configuration arrives when the connection is already accepted (before its request, or while its
			// shaped response is in flight): the connection goes on being shaped by the configuration it was accepted under
			g := &vrt.Gate{}
			ths = append(ths, vrt.GoNamed("client0", func() { client(0, g) }))
			vrt.WaitQuiescent()
			if sc.Reconf == "rejected-after-accept" {
				reconfStatus = post(sc.Reconf2)
				vrt.Sleep(10 * time.Millisecond)
				g.Open()
			} else {
				g.Open()
				ths = append(ths, vrt.GoNamed("reconf", func() { reconfStatus = post(sc.Reconf2) }))
			}
		case sc.Reconf == "accepted-after-accept" || sc.Reconf == "accepted-in-flight":
			// connection 0 is accepted under the first configuration; the second configuration is posted
			// after the accept (before the request is sent) or while the shaped response is in flight
			g := &vrt.Gate{}
			ths = append(ths, vrt.GoNamed("client0", func() { client(0, g) }))
			vrt.WaitQuiescent()
			if sc.Reconf == "accepted-after-accept" {
				reconfStatus = post(sc.Reconf2)
				vrt.Sleep(10 * time.Millisecond)
				g.Open()
			} else {
				g.Open()
				ths = append(ths, vrt.GoNamed("reconf", func() { reconfStatus = post(sc.Reconf2) }))
			}
			for dl := vrt.Now() + 30*time.Minute; !allDone(obs) && vrt.Now() < dl; {
				vrt.Sleep(time.Second)
			}
			// a connection accepted afterwards gets the new configuration
			ths = append(ths, vrt.GoNamed("client1", func() { client(1, nil) }))
		case sc.PClose:
			// the proxy is shut down while the (delayed) response is on its way - or, PCloseEarly, while the origin is still
			// working on it: the exchange in flight finishes (in the second case the proxy announces the close in the head)
			var g *vrt.Gate
			if sc.PCloseEarly {
				g = w.Gate("rt:0")
			}
			ths = append(ths, vrt.GoNamed("client0", func() { client(0, nil) }))
			vrt.WaitQuiescent()
			ths = append(ths, vrt.GoNamed("pclose", func() { w.Proxy.Close() }))
			if g != nil {
				vrt.WaitQuiescent()
				g.Open()
			}
		case sc.Conc:
			for i := 0; i < sc.Conns; i++ {
				i := i
				ths = append(ths, vrt.GoNamed(fmt.Sprint("client", i), func() { client(i, nil) }))
			}
		default:
			for i := 0; i < sc.Conns; i++ {
				i := i
				t := vrt.GoNamed(fmt.Sprint("client", i), func() { client(i, nil) })
				ths = append(ths, t)
				for !t.Done() {
					vrt.WaitQuiescent()
					if !t.Done() {
						vrt.Sleep(time.Second)
					}
				}
			}
		}
		deadline := vrt.Now() + 30*time.Minute
		for !allDone(obs) || len(obs) < len(ths)-boolInt(sc.Reconf == "accepted-in-flight" || sc.Reconf == "accepted-during-upload" || sc.Reconf == "rejected-in-flight" || sc.PClose) {
			vrt.WaitQuiescent()
			if vrt.Now() > deadline {
				break
			}
			vrt.Sleep(time.Second)
		}
		vrt.WaitQuiescent()
		settle := sc.Abort > 0
		for _, sh := range sc.Shapes {
			for _, h := range sh.Halts {
				settle = settle || h.Byte == int64(sc.R+sc.N)
			}
		}
		if settle {
			// the proxy may still be pausing - in the response the client walked away from, in a halt placed right after the
			// last byte: give it (virtual) time to come back and close the connection
			vrt.Sleep(5 * time.Minute)
			vrt.WaitQuiescent()
		}
		bucketsAfterClose = countBuckets()
		for i, o := range obs {
			vrt.Log("conn %d: status=%d body=%d complete=%v err=%q elapsed=%v", i, o.status, len(o.body), o.complete, o.err, o.end-o.start)
		}
		vrt.Log("cfg=%d reconf=%d buckets=%d/%d/%d", cfgStatus, reconfStatus, bucketsBefore, bucketsAfterCfg, bucketsAfterClose)
	}
	check = func(r *vrt.Result) []finding {
		var out []finding
		add := func(sig, format string, a ...interface{}) { out = append(out, finding{sig, fmt.Sprintf(format, a...)}) }
		// slack of the bounds from above: one drain interval (the engine lets virtual time advance to the next timer when
		// a thread polls twice without anybody writing in between; with the nested shaped connections of an intercepted
		// TLS tunnel that happens once per layer)
		slack := time.Second
		if sc.Via == "mitm-tls" {
			slack = 2 * time.Second
		}
		if r.Outcome != "ok" {
			add("outcome:"+r.Outcome+":"+sc.Reconf, "execution ended with %s: %s", r.Outcome, firstLine(r.Panic))
			return out
		}
		if cfgStatus != 200 {
			add("valid_config_rejected", "configuration %s was answered %d", configOf(sc), cfgStatus)
			return out
		}
		full := pattern(sc.R + sc.N)
		var active *shape
		if sc.Match && len(sc.Shapes) > 0 {
			active = &sc.Shapes[sc.MatchIdx]
		}
		counts := map[string]int64{}
		if active != nil {
			for i, h := range active.Halts {
				counts[fmt.Sprintf("halt%d", i)] = h.Count
			}
			for i, c := range active.Closes {
				counts[fmt.Sprintf("close%d", i)] = c.Count
			}
		}
		cls := fmt.Sprintf("n=%s:r=%s", sizeClass(sc.N), map[bool]string{true: "0", false: ">0"}[sc.R == 0])
		if sc.Cls != "" {
			cls = sc.Cls
		}
		if strings.HasPrefix(sc.Reconf, "rejected") && reconfStatus != 400 {
			add("invalid_config_accepted", "invalid configuration %s was answered %d", sc.Reconf2, reconfStatus)
		}
		if strings.HasPrefix(sc.Reconf, "accepted") && reconfStatus != 200 {
			add("valid_reconfig_rejected", "reconfiguration %s was answered %d", sc.Reconf2, reconfStatus)
		}
		if len(sc.Seq) > 0 {
			// keep-alive sequences: every response is judged on its own (a response to another URL is never shaped,
			// whatever the previous response on the connection left behind; counts carry over between responses)
			for i, o := range obs {
				if !o.done {
					add("client_stuck:keepalive", "connection %d never finished", i)
					continue
				}
				for k, match := range sc.Seq {
					tag := fmt.Sprintf("keepalive:resp%d_%s", k+1, map[bool]string{true: "matching", false: "other_url"}[match])
					if k >= len(o.seq) {
						add(tag+":missing", "connection %d: no response %d (the connection was closed after response %d although no close action applied)", i, k+1, k)
						break
					}
					r := o.seq[k]
					if k < len(sc.SeqFail) && sc.SeqFail[k] {
						// the round trip failed: the proxy answers 502 itself; the client receives that response whole,
						// whatever the previous response on the connection left behind
						if r.status != 502 || !r.complete {
							add(fmt.Sprintf("keepalive:resp%d_upstream_failure:error_response_lost", k+1), "connection %d response %d: the round trip failed, the client got status %d complete=%v err=%q instead of the proxy's 502", i, k+1, r.status, r.complete, r.err)
							break
						}
						if r.elapsed > 2*time.Duration(sc.Latency)*time.Millisecond+slack && !(k == 0 && match && active != nil) {
							add(fmt.Sprintf("keepalive:resp%d_upstream_failure:delayed", k+1), "connection %d response %d (the proxy's own 502) took %v", i, k+1, r.elapsed)
						}
						continue
					}
					var e expect
					if match && active != nil {
						e = model(active, counts, sc.N, sc.R)
					} else {
						e = expect{bodyLen: sc.N}
					}
					if !r.prefix {
						add(tag+":bytes_altered", "connection %d response %d: body is not a prefix of what the proxy wrote", i, k+1)
					}
					if r.body != e.bodyLen {
						add(tag+":body_length", "connection %d response %d: received %d body bytes, the model says %d (cut=%v, err=%q)", i, k+1, r.body, e.bodyLen, e.cut, r.err)
					}
					if r.elapsed < e.minDelay {
						add(tag+":too_fast", "connection %d response %d took %v, configured delays add up to at least %v", i, k+1, r.elapsed, e.minDelay)
					}
					// (the latency is slept once per direction when the connection starts: before its first read and before its first write)
					if !(match && active != nil) && r.elapsed > 2*time.Duration(sc.Latency)*time.Millisecond+slack {
						add(tag+":delayed", "connection %d response %d (URL matches no shape) took %v", i, k+1, r.elapsed)
					}
					if k > 0 && sc.Latency > 0 && r.body == e.bodyLen && (!(match && active != nil) || len(active.Throttles) == 0 && active.MaxBW == 0) && r.elapsed > e.maxDelay+slack {
						add(tag+":latency_repeated", "connection %d response %d took %v: the connection's initial latency (%d ms) was slept again for a later response", i, k+1, r.elapsed, sc.Latency)
					}
					// (a later response on a connection inherits the bandwidth the previous one ended with - the statement is
					// silent about that - so only shapes without throttles and bandwidths are judged from above here)
					if match && active != nil && len(active.Throttles) == 0 && active.MaxBW == 0 && r.body == e.bodyLen && r.elapsed > 2*time.Duration(sc.Latency)*time.Millisecond+e.maxDelay+slack {
						add(tag+":delay_exceeds_configuration", "connection %d response %d took %v of virtual time; the halts that apply explain at most %v", i, k+1, r.elapsed, e.maxDelay)
					}
					if e.cut {
						if k+1 < len(o.seq) {
							add(tag+":not_closed_after_cut", "connection %d: a further response arrived after the close action of response %d", i, k+1)
						}
						break
					}
				}
			}
			if bucketsAfterClose > bucketsAfterCfg && !strings.HasPrefix(sc.Reconf, "accepted") {
				add("buckets_leaked_after_close"+map[bool]string{true: ":" + sc.Via}[sc.Via != ""], "%d bucket drain threads created for connections are still alive after the connections were closed", bucketsAfterClose-bucketsAfterCfg)
			}
			return out
		}
		var cuts, wantCuts int
		for i, o := range obs {
			if !o.done {
				add("client_stuck:"+sc.Reconf, "connection %d never finished (virtual 30 min)", i)
				continue
			}
			var e expect
			latMs := sc.Latency
			switch {
			case strings.HasPrefix(sc.Reconf, "accepted") && i == 0:
				// accepted before the new configuration: the new actions must not apply; the old ones may or may not
				// (the statement only says the new configuration applies to connections accepted afterwards)
				var newShape shape
				var cr struct {
					Trafficshape struct{ Shapes []shape }
				}
				json.Unmarshal([]byte(sc.Reconf2), &cr)
				if len(cr.Trafficshape.Shapes) > 0 {
					newShape = cr.Trafficshape.Shapes[0]
				}
				en := model(&newShape, map[string]int64{"close0": -1, "halt0": -1}, sc.N, sc.R)
				eo := model(active, copyCounts(counts), sc.N, sc.R)
				if !bytes.HasPrefix(full[sc.R:], o.body) {
					add("bytes_altered:"+cls, "connection %d: body is not a prefix of what the proxy wrote", i)
				}
				if en.cut && len(o.body) == en.bodyLen && !(eo.cut && eo.bodyLen == en.bodyLen) && en.bodyLen != sc.N {
					add("new_config_applied_to_old_connection:"+sc.Reconf, "connection accepted before the reconfiguration was cut at %d body bytes, the new configuration's close offset", len(o.body))
				}
				if len(o.body) != sc.N && !(eo.cut && len(o.body) == eo.bodyLen) && !(en.cut && len(o.body) == en.bodyLen) {
					add("old_connection_body_wrong:"+sc.Reconf, "connection accepted before the reconfiguration received %d body bytes (full %d, old cut %v@%d)", len(o.body), sc.N, eo.cut, eo.bodyLen)
				}
				// neither do the halts, throttles and the latency of the new configuration (the old ones may)
				oldMax := eo.maxDelay
				if active != nil {
					// (the old close action may have been dropped while the old throttles went on to the end of the body)
					uncut := *active
					uncut.Closes = nil
					if m := model(&uncut, copyCounts(counts), sc.N, sc.R).maxDelay; m > oldMax {
						oldMax = m
					}
				}
				if el := o.end - o.start; el > 2*time.Duration(sc.Latency)*time.Millisecond+oldMax+time.Second {
					add("new_config_delayed_old_connection:"+sc.Reconf, "connection accepted before the reconfiguration took %v of virtual time; the configuration it was accepted under explains at most %v", el, 2*time.Duration(sc.Latency)*time.Millisecond+oldMax+time.Second)
				}
				continue
			case strings.HasPrefix(sc.Reconf, "accepted") && i == 1:
				var cr struct {
					Trafficshape struct {
						Shapes  []shape
						Default struct{ Latency int64 }
					}
				}
				json.Unmarshal([]byte(sc.Reconf2), &cr)
				latMs = cr.Trafficshape.Default.Latency
				var ns *shape
				for k := range cr.Trafficshape.Shapes {
					if cr.Trafficshape.Shapes[k].Regex == matchURL {
						ns = &cr.Trafficshape.Shapes[k]
					}
				}
				nc := map[string]int64{}
				if ns != nil {
					for k, h := range ns.Halts {
						nc[fmt.Sprintf("halt%d", k)] = h.Count
					}
					for k, c := range ns.Closes {
						nc[fmt.Sprintf("close%d", k)] = c.Count
					}
				}
				e = model(ns, nc, sc.N, sc.R) // (no shape for the URL any more: the response is not shaped at all)
				if ns == nil && o.done && o.end-o.start > 2*time.Duration(latMs)*time.Millisecond+time.Second {
					add("removed_shape_still_applied:delay", "connection accepted after a reconfiguration without a shape for its URL took %v", o.end-o.start)
				}
			case sc.Conc:
				// count consumption order is schedule dependent: judge the aggregate below, per connection accept either outcome
				e1 := model(active, copyCounts(counts), sc.N, sc.R)
				if len(o.body) == e1.bodyLen && e1.cut {
					cuts++
				}
				if !bytes.HasPrefix(full[sc.R:], o.body) {
					add("bytes_altered:"+cls, "connection %d: body is not a prefix of what the proxy wrote", i)
				}
				if len(o.body) != sc.N && !(e1.cut && len(o.body) == e1.bodyLen) {
					add("cut_position_wrong:"+cls, "connection %d received %d body bytes (full %d, cut expected at %d)", i, len(o.body), sc.N, e1.bodyLen)
				}
				continue
			default:
				e = model(active, counts, sc.N, sc.R)
			}
			wantStatus := 200
			if sc.R > 0 {
				wantStatus = 206
			}
			if o.tunnel != "" {
				add("tunnel_failed:"+sc.Via, "connection %d: %s", i, o.tunnel)
				continue
			}
			if o.status != wantStatus {
				add("head_lost:"+cls, "connection %d: status %d (err %q), want %d", i, o.status, o.err, wantStatus)
				continue
			}
			if sc.Abort > 0 {
				continue // the client went away: only the release of the connection's resources is judged (below)
			}
			if !bytes.HasPrefix(full[sc.R:], o.body) {
				add("bytes_altered:"+cls, "connection %d: body is not a prefix of what the proxy wrote", i)
			}
			if sc.Chunked {
				// offsets count the bytes after the head as they are on the wire (chunk framing included): a close action
				// inside the body leaves exactly k-r of them; without one the body arrives complete
				switch {
				case e.cut && e.bodyLen < sc.N:
					if o.wire != e.bodyLen || o.complete {
						add("chunked:cut_position_wrong:"+cls, "connection %d: %d bytes arrived after the head (complete=%v), the close action at %d of a response starting at %d leaves exactly %d", i, o.wire, o.complete, sc.R+e.bodyLen, sc.R, e.bodyLen)
					}
				case !e.cut:
					if len(o.body) != sc.N || !o.complete {
						add("chunked:body_truncated:"+cls, "connection %d: received %d of %d body bytes (complete=%v, err %q) although no close action applies", i, len(o.body), sc.N, o.complete, o.err)
					}
				}
			} else if o.wire != len(o.body) {
				add("bytes_altered:"+cls, "connection %d: %d bytes arrived after the head for a body of %d", i, o.wire, len(o.body))
			}
			if sc.Chunked {
				el := o.end - o.start
				if (e.cut && e.bodyLen < sc.N && o.wire == e.bodyLen || !e.cut && o.complete) && el < e.minDelay {
					add("halt_delay_too_short:"+cls, "connection %d: response took %v of virtual time, the halts that applied require at least %v", i, el, e.minDelay)
				}
				continue
			}
			if len(o.body) != e.bodyLen {
				kind := "cut_position_wrong"
				if e.cut && len(o.body) == sc.N {
					kind = "close_action_skipped"
				} else if !e.cut {
					kind = "body_truncated"
				}
				add(kind+":"+cls, "connection %d: received %d body bytes, the model says %d (cut=%v) for shapes %s range start %d size %d", i, len(o.body), e.bodyLen, e.cut, configJSON(sc.Shapes, 0), sc.R, sc.N)
			}
			if e.cut && o.complete && e.bodyLen < sc.N && len(o.body) == e.bodyLen {
				add("cut_without_close:"+cls, "connection %d: body cut but the client saw a complete response", i)
			}
			el := o.end - o.start
			// halts are sequential sleeps and add up; a throttle bounds the time its bytes need (time spent in a halt
			// counts towards the drain intervals, so the two bounds are separate, not summed)
			lat := time.Duration(latMs) * time.Millisecond
			if len(o.body) == e.bodyLen && el < e.minDelay+lat {
				add("halt_delay_too_short:"+cls, "connection %d: response took %v of virtual time, the halts that applied (plus latency) require at least %v", i, el, e.minDelay+lat)
			}
			if len(o.body) == e.bodyLen && el < e.thrDelay+lat {
				add("throttle_delay_too_short:"+cls, "connection %d: response took %v of virtual time, the throttles require at least %v", i, el, e.thrDelay+lat)
			}
			if strings.HasPrefix(sc.Reconf, "rejected") && len(o.body) == e.bodyLen && el > lat+e.minDelay+e.thrDelay+time.Second {
				add("rejected_config_took_effect:delay", "connection %d after a rejected configuration took %v of virtual time; the active configuration explains at most %v", i, el, lat+e.minDelay+e.thrDelay+time.Second)
			}
			if active == nil && sc.DefUp == 0 && sc.DefDown == 0 && el > 2*time.Duration(sc.Latency)*time.Millisecond+slack {
				add("non_matching_delayed", "connection %d to a non-matching URL took %v", i, el)
			}
			// nothing but the configuration delays a response: actions whose count is used up, that lie outside the bytes of
			// this response or behind a close action, and throttles outside their interval, add nothing (the latency is
			// slept once per direction)
			if active != nil && sc.DefUp == 0 && sc.DefDown == 0 && len(o.body) == e.bodyLen && el > 2*lat+e.maxDelay+slack {
				add("delay_exceeds_configuration:"+cls, "connection %d: response took %v of virtual time; the halts that apply (%v), the throttled intervals and the bandwidths explain at most %v", i, el, e.minDelay, 2*lat+e.maxDelay+slack)
			}
			if sc.DefUp > 0 && sc.DefUp == sc.DefDown && active == nil && len(o.body) == sc.N {
				// a finite default bandwidth: head and body of an unshaped response pass through the listener's buckets (two of them,
				// each drained once a second)
				if min := time.Duration((float64(o.headLen+sc.N)/float64(2*sc.DefUp) - 1) * float64(time.Second)); el < min {
					add("default_bandwidth_ignored", "connection %d: %d bytes took %v of virtual time under a default bandwidth of %d bytes/s", i, o.headLen+sc.N, el, sc.DefUp)
				}
			}
		}
		if sc.Conc && active != nil {
			// aggregate count check: exactly min(count, conns) connections are cut when a counted close action applies
			for _, c := range active.Closes {
				if c.Byte >= int64(sc.R) && c.Byte < int64(sc.R+sc.N) && len(active.Closes) == 1 && len(active.Halts) == 0 {
					wantCuts = int(c.Count)
					if c.Count < 0 || wantCuts > len(obs) {
						wantCuts = len(obs)
					}
					if cuts != wantCuts {
						add("count_not_honoured:concurrent", "%d of %d concurrent connections were cut, close count is %d", cuts, len(obs), c.Count)
					}
				}
			}
		}
		if sc.Conc && active != nil && len(active.Halts) == 1 && len(active.Closes) == 0 && len(active.Throttles) == 0 && active.MaxBW == 0 {
			// aggregate count check for a counted halt: exactly min(count, conns) connections pause (nothing else delays)
			hl := active.Halts[0]
			if hl.Byte >= int64(sc.R) && hl.Byte < int64(sc.R+sc.N) {
				want := int(hl.Count)
				if hl.Count < 0 || want > len(obs) {
					want = len(obs)
				}
				halted := 0
				for _, o := range obs {
					if o.end-o.start >= time.Duration(hl.Dur)*time.Millisecond {
						halted++
					}
				}
				if halted != want {
					add("count_not_honoured:concurrent_halt", "%d of %d concurrent connections paused for the halt, its count is %d", halted, len(obs), hl.Count)
				}
			}
		}
		// (configurations arriving half way - accepted, or rejected after a part of them was set up - create per-shape
		// buckets of their own: not connection resources, not judged here)
		if bucketsAfterClose > bucketsAfterCfg && (sc.Reconf == "" || sc.Reconf == "rejected-before") {
			add("buckets_leaked_after_close"+map[bool]string{true: ":" + sc.Via}[sc.Via != ""], "%d bucket drain threads created for connections are still alive after the connections were closed", bucketsAfterClose-bucketsAfterCfg)
		}
		return out
	}
	return
}

func boolInt(b bool) int {
	if b {
		return 1
	}
	return 0
}

func copyCounts(m map[string]int64) map[string]int64 {
	o := map[string]int64{}
	for k, v := range m {
		o[k] = v
	}
	return o
}

func allDone(obs []*connObs) bool {
	for _, o := range obs {
		if !o.done {
			return false
		}
	}
	return true
}

func sizeClass(n int) string {
	switch {
	case n == 0:
		return "0"
	case n < 3000:
		return "small"
	}
	return "beyond_first_flush"
}

func firstLine(s string) string {
	if i := strings.IndexByte(s, '\n'); i >= 0 {
		return s[:i]
	}
	return s
}

func scenarios(tier string) []scenario {
	var out []scenario
	sizes := []int{0, 1, 600, 4095, 4096, 4097, 10000}
	ranges := []int{0, 1, 4096}
	chunks := []int{0, 7, 4096}
	if tier == "thorough" {
		chunks = []int{0, 1, 7, 4096}
	}
	// close actions at every interesting offset
	for _, n := range sizes {
		for _, r := range ranges {
			offs := map[int64]bool{}
			for _, k := range []int64{0, 1, int64(n) - 1, int64(n), int64(n) + 1, 5000, 6000} {
				if k >= 0 {
					offs[int64(r)+k] = true
				}
			}
			offs[0] = true
			// (in ascending order: every worker process enumerates the scenarios itself and takes every 16th, so the order
			// must be the same in all of them - ranging over the map directly gave each worker its own random order, i.e.
			// some scenarios ran twice and others not at all)
			var ks []int64
			for k := range offs {
				ks = append(ks, k)
			}
			sort.Slice(ks, func(i, j int) bool { return ks[i] < ks[j] })
			for _, k := range ks {
				for _, ch := range chunks {
					if tier == "quick" && ch != 0 && (k%2 == 1) {
						continue
					}
					out = append(out, scenario{Name: "close", Shapes: []shape{{Regex: matchURL, Closes: []closeAct{{Byte: k, Count: 1}}}}, N: n, R: r, Chunk: ch, Match: true, Conns: 1})
				}
			}
		}
	}
	// halts and throttles (virtual time)
	for _, n := range []int{600, 5000} {
		for _, r := range []int{0, 100} {
			out = append(out,
				scenario{Name: "halt", Shapes: []shape{{Regex: matchURL, Halts: []halt{{Byte: int64(r) + 100, Dur: 5000, Count: 1}}}}, N: n, R: r, Match: true, Conns: 2},
				scenario{Name: "halt2", Shapes: []shape{{Regex: matchURL, Halts: []halt{{Byte: int64(r) + 100, Dur: 3000, Count: 2}, {Byte: int64(r) + 300, Dur: 2000, Count: -1}}}}, N: n, R: r, Match: true, Conns: 3},
				scenario{Name: "throttle-all", Shapes: []shape{{Regex: matchURL, Throttles: []throttle{{Bytes: "0-", BW: 100}}}}, N: n, R: r, Match: true, Conns: 1},
				scenario{Name: "throttle-interval", Shapes: []shape{{Regex: matchURL, Throttles: []throttle{{Bytes: "200-500", BW: 50}}}}, N: n, R: r, Match: true, Conns: 1},
				scenario{Name: "throttle-adjacent+close", Shapes: []shape{{Regex: matchURL, Throttles: []throttle{{Bytes: "0-300", BW: 100}, {Bytes: "300-", BW: 200}}, Closes: []closeAct{{Byte: int64(r) + 450, Count: 1}}}}, N: n, R: r, Match: true, Conns: 2},
				scenario{Name: "throttle-gap+halt", Shapes: []shape{{Regex: matchURL, MaxBW: 1000, Throttles: []throttle{{Bytes: "0-100", BW: 50}, {Bytes: "400-", BW: 100}}, Halts: []halt{{Byte: int64(r) + 200, Dur: 1500, Count: 1}}}}, N: n, R: r, Match: true, Conns: 1},
				scenario{Name: "non-matching", Shapes: []shape{{Regex: matchURL, Throttles: []throttle{{Bytes: "0-", BW: 10}}, Halts: []halt{{Byte: 10, Dur: 9000, Count: -1}}, Closes: []closeAct{{Byte: 100, Count: -1}}}}, N: n, R: r, Match: false, Conns: 1},
				scenario{Name: "latency", Shapes: []shape{{Regex: matchURL, Closes: []closeAct{{Byte: int64(r) + 50, Count: -1}}}}, N: n, R: r, Match: true, Conns: 2, Latency: 700},
			)
		}
	}
	// several connections sharing a finite per-URL global bandwidth: delayed, never losing bytes
	for _, n := range []int{300, 700, 2500} {
		for _, bw := range []int64{1000, 250} {
			out = append(out,
				scenario{Name: "global-bw-seq", Shapes: []shape{{Regex: matchURL, MaxBW: bw}}, N: n, Match: true, Conns: 3},
				scenario{Name: "global-bw-conc", Shapes: []shape{{Regex: matchURL, MaxBW: bw}}, N: n, Match: true, Conns: 2, Conc: true, Bound: 1},
				scenario{Name: "global-bw-throttle", Shapes: []shape{{Regex: matchURL, MaxBW: bw, Throttles: []throttle{{Bytes: "100-", BW: 400}}}}, N: n, Match: true, Conns: 2},
			)
		}
	}
	// several shapes with disjoint URL patterns: only the one naming the requested URL applies, wherever it stands
	for _, n := range []int{600, 5000} {
		other1 := shape{Regex: "http://elsewhere/.*", Closes: []closeAct{{Byte: 10, Count: -1}}, Throttles: []throttle{{Bytes: "0-", BW: 10}}, Halts: []halt{{Byte: 5, Dur: 9000, Count: -1}}}
		other2 := shape{Regex: "http://example/exampleX+", Closes: []closeAct{{Byte: 20, Count: -1}}}
		mine := shape{Regex: matchURL, Closes: []closeAct{{Byte: 300, Count: -1}}, Halts: []halt{{Byte: 100, Dur: 2000, Count: -1}}}
		out = append(out,
			scenario{Name: "multi-shape", Shapes: []shape{other1, mine}, MatchIdx: 1, N: n, Match: true, Conns: 1},
			scenario{Name: "multi-shape", Shapes: []shape{mine, other1}, MatchIdx: 0, N: n, Match: true, Conns: 1},
			scenario{Name: "multi-shape", Shapes: []shape{other1, mine, other2}, MatchIdx: 1, N: n, Match: true, Conns: 2},
			scenario{Name: "multi-shape", Shapes: []shape{other1, other2}, N: n, Match: false, Conns: 1},
		)
	}
	// the request asks for the connection to be closed: the head that is written carries one more header line than
	// the response had when the shaping offsets were set up
	for _, n := range []int{600, 5000} {
		for _, r := range []int{0, 500} {
			out = append(out, scenario{Name: "req-close", Shapes: []shape{{Regex: matchURL, Closes: []closeAct{{Byte: int64(r) + 300, Count: -1}}, Halts: []halt{{Byte: int64(r) + 100, Dur: 2000, Count: -1}}}}, N: n, R: r, Match: true, Conns: 1, ReqClose: true})
			out = append(out, scenario{Name: "req-close", Shapes: []shape{{Regex: matchURL, Throttles: []throttle{{Bytes: fmt.Sprintf("%d-", r+200), BW: 100}}}}, N: n, R: r, Match: true, Conns: 1, ReqClose: true})
		}
	}
	// the inner connection is torn down before the shaped one is closed
	for _, sh := range []shape{{Regex: matchURL, Throttles: []throttle{{Bytes: "0-", BW: 1000}}}, {Regex: matchURL, Closes: []closeAct{{Byte: 10000, Count: -1}}}} {
		out = append(out, scenario{Name: "teardown", Shapes: []shape{sh}, N: 600, Match: true, Conns: 2, Teardown: "wrapped-first"})
	}
	// keep-alive: several responses on one shaped connection, to the URL the shape names and to another one
	for _, seq := range [][]bool{{true, false}, {false, true}, {true, true}, {true, false, true}, {false, false}} {
		for _, sh := range []shape{
			{Regex: matchURL, Closes: []closeAct{{Byte: 800, Count: -1}}},
			{Regex: matchURL, Closes: []closeAct{{Byte: 300, Count: 1}}},
			{Regex: matchURL, Halts: []halt{{Byte: 700, Dur: 3000, Count: -1}}, Throttles: []throttle{{Bytes: "500-", BW: 100}}},
		} {
			out = append(out, scenario{Name: "keepalive", Shapes: []shape{sh}, N: 600, Match: true, Conns: 1, Seq: seq})
		}
	}
	// response heads of different sizes (the head is not shaped and not counted, however many writes carry it)
	for _, pad := range []int{3000, 4000, 4096, 5000, 9000} {
		for _, n := range []int{600, 5000} {
			out = append(out, scenario{Name: "big-head", Shapes: []shape{{Regex: matchURL, Closes: []closeAct{{Byte: 100, Count: -1}}}}, N: n, Match: true, Conns: 1, HeadPad: pad})
			out = append(out, scenario{Name: "big-head", Shapes: []shape{{Regex: matchURL, Halts: []halt{{Byte: 50, Dur: 2000, Count: -1}}, Closes: []closeAct{{Byte: 450, Count: -1}}}}, N: n, Match: true, Conns: 1, HeadPad: pad, Seq: []bool{false, true}})
		}
	}
	// counts across connections
	for _, cnt := range []int64{1, 2, -1} {
		out = append(out, scenario{Name: "count-seq", Shapes: []shape{{Regex: matchURL, Closes: []closeAct{{Byte: 100, Count: cnt}}}}, N: 600, Match: true, Conns: 3})
		out = append(out, scenario{Name: "count-conc", Shapes: []shape{{Regex: matchURL, Closes: []closeAct{{Byte: 100, Count: cnt}}}}, N: 600, Match: true, Conns: 2, Conc: true, Bound: 1})
		// the same with all handlers released into their shaped writes at the same instant (check-then-act windows
		// on the shared action count are then one preemption away)
		// (quick: one deviation, like the three-connection variant below; two in thorough)
		out = append(out, scenario{Name: "count-conc-barrier", Shapes: []shape{{Regex: matchURL, Closes: []closeAct{{Byte: 100, Count: cnt}}}}, N: 600, Match: true, Conns: 2, Conc: true, Barrier: true, Bound: 1, TBound: 2})
		if cnt > 0 {
			out = append(out, scenario{Name: "count-conc-barrier", Shapes: []shape{{Regex: matchURL, Closes: []closeAct{{Byte: 100, Count: cnt}}}}, N: 600, Match: true, Conns: 3, Conc: true, Barrier: true, Bound: 1})
			out = append(out, scenario{Name: "haltcount-conc-barrier", Shapes: []shape{{Regex: matchURL, Halts: []halt{{Byte: 100, Dur: 4000, Count: cnt}}}}, N: 600, Match: true, Conns: 2, Conc: true, Barrier: true, Bound: 1, TBound: 2})
		}
	}
	// reconfiguration timing
	newCfg := configJSON([]shape{{Regex: matchURL, Closes: []closeAct{{Byte: 50, Count: -1}}}}, 0)
	for _, n := range []int{600, 5000} {
		out = append(out,
			scenario{Name: "reconf-after-accept", Shapes: []shape{{Regex: matchURL, Closes: []closeAct{{Byte: 300, Count: -1}}}}, N: n, Match: true, Conns: 2, Reconf: "accepted-after-accept", Reconf2: newCfg, Bound: 1},
			scenario{Name: "reconf-during-upload", Shapes: []shape{{Regex: matchURL, Closes: []closeAct{{Byte: 300, Count: -1}}}}, N: n, Match: true, Conns: 2, Reconf: "accepted-during-upload", Reconf2: newCfg, Bound: 1},
			scenario{Name: "reconf-in-flight", Shapes: []shape{{Regex: matchURL, Throttles: []throttle{{Bytes: "0-", BW: 100}}, Closes: []closeAct{{Byte: 300, Count: -1}}}}, N: n, Match: true, Conns: 2, Reconf: "accepted-in-flight", Reconf2: newCfg, Bound: 1},
		)
	}
	// invalid configurations: rejected as a whole, active shaping unchanged
	base := []shape{{Regex: matchURL, Closes: []closeAct{{Byte: 100, Count: -1}}}}
	bad := []string{
		`{"trafficshape":{"shapes":[{"url_regex":"` + matchURL + `","throttles":[{"bytes":"0-100","bandwidth":10},{"bytes":"50-200","bandwidth":10}]}]}}`,
		`{"trafficshape":{"shapes":[{"url_regex":"` + matchURL + `","throttles":[{"bytes":"0-","bandwidth":10},{"bytes":"50-200","bandwidth":10}]}]}}`,
		`{"trafficshape":{"shapes":[{"url_regex":"` + matchURL + `","throttles":[{"bytes":"200-100","bandwidth":10}]}]}}`,
		`{"trafficshape":{"shapes":[{"url_regex":"` + matchURL + `","throttles":[{"bytes":"100-100","bandwidth":10}]}]}}`,
		`{"trafficshape":{"shapes":[{"url_regex":"` + matchURL + `","throttles":[{"bytes":"abc","bandwidth":10}]}]}}`,
		`{"trafficshape":{"shapes":[{"url_regex":"` + matchURL + `","throttles":[{"bytes":"1-2-3","bandwidth":10}]}]}}`,
		`{"trafficshape":{"shapes":[{"url_regex":"` + matchURL + `","throttles":[{"bytes":"x-10","bandwidth":10}]}]}}`,
		`{"trafficshape":{"shapes":[{"url_regex":"` + matchURL + `","throttles":[{"bytes":"0-10","bandwidth":0}]}]}}`,
		`{"trafficshape":{"shapes":[{"url_regex":"` + matchURL + `","throttles":[{"bytes":"0-10","bandwidth":-5}]}]}}`,
		`{"trafficshape":{"shapes":[{"url_regex":"` + matchURL + `","throttles":[{"bytes":"-5-10","bandwidth":5}]}]}}`,
		`{"trafficshape":{"shapes":[{"url_regex":"` + matchURL + `","halts":[{"byte":-1,"duration":10,"count":1}]}]}}`,
		`{"trafficshape":{"shapes":[{"url_regex":"` + matchURL + `","halts":[{"byte":1,"duration":-10,"count":1}]}]}}`,
		`{"trafficshape":{"shapes":[{"url_regex":"` + matchURL + `","halts":[{"byte":1,"duration":10,"count":0}]}]}}`,
		`{"trafficshape":{"shapes":[{"url_regex":"` + matchURL + `","close_connections":[{"byte":-1,"count":1}]}]}}`,
		`{"trafficshape":{"shapes":[{"url_regex":"` + matchURL + `","close_connections":[{"byte":1,"count":0}]}]}}`,
		`{"trafficshape":{"shapes":[{"url_regex":"(unclosed"}]}}`,
		`{"trafficshape":{"shapes":[{"throttles":[]}]}}`,
		`{"trafficshape":{"shapes":[null]}}`,
		`{"trafficshape":{"shapes":[{"url_regex":"` + matchURL + `","max_global_bandwidth":-1}]}}`,
		`{"trafficshape":{"default":{"bandwidth":{"up":-1}},"shapes":[]}}`,
		`{"trafficshape":{"default":{"latency":-1},"shapes":[]}}`,
		`{"nottrafficshape":{}}`,
		`{"trafficshape":{"shapes":[{"url_regex":"` + matchURL + `"`,
		`not json`,
		`{"trafficshape":{"shapes":[{"url_regex":"` + matchURL + `","throttles":[null]}]}}`,
		`{"trafficshape":{"shapes":[{"url_regex":"` + matchURL + `"},{"url_regex":"b","halts":[{"byte":1,"duration":1,"count":0}]}]}}`,
	}
	// rejected because of their shapes although the "default" section is valid: nothing of them may take effect
	for _, shapes := range []string{
		`[{"url_regex":"` + matchURL + `","throttles":[{"bytes":"0-100","bandwidth":10},{"bytes":"50-200","bandwidth":10}]}]`,
		`[{"url_regex":"(unclosed"}]`,
		`[{"url_regex":"` + matchURL + `","halts":[{"byte":1,"duration":10,"count":0}]}]`,
	} {
		bad = append(bad,
			`{"trafficshape":{"default":{"latency":700},"shapes":`+shapes+`}}`,
			`{"trafficshape":{"default":{"bandwidth":{"up":50,"down":50}},"shapes":`+shapes+`}}`,
			`{"trafficshape":{"default":{"bandwidth":{"up":50,"down":50},"latency":900},"shapes":`+shapes+`}}`,
		)
	}
	for _, b := range bad {
		out = append(out, scenario{Name: "invalid-config", Shapes: base, N: 600, Match: true, Conns: 1, Reconf: "rejected-before", Reconf2: b})
	}
	out = append(out, auditScenarios(tier)...)
	out = append(out, round7Scenarios(tier)...)
	return out
}

type shardOut struct {
	Counters   map[string]int64
	Violations []lib.Violation
	Samples    []interface{}
	Incomplete string
}

func main() {
	tier := lib.Tier()
	scen := scenarios(tier)
	if rp := os.Getenv("VERIF_REPLAY"); rp != "" {
		var doc struct {
			First struct {
				Replay struct {
					Scenario scenario
					Schedule []int
				}
			}
		}
		b, err := os.ReadFile(rp)
		if err != nil || json.Unmarshal(b, &doc) != nil {
			fmt.Fprintln(os.Stderr, "cannot read replay", rp, err)
			os.Exit(2)
		}
		body, check := run(doc.First.Replay.Scenario)
		r := vrt.Run(vrt.Config{Trace: os.Getenv("VERIF_TRACE") != "", MaxPoints: 2000000, MaxVTime: 2 * time.Hour}, doc.First.Replay.Schedule, body)
		for _, l := range r.Trace {
			fmt.Println("  ", l)
		}
		fmt.Println("outcome:", r.Outcome, r.Panic)
		for _, l := range r.Log {
			fmt.Println("log:", l)
		}
		for _, t := range r.Threads {
			if !t.Done {
				fmt.Printf("thread %d %s blocked=%s\n", t.ID, t.Label, t.Blocked)
			}
		}
		fs := check(r)
		for _, f := range fs {
			fmt.Printf("VIOLATION property=C18 replay=%s\n  %s: %s\n", rp, f.Sig, f.Desc)
		}
		if len(fs) > 0 {
			os.Exit(1)
		}
		return
	}
	if i, n := lib.ShardEnv(); n > 0 {
		out := &shardOut{Counters: map[string]int64{}}
		per := 30 * time.Second
		if tier == "thorough" {
			per = 4 * time.Minute
		}
		seen := map[string]bool{}
		for si, sc := range scen {
			if si%n != i {
				continue
			}
			if only := os.Getenv("VERIF_ONLY"); only != "" && sc.Name != only {
				continue
			}
			b := sc.Bound
			if tier == "thorough" && b > 0 {
				b++
				if sc.TBound > 0 {
					b = sc.TBound
				}
			}
			body, check := run(sc)
			t0 := time.Now()
			scSigs := map[string]bool{}
			nontrivial := false
			st := vrt.Explore(vrt.ExploreConfig{Bound: b, Deadline: time.Now().Add(per), Config: vrt.Config{MaxPoints: 2000000, MaxVTime: 2 * time.Hour}}, body, func(prefix []int, r *vrt.Result) bool {
				if !nontrivial {
					for _, l := range r.Log {
						if strings.Contains(l, "complete=false") || strings.Contains(l, "reconf=400") || strings.Contains(l, "elapsed=") && !strings.Contains(l, "elapsed=0s") {
							nontrivial = true
						}
					}
				}
				for _, f := range check(r) {
					scSigs[f.Sig] = true
					if !seen[f.Sig] {
						seen[f.Sig] = true
						if err := vrt.Confirm(vrt.Config{MaxPoints: 2000000, MaxVTime: 3 * time.Hour}, r, body, 3); err != nil {
							fmt.Fprintln(os.Stderr, "ENGINE ERROR:", err)
							os.Exit(2)
						}
						out.Violations = append(out.Violations, lib.Violation{Sig: f.Sig, Desc: fmt.Sprintf("scenario %s (n=%d r=%d chunk=%d) schedule %v: %s", sc.Name, sc.N, sc.R, sc.Chunk, r.ChoiceSeq(), f.Desc),
							Replay: map[string]interface{}{"scenario": sc, "schedule": r.ChoiceSeq(), "log": r.Log}})
					}
				}
				return true
			})
			if st.EngineError != "" {
				fmt.Fprintln(os.Stderr, "ENGINE ERROR:", st.EngineError)
				os.Exit(2)
			}
			if f := os.Getenv("VERIF_STATS"); f != "" {
				if fh, err := os.OpenFile(f, os.O_APPEND|os.O_CREATE|os.O_WRONLY, 0o644); err == nil {
					fmt.Fprintf(fh, "%-28s execs=%-7d points=%-9d bound=%d done=%d exhaustive=%v wall=%v n=%d r=%d chunk=%d conns=%d via=%s sigs=%v\n", sc.Name, st.Execs, st.Points, b, st.BoundCompleted, st.Exhaustive, time.Since(t0).Round(time.Millisecond), sc.N, sc.R, sc.Chunk, sc.Conns, sc.Via, scSigs)
					fh.Close()
				}
			}
			out.Counters["scenarios"]++
			if nontrivial {
				out.Counters["distinct_nontrivial"]++
			}
			out.Counters["scenarios_"+sc.Name]++
			out.Counters["executions"] += int64(st.Execs)
			out.Counters["points"] += st.Points
			out.Counters["distinct_outcomes"] += int64(st.DistinctLogs)
			out.Counters["horizon_hits"] += int64(st.HorizonHits)
			if !st.Exhaustive {
				out.Incomplete = fmt.Sprintf("scenario %s: cap hit, bound completed %d", sc.Name, st.BoundCompleted)
			}
			if len(out.Samples) < 1 {
				out.Samples = append(out.Samples, map[string]interface{}{"scenario": sc, "executions": st.Execs})
			}
		}
		b, _ := json.Marshal(out)
		os.WriteFile(os.Getenv("VERIF_SHARD_OUT"), b, 0o644)
		return
	}
	rep := lib.NewReport("C18", "model_checking")
	files, errs, outs := lib.RunShards(16, lib.Root+"/.build/c18/shards")
	for i, f := range files {
		if errs[i] != nil {
			fmt.Fprintf(os.Stderr, "shard %d failed: %v\n%s\n", i, errs[i], outs[i])
			os.Exit(2)
		}
		var so shardOut
		b, _ := os.ReadFile(f)
		if err := json.Unmarshal(b, &so); err != nil {
			fmt.Fprintf(os.Stderr, "shard %d: bad output: %v\n", i, err)
			os.Exit(2)
		}
		for k, v := range so.Counters {
			rep.Count(k, v)
		}
		for _, v := range so.Violations {
			rep.Violate(v.Sig, v.Desc, v.Replay)
		}
		for _, s := range so.Samples {
			rep.Sample(4, s)
		}
		if so.Incomplete != "" {
			rep.Incomplete = so.Incomplete
		}
	}
	rep.Coverage["states"] = rep.Counter("distinct_outcomes")
	rep.Coverage["transitions"] = rep.Counter("points")
	rep.Coverage["traces_validated_against_impl"] = rep.Counter("executions")
	rep.Coverage["exhaustive"] = rep.Incomplete == ""
	rep.Coverage["evaluations"] = rep.Counter("executions")
	rep.Coverage["distinct_nontrivial"] = rep.Counter("distinct_nontrivial")
	rep.Coverage["rule"] = "scenarios are listed by scenarios()+auditScenarios()+round7Scenarios() (finite products of shape sets x sizes x range starts x write sizes x paths x histories, nothing sampled); every schedule of a scenario within its deviation bound is executed; a scenario is non-trivial when in at least one execution shaping visibly acted: a connection was cut, virtual time passed between request and end of response, or a configuration was rejected"
	rep.Coverage["bounds"] = fmt.Sprintf("%d scenarios: close actions at offsets {0,1,n-1,n,n+1,5000,6000}+range start x sizes {0,1,600,4095,4096,4097,10000} x range starts {0,1,4096} x body chunkings, next to the 4096-byte flush and the 32768-byte copies of a 70000-byte body; halts at {r-1,r,r+1,r+n-1,r+n,r+n+1,r+4500}, equal offsets, counts over sequential connections; throttles (single, adjacent, gap, unsorted, three, around the range start, tiny bandwidths, max bandwidth; every permutation of 2- and 3-interval lists x range starts before / at the first byte of / inside / at the last byte of / behind every interval), latency, non-matching URL; Content-Length and chunked framing; plain, CONNECT+clear and CONNECT+TLS (MITM) paths, blind CONNECT tunnels (also after shaped responses on the same connection); default bandwidths; counts {1,2,-1} over sequential and concurrent connections; reconfiguration after accept / during upload / in flight / between two requests, with closes, delays, dropped shapes; 67+3 invalid configurations before the accept, 3 after the accept and in flight; client leaving mid-response, proxy closing mid-response; shared global bandwidth over sequential/concurrent connections; default schedule, <=1 (quick) / <=2-3 (thorough) deviations for concurrent and in-flight scenarios (per-scenario bound chosen so that it completes)", len(scen))
	rep.Coverage["explanation"] = "each execution runs the real proxy.go + trafficshape over simnet with virtual time; bucket spin loops are parked until the epoch changes (a drain tick)"
	rep.Assumptions = []string{"virtual time only advances at quiescence; ticker phase is fixed by bucket creation time; delays are judged with a slack of one drain interval per bucket plus 1 s", "real crypto/tls runs inside the simulation for the MITM scenarios (its internal locks are not scheduling points)"}
	rep.Finish()
}
