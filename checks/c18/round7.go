// Round 7 (see AUDIT.md "Round 7"): the order in which a configuration lists its throttles x where the response's
// range start lies relative to every throttle. Enumerated, nothing sampled.
package main

import "fmt"

// iv is one throttled interval [A,B) (B = -1: open ended) with its bandwidth in bytes/s.
type iv struct {
	A, B int
	BW   int64
}

func (t iv) bytes() string {
	if t.B < 0 {
		return fmt.Sprintf("%d-", t.A)
	}
	return fmt.Sprintf("%d-%d", t.A, t.B)
}

// permutations of 0..n-1 in lexicographic order (the first one is the identity = ascending order)
func permutations(n int) [][]int {
	var out [][]int
	var rec func(cur []int, used []bool)
	rec = func(cur []int, used []bool) {
		if len(cur) == n {
			out = append(out, append([]int(nil), cur...))
			return
		}
		for i := 0; i < n; i++ {
			if !used[i] {
				used[i] = true
				rec(append(cur, i), used)
				used[i] = false
			}
		}
	}
	rec(nil, make([]bool, n))
	return out
}

// throttleSets: non-overlapping intervals in ascending order, pairwise different bandwidths (a lookup that lands on
// the wrong interval shows from below or from above), gaps between them, with and without an open-ended last one.
// Every interval is long enough at its bandwidth for a start in its middle to be judged (> 1 s after the slack).
var throttleSets = []struct {
	name string
	ivs  []iv
}{
	{"two", []iv{{0, 500, 50}, {1000, 2000, 100}}},
	{"two-open", []iv{{0, 500, 50}, {1000, -1, 100}}},
	{"three", []iv{{0, 400, 50}, {1000, 1600, 100}, {2400, 3000, 75}}},
	{"three-open", []iv{{0, 400, 50}, {1000, 1600, 100}, {2400, -1, 75}}},
}

// rangeStartsOf lists, for every interval of the set, the range starts just before it, at its first byte, strictly
// inside it, at its last byte and right behind it, each with the name of its position (first label wins on a tie).
func rangeStartsOf(ivs []iv) (rs []int, pos map[int]string) {
	pos = map[int]string{}
	add := func(r int, p string) {
		if r < 0 {
			return
		}
		if _, ok := pos[r]; !ok {
			pos[r] = p
			rs = append(rs, r)
		}
	}
	for _, t := range ivs {
		add(t.A-1, "before_throttle")
		add(t.A, "first_byte_of_throttle")
		if t.B < 0 {
			add(t.A+300, "inside_throttle")
			continue
		}
		add((t.A+t.B)/2, "inside_throttle")
		add(t.B-1, "last_byte_of_throttle")
		add(t.B, "behind_throttle")
	}
	return
}

// round7Scenarios: `throttle-order`: every permutation of the throttle list of every set x every range start of
// rangeStartsOf x response sizes (inside one throttle / across all later ones / beyond the proxy's first flush; quick:
// 400, 3000, 5000, thorough: + 10000) x body write sizes (quick: whole, and 7 for n=400; thorough: whole, 7, and 1 for
// n=400). The configuration is the same accepted shape whatever the order of the list, so the reference model
// (model(): per interval, bytes of the response inside it / bandwidth) does not look at the order.
func round7Scenarios(tier string) []scenario {
	var out []scenario
	thorough := tier == "thorough"
	ns := []int{400, 3000, 5000}
	if thorough {
		ns = append(ns, 10000)
	}
	chunksOf := func(n int) []int {
		switch {
		case thorough && n == 400:
			return []int{0, 7, 1}
		case thorough || n == 400:
			return []int{0, 7}
		}
		return []int{0}
	}
	for _, set := range throttleSets {
		rs, pos := rangeStartsOf(set.ivs)
		for pi, perm := range permutations(len(set.ivs)) {
			var ths []throttle
			for _, i := range perm {
				ths = append(ths, throttle{Bytes: set.ivs[i].bytes(), BW: set.ivs[i].BW})
			}
			order := "ascending"
			if pi > 0 {
				order = "out_of_order"
			}
			for _, r := range rs {
				for _, n := range ns {
					for _, ch := range chunksOf(n) {
						out = append(out, scenario{Name: "throttle-order", Shapes: []shape{{Regex: matchURL, Throttles: ths}}, N: n, R: r, Chunk: ch, Match: true, Conns: 1,
							Cls: fmt.Sprintf("throttles=%s:range_start=%s", order, pos[r])})
					}
				}
			}
		}
	}
	return out
}
