// Scenario families added by the audit of C18 (see AUDIT.md): paths, framings, offsets, lists and histories the
// original families did not reach. Everything here is enumerated, nothing is sampled.
package main

import (
	"bytes"
	"fmt"
	"io"
	"net"
	"net/http"
	"net/http/httptest"
	"strings"
	"time"

	"github.com/google/martian/v3/trafficshape"
	"github.com/google/martian/v3/zzverif/simnet"
	"github.com/google/martian/v3/zzverif/vrt"

	"verif/checks/pworld"
)

// the URL as the proxy sees it inside an intercepted tunnel is https://... (TLS inside) or http://... (clear text inside)
const viaRegex = "^https?://example/example$"

// headLenOf is the length of the head of the response the scripted origin returns for (n, r), as net/http renders it
// (standard library only: needed to place actions next to the boundary of the proxy's first 4096-byte write).
func headLenOf(n, r int) int {
	res := &http.Response{StatusCode: 200, Proto: "HTTP/1.1", ProtoMajor: 1, ProtoMinor: 1, Header: http.Header{"Content-Type": {"application/octet-stream"}}, ContentLength: int64(n), Body: io.NopCloser(bytes.NewReader(nil))}
	if r > 0 {
		res.StatusCode = 206
		res.Header.Set("Content-Range", fmt.Sprintf("bytes %d-%d/%d", r, r+n-1, r+n))
	}
	var b bytes.Buffer
	res.Write(&b) // fails after the head (the body is shorter than announced): the head is complete
	return bytes.Index(b.Bytes(), []byte("\r\n\r\n")) + 4
}

func auditScenarios(tier string) []scenario {
	var out []scenario
	thorough := tier == "thorough"
	one := func(sh shape) []shape { return []shape{sh} }

	// A. shaped responses inside an intercepted CONNECT tunnel, in clear and inside TLS (proxy.go wraps the decrypted
	// side in a second shaped connection of the same listener)
	for _, via := range []string{"connect-plain", "mitm-tls"} {
		for _, n := range []int{600, 5000} {
			out = append(out,
				scenario{Name: "via-close", Via: via, Shapes: one(shape{Regex: viaRegex, Closes: []closeAct{{Byte: 300, Count: -1}}}), N: n, Match: true, Conns: 2},
				scenario{Name: "via-close", Via: via, Shapes: one(shape{Regex: viaRegex, Closes: []closeAct{{Byte: 800, Count: 1}}}), N: n, R: 500, Match: true, Conns: 2},
				scenario{Name: "via-halt+close", Via: via, Shapes: one(shape{Regex: viaRegex, Halts: []halt{{Byte: 100, Dur: 2000, Count: -1}}, Closes: []closeAct{{Byte: 450, Count: -1}}}), N: n, Match: true, Conns: 1},
				scenario{Name: "via-non-matching", Via: via, Shapes: one(shape{Regex: viaRegex, Throttles: []throttle{{Bytes: "0-", BW: 10}}, Halts: []halt{{Byte: 10, Dur: 9000, Count: -1}}, Closes: []closeAct{{Byte: 100, Count: -1}}}), N: n, Match: false, Conns: 1},
			)
		}
		out = append(out,
			scenario{Name: "via-throttle", Via: via, Shapes: one(shape{Regex: viaRegex, Throttles: []throttle{{Bytes: "200-", BW: 100}}}), N: 600, Match: true, Conns: 1},
			scenario{Name: "via-keepalive", Via: via, Shapes: one(shape{Regex: viaRegex, Closes: []closeAct{{Byte: 800, Count: -1}}}), N: 600, Match: true, Conns: 1, Seq: []bool{true, false, true}},
			scenario{Name: "via-keepalive", Via: via, Shapes: one(shape{Regex: viaRegex, Closes: []closeAct{{Byte: 300, Count: 1}}}), N: 600, Match: true, Conns: 1, Seq: []bool{false, true}},
			scenario{Name: "via-abort", Via: via, Shapes: one(shape{Regex: viaRegex, Halts: []halt{{Byte: 100, Dur: 5000, Count: -1}}}), N: 600, Match: true, Conns: 2, Abort: 51},
		)
	}

	// B. responses without Content-Length (chunked on the wire)
	for _, n := range []int{600, 5000, 10000} {
		for _, r := range []int{0, 4096} {
			for _, k := range []int{0, 1, 100, n - 1, 3 * n} {
				for _, ch := range []int{0, 7, 4096} {
					if !thorough && (ch == 4096 || (ch == 7 && (k == 1 || r > 0)) || n == 10000 && k != 100) {
						continue
					}
					out = append(out, scenario{Name: "chunked-close", Chunked: true, Shapes: one(shape{Regex: matchURL, Closes: []closeAct{{Byte: int64(r + k), Count: 1}}}), N: n, R: r, Chunk: ch, Match: true, Conns: 1})
				}
			}
		}
		out = append(out,
			scenario{Name: "chunked-halt", Chunked: true, Shapes: one(shape{Regex: matchURL, Halts: []halt{{Byte: 100, Dur: 3000, Count: -1}}}), N: n, Chunk: 7, Match: true, Conns: 2},
			scenario{Name: "chunked-non-matching", Chunked: true, Shapes: one(shape{Regex: matchURL, Closes: []closeAct{{Byte: 100, Count: -1}}}), N: n, Match: false, Conns: 1},
		)
	}
	out = append(out, scenario{Name: "chunked-keepalive", Chunked: true, Shapes: one(shape{Regex: matchURL, Closes: []closeAct{{Byte: 2000, Count: -1}}}), N: 600, Match: true, Conns: 1, Seq: []bool{true, false, true}})

	// C. a valid configuration with finite default bandwidths (the listener-wide buckets)
	for _, n := range []int{600, 5000} {
		out = append(out,
			scenario{Name: "default-bw", DefUp: 500, DefDown: 500, Shapes: one(shape{Regex: matchURL, Closes: []closeAct{{Byte: 300, Count: -1}}}), N: n, Match: false, Conns: 2},
			scenario{Name: "default-bw", DefUp: 500, DefDown: 500, Shapes: one(shape{Regex: matchURL, Closes: []closeAct{{Byte: 300, Count: -1}}}), N: n, Match: true, Conns: 2},
			scenario{Name: "default-bw", DefUp: 300, DefDown: 2000, Shapes: nil, N: n, Match: false, Conns: 1, Chunk: 7},
			scenario{Name: "default-bw", DefUp: 2000, DefDown: 300, Shapes: nil, N: n, Match: false, Conns: 1},
			scenario{Name: "default-bw-conc", DefUp: 500, DefDown: 500, Shapes: nil, N: n, Match: false, Conns: 2, Conc: true, Bound: 1, TBound: map[bool]int{true: 2, false: 1}[n < 1000]},
		)
	}

	// D. halts: every position relative to the bytes of the response, used-up counts, equal offsets; judged from both
	// sides (a halt that does not apply must not delay)
	for _, n := range []int{600, 5000} {
		for _, r := range []int{0, 100} {
			ks := []int{r, r + 1, r + n - 1, r + n, r + n + 1, r - 1, r + 4500}
			for _, k := range ks {
				if k < 0 {
					continue
				}
				for _, ch := range []int{0, 7, 1} {
					if ch == 1 && !thorough || ch == 7 && !thorough && n == 5000 && k != r+4500 {
						continue
					}
					out = append(out, scenario{Name: "halt-at", Shapes: one(shape{Regex: matchURL, Halts: []halt{{Byte: int64(k), Dur: 4000, Count: -1}}}), N: n, R: r, Chunk: ch, Match: true, Conns: 1})
				}
			}
			out = append(out,
				scenario{Name: "halt-count-seq", Shapes: one(shape{Regex: matchURL, Halts: []halt{{Byte: int64(r) + 100, Dur: 4000, Count: 1}}}), N: n, R: r, Match: true, Conns: 3},
				scenario{Name: "halt-count-seq", Shapes: one(shape{Regex: matchURL, Halts: []halt{{Byte: int64(r) + 100, Dur: 4000, Count: 2}, {Byte: int64(r) + 200, Dur: 1000, Count: 1}}}), N: n, R: r, Match: true, Conns: 4},
				scenario{Name: "halt-same-offset", Shapes: one(shape{Regex: matchURL, Halts: []halt{{Byte: int64(r) + 100, Dur: 1000, Count: -1}, {Byte: int64(r) + 100, Dur: 2000, Count: 1}}}), N: n, R: r, Match: true, Conns: 2},
				scenario{Name: "halt+close-same-offset", Shapes: one(shape{Regex: matchURL, Halts: []halt{{Byte: int64(r) + 300, Dur: 2000, Count: -1}}, Closes: []closeAct{{Byte: int64(r) + 300, Count: -1}}}), N: n, R: r, Match: true, Conns: 1},
				scenario{Name: "halts+close", Shapes: one(shape{Regex: matchURL, Halts: []halt{{Byte: int64(r) + 500, Dur: 3000, Count: -1}, {Byte: int64(r) + 10, Dur: 1000, Count: -1}, {Byte: int64(r) + 400, Dur: 500, Count: -1}}, Closes: []closeAct{{Byte: int64(r) + 450, Count: -1}, {Byte: int64(r) + 20, Count: 1}}}), N: n, R: r, Match: true, Conns: 2},
			)
		}
	}

	// E. throttle lists: order in the configuration, position relative to the response, several intervals
	for _, r := range []int{0, 100, 300} {
		for _, n := range []int{600, 5000} {
			out = append(out,
				scenario{Name: "throttle-unsorted", Shapes: one(shape{Regex: matchURL, Throttles: []throttle{{Bytes: "300-", BW: 200}, {Bytes: "0-300", BW: 100}}}), N: n, R: r, Match: true, Conns: 1},
				scenario{Name: "throttle-three", Shapes: one(shape{Regex: matchURL, Throttles: []throttle{{Bytes: "400-500", BW: 50}, {Bytes: "0-100", BW: 50}, {Bytes: "200-300", BW: 100}}}), N: n, R: r, Match: true, Conns: 2},
				scenario{Name: "throttle-start-inside", Shapes: one(shape{Regex: matchURL, Throttles: []throttle{{Bytes: "200-500", BW: 50}}}), N: n, R: r, Match: true, Conns: 1},
				scenario{Name: "throttle-before-start", Shapes: one(shape{Regex: matchURL, Throttles: []throttle{{Bytes: fmt.Sprintf("0-%d", r+1), BW: 1}, {Bytes: fmt.Sprintf("%d-%d", r+100, r+200), BW: 100}}}), N: n, R: r + 1, Match: true, Conns: 1},
				scenario{Name: "throttle-beyond-end", Shapes: one(shape{Regex: matchURL, Throttles: []throttle{{Bytes: fmt.Sprintf("%d-", r+n), BW: 1}}}), N: n, R: r, Match: true, Conns: 1},
			)
		}
		out = append(out,
			scenario{Name: "throttle-late", Shapes: one(shape{Regex: matchURL, Throttles: []throttle{{Bytes: fmt.Sprintf("%d-%d", r+4500, r+4800), BW: 100}}}), N: 5000, R: r, Match: true, Conns: 1},
			scenario{Name: "throttle-small-writes", Shapes: one(shape{Regex: matchURL, Throttles: []throttle{{Bytes: "0-", BW: 100}}}), N: 600, R: r, Chunk: 7, Match: true, Conns: 1},
		)
	}

	// F. close actions next to the boundaries of the proxy's writes: the first 4096-byte flush and the 32768-byte copies after it
	for _, r := range []int{0, 4096} {
		for _, n := range []int{4097, 10000} {
			fb := 4096 - headLenOf(n, r)
			for _, d := range []int{-1, 0, 1} {
				for _, ch := range []int{0, 7} {
					if ch == 7 && !thorough && d != 0 {
						continue
					}
					out = append(out, scenario{Name: "close-at-write-boundary", Shapes: one(shape{Regex: matchURL, Closes: []closeAct{{Byte: int64(r + fb + d), Count: 1}}}), N: n, R: r, Chunk: ch, Match: true, Conns: 1})
				}
			}
		}
		n := 70000
		fb := 4096 - headLenOf(n, r)
		for _, k := range []int{fb + 32768 - 1, fb + 32768, fb + 32768 + 1, 32768, 65536, fb + 65536, n - 1} {
			if !thorough && r > 0 && k != fb+32768 {
				continue
			}
			out = append(out, scenario{Name: "close-big", Shapes: one(shape{Regex: matchURL, Closes: []closeAct{{Byte: int64(r + k), Count: 1}}}), N: n, R: r, Match: true, Conns: 1})
		}
		out = append(out, scenario{Name: "halt-big", Shapes: one(shape{Regex: matchURL, Halts: []halt{{Byte: int64(r + fb + 32768), Dur: 3000, Count: -1}, {Byte: int64(r + 40000), Dur: 1000, Count: -1}}}), N: n, R: r, Match: true, Conns: 1})
	}

	// H. reconfiguration: what the new configuration must not do to a connection accepted before it - delays included -
	// and a kept-alive connection whose second request comes after the reconfiguration
	newCfgs := []string{
		`{"trafficshape":{"default":{"latency":3000},"shapes":[{"url_regex":"` + matchURL + `","halts":[{"byte":50,"duration":6000,"count":-1}]}]}}`,
		`{"trafficshape":{"default":{"latency":3000},"shapes":[]}}`,
		`{"trafficshape":{"shapes":[{"url_regex":"` + matchURL + `","throttles":[{"bytes":"0-","bandwidth":20}],"close_connections":[{"byte":5000,"count":-1}]}]}}`,
	}
	for _, nc := range newCfgs {
		for _, n := range []int{600, 5000} {
			out = append(out,
				scenario{Name: "reconf-delays-after-accept", Shapes: one(shape{Regex: matchURL, Closes: []closeAct{{Byte: 300, Count: -1}}}), N: n, Match: true, Conns: 2, Reconf: "accepted-after-accept", Reconf2: nc, Bound: 0},
				scenario{Name: "reconf-between-requests", Shapes: one(shape{Regex: matchURL, Closes: []closeAct{{Byte: 8000, Count: -1}}}), N: n, Match: true, Conns: 1, Reconf: "accepted-between-requests", Reconf2: nc, Seq: []bool{true, true}},
			)
		}
	}
	out = append(out, scenario{Name: "reconf-between-requests", Shapes: one(shape{Regex: matchURL, Closes: []closeAct{{Byte: 8000, Count: -1}}}), N: 600, Match: true, Conns: 1, Reconf: "accepted-between-requests",
		Reconf2: configJSON(one(shape{Regex: matchURL, Closes: []closeAct{{Byte: 50, Count: -1}}}), 0), Seq: []bool{true, true, false}})

	// J. concurrent connections sharing throttled shapes and a finite global bandwidth: delayed, never losing bytes
	for _, n := range []int{300, 700} {
		out = append(out,
			scenario{Name: "throttle-conc", Shapes: one(shape{Regex: matchURL, MaxBW: 400, Throttles: []throttle{{Bytes: "100-", BW: 250}}}), N: n, Match: true, Conns: 2, Conc: true, Bound: 1, TBound: map[bool]int{true: 2, false: 1}[n < 500]},
			scenario{Name: "throttle-conc", Shapes: one(shape{Regex: matchURL, MaxBW: 400, Throttles: []throttle{{Bytes: "100-", BW: 250}}}), N: n, Match: true, Conns: 3, Conc: true, Barrier: true, Bound: 0, TBound: 1},
		)
	}

	// K. the client goes away in the middle of a delayed response: what was created for the connection is released
	for _, sh := range []shape{
		{Regex: matchURL, Halts: []halt{{Byte: 100, Dur: 5000, Count: -1}}},
		{Regex: matchURL, MaxBW: 1000, Throttles: []throttle{{Bytes: "0-", BW: 100}}},
	} {
		for _, n := range []int{600, 5000} {
			out = append(out,
				scenario{Name: "client-abort", Shapes: one(sh), N: n, Match: true, Conns: 2, Abort: 1},
				scenario{Name: "client-abort", Shapes: one(sh), N: n, Match: true, Conns: 2, Abort: 151},
			)
		}
	}

	// L. the proxy is shut down while a delayed response is in flight: it still arrives as written
	for _, n := range []int{600, 5000} {
		out = append(out,
			scenario{Name: "proxy-close-in-flight", Shapes: one(shape{Regex: matchURL, Halts: []halt{{Byte: 100, Dur: 3000, Count: -1}}, Closes: []closeAct{{Byte: 4500, Count: -1}}}), N: n, Match: true, Conns: 1, PClose: true},
			scenario{Name: "proxy-close-in-flight", DefUp: 500, DefDown: 500, Shapes: one(shape{Regex: matchURL, Closes: []closeAct{{Byte: 100, Count: -1}}}), N: n, Match: false, Conns: 1, PClose: true},
		)
	}

	for _, n := range []int{600, 5000} {
		out = append(out, scenario{Name: "proxy-close-before-response", Shapes: one(shape{Regex: matchURL, Halts: []halt{{Byte: 100, Dur: 3000, Count: -1}}, Closes: []closeAct{{Byte: 300, Count: -1}}}), N: n, Match: true, Conns: 1, PClose: true, PCloseEarly: true})
		out = append(out, scenario{Name: "proxy-close-before-response", Shapes: one(shape{Regex: matchURL, Throttles: []throttle{{Bytes: "200-", BW: 100}}}), N: n, R: 100, Match: true, Conns: 1, PClose: true, PCloseEarly: true})
	}

	// M. a reconfiguration that drops the shape of the URL; an invalid configuration arriving when the connection is
	// already accepted or its response already in flight
	for _, n := range []int{600, 5000} {
		for _, nc := range []string{`{"trafficshape":{"shapes":[]}}`, `{"trafficshape":{"shapes":[{"url_regex":"http://elsewhere/","close_connections":[{"byte":50,"count":-1}],"halts":[{"byte":10,"duration":5000,"count":-1}]}]}}`} {
			out = append(out, scenario{Name: "reconf-drops-shape", Shapes: one(shape{Regex: matchURL, Closes: []closeAct{{Byte: 300, Count: -1}}, Halts: []halt{{Byte: 100, Dur: 4000, Count: -1}}}), N: n, Match: true, Conns: 2, Reconf: "accepted-after-accept", Reconf2: nc})
		}
		for _, bad := range []string{
			`{"trafficshape":{"shapes":[{"url_regex":"` + matchURL + `","throttles":[{"bytes":"0-100","bandwidth":10},{"bytes":"50-200","bandwidth":10}]}]}}`,
			`{"trafficshape":{"default":{"latency":700,"bandwidth":{"up":50,"down":50}},"shapes":[{"url_regex":"(unclosed"}]}}`,
			`{"trafficshape":{"shapes":[{"url_regex":"` + matchURL + `"},{"url_regex":"b","halts":[{"byte":1,"duration":1,"count":0}]}]}}`,
		} {
			out = append(out,
				scenario{Name: "invalid-config-after-accept", Shapes: one(shape{Regex: matchURL, Closes: []closeAct{{Byte: 300, Count: -1}}, Halts: []halt{{Byte: 100, Dur: 2000, Count: -1}}}), N: n, Match: true, Conns: 1, Reconf: "rejected-after-accept", Reconf2: bad},
				scenario{Name: "invalid-config-in-flight", Shapes: one(shape{Regex: matchURL, Closes: []closeAct{{Byte: 300, Count: -1}}, Throttles: []throttle{{Bytes: "0-", BW: 100}}}), N: n, Match: true, Conns: 1, Reconf: "rejected-in-flight", Reconf2: bad, Bound: 1},
			)
		}
	}

	// N. the latency is slept when a connection starts, not again for every response on it; bandwidths smaller than a write
	out = append(out,
		scenario{Name: "keepalive-latency", Shapes: one(shape{Regex: matchURL, Halts: []halt{{Byte: 100, Dur: 1000, Count: -1}}}), N: 600, Match: true, Conns: 1, Latency: 3000, Seq: []bool{false, false, true, true}},
		scenario{Name: "keepalive-latency", Shapes: one(shape{Regex: matchURL, Halts: []halt{{Byte: 100, Dur: 1000, Count: -1}}}), N: 600, Match: true, Conns: 1, Latency: 3000, Seq: []bool{true, false, true}},
	)
	for _, ch := range []int{0, 7} {
		for _, mbw := range []int64{0, 3, 50} {
			out = append(out, scenario{Name: "throttle-tiny", Shapes: one(shape{Regex: matchURL, MaxBW: mbw, Throttles: []throttle{{Bytes: "10-", BW: 5}}}), N: 60, Chunk: ch, Match: true, Conns: 2})
		}
	}

	// O. a round trip that fails on a kept-alive shaped connection: the proxy's own 502 arrives whole and undelayed,
	// whatever the earlier responses on the connection left pending (offsets, actions, bandwidths)
	for _, sh := range []shape{
		{Regex: matchURL, Closes: []closeAct{{Byte: 800, Count: -1}}},
		{Regex: matchURL, Closes: []closeAct{{Byte: 620, Count: -1}}},
		{Regex: matchURL, Halts: []halt{{Byte: 700, Dur: 5000, Count: -1}}, Throttles: []throttle{{Bytes: "500-", BW: 20}}},
	} {
		for _, c := range []struct{ seq, fail []bool }{
			{[]bool{true, true}, []bool{false, true}},
			{[]bool{true, false}, []bool{false, true}},
			{[]bool{true, false, true}, []bool{false, true, false}},
			{[]bool{false, true, true}, []bool{false, false, true}},
			{[]bool{true, true, true}, []bool{true, false, true}},
			{[]bool{false}, []bool{true}},
		} {
			out = append(out, scenario{Name: "keepalive-upstream-failure", Shapes: one(sh), N: 600, Match: true, Conns: 1, Seq: c.seq, SeqFail: c.fail})
		}
	}

	// G. more of the grammar of rejected configurations (each: 400, and the next connection is shaped as before)
	base := one(shape{Regex: matchURL, Closes: []closeAct{{Byte: 100, Count: -1}}})
	u := `"url_regex":"` + matchURL + `"`
	for _, b := range []string{
		// overlaps that only show once the list is ordered
		`{"trafficshape":{"shapes":[{` + u + `,"throttles":[{"bytes":"50-200","bandwidth":10},{"bytes":"0-100","bandwidth":10}]}]}}`,
		`{"trafficshape":{"shapes":[{` + u + `,"throttles":[{"bytes":"300-400","bandwidth":10},{"bytes":"0-","bandwidth":10}]}]}}`,
		`{"trafficshape":{"shapes":[{` + u + `,"throttles":[{"bytes":"500-600","bandwidth":10},{"bytes":"0-100","bandwidth":10},{"bytes":"99-300","bandwidth":10}]}]}}`,
		`{"trafficshape":{"shapes":[{` + u + `,"throttles":[{"bytes":"0-100","bandwidth":10},{"bytes":"0-100","bandwidth":10}]}]}}`,
		`{"trafficshape":{"shapes":[{` + u + `,"throttles":[{"bytes":"-","bandwidth":10},{"bytes":"5-","bandwidth":10}]}]}}`,
		// malformed intervals
		`{"trafficshape":{"shapes":[{` + u + `,"throttles":[{"bytes":"","bandwidth":10}]}]}}`,
		`{"trafficshape":{"shapes":[{` + u + `,"throttles":[{"bytes":"10","bandwidth":10}]}]}}`,
		`{"trafficshape":{"shapes":[{` + u + `,"throttles":[{"bytes":"0 - 10","bandwidth":10}]}]}}`,
		`{"trafficshape":{"shapes":[{` + u + `,"throttles":[{"bytes":"0-1e3","bandwidth":10}]}]}}`,
		`{"trafficshape":{"shapes":[{` + u + `,"throttles":[{"bytes":"0-99999999999999999999","bandwidth":10}]}]}}`,
		`{"trafficshape":{"shapes":[{` + u + `,"throttles":[{"bytes":"10-5","bandwidth":10}]}]}}`,
		`{"trafficshape":{"shapes":[{` + u + `,"throttles":[{"bandwidth":10}]}]}}`,
		`{"trafficshape":{"shapes":[{` + u + `,"throttles":[{"bytes":"0-10"}]}]}}`,
		`{"trafficshape":{"shapes":[{` + u + `,"throttles":[{"bytes":"0-10","bandwidth":"10"}]}]}}`,
		// the second element of a list, the second shape
		`{"trafficshape":{"shapes":[{` + u + `,"halts":[{"byte":1,"duration":10,"count":1},{"byte":-2,"duration":10,"count":1}]}]}}`,
		`{"trafficshape":{"shapes":[{` + u + `,"halts":[{"byte":1,"duration":10,"count":1},null]}]}}`,
		`{"trafficshape":{"shapes":[{` + u + `,"close_connections":[{"byte":1,"count":1},{"byte":2,"count":0}]}]}}`,
		`{"trafficshape":{"shapes":[{` + u + `,"close_connections":[null]}]}}`,
		`{"trafficshape":{"shapes":[{` + u + `},{"url_regex":"b","throttles":[{"bytes":"0-10","bandwidth":-1}]}]}}`,
		`{"trafficshape":{"shapes":[{` + u + `},{"url_regex":"a[","close_connections":[{"byte":1,"count":1}]}]}}`,
		`{"trafficshape":{"shapes":[{` + u + `},{"url_regex":""}]}}`,
		`{"trafficshape":{"shapes":[{` + u + `,"max_global_bandwidth":-5,"close_connections":[{"byte":1,"count":1}]}]}}`,
		// negative defaults, each field; with and without valid shapes
		`{"trafficshape":{"default":{"bandwidth":{"down":-1}},"shapes":[]}}`,
		`{"trafficshape":{"default":{"bandwidth":{"up":100,"down":-1}},"shapes":[{` + u + `,"close_connections":[{"byte":7,"count":-1}]}]}}`,
		`{"trafficshape":{"default":{"bandwidth":{"up":-1,"down":100},"latency":5},"shapes":[{` + u + `,"close_connections":[{"byte":7,"count":-1}]}]}}`,
		`{"trafficshape":{"default":{"latency":-5},"shapes":[{` + u + `,"close_connections":[{"byte":7,"count":-1}]}]}}`,
		// wrong types
		`{"trafficshape":{"shapes":{}}}`,
		`{"trafficshape":[]}`,
		`{"trafficshape":{"shapes":[{` + u + `,"close_connections":[{"byte":"1","count":1}]}]}}`,
		`{"trafficshape":{"shapes":[{` + u + `,"halts":[{"byte":1.5,"duration":10,"count":1}]}]}}`,
		`{"trafficshape":null}`,
		``,
	} {
		out = append(out, scenario{Name: "invalid-config", Shapes: base, N: 600, Match: true, Conns: 1, Reconf: "rejected-before", Reconf2: b})
	}
	// a rejected configuration leaves a configuration with delays and a finite count as it was, too
	rich := one(shape{Regex: matchURL, Halts: []halt{{Byte: 50, Dur: 2000, Count: 1}}, Closes: []closeAct{{Byte: 300, Count: 2}}, Throttles: []throttle{{Bytes: "100-200", BW: 50}}})
	for _, b := range []string{
		`{"trafficshape":{"shapes":[{` + u + `,"throttles":[{"bytes":"50-200","bandwidth":10},{"bytes":"0-100","bandwidth":10}]}]}}`,
		`{"trafficshape":{"default":{"latency":700,"bandwidth":{"up":50,"down":50}},"shapes":[{` + u + `,"halts":[{"byte":1,"duration":10,"count":0}]}]}}`,
		`{"trafficshape":{"shapes":[{` + u + `},{"url_regex":"(("}]}}`,
	} {
		out = append(out, scenario{Name: "invalid-config-rich", Shapes: rich, N: 600, Match: true, Conns: 3, Reconf: "rejected-before", Reconf2: b})
	}
	out = append(out, tunnelScenarios(tier)...)
	return out
}

// runTunnel: a blind CONNECT tunnel through the shaped listener (no interception). Whatever the tunnel's target
// sends reaches the client byte for byte, and the other way round, whatever the default bandwidths are; the per-URL
// buckets created for the connection are released when it ends.
func runTunnel(sc scenario) (body func(), check func(r *vrt.Result) []finding) {
	var got, originGot []byte
	var cfgStatus int
	var clientErr string
	var clientDone bool
	var elapsed time.Duration
	var bucketsAfterCfg, bucketsAfterClose int
	countBuckets := func() int {
		n := 0
		for _, t := range vrt.Snapshot() {
			if !t.Done && strings.Contains(t.Label, "trafficshape.NewBucket") {
				n++
			}
		}
		return n
	}
	down := pattern(sc.N)
	up := pattern(sc.Up + 17)[17:]
	body = func() {
		got, originGot, clientErr, clientDone = nil, nil, "", false
		w := pworld.NewWorld()
		var tsl *trafficshape.Listener
		w.Wrap = func(l net.Listener) net.Listener {
			tsl = trafficshape.NewListener(l)
			return tsl
		}
		w.Proxy.SetDial(func(network, addr string) (net.Conn, error) {
			a, b := simnet.Pipe("proxy-up", "target")
			vrt.GoNamed("target", func() {
				buf := make([]byte, sc.Up)
				n, _ := io.ReadFull(b, buf)
				originGot = buf[:n]
				for off := 0; off < len(down); {
					end := len(down)
					if sc.Chunk > 0 && off+sc.Chunk < end {
						end = off + sc.Chunk
					}
					if _, err := b.Write(down[off:end]); err != nil {
						break
					}
					off = end
				}
				b.Close()
			})
			return a, nil
		})
		w.Respond = func(req *http.Request) (*http.Response, error) {
			return &http.Response{StatusCode: 200, Proto: "HTTP/1.1", ProtoMajor: 1, ProtoMinor: 1, Header: http.Header{"Content-Type": {"application/octet-stream"}}, Request: req, Body: io.NopCloser(bytes.NewReader(pattern(600))), ContentLength: 600}, nil
		}
		w.Start()
		vrt.WaitQuiescent()
		h := trafficshape.NewHandler(tsl)
		rec := httptest.NewRecorder()
		h.ServeHTTP(rec, httptest.NewRequest("POST", "http://martian.proxy/shape-traffic", strings.NewReader(configOf(sc))))
		cfgStatus = rec.Code
		vrt.Sleep(10 * time.Millisecond)
		bucketsAfterCfg = countBuckets()
		t := vrt.GoNamed("client0", func() {
			defer func() { clientDone = true; vrt.Bump() }()
			cl, err := w.Dial("c0")
			if err != nil {
				clientErr = err.Error()
				return
			}
			defer cl.C.Close()
			// (Seq: plain requests served on the connection before it is turned into a tunnel)
			for k, match := range sc.Seq {
				u := otherURL
				if match {
					u = matchURL
				}
				cl.Send("GET " + u + " HTTP/1.1\r\nHost: example\r\n\r\n")
				res, err := http.ReadResponse(cl.BR, &http.Request{Method: "GET"})
				if err != nil {
					clientErr = fmt.Sprintf("request %d before the tunnel: %v", k+1, err)
					return
				}
				if b, err := io.ReadAll(res.Body); err != nil || !bytes.Equal(b, pattern(600)) {
					clientErr = fmt.Sprintf("request %d before the tunnel: %d body bytes, %v", k+1, len(b), err)
					return
				}
			}
			t0 := vrt.Now()
			cl.Send("CONNECT example:443 HTTP/1.1\r\nHost: example:443\r\n\r\n")
			res, err := http.ReadResponse(cl.BR, &http.Request{Method: "CONNECT"})
			if err != nil || res.StatusCode != 200 {
				clientErr = fmt.Sprint("connect: ", err, res)
				return
			}
			if _, err := cl.C.Write(up); err != nil {
				clientErr = "write: " + err.Error()
				return
			}
			b, err := io.ReadAll(cl.BR)
			got = b
			if err != nil && !pworld.IsReset(err) {
				clientErr = "read: " + err.Error()
			}
			elapsed = vrt.Now() - t0
		})
		for dl := vrt.Now() + 30*time.Minute; !t.Done() && vrt.Now() < dl; {
			vrt.WaitQuiescent()
			if !t.Done() {
				vrt.Sleep(time.Second)
			}
		}
		vrt.WaitQuiescent()
		bucketsAfterClose = countBuckets()
		vrt.Log("tunnel: down=%d/%d up=%d/%d err=%q elapsed=%v cfg=%d buckets=%d/%d", len(got), sc.N, len(originGot), sc.Up, clientErr, elapsed, cfgStatus, bucketsAfterCfg, bucketsAfterClose)
	}
	check = func(r *vrt.Result) []finding {
		var out []finding
		add := func(sig, format string, a ...interface{}) { out = append(out, finding{sig, fmt.Sprintf(format, a...)}) }
		if r.Outcome != "ok" {
			add("outcome:"+r.Outcome+":tunnel", "execution ended with %s: %s", r.Outcome, firstLine(r.Panic))
			return out
		}
		if cfgStatus != 200 {
			add("valid_config_rejected", "configuration %s was answered %d", configOf(sc), cfgStatus)
			return out
		}
		if !clientDone {
			add("client_stuck:tunnel", "the tunnel's client never finished (virtual 30 min)")
			return out
		}
		if clientErr != "" {
			add("tunnel:failed", "%s", clientErr)
		}
		if !bytes.Equal(got, down) {
			add("tunnel:bytes_altered:to_client", "the client received %d bytes through the tunnel (prefix of what the target sent: %v), the target sent %d", len(got), bytes.HasPrefix(down, got), len(down))
		}
		if !bytes.Equal(originGot, up) {
			add("tunnel:bytes_altered:to_target", "the target received %d bytes through the tunnel, the client sent %d", len(originGot), len(up))
		}
		if sc.DefUp == 0 && sc.DefDown == 0 && bytes.Equal(got, down) && elapsed > 2*time.Duration(sc.Latency)*time.Millisecond+time.Second {
			add("tunnel:delayed", "the tunnel's bytes took %v of virtual time although no default bandwidth is configured (throttles and halts belong to responses whose URL matches)", elapsed)
		}
		if bucketsAfterClose > bucketsAfterCfg {
			add("buckets_leaked_after_close", "%d bucket drain threads created for connections are still alive after the connections were closed", bucketsAfterClose-bucketsAfterCfg)
		}
		return out
	}
	return
}

func tunnelScenarios(tier string) []scenario {
	var out []scenario
	sh := []shape{{Regex: "example", Closes: []closeAct{{Byte: 10, Count: -1}}, Throttles: []throttle{{Bytes: "0-", BW: 10}}}}
	for _, n := range []int{0, 1, 600, 5000, 40000} {
		for _, bw := range [][2]int64{{0, 0}, {500, 500}, {300, 4000}, {4000, 300}} {
			for _, ch := range []int{0, 7, 4096} {
				if bw[0] != 0 && n == 40000 || tier != "thorough" && (ch == 4096 || ch == 7 && n > 600) {
					continue
				}
				out = append(out, scenario{Name: "tunnel", Shapes: sh, N: n, Up: 700, Chunk: ch, DefUp: bw[0], DefDown: bw[1], Conns: 1})
			}
		}
	}
	out = append(out, scenario{Name: "tunnel", Shapes: sh, N: 600, Up: 9000, DefUp: 1000, DefDown: 1000, Conns: 1, Latency: 300})
	// the connection served shaped (and other) responses before it is turned into a tunnel: what those left behind
	// (offsets, pending actions, bandwidths) is not applied to the tunnel's bytes
	for _, seq := range [][]bool{{true}, {false, true}, {true, false}} {
		for _, sh2 := range [][]shape{
			{{Regex: matchURL, Closes: []closeAct{{Byte: 800, Count: -1}}}},
			{{Regex: matchURL, Halts: []halt{{Byte: 700, Dur: 5000, Count: -1}}, Throttles: []throttle{{Bytes: "500-", BW: 100}}}},
		} {
			out = append(out, scenario{Name: "tunnel", Shapes: sh2, N: 2000, Up: 700, Chunk: 500, Conns: 1, Seq: seq})
		}
	}
	return out
}
