// Extensions added by the audit (see AUDIT.md): the check's own frame writer (header blocks cut at arbitrary
// offsets, padded HEADERS / PUSH_PROMISE, priority sections whose parameters are all zero, extension frames,
// frames that share a write with the connection preface), pass-through stream processors, and a tap on the
// bytes the relay writes (wire-level clauses).
package main

import (
	"bytes"
	"encoding/binary"
	"fmt"
	"io"
	"net/url"
	"sort"
	"strings"

	"github.com/google/martian/v3/h2"
	"golang.org/x/net/http2"
	"golang.org/x/net/http2/hpack"

	hw "verif/checks/h2world"
)

// xspec is a frame written either by the shared endpoint (XT == "") or by the check's own writer.
type xspec struct {
	hw.Spec
	// XT selects the own writer: "block" (Spec.T is "headers" or "push"; Fields, Stream, EndStream, Prio/Dep/Weight/
	// Excl, Promise as in hw.Spec), "unknown" (an extension frame of type UType with ULen payload bytes),
	// "settings" (Settings as in hw.Spec, written by the own writer so that it can share a write with the preface),
	// "tablesize" (no frame: the own encoder changes the size of its dynamic table to Settings[0][1]),
	// "hold" (no frame: of what this endpoint writes from now on only the next ULen bytes reach the transport at once,
	// the rest stays in flight until "release": one write of the endpoint that the transport delivers in two pieces,
	// with other events of the history in between), "release" (the bytes held back are delivered).
	XT string `json:"xt,omitempty"`
	// Cuts are the offsets at which the encoded header block is cut into HEADERS/PUSH_PROMISE + CONTINUATION
	// fragments (clamped to the block length; equal offsets give empty fragments).
	Cuts []int `json:"cuts,omitempty"`
	// HPad > 0 sets the PADDED flag on the first frame of the block with HPad-1 bytes of padding.
	HPad int `json:"hpad,omitempty"`
	// PrioFlag sets the PRIORITY flag even when all priority parameters are zero (dependency 0, weight octet 0,
	// not exclusive), which x/net's Framer.WriteHeaders cannot express.
	PrioFlag bool  `json:"prioflag,omitempty"`
	UType    uint8 `json:"utype,omitempty"`
	UFlags   uint8 `json:"uflags,omitempty"`
	ULen     int   `json:"ulen,omitempty"`
}

func plain(specs ...hw.Spec) []xspec {
	out := make([]xspec, len(specs))
	for i, s := range specs {
		out[i] = xspec{Spec: s}
	}
	return out
}

// ownWriter encodes header blocks with its own HPACK encoder (one per endpoint and execution; an endpoint whose
// blocks are written by it must not also send blocks through the shared endpoint's encoder).
type ownWriter struct {
	enc  *hpack.Encoder
	buf  bytes.Buffer
	sent []hw.Event
	// holding: bytes written by the endpoint are in flight (round 8): pass more bytes go out now, held follows at "release"
	holding bool
	pass    int
	held    []byte
}

func newOwnWriter() *ownWriter {
	o := &ownWriter{}
	o.enc = hpack.NewEncoder(&o.buf)
	return o
}

func rawFrame(typ http2.FrameType, flags http2.Flags, stream uint32, payload []byte) []byte {
	b := make([]byte, 9, 9+len(payload))
	b[0], b[1], b[2] = byte(len(payload)>>16), byte(len(payload)>>8), byte(len(payload))
	b[3], b[4] = byte(typ), byte(flags)
	binary.BigEndian.PutUint32(b[5:], stream&0x7fffffff)
	return append(b, payload...)
}

func prioStr(dep uint32, weight uint8, excl bool) string {
	if dep == 0 && weight == 0 && !excl {
		return ""
	}
	return fmt.Sprintf("dep=%d,w=%d,x=%v", dep, weight, excl)
}

func cutBlock(b []byte, cuts []int) [][]byte {
	var out [][]byte
	prev := 0
	for _, c := range cuts {
		if c > len(b) {
			c = len(b)
		}
		if c < prev {
			c = prev
		}
		out = append(out, b[prev:c])
		prev = c
	}
	return append(out, b[prev:])
}

// frames renders x as wire bytes and returns the logical event a faithful relay delivers for it (nil for frames
// the statement does not oblige the relay to deliver).
func (o *ownWriter) frames(x xspec, tick int) ([]byte, *hw.Event) {
	switch x.XT {
	case "block":
		o.buf.Reset()
		for _, f := range x.Fields {
			o.enc.WriteField(hpack.HeaderField{Name: f[0], Value: f[1]})
		}
		block := append([]byte(nil), o.buf.Bytes()...)
		parts := cutBlock(block, x.Cuts)
		var flags http2.Flags
		var head, tail []byte
		if x.HPad > 0 {
			flags |= http2.FlagHeadersPadded // same bit for PUSH_PROMISE
			head = append(head, byte(x.HPad-1))
			tail = make([]byte, x.HPad-1)
		}
		if len(parts) == 1 {
			flags |= http2.FlagHeadersEndHeaders
		}
		ev := &hw.Event{T: x.T, Stream: x.Stream, Fields: x.Fields, Tick: tick}
		var out []byte
		if x.T == "push" {
			head = binary.BigEndian.AppendUint32(head, x.Promise)
			ev.Promise = x.Promise
			out = rawFrame(http2.FramePushPromise, flags, x.Stream, append(append(head, parts[0]...), tail...))
		} else {
			if x.Prio || x.PrioFlag {
				flags |= http2.FlagHeadersPriority
				dep := x.Dep
				if x.Excl {
					dep |= 1 << 31
				}
				head = binary.BigEndian.AppendUint32(head, dep)
				head = append(head, x.Weight)
				ev.Prio = prioStr(x.Dep, x.Weight, x.Excl)
			}
			if x.EndStream {
				flags |= http2.FlagHeadersEndStream
			}
			ev.EndStream = x.EndStream
			out = rawFrame(http2.FrameHeaders, flags, x.Stream, append(append(head, parts[0]...), tail...))
		}
		for i := 1; i < len(parts); i++ {
			var cf http2.Flags
			if i == len(parts)-1 {
				cf = http2.FlagContinuationEndHeaders
			}
			out = append(out, rawFrame(http2.FrameContinuation, cf, x.Stream, parts[i])...)
		}
		return out, ev
	case "tablesize":
		// the own encoder starts using a dynamic table of Settings[0][1] bytes (after its endpoint has received the
		// peer's SETTINGS_HEADER_TABLE_SIZE); it signals the change at the start of its next block (RFC 7541 4.2)
		o.enc.SetMaxDynamicTableSizeLimit(1 << 30)
		o.enc.SetMaxDynamicTableSize(x.Settings[0][1])
		return nil, nil
	case "settings":
		var p []byte
		for _, kv := range x.Settings {
			p = binary.BigEndian.AppendUint16(p, uint16(kv[0]))
			p = binary.BigEndian.AppendUint32(p, kv[1])
		}
		return rawFrame(http2.FrameSettings, 0, 0, p), &hw.Event{T: "settings", Settings: x.Settings, Tick: tick}
	case "unknown":
		p := make([]byte, x.ULen)
		for i := range p {
			p[i] = byte('A' + i%26)
		}
		return rawFrame(http2.FrameType(x.UType), http2.Flags(x.UFlags), x.Stream, p), nil
	}
	panic("c08: unknown xspec type " + x.XT)
}

// write sends x from e: own-writer frames go out as one raw write (honouring the endpoint's segmentation), the rest
// through the shared endpoint.
func (o *ownWriter) write(e *hw.Endpoint, x xspec, tick func() int) error {
	if x.XT == "" {
		return e.Write(x.Spec)
	}
	switch x.XT {
	case "hold":
		o.holding, o.pass = true, x.ULen
		return nil
	case "release":
		b := o.held
		o.holding, o.held = false, nil
		if len(b) == 0 {
			return nil
		}
		return e.Write(hw.Spec{T: "raw", Raw: b})
	}
	b, ev := o.frames(x, tick())
	if b == nil {
		return nil
	}
	if o.holding {
		// the endpoint has handed these bytes to its transport (the frame counts as sent, in this order); the transport
		// delivers the first o.pass of them now and the rest later
		now := b
		if len(now) > o.pass {
			now = b[:o.pass]
		}
		o.pass -= len(now)
		o.held = append(o.held, b[len(now):]...)
		b = now
	}
	if len(b) > 0 {
		if err := e.Write(hw.Spec{T: "raw", Raw: b}); err != nil {
			return err
		}
	}
	if ev != nil {
		o.sent = append(o.sent, *ev)
	}
	return nil
}

// allSent merges what the shared endpoint recorded with what the own writer sent, in sending order.
func allSent(e *hw.Endpoint, o *ownWriter) []hw.Event {
	var out []hw.Event
	for _, ev := range e.Sent {
		if ev.T != "raw" {
			out = append(out, ev)
		}
	}
	if o != nil {
		out = append(out, o.sent...)
	}
	sort.SliceStable(out, func(i, j int) bool { return out[i].Tick < out[j].Tick })
	return out
}

// dropUnknown removes extension frames from a receiver's list: the statement neither demands nor forbids that the
// relay passes them on (RFC 7540 section 5.5: they are hop-by-hop unless the extension says otherwise).
func dropUnknown(evs []hw.Event) []hw.Event {
	var out []hw.Event
	for _, ev := range evs {
		if !strings.HasPrefix(ev.T, "unknown-") {
			out = append(out, ev)
		}
	}
	return out
}

// passProc forwards every call to the next processor of the chain.
type passProc struct{ sink h2.Processor }

func (p passProc) Data(d []byte, es bool) error { return p.sink.Data(d, es) }
func (p passProc) Header(h []hpack.HeaderField, es bool, prio http2.PriorityParam) error {
	return p.sink.Header(h, es, prio)
}
func (p passProc) Priority(prio http2.PriorityParam) error { return p.sink.Priority(prio) }
func (p passProc) RSTStream(c http2.ErrCode) error         { return p.sink.RSTStream(c) }
func (p passProc) PushPromise(id uint32, h []hpack.HeaderField) error {
	return p.sink.PushPromise(id, h)
}

// factories builds a processor chain from a comma separated list of kinds: "identity" (pass-through processors
// for both directions), "c2s" / "s2c" (a pass-through processor for that direction only, nil for the other, which
// the relay must bypass), "nil" (nil for both).
func factories(list string) []h2.StreamProcessorFactory {
	if list == "" {
		return nil
	}
	var out []h2.StreamProcessorFactory
	for _, kind := range strings.Split(list, ",") {
		kind := kind
		out = append(out, func(_ *url.URL, sinks *h2.Processors) (h2.Processor, h2.Processor) {
			var c, s h2.Processor
			if kind == "identity" || kind == "c2s" {
				c = passProc{sinks.ForDirection(h2.ClientToServer)}
			}
			if kind == "identity" || kind == "s2c" {
				s = passProc{sinks.ForDirection(h2.ServerToClient)}
			}
			return c, s
		})
	}
	return out
}

// wireHeaders parses the bytes the relay wrote toward one endpoint and returns, per stream, for every HEADERS
// frame whether it carried a priority section and with which parameters.
type wireHdr struct {
	Stream  uint32
	HasPrio bool
	Prio    http2.PriorityParam
}

func wireHeaders(b []byte, skipPreface bool) ([]wireHdr, error) {
	if skipPreface && bytes.HasPrefix(b, []byte(hw.Preface)) {
		b = b[len(hw.Preface):]
	}
	fr := http2.NewFramer(nil, bytes.NewReader(b))
	fr.SetMaxReadFrameSize(1<<24 - 1)
	fr.AllowIllegalReads = true
	var out []wireHdr
	for {
		f, err := fr.ReadFrame()
		if err != nil {
			if err == io.EOF {
				return out, nil
			}
			return out, err
		}
		if h, ok := f.(*http2.HeadersFrame); ok {
			out = append(out, wireHdr{h.StreamID, h.HasPriority(), h.Priority})
		}
	}
}

// mirrorLen returns the length of the header block a fresh HPACK encoder (the relay's, for the first block of a
// direction) produces for fields.
func mirrorLen(fields [][2]string) int {
	var buf bytes.Buffer
	enc := hpack.NewEncoder(&buf)
	for _, f := range fields {
		enc.WriteField(hpack.HeaderField{Name: f[0], Value: f[1]})
	}
	return buf.Len()
}

// fieldsOfLen appends to base a field whose value is sized so that a fresh encoder produces a block of exactly n bytes.
func fieldsOfLen(base [][2]string, n int) [][2]string {
	for v := n - mirrorLen(base) - 16; v <= n; v++ {
		if v < 0 {
			continue
		}
		fs := append(append([][2]string{}, base...), [2]string{"x-huge", strings.Repeat("~", v)})
		if mirrorLen(fs) == n {
			return fs
		}
	}
	panic(fmt.Sprintf("c08: no field size gives a %d-byte block", n))
}
