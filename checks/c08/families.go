// Families added by the audit (AUDIT.md section 3).
package main

import (
	"fmt"
	"strings"

	"golang.org/x/net/http2"

	hw "verif/checks/h2world"
)

// extClasses are the scenario classes of the audit's families; they are part of the violation signature.
var extClasses = map[string]bool{
	"table_size_inflight": true, "table_size_raised": true, "extension_frame": true, "preface_joined": true, "proc": true, "cuts": true, "empty_headers_fragment": true,
	"padded_block": true, "grant_position": true, "both_blocked": true, "many_streams": true, "block_size": true,
	"settings_contents": true, "field_lists": true, "short_reads": true, "zero_priority": true,
	"table_size_raised_lowered_inflight": true, "max_frame_size_lowered_queued": true, // round 8
	"max_frame_size_lowered_block_queued": true, // round 9
}

func hdr(stream uint32, fields [][2]string, es bool) hw.Spec {
	return hw.Spec{T: "headers", Stream: stream, Fields: fields, EndStream: es}
}

func data(stream uint32, n int, es bool) hw.Spec {
	return hw.Spec{T: "data", Stream: stream, Len: n, EndStream: es}
}

func settings(kv ...[2]uint32) hw.Spec { return hw.Spec{T: "settings", Settings: kv} }

func cat(lists ...[][2]string) [][2]string {
	var out [][2]string
	for _, l := range lists {
		out = append(out, l...)
	}
	return out
}

func extScenarios(tier string, base []scenario) []scenario {
	var out []scenario
	out = append(out, tableSizeInFlight()...)
	out = append(out, extensionFrames()...)
	out = append(out, prefaceJoined()...)
	out = append(out, procFamily(tier, base)...)
	out = append(out, cutFamily()...)
	out = append(out, grantPositions(tier)...)
	out = append(out, blockSizes(tier)...)
	out = append(out, contentsFamily()...)
	out = append(out, shortReads()...)
	out = append(out, zeroPriority()...)
	out = append(out, tableSizeRaisedLoweredInFlight()...)
	out = append(out, maxFrameSizeLoweredQueued()...)
	out = append(out, maxFrameSizeLoweredBlockQueued()...)
	return out
}

// maxFrameSizeLoweredQueued (round 8): the receiver has raised SETTINGS_MAX_FRAME_SIZE (65536), the sender uses it
// (one DATA frame of N bytes), the receiver's stream window (0) keeps the frame queued in the relay, the receiver
// LOWERS its maximum frame size (16384 / 20000) and only then grants credit: the relay has to cut the queued payload
// again. N sweeps the multiples of the lowered size and their neighbours (k*max-1, k*max, k*max+1 for k = 1..3) and
// 65535; END_STREAM on the DATA frame or on trailers behind it; both directions. Judged by the same clauses as
// every scenario: the same DATA bytes, END_STREAM at the same position, no frame above the receiver's (last
// announced = lowered) maximum frame size.
func maxFrameSizeLoweredQueued() []scenario {
	var out []scenario
	for _, max := range []int{16384, 20000} {
		sizes := []int{65535} // the largest frame the default connection window (65535, never changed here) covers
		for k := 1; k <= 3; k++ {
			sizes = append(sizes, k*max-1, k*max, k*max+1)
		}
		for _, n := range sizes {
			for _, end := range []string{"es", "trailers"} {
				for _, dir := range []string{"c2s", "s2c"} {
					msg := []hw.Spec{data(1, n, end == "es")}
					if end == "trailers" {
						msg = append(msg, hdr(1, trailerFields, true))
					}
					raise := settings([2]uint32{4, 0}, [2]uint32{5, 65536})
					lower := settings([2]uint32{5, uint32(max)})
					grant := hw.Spec{T: "wu", Stream: 1, Incr: uint32(n)}
					var steps []step
					if dir == "c2s" {
						steps = []step{{Client: []hw.Spec{settings()}, Server: []hw.Spec{raise}},
							{Client: append([]hw.Spec{hdr(1, reqFields, false)}, msg...)},
							{Server: []hw.Spec{lower}}, {Server: []hw.Spec{grant}},
							{Server: []hw.Spec{hdr(1, resFields, true)}}}
					} else {
						steps = []step{{Client: []hw.Spec{raise}, Server: []hw.Spec{settings()}},
							{Client: []hw.Spec{hdr(1, reqFields, true)}},
							{Server: append([]hw.Spec{hdr(1, resFields, false)}, msg...)},
							{Client: []hw.Spec{lower}}, {Client: []hw.Spec{grant}}}
					}
					out = append(out, scenario{Fam: "grants", Class: "max_frame_size_lowered_queued", Bound: 0, Steps: steps,
						Name: fmt.Sprintf("%s: receiver with max frame size 65536 and window 0, one %d-byte DATA frame (end: %s) queued, the receiver lowers its max frame size to %d, then grants", dir, n, end, max)})
				}
			}
		}
	}
	return out
}

// tableSizeRaisedLoweredInFlight (round 8) combines the two table size families: endpoint A has RAISED its header
// table (8192 / 65536), endpoint B has received that and is using it, and A LOWERS it again (4096 / 0) while blocks
// that B encoded against the raised size are in flight toward the relay - so the relay handles A's second SETTINGS
// before it reads them. B is entitled to the raised size until it has received (and acknowledged) the second
// SETTINGS (RFC 7540 section 6.5.3, RFC 7541 sections 4.2 and 6.3), so A must receive the same field lists.
//   - leading: the blocks in flight are B's first ones after the raise, the first of them starts with the dynamic
//     table size update to the raised value; otherwise the update has passed the relay already, 6400 bytes of
//     table are in use and the blocks in flight refer to entries beyond the first 4096 bytes;
//   - how "in flight" comes about: A's SETTINGS and B's blocks are written concurrently (orders explored as schedule
//     deviations), or B's single write is delivered by the transport in two pieces (10 bytes = frame header + the
//     first octet of the block, or 3000 bytes) with A's SETTINGS passing the relay in between: on every schedule;
//   - both directions. Afterwards B acknowledges, signals the lowered size in-band and sends the fields again.
func tableSizeRaisedLoweredInFlight() []scenario {
	var out []scenario
	var many [][2]string
	for i := 0; i < 50; i++ {
		many = append(many, [2]string{fmt.Sprintf("x-g-%02d", i), strings.Repeat(string(rune('a'+i%26)), 60) + strings.Repeat("~", 30)}) // 128-byte entries: 6400 bytes of table
	}
	blk := func(stream uint32, f [][2]string) xspec {
		return xspec{XT: "block", Spec: hw.Spec{T: "headers", Stream: stream, Fields: f, EndStream: true}}
	}
	tsz := func(v uint32) xspec { return xspec{XT: "tablesize", Spec: hw.Spec{Settings: [][2]uint32{{1, v}}}} }
	ack := xspec{Spec: hw.Spec{T: "settings_ack"}}
	for _, up := range []uint32{8192, 65536} {
		for _, down := range []uint32{4096, 0} {
			for _, dir := range []string{"s2c", "c2s"} {
				a, b := "client", "server"
				fields := cat(resFields[:1], many)
				if dir == "c2s" {
					a, b = "server", "client"
					fields = cat(reqFields[:4], many)
				}
				// stA: a step of the announcing endpoint (own writer), stB: a step of the sending endpoint
				stA := func(xs ...xspec) step {
					if a == "client" {
						return step{XC: xs}
					}
					return step{XS: xs}
				}
				stB := func(xs ...xspec) step {
					if b == "client" {
						return step{XC: xs}
					}
					return step{XS: xs}
				}
				both := func(xa, xb []xspec) step {
					if a == "client" {
						return step{XC: xa, XS: xb}
					}
					return step{XC: xb, XS: xa}
				}
				lower := xspec{XT: "settings", Spec: hw.Spec{Settings: [][2]uint32{{1, down}}}} // own writer: A's decoder keeps following the in-band updates
				for _, leading := range []bool{true, false} {
					for _, hold := range []int{0, 10, 3000} {
						steps := []step{settingsStep()}
						if a == "client" {
							steps = append(steps, step{Client: []hw.Spec{hdr(1, reqFields, true), hdr(3, reqFields, true), hdr(5, reqFields, true), hdr(7, reqFields, true), hdr(9, reqFields, true)}},
								step{Client: []hw.Spec{settings([2]uint32{1, up})}})
						} else {
							steps = append(steps, step{Server: []hw.Spec{settings([2]uint32{1, up})}})
						}
						var inflight []xspec
						what := "blocks that start with the size update to it and fill 6400 bytes of table"
						if leading {
							steps = append(steps, stB(ack))
							inflight = []xspec{tsz(up), blk(1, fields), blk(3, fields)}
						} else {
							steps = append(steps, stB(ack, tsz(up), blk(1, fields)))
							inflight = []xspec{blk(3, fields), blk(5, fields[:len(fields)-25])}
							what = "blocks that refer to the oldest of 6400 bytes of table entries"
						}
						how := "written concurrently"
						if hold == 0 {
							steps = append(steps, both([]xspec{lower}, inflight))
						} else {
							how = fmt.Sprintf("the transport delivers %d bytes of them before and the rest after", hold)
							steps = append(steps, stB(append([]xspec{{XT: "hold", ULen: hold}}, inflight...)...), stA(lower), stB(xspec{XT: "release"}))
						}
						steps = append(steps, stB(ack, tsz(down), blk(7, fields), blk(9, fields)))
						if a == "server" {
							steps = append(steps, step{Server: []hw.Spec{hdr(1, resFields, true), hdr(9, resFields, true)}})
						}
						out = append(out, scenario{Fam: "hpack", Class: "table_size_raised_lowered_inflight", Bound: 1, Steps: steps, NoDeepen: hold != 0, // thorough deepens the concurrent variant only (the two-piece histories need no deviation)
							Name: fmt.Sprintf("the %s has raised its header table to %d and lowers it to %d while the %s's %s are in flight (%s)", a, up, down, b, what, how)})
					}
				}
			}
		}
	}
	return out
}

// tableSizeInFlight: an endpoint changes SETTINGS_HEADER_TABLE_SIZE while the other endpoint, which has not seen
// that SETTINGS frame yet, sends header blocks encoded against the table size in force so far (RFC 7541 section
// 4.2: the encoder signals the change at the start of the first block after it has received the setting; until then
// its blocks use the old table). The announcing endpoint writes SETTINGS through the own writer, so its decoder keeps
// following the in-band size updates like a real decoder (the shared endpoint shrinks its decoder at once, which is
// only right when nothing is in flight).
func tableSizeInFlight() []scenario {
	var out []scenario
	fa := [][2]string{{":status", "200"}, {"x-one", "first response"}, {"x-two", "second value"}}
	fq := [][2]string{{":method", "GET"}, {":scheme", "https"}, {":path", "/a"}, {"x-q", "some request field"}}
	for _, ts := range []uint32{0, 64} {
		// client lowers while responses are in flight
		out = append(out, scenario{Fam: "hpack", Name: fmt.Sprintf("the client lowers its header table to %d while the server sends a response block that refers to table entries", ts), Class: "table_size_inflight", Bound: 1,
			Steps: []step{settingsStep(),
				{Client: []hw.Spec{hdr(1, reqFields, true), hdr(3, reqFields, true), hdr(5, reqFields, true)}},
				{Server: []hw.Spec{hdr(1, fa, true)}},
				{XC: []xspec{{XT: "settings", Spec: hw.Spec{Settings: [][2]uint32{{1, ts}}}}}, Server: []hw.Spec{hdr(3, fa, true)}},
				{Server: []hw.Spec{{T: "settings_ack"}, hdr(5, fa, true)}},
			}})
		// mirror: server lowers while requests are in flight
		out = append(out, scenario{Fam: "hpack", Name: fmt.Sprintf("the server lowers its header table to %d while the client sends a request block that refers to table entries", ts), Class: "table_size_inflight", Bound: 1,
			Steps: []step{settingsStep(),
				{Client: []hw.Spec{hdr(1, fq, true)}},
				{XS: []xspec{{XT: "settings", Spec: hw.Spec{Settings: [][2]uint32{{1, ts}}}}}, Client: []hw.Spec{hdr(3, fq, true)}},
				{Client: []hw.Spec{{T: "settings_ack"}, hdr(5, fq, true)}},
				{Server: []hw.Spec{hdr(1, fa, true), hdr(3, fa, true), hdr(5, fa, true)}},
			}})
	}
	// raised: the announcing endpoint allows a larger table, the sender (own encoder, which really uses it) signals
	// the new size in-band, fills more than 4096 bytes of table and refers to the oldest entries; then the table is
	// lowered again (announced, acknowledged, signalled in-band) and the same fields are sent once more
	var many [][2]string
	for i := 0; i < 50; i++ {
		many = append(many, [2]string{fmt.Sprintf("x-f-%02d", i), strings.Repeat(string(rune('A'+i%26)), 60) + strings.Repeat("~", 30)}) // 128-byte entries: 6400 bytes of table
	}
	blk := func(stream uint32, f [][2]string) xspec {
		return xspec{XT: "block", Spec: hw.Spec{T: "headers", Stream: stream, Fields: f, EndStream: true}}
	}
	tsz := func(v uint32) xspec { return xspec{XT: "tablesize", Spec: hw.Spec{Settings: [][2]uint32{{1, v}}}} }
	for _, up := range []uint32{8192, 65536} {
		for _, down := range []uint32{0, 4096} {
			rs := cat(resFields[:1], many)
			out = append(out, scenario{Fam: "hpack", Name: fmt.Sprintf("the client raises its header table to %d, the server fills and refers to 6400 bytes of table, then the client lowers it to %d", up, down), Class: "table_size_raised",
				Steps: []step{settingsStep(),
					{Client: []hw.Spec{hdr(1, reqFields, true), hdr(3, reqFields, true), hdr(5, reqFields, true), hdr(7, reqFields, true), hdr(9, reqFields, true)}},
					{Client: []hw.Spec{settings([2]uint32{1, up})}},
					{XS: []xspec{{Spec: hw.Spec{T: "settings_ack"}}, tsz(up), blk(1, rs), blk(3, rs)}},
					{XS: []xspec{blk(5, rs)}},
					{Client: []hw.Spec{settings([2]uint32{1, down})}},
					{XS: []xspec{{Spec: hw.Spec{T: "settings_ack"}}, tsz(down), blk(7, rs), blk(9, rs)}},
				}})
			rq := cat(reqFields[:4], many)
			out = append(out, scenario{Fam: "hpack", Name: fmt.Sprintf("the server raises its header table to %d, the client fills and refers to 6400 bytes of table, then the server lowers it to %d", up, down), Class: "table_size_raised",
				Steps: []step{settingsStep(),
					{Server: []hw.Spec{settings([2]uint32{1, up})}},
					{XC: []xspec{{Spec: hw.Spec{T: "settings_ack"}}, tsz(up), blk(1, rq), blk(3, rq)}},
					{XC: []xspec{blk(5, rq)}},
					{Server: []hw.Spec{settings([2]uint32{1, down})}},
					{XC: []xspec{{Spec: hw.Spec{T: "settings_ack"}}, tsz(down), blk(7, rq), blk(9, rq)}},
					{Server: []hw.Spec{hdr(1, resFields, true), hdr(9, resFields, true)}},
				}})
		}
	}
	// the sender is still using the small table when the raise passes the relay (it has not read the SETTINGS), and
	// only later switches to the large one
	out = append(out, scenario{Fam: "hpack", Name: "the client raises its header table to 8192 while the server sends blocks against the 4096-byte table, then the server switches", Class: "table_size_raised", Bound: 1,
		Steps: []step{settingsStep(),
			{Client: []hw.Spec{hdr(1, reqFields, true), hdr(3, reqFields, true), hdr(5, reqFields, true), hdr(7, reqFields, true)}},
			{XS: []xspec{blk(1, cat(resFields[:1], many))}},
			{Client: []hw.Spec{settings([2]uint32{1, 8192})}, XS: []xspec{blk(3, cat(resFields[:1], many[20:]))}},
			{XS: []xspec{{Spec: hw.Spec{T: "settings_ack"}}, tsz(8192), blk(5, cat(resFields[:1], many)), blk(7, cat(resFields[:1], many))}},
		}})
	// the same without relying on the schedule: the server has stopped reading, so it cannot have seen the SETTINGS
	out = append(out, scenario{Fam: "hpack", Name: "stalled server: the client lowers its header table to 0, the server (which has not read it) sends a block that refers to table entries, then resumes", Class: "table_size_inflight", Stall: "server",
		Steps: []step{
			{Client: []hw.Spec{{T: "settings"}}, Server: []hw.Spec{{T: "settings"}, hdr(1, fa, true)}},
			{XC: []xspec{{XT: "settings", Spec: hw.Spec{Settings: [][2]uint32{{1, 0}}}}}},
			{Server: []hw.Spec{hdr(3, fa, true)}},
			{Resume: true},
			{Server: []hw.Spec{{T: "settings_ack"}, hdr(5, fa, true)}},
		}})
	return out
}

// extensionFrames: frames of a type RFC 7540 does not define (ALTSVC 0x0a, ORIGIN 0x0c, an unassigned type) are
// valid on any connection (section 4.1 / 5.5: implementations MUST ignore and discard unknown types); everything
// else must still be delivered.
func extensionFrames() []scenario {
	var out []scenario
	for _, v := range []struct {
		who    string
		typ    uint8
		flags  uint8
		stream uint32
		n      int
	}{{"server", 0x0a, 0, 0, 24}, {"server", 0x0c, 0, 0, 16}, {"server", 0x0a, 0, 1, 20}, {"client", 0xfe, 0xff, 0, 0}, {"client", 0x0b, 0, 1, 5}} {
		u := xspec{XT: "unknown", UType: v.typ, UFlags: v.flags, ULen: v.n, Spec: hw.Spec{Stream: v.stream}}
		sc := scenario{Fam: "misc", Name: fmt.Sprintf("extension frame type 0x%02x flags 0x%02x on stream %d (%d bytes) from the %s in the middle of an exchange", v.typ, v.flags, v.stream, v.n, v.who), Class: "extension_frame"}
		if v.who == "server" {
			sc.Steps = []step{settingsStep(),
				{Client: []hw.Spec{hdr(1, reqFields, true), hdr(3, reqFields, true)}},
				{XS: append(append(plain(hdr(1, resFields, false), data(1, 4, false)), u), plain(data(1, 3, true), hdr(3, resFields, true), hw.Spec{T: "ping", Ping: "pingpong"})...)},
				{Client: []hw.Spec{hdr(5, reqFields, true)}},
			}
		} else {
			sc.Steps = []step{settingsStep(),
				{XC: append(append(plain(hdr(1, reqFields, false), data(1, 4, false)), u), plain(data(1, 3, true), hdr(3, reqFields, true), hw.Spec{T: "ping", Ping: "pingpong"})...)},
				{Server: []hw.Spec{hdr(1, resFields, true), hdr(3, resFields, true)}},
			}
		}
		out = append(out, sc)
	}
	return out
}

// prefaceJoined: the client's first frames arrive in the same segment as the connection preface (what every real
// client does: preface, SETTINGS and often the first request go out in one write).
func prefaceJoined() []scenario {
	var out []scenario
	blk := func(stream uint32, es bool) xspec {
		return xspec{XT: "block", Spec: hw.Spec{T: "headers", Stream: stream, Fields: reqFields, EndStream: es}}
	}
	for vi, join := range [][]xspec{
		{{XT: "settings"}},
		{{XT: "settings", Spec: hw.Spec{Settings: [][2]uint32{{3, 100}, {4, 1 << 20}}}}, blk(1, true)},
		{{XT: "settings"}, blk(1, false), blk(3, true)},
	} {
		out = append(out, scenario{Fam: "segment", Name: fmt.Sprintf("preface and the client's first frames in one write (variant %d)", vi), Class: "preface_joined", PrefaceJoin: join, Bound: 1,
			Steps: []step{
				{Server: []hw.Spec{{T: "settings"}}},
				{XC: []xspec{blk(7, true)}},
				{Server: []hw.Spec{hdr(1, resFields, true), hdr(7, resFields, true)}},
			}})
	}
	return out
}

// procFamily re-runs a cross-section of every existing family with pass-through stream processors configured
// (h2.Config.StreamProcessorFactories): one identity factory, a factory returning nil for both directions (the relay
// must bypass it), one-directional ones, and chains of two.
func procFamily(tier string, base []scenario) []scenario {
	procs := []string{"identity", "nil", "c2s", "s2c", "identity,identity", "c2s,s2c", "nil,identity", "s2c,nil"}
	every := map[string]int{"lifecycle": 6, "framesize": 4, "duplex": 3, "interleave": 6, "segment": 6, "window": 2, "burst": 6, "misc": 1, "hpack": 2, "interleave3": 1 << 30}
	if tier == "thorough" {
		every = map[string]int{"lifecycle": 3, "framesize": 2, "duplex": 2, "interleave": 4, "segment": 3, "window": 2, "burst": 6, "misc": 1, "hpack": 2, "interleave3": 1 << 30}
	}
	seen := map[string]int{}
	var out []scenario
	k := 0
	for _, sc := range base {
		seen[sc.Fam]++
		if (seen[sc.Fam]-1)%every[sc.Fam] != 0 {
			continue
		}
		if strings.HasPrefix(sc.Name, "push promise frags=2") || strings.HasPrefix(sc.Name, "push promise frags=3") {
			continue // known finding of the pinned framer, independent of processors
		}
		c := sc
		c.Proc = procs[k%len(procs)]
		k++
		switch sc.Fam {
		case "window", "interleave", "hpack":
			if c.Bound < 1 {
				c.Bound = 1
			}
		}
		c.Name = "processors[" + c.Proc + "] " + sc.Fam + ": " + sc.Name
		c.NoDeepen = sc.NoDeepen || sc.Fam == "burst"
		c.Fam, c.Class = "proc", "proc"
		out = append(out, c)
	}
	return out
}

// cutFamily: header blocks cut into HEADERS + CONTINUATION at every byte offset (including offsets that leave the
// first or the last fragment empty and cuts with an empty CONTINUATION in the middle), one stream per cut within one
// connection, so that every block but the first meets the reassembly state the previous fragmented block left
// behind; with and without a priority section; with the PADDED flag on HEADERS and PUSH_PROMISE (pad length octet
// alone, one byte, 255 bytes).
func cutFamily() []scenario {
	var out []scenario
	newField := func(i int) [2]string {
		return [2]string{fmt.Sprintf("x-cut-%d", i), strings.Repeat(string(rune('a'+i%26)), 10+i%7)}
	}
	type variant struct {
		prio bool
		pad  int
	}
	for _, v := range []variant{{false, 0}, {true, 0}, {false, 1}, {true, 2}, {false, 256}} {
		for _, dir := range []string{"c2s", "s2c"} {
			base := reqFields[:3]
			if dir == "s2c" {
				base = resFields[:1]
			}
			var xs []xspec
			var opened []hw.Spec
			i := 0
			add := func(cuts []int) {
				stream := uint32(2*i + 1)
				x := xspec{XT: "block", Cuts: cuts, HPad: v.pad, Spec: hw.Spec{T: "headers", Stream: stream, Fields: cat(base, [][2]string{newField(i)}), EndStream: i%2 == 0, Prio: v.prio, Dep: uint32(2 * (i / 2)), Weight: uint8(10 + i)}}
				xs = append(xs, x)
				if i%2 == 1 {
					// the stream goes on: DATA, then trailers that are cut as well
					xs = append(xs, xspec{Spec: data(stream, 3, false)})
					tc := append([]int(nil), cuts...)
					for j := range tc {
						tc[j] /= 2
					}
					xs = append(xs, xspec{XT: "block", Cuts: tc, HPad: v.pad, Spec: hw.Spec{T: "headers", Stream: stream, Fields: cat(trailerFields[:1], [][2]string{newField(1000 + i)}), EndStream: true}})
				}
				opened = append(opened, hdr(stream, reqFields, true))
				i++
			}
			// offset 0 (an empty first fragment) is a family of its own below: the pinned framer rejects it
			for off := 1; off <= 30; off++ {
				add([]int{off})
			}
			for _, c := range [][]int{{5, 5}, {3, 9}, {1, 1000}, {1000, 1000}, {1, 2, 3, 4}, {2, 2, 2}} {
				add(c)
			}
			name := fmt.Sprintf("%s header blocks cut at every offset 1..30 and with empty CONTINUATION frames, one stream per cut, priority=%v, padded=%d", dir, v.prio, v.pad)
			cls := "cuts"
			if v.pad > 0 {
				cls = "padded_block"
			}
			if dir == "c2s" {
				out = append(out, scenario{Fam: "cuts", Name: name, Class: cls, Steps: []step{settingsStep(), {XC: xs}}})
			} else {
				out = append(out, scenario{Fam: "cuts", Name: name, Class: cls, Steps: []step{settingsStep(), {Client: opened}, {XS: xs}}})
			}
		}
	}
	// HEADERS frames whose header block fragment is empty: the block starts in the CONTINUATION, or is empty altogether
	// (trailers without fields)
	for _, dir := range []string{"c2s", "s2c"} {
		for vi, xs := range [][]xspec{
			{{XT: "block", Cuts: []int{0}, Spec: hw.Spec{T: "headers", Stream: 1, Fields: cat(resFields[:1], [][2]string{newField(1)}), EndStream: true}}},
			{{XT: "block", Spec: hw.Spec{T: "headers", Stream: 1, Fields: cat(resFields[:1], [][2]string{newField(1)})}}, {Spec: data(1, 3, false)}, {XT: "block", Spec: hw.Spec{T: "headers", Stream: 1, EndStream: true}}},
		} {
			what := []string{"the whole block in the CONTINUATION", "empty trailer block"}[vi]
			if dir == "c2s" {
				out = append(out, scenario{Fam: "cuts", Name: "c2s HEADERS frame with an empty header block fragment: " + what, Class: "empty_headers_fragment", Steps: []step{settingsStep(), {XC: xs}, {Client: nil, XC: []xspec{{XT: "block", Spec: hw.Spec{T: "headers", Stream: 3, Fields: reqFields, EndStream: true}}}}}})
			} else {
				out = append(out, scenario{Fam: "cuts", Name: "s2c HEADERS frame with an empty header block fragment: " + what, Class: "empty_headers_fragment", Steps: []step{settingsStep(), {Client: []hw.Spec{hdr(1, reqFields, true), hdr(3, reqFields, true)}}, {XS: xs}, {XS: []xspec{{XT: "block", Spec: hw.Spec{T: "headers", Stream: 3, Fields: resFields, EndStream: true}}}}}})
			}
		}
	}
	// padded PUSH_PROMISE (no continuation: the pinned framer rejects PUSH_PROMISE + CONTINUATION, a known finding)
	var xs []xspec
	for i, pad := range []int{0, 1, 2, 256} {
		xs = append(xs, xspec{XT: "block", HPad: pad, Spec: hw.Spec{T: "push", Stream: 1, Promise: uint32(2 + 2*i), Fields: cat(reqFields[:4], [][2]string{newField(i)})}})
	}
	xs = append(xs, xspec{XT: "block", Spec: hw.Spec{T: "headers", Stream: 1, Fields: resFields, EndStream: true}})
	out = append(out, scenario{Fam: "cuts", Name: "padded PUSH_PROMISE frames (pad 0, pad length octet alone, 1, 255)", Class: "padded_block", Steps: []step{settingsStep(), {Client: []hw.Spec{hdr(1, reqFields, true)}}, {XS: xs}}})
	return out
}

// grantPositions: the position of the receiver's grant in the history is enumerated. One sender script - stream 1
// HEADERS, DATA(5), trailers with new fields, stream 3 HEADERS repeating those fields, stream 5 HEADERS - against a
// receiver whose initial window is 0; the receiver's grant (a stream WINDOW_UPDATE, a SETTINGS_INITIAL_WINDOW_SIZE
// raise, or two partial WINDOW_UPDATEs) is placed after each prefix of the script, so the DATA is blocked for zero to
// four further frames. Plus: both directions blocked at once, eight streams released in reverse order, release by
// the connection window and by SETTINGS.
func grantPositions(tier string) []scenario {
	var out []scenario
	f3 := cat(reqFields[:4], trailerFields)
	r3 := cat(resFields[:1], trailerFields)
	for _, dir := range []string{"c2s", "s2c"} {
		var script []hw.Spec
		var pre []step
		snd := func(s hw.Spec) step { return step{Client: []hw.Spec{s}} }
		rcv := func(s ...hw.Spec) step { return step{Server: s} }
		if dir == "c2s" {
			script = []hw.Spec{hdr(1, reqFields, false), data(1, 5, false), hdr(1, trailerFields, true), hdr(3, f3, true), hdr(5, f3, true)}
			pre = []step{{Client: []hw.Spec{settings()}, Server: []hw.Spec{settings([2]uint32{4, 0})}}}
		} else {
			snd = func(s hw.Spec) step { return step{Server: []hw.Spec{s}} }
			rcv = func(s ...hw.Spec) step { return step{Client: s} }
			script = []hw.Spec{hdr(1, resFields, false), data(1, 5, false), hdr(1, trailerFields, true), hdr(3, r3, true), hdr(5, r3, true)}
			pre = []step{{Client: []hw.Spec{settings([2]uint32{4, 0})}, Server: []hw.Spec{settings()}},
				{Client: []hw.Spec{hdr(1, reqFields, true), hdr(3, reqFields, true), hdr(5, reqFields, true)}}}
		}
		type grant struct {
			name string
			at   []int // position (number of script frames already sent) of each part
			spec []hw.Spec
			conn bool // the connection window (3 bytes left after 4 x 16383 bytes on stream 7) blocks instead of the stream window
		}
		var used []hw.Spec
		for i := 0; i < 4; i++ {
			used = append(used, data(7, 16383, false))
		}
		preConn := []step{{Client: []hw.Spec{settings()}, Server: []hw.Spec{settings()}}, {Client: append([]hw.Spec{hdr(7, reqFields, false)}, used...)}}
		if dir == "s2c" {
			preConn = []step{{Client: []hw.Spec{settings()}, Server: []hw.Spec{settings()}},
				{Client: []hw.Spec{hdr(7, reqFields, true), hdr(1, reqFields, true), hdr(3, reqFields, true), hdr(5, reqFields, true)}},
				{Server: append([]hw.Spec{hdr(7, resFields, false)}, used...)}}
		}
		var grants []grant
		first := 0
		if dir == "c2s" {
			first = 1 // the receiver cannot name stream 1 in a WINDOW_UPDATE before it has seen the stream opened
		}
		for p := 0; p <= len(script); p++ {
			if p >= first {
				grants = append(grants, grant{name: fmt.Sprintf("WINDOW_UPDATE(1,+5) after %d frames", p), at: []int{p}, spec: []hw.Spec{{T: "wu", Stream: 1, Incr: 5}}})
			}
			grants = append(grants, grant{name: fmt.Sprintf("SETTINGS_INITIAL_WINDOW_SIZE=5 after %d frames", p), at: []int{p}, spec: []hw.Spec{settings([2]uint32{4, 5})}})
			grants = append(grants, grant{name: fmt.Sprintf("connection window with 3 bytes left, WINDOW_UPDATE(0,+2) after %d frames", p), at: []int{p}, spec: []hw.Spec{{T: "wu", Stream: 0, Incr: 2}}, conn: true})
			for q := p; q <= len(script); q++ {
				if p >= first && (tier == "thorough" || q == len(script) || p == q) {
					grants = append(grants, grant{name: fmt.Sprintf("WINDOW_UPDATE(1,+2) after %d frames and WINDOW_UPDATE(1,+3) after %d", p, q), at: []int{p, q}, spec: []hw.Spec{{T: "wu", Stream: 1, Incr: 2}, {T: "wu", Stream: 1, Incr: 3}}})
				}
			}
		}
		for _, g := range grants {
			steps := append([]step(nil), pre...)
			label := "receiver window 0, "
			if g.conn {
				steps, label = append([]step(nil), preConn...), ""
			}
			for p := 0; p <= len(script); p++ {
				for gi, at := range g.at {
					if at == p {
						steps = append(steps, rcv(g.spec[gi]))
					}
				}
				if p < len(script) {
					steps = append(steps, snd(script[p]))
				}
			}
			out = append(out, scenario{Fam: "grants", Name: dir + ": " + label + g.name, Class: "grant_position", Bound: 1, Steps: steps})
		}
	}
	// both directions blocked at the same time, each with trailers and another stream's headers pending; the grants
	// arrive concurrently
	out = append(out, scenario{Fam: "grants", Name: "both receivers announce window 0; request and response DATA + trailers blocked at once, other streams' blocks pass, grants cross", Class: "both_blocked", Bound: 1,
		Steps: []step{
			{Client: []hw.Spec{settings([2]uint32{4, 0})}, Server: []hw.Spec{settings([2]uint32{4, 0})}},
			{Client: []hw.Spec{hdr(1, reqFields, false), hdr(3, reqFields, true)}},
			{Client: []hw.Spec{data(1, 5, false), hdr(1, trailerFields, true), hdr(5, f3, true)},
				Server: []hw.Spec{hdr(1, resFields, false), data(1, 6, false), hdr(1, trailerFields, true), hdr(3, r3, true)}},
			{Client: []hw.Spec{{T: "wu", Stream: 1, Incr: 6}}, Server: []hw.Spec{{T: "wu", Stream: 1, Incr: 5}}},
			{Client: []hw.Spec{hdr(7, f3, true)}, Server: []hw.Spec{hdr(5, r3, true)}},
		}})
	// eight streams, each with DATA and trailers held back, released one by one in reverse order, then by SETTINGS
	for _, dir := range []string{"c2s", "s2c"} {
		var open, blocked, release []hw.Spec
		for i := 0; i < 8; i++ {
			id := uint32(2*i + 1)
			open = append(open, hdr(id, reqFields, true))
			f := resFields
			if dir == "c2s" {
				f = reqFields
			}
			blocked = append(blocked, hdr(id, f, false), data(id, 2+i, false), hdr(id, cat(trailerFields, [][2]string{{"x-stream", fmt.Sprint(id)}}), true))
		}
		for i := 7; i >= 4; i-- {
			release = append(release, hw.Spec{T: "wu", Stream: uint32(2*i + 1), Incr: 20})
		}
		release = append(release, settings([2]uint32{4, 10}))
		if dir == "c2s" {
			out = append(out, scenario{Fam: "grants", Name: "c2s: eight streams with DATA + trailers held back, four released in reverse order by WINDOW_UPDATE, the rest by SETTINGS", Class: "many_streams", Bound: 0,
				Steps: []step{{Client: []hw.Spec{settings()}, Server: []hw.Spec{settings([2]uint32{4, 0})}}, {Client: blocked}, {Server: release}, {Client: []hw.Spec{hdr(17, reqFields, true)}}}})
		} else {
			out = append(out, scenario{Fam: "grants", Name: "s2c: eight streams with DATA + trailers held back, four released in reverse order by WINDOW_UPDATE, the rest by SETTINGS", Class: "many_streams", Bound: 0,
				Steps: []step{{Client: []hw.Spec{settings([2]uint32{4, 0})}, Server: []hw.Spec{settings()}}, {Client: open}, {Server: blocked}, {Client: release}, {Client: []hw.Spec{hdr(17, reqFields, true)}}, {Server: []hw.Spec{hdr(17, resFields, true)}}}})
		}
	}
	return out
}

// blockSizes: the relay re-encodes every header block and has to cut it to the receiver's maximum frame size, with
// the first frame carrying 5 octets of priority or 4 octets of promised stream id in front of the fragment. The
// length of the re-encoded block (the relay's encoder is fresh for the first block of a direction, so a fresh encoder
// here predicts it) sweeps k*16384-6 .. k*16384+1 for k = 1, 2.
func blockSizes(tier string) []scenario {
	var out []scenario
	const mfs = 16384
	ks := []int{1, 2}
	for _, k := range ks {
		for delta := -6; delta <= 1; delta++ {
			n := k*mfs + delta
			// request with priority / without, c2s
			for _, prio := range []bool{true, false} {
				if !prio && delta != 0 && delta != 1 && tier != "thorough" {
					continue
				}
				out = append(out, scenario{Fam: "blocksize", Name: fmt.Sprintf("request block that re-encodes to %d bytes (%d*16384%+d), priority=%v", n, k, delta, prio), Class: "block_size",
					Steps: []step{settingsStep(),
						{Client: []hw.Spec{{T: "headers", Stream: 1, Fields: fieldsOfLen(reqFields, n), Frags: 3, Prio: prio, Dep: 0, Weight: 9, EndStream: true}, hdr(3, reqFields, true)}},
						{Server: []hw.Spec{hdr(1, resFields, true), hdr(3, resFields, true)}}}})
			}
			// response with priority, s2c
			out = append(out, scenario{Fam: "blocksize", Name: fmt.Sprintf("response block that re-encodes to %d bytes (%d*16384%+d), priority=true", n, k, delta), Class: "block_size",
				Steps: []step{settingsStep(),
					{Client: []hw.Spec{hdr(1, reqFields, true), hdr(3, reqFields, true)}},
					{Server: []hw.Spec{{T: "headers", Stream: 1, Fields: fieldsOfLen(resFields, n), Frags: 3, Prio: true, Dep: 3, Weight: 1, EndStream: true}, hdr(3, resFields, true)}}}})
			// pushed request, s2c: a PUSH_PROMISE the sender may put into one frame (4 + n <= 16384); with CONTINUATION
			// the pinned framer rejects it (known finding)
			if k == 1 && 4+n <= mfs {
				out = append(out, scenario{Fam: "blocksize", Name: fmt.Sprintf("PUSH_PROMISE block that re-encodes to %d bytes (16384%+d)", n, delta), Class: "block_size",
					Steps: []step{settingsStep(),
						{Client: []hw.Spec{hdr(1, reqFields, true)}},
						{Server: []hw.Spec{{T: "push", Stream: 1, Promise: 2, Fields: fieldsOfLen(reqFields[:4], n), Frags: 1}, hdr(1, resFields, true), hdr(2, resFields, true)}}}})
			}
		}
	}
	return out
}

// contentsFamily: SETTINGS contents the relay has no special treatment for (unknown identifiers, repeated
// identifiers, an empty frame, the header table size twice in one frame), field lists (repeated names, empty values,
// an empty block), informational responses, the largest stream identifier.
func contentsFamily() []scenario {
	var out []scenario
	out = append(out, scenario{Fam: "misc", Name: "SETTINGS with unknown and repeated identifiers, empty SETTINGS, both ways", Class: "settings_contents", Bound: 1, Steps: []step{
		{Client: []hw.Spec{settings([2]uint32{0xff00, 7}, [2]uint32{3, 5}, [2]uint32{3, 9}, [2]uint32{8, 1})}, Server: []hw.Spec{settings([2]uint32{3, 1}, [2]uint32{0x10, 0xffffffff}, [2]uint32{3, 2})}},
		{Client: []hw.Spec{{T: "settings_ack"}, settings()}, Server: []hw.Spec{{T: "settings_ack"}, settings(), settings([2]uint32{6, 0})}},
		{Client: []hw.Spec{hdr(1, reqFields, true)}}, {Server: []hw.Spec{hdr(1, resFields, true)}},
	}})
	for _, who := range []string{"client", "server"} {
		tw := []hw.Spec{settings([2]uint32{1, 0}, [2]uint32{1, 4096})}
		st := step{Client: tw}
		if who == "server" {
			st = step{Server: tw}
		}
		out = append(out, scenario{Fam: "hpack", Name: "the " + who + " sets its header table size to 0 and back to 4096 in one SETTINGS frame between repeated blocks", Class: "settings_contents", Steps: []step{settingsStep(),
			{Client: []hw.Spec{hdr(1, reqFields, true), hdr(3, reqFields, true)}}, {Server: []hw.Spec{hdr(1, resFields, true), hdr(3, resFields, true)}},
			st,
			{Client: []hw.Spec{{T: "settings_ack"}}, Server: []hw.Spec{{T: "settings_ack"}}},
			{Client: []hw.Spec{hdr(5, reqFields, true), hdr(7, reqFields, true)}}, {Server: []hw.Spec{hdr(5, resFields, true), hdr(7, resFields, true)}},
		}})
	}
	odd := [][2]string{{"cookie", "a=1"}, {"cookie", "b=2"}, {"x-empty", ""}, {"cookie", "a=1"}, {"x-empty", ""}, {"set-cookie", strings.Repeat("c", 300)}, {"set-cookie", strings.Repeat("c", 300)}}
	out = append(out, scenario{Fam: "hpack", Name: "repeated field names, empty values, informational responses before the final one", Class: "field_lists", Steps: []step{settingsStep(),
		{XC: []xspec{{XT: "block", Spec: hw.Spec{T: "headers", Stream: 1, Fields: cat(reqFields[:4], odd)}}, {Spec: data(1, 3, false)}, {XT: "block", Spec: hw.Spec{T: "headers", Stream: 1, Fields: trailerFields, EndStream: true}},
			{XT: "block", Spec: hw.Spec{T: "headers", Stream: 3, Fields: cat(reqFields[:4], odd), EndStream: true}}}},
		{XS: []xspec{{XT: "block", Spec: hw.Spec{T: "headers", Stream: 1, Fields: [][2]string{{":status", "103"}, {"link", "</a>; rel=preload"}}}},
			{XT: "block", Spec: hw.Spec{T: "headers", Stream: 1, Fields: [][2]string{{":status", "100"}}}},
			{XT: "block", Spec: hw.Spec{T: "headers", Stream: 1, Fields: cat(resFields[:1], odd)}}, {Spec: data(1, 4, false)},
			{XT: "block", Spec: hw.Spec{T: "headers", Stream: 1, Fields: trailerFields, EndStream: true}},
			{XT: "block", Spec: hw.Spec{T: "headers", Stream: 3, Fields: cat(resFields[:1], odd), EndStream: true}}}},
	}})
	const top = 1<<31 - 1
	out = append(out, scenario{Fam: "misc", Name: "largest stream identifiers: request on 2^31-1, push promising 2^31-2, PRIORITY depending on 2^31-1", Class: "field_lists", Steps: []step{settingsStep(),
		{Client: []hw.Spec{hdr(top, reqFields, false), {T: "priority", Stream: 5, Prio: true, Dep: top, Weight: 255, Excl: true}, data(top, 5, true)}},
		{Server: []hw.Spec{{T: "push", Stream: top, Promise: top - 1, Fields: reqFields, Frags: 1}, hdr(top, resFields, false), data(top, 7, false), {T: "rst", Stream: top, Code: 0xffffffff}, hdr(top-1, resFields, true)}},
	}})
	return out
}

// shortReads: the transport hands the relay a single byte at any one read (an explored environment choice of the
// simulated socket), anywhere in the preface, a frame header or a payload.
func shortReads() []scenario {
	sh := shape{Frags: 2, Prio: true, Data: "5p1", End: "trailers2"}
	return []scenario{{Fam: "segment", Name: "one single-byte read anywhere: " + sh.String() + " both ways", Class: "short_reads", ShortReads: true, Bound: 1,
		Steps: []step{settingsStep(), {Client: sh.frames(1, reqFields)}, {Server: sh.frames(1, resFields)}}}}
}

// zeroPriority: a HEADERS frame whose PRIORITY flag is set with all-zero parameters (depends on stream 0, weight
// octet 0 = weight 1, not exclusive) says something different from a HEADERS frame without the flag (default weight
// 16). Judged on the bytes the relay writes.
func zeroPriority() []scenario {
	zp := func(stream uint32, f [][2]string, cuts []int, es bool) xspec {
		return xspec{XT: "block", PrioFlag: true, Cuts: cuts, Spec: hw.Spec{T: "headers", Stream: stream, Fields: f, EndStream: es}}
	}
	return []scenario{{Fam: "misc", Name: "HEADERS with a priority section whose parameters are all zero (weight 1), whole and continued, both ways", Class: "zero_priority", Wire: true,
		Steps: []step{settingsStep(),
			{XC: []xspec{zp(1, reqFields, nil, true), zp(3, reqFields, []int{4}, true), {XT: "block", Spec: hw.Spec{T: "headers", Stream: 5, Fields: reqFields, EndStream: true, Prio: true, Dep: 1}},
				{XT: "block", Spec: hw.Spec{T: "headers", Stream: 7, Fields: reqFields, EndStream: true}}}},
			{XS: []xspec{zp(1, resFields, nil, true), zp(3, resFields, []int{2}, true), {XT: "block", Spec: hw.Spec{T: "headers", Stream: 5, Fields: resFields, EndStream: true}}}},
		}}}
}

// wireCheck compares, per direction and stream, the priority sections of the HEADERS frames the relay wrote with
// those of the own-writer blocks of the scenario.
func wireCheck(sc scenario, w *hw.World, ownC, ownS *ownWriter) []finding {
	var out []finding
	for _, d := range []struct {
		dir   string
		bytes []byte
		pick  func(st step) []xspec
	}{
		{"c2s", w.ServerProxy.Written, func(st step) []xspec { return st.XC }},
		{"s2c", w.ClientProxy.Written, func(st step) []xspec { return st.XS }},
	} {
		got, err := wireHeaders(d.bytes, d.dir == "c2s")
		if err != nil {
			out = append(out, finding{d.dir + ":relay_wrote_unparsable_bytes", err.Error()})
			continue
		}
		perStream := map[uint32][]wireHdr{}
		for _, g := range got {
			perStream[g.Stream] = append(perStream[g.Stream], g)
		}
		idx := map[uint32]int{}
		for _, st := range sc.Steps {
			for _, x := range d.pick(st) {
				if x.XT != "block" || x.T != "headers" {
					continue
				}
				i := idx[x.Stream]
				idx[x.Stream]++
				if i >= len(perStream[x.Stream]) {
					continue // missing blocks are reported by the event comparison
				}
				g := perStream[x.Stream][i]
				want := x.Prio || x.PrioFlag
				wp := http2.PriorityParam{StreamDep: x.Dep, Weight: x.Weight, Exclusive: x.Excl}
				switch {
				case want && !g.HasPrio:
					out = append(out, finding{d.dir + ":headers_priority_section_dropped", fmt.Sprintf("stream %d: HEADERS sent with a priority section (dependency %d, weight octet %d, exclusive %v) was written by the relay without one (the receiver assumes the default weight 16)", x.Stream, x.Dep, x.Weight, x.Excl)})
				case !want && g.HasPrio:
					out = append(out, finding{d.dir + ":headers_priority_section_invented", fmt.Sprintf("stream %d: HEADERS sent without a priority section was written with %+v", x.Stream, g.Prio)})
				case want && g.Prio != wp:
					out = append(out, finding{d.dir + ":headers_priority_section_changed", fmt.Sprintf("stream %d: priority %+v was written as %+v", x.Stream, wp, g.Prio)})
				}
			}
		}
	}
	return out
}

// maxFrameSizeLoweredBlockQueued (round 9): as maxFrameSizeLoweredQueued, but what waits behind the window-blocked
// DATA frame is a HEADER BLOCK (trailers with END_STREAM) whose encoding is larger than the lowered maximum frame
// size: the receiver has raised SETTINGS_MAX_FRAME_SIZE to 65536, the block (17000 / 40000 / 65000 bytes of raw
// field value, sent by its author in frames of the relay's own default limit) is queued behind the DATA, the
// receiver lowers its maximum to 16384 / 20000 and only then opens the window. The frame size limit that counts
// for the queued block is the one in force when it is written: same fields, END_STREAM at the same position, and
// no frame above the receiver's last announced maximum (the oracle clauses of every scenario).
func maxFrameSizeLoweredBlockQueued() []scenario {
	var out []scenario
	huge := func(n int) [][2]string { return [][2]string{{"x-huge", strings.Repeat("~", n)}} } // sent raw: n bytes on the wire
	for _, max := range []int{16384, 20000} {
		for _, hn := range []int{17000, 40000, 65000} {
			for _, n := range []int{1, max + 1} {
				for _, dir := range []string{"c2s", "s2c"} {
					trailers := hw.Spec{T: "headers", Stream: 1, Fields: append(append([][2]string{}, trailerFields...), huge(hn)...), Frags: 5, EndStream: true}
					msg := []hw.Spec{data(1, n, false), trailers}
					raise := settings([2]uint32{4, 0}, [2]uint32{5, 65536})
					lower := settings([2]uint32{5, uint32(max)})
					grant := hw.Spec{T: "wu", Stream: 1, Incr: uint32(n)}
					var steps []step
					if dir == "c2s" {
						steps = []step{{Client: []hw.Spec{settings()}, Server: []hw.Spec{raise}},
							{Client: append([]hw.Spec{hdr(1, reqFields, false)}, msg...)},
							{Server: []hw.Spec{lower}}, {Server: []hw.Spec{grant}},
							{Server: []hw.Spec{hdr(1, resFields, true)}}}
					} else {
						steps = []step{{Client: []hw.Spec{raise}, Server: []hw.Spec{settings()}},
							{Client: []hw.Spec{hdr(1, reqFields, true)}},
							{Server: append([]hw.Spec{hdr(1, resFields, false)}, msg...)},
							{Client: []hw.Spec{lower}}, {Client: []hw.Spec{grant}}}
					}
					out = append(out, scenario{Fam: "grants", Class: "max_frame_size_lowered_block_queued", Bound: 0, Steps: steps,
						Name: fmt.Sprintf("%s: receiver with max frame size 65536 and window 0, a %d-byte DATA frame and trailers with a %d-byte field queued, the receiver lowers its max frame size to %d, then grants", dir, n, hn, max)})
				}
			}
		}
	}
	return out
}
